#!/bin/sh
# Builds the checker offline from files on disk only.
set -e
cd "$(dirname "$0")"
. ./env.sh
mkdir -p bin evidence/replay
(cd sunlint && go build -o ../bin/sunlint .)
# warm export data for /repo (read-only for /repo's tree; writes only the go build cache)
(cd /repo && go build ./... ) || true
echo "setup ok"
