#!/bin/sh
# tools/benign.sh [diff ...]   apply every behaviour-preserving variant in /verif/benign to a scratch worktree
# of /repo and run all quick checks: every property must still be decided HOLDS (no alarm on code where it holds).
cd "$(dirname "$0")/.." || exit 2
. ./env.sh
W=/tmp/benign.$$
git -C /repo worktree add -q --detach $W HEAD || exit 2
rc=0
LIST="$*"
[ -n "$LIST" ] || LIST=$(ls benign/*.diff)
for p in $LIST; do
	out=$(MUTREPO=$W tools/trymutant.sh "$p" 2>&1 | grep -v "^done")
	if [ -n "$out" ]; then echo "$p: FALSE ALARM"; echo "$out" | cut -c1-300; rc=1; else echo "$p: silent (20/20 HOLD)"; fi
done
git -C /repo worktree remove --force $W
exit $rc
