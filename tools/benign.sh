#!/bin/sh
# tools/benign.sh   apply every behaviour-preserving variant in /verif/benign to a scratch worktree of /repo
# and run all quick checks: every property must still be decided HOLDS (no alarm on code where it holds).
cd "$(dirname "$0")/.." || exit 2
. ./env.sh
W=/tmp/benign.$$
git -C /repo worktree add -q --detach $W HEAD || exit 2
rc=0
for p in benign/*.diff; do
	git -C $W checkout -q -- . ; git -C $W clean -fdq
	if ! git -C $W apply "$PWD/$p" 2>/dev/null && ! (cd $W && patch -p1 -s --no-backup-if-mismatch < "$OLDPWD/$p" >/dev/null 2>&1); then echo "$p: DOES NOT APPLY"; rc=1; continue; fi
	if ! (cd $W && go build ./... >/dev/null 2>&1); then echo "$p: DOES NOT BUILD"; rc=1; continue; fi
	bad=""
	for c in C01 C02 C03 C04 C05 C06 C07 C08 C09 C10 C11 C12 C13 C14 C15 C16 C17 C18 C19 C20; do
		out=$(bin/sunlint -repo $W -property $c -tier quick -evidence /tmp/benign_ev.$$ 2>&1)
		if echo "$out" | grep -q "^VIOLATION"; then bad="$bad $c"; echo "$out" | grep -E "^(VIOLATED|UNDECIDED)" | cut -c1-240 | head -3; fi
	done
	if [ -n "$bad" ]; then echo "$p: FALSE ALARM in$bad"; rc=1; else echo "$p: silent (20/20 HOLD)"; fi
done
git -C /repo worktree remove --force $W; rm -rf /tmp/benign_ev.$$
exit $rc
