#!/usr/bin/env python3
"""tools/confirm_seed.py <agent-out-dir> <seed-id>

Independently confirms a seeded defect produced by a sub-agent, in a scratch worktree
of /repo's current HEAD under /tmp/wtc (removed afterwards):
  1. the patch applies, the repository builds;
  2. the demonstration FAILS with the patch and PASSES without it;
  3. the existing test suite passes with the patch (TestCCADBRoots needs the network and fails on
     the clean tree too; TestSequenceLargeLog is retried alone when it times out under load).
On success the seed is stored as /verif/seeded/<seed-id>/ (patch.diff, demo files, meta.json)."""
import json, os, shutil, subprocess, sys, time

ENV = dict(os.environ, PATH="/opt/veriftools/go1.26.8/bin:" + os.environ["PATH"], GOTOOLCHAIN="local",
           GOFLAGS="-mod=mod", GOPROXY="off", GOSUMDB="off")
ENV.pop("GOWORK", None)

def sh(cmd, cwd, timeout=3600):
    p = subprocess.run(cmd, shell=True, cwd=cwd, env=ENV, stdout=subprocess.PIPE, stderr=subprocess.STDOUT, timeout=timeout, text=True)
    return p.returncode, p.stdout

def main():
    src, sid = sys.argv[1], sys.argv[2]
    quick = "--no-suite" in sys.argv
    meta = json.load(open(os.path.join(src, "meta.json")))
    wt = "/tmp/wtc/" + sid
    os.makedirs("/tmp/wtc", exist_ok=True)
    subprocess.run(f"git -C /repo worktree remove --force {wt}", shell=True, stdout=subprocess.DEVNULL, stderr=subprocess.DEVNULL)
    rc, out = sh(f"git -C /repo worktree add -q --detach {wt} HEAD", "/")
    if rc: print("worktree failed", out); return 2
    log = []
    ok = False
    head = subprocess.run("git -C /repo rev-parse --short HEAD", shell=True, stdout=subprocess.PIPE, text=True).stdout.strip()
    try:
        patch = os.path.abspath(os.path.join(src, "patch.diff"))
        if os.path.exists(os.path.join(src, "patch.adapted.diff")):
            patch = os.path.abspath(os.path.join(src, "patch.adapted.diff"))  # re-based by hand on the current HEAD (see meta)
        rc, out = sh(f"if git apply --check {patch} 2>/dev/null; then git apply {patch}; elif patch -p1 --fuzz=3 --dry-run -s < {patch} >/dev/null 2>&1; then patch -p1 --fuzz=3 -s --no-backup-if-mismatch < {patch}; else echo does-not-apply; exit 1; fi", wt)
        if rc:
            log.append("patch does not apply on current HEAD: " + out[-300:]); raise SystemExit
        sh("git reset -q", wt)
        rc, out = sh("git diff > /tmp/wtc/%s.applied.diff" % sid, wt)
        rc, out = sh("go build ./...", wt)
        log.append(f"go build ./... with patch: rc={rc}")
        if rc: log.append(out[-500:]); raise SystemExit
        demo = meta["demo"]
        for a, b in demo.get("copy", []):
            os.makedirs(os.path.dirname(os.path.join(wt, b)), exist_ok=True)
            shutil.copy(os.path.join(src, a), os.path.join(wt, b))
        t = time.time()
        rc1, out1 = sh(demo["run"], wt, 1800)
        log.append(f"demo with patch: rc={rc1} ({time.time()-t:.0f}s) tail: " + out1[-300:].replace("\n", " | "))
        # without the patch (keep the demo files)
        sh(f"git apply -R /tmp/wtc/{sid}.applied.diff", wt)
        rc2, out2 = sh(demo["run"], wt, 1800)
        log.append(f"demo without patch: rc={rc2} tail: " + out2[-200:].replace("\n", " | "))
        if rc1 == 0 or rc2 != 0:
            log.append("NOT CONFIRMED: demo must fail with the patch and pass without it"); raise SystemExit
        # suite with the patch, without the demo
        for a, b in demo.get("copy", []):
            os.remove(os.path.join(wt, b))
        sh(f"git apply /tmp/wtc/{sid}.applied.diff", wt)
        if not quick:
            # phase A (can run beside other jobs): everything except the two load-sensitive tests
            t = time.time()
            rc3, out3 = sh("go test -vet=off -count=1 -timeout 40m -skip 'TestSequenceLargeLog|TestScripts|TestCCADBRoots' ./... 2>&1 | grep -v '^ok\\|no test files' | head -60", wt, 3600)
            fails = [l for l in out3.splitlines() if l.startswith("--- FAIL") or l.startswith("FAIL")]
            log.append(f"suite with patch, without the two load-sensitive tests ({time.time()-t:.0f}s): failing lines: {fails}")
            if fails:
                log.append("NOT CONFIRMED: existing suite fails with the patch: " + out3[-600:].replace("\n", " | ")); raise SystemExit
            # phase B (serialised across confirmations, waits for a quiet machine): the load-sensitive tests
            import fcntl
            with open("/tmp/wtc/serial.lock", "w") as lk:
                fcntl.flock(lk, fcntl.LOCK_EX)
                for name, cmd, ident in [("TestSequenceLargeLog", "go test -vet=off -count=1 -timeout 40m -run 'TestSequenceLargeLog' ./internal/ctlog/",
                                          "go test -c -vet=off -trimpath -o {out}.t ./internal/ctlog/ && sha256sum < {out}.t; rm -f {out}.t"),
                                         ("cmd/skylight TestScripts", "go build -o /dev/null ./cmd/skylight/ && go test -vet=off -count=1 -timeout 20m -run 'TestScripts' ./cmd/skylight/",
                                          "go test -c -vet=off -trimpath -o {out}.t ./cmd/skylight/ && go build -trimpath -o {out}.b ./cmd/skylight/ && cat {out}.t {out}.b | sha256sum; rm -f {out}.t {out}.b")]:
                    # a patch outside the import closure of the test leaves its binary byte-identical to the
                    # unpatched build: the test then behaves exactly as on the unchanged tree, where it passes
                    tag = name.split()[0].replace("/", "_")
                    cleanf = f"/tmp/wtc/clean.{head}.{tag}.sha"
                    if not os.path.exists(cleanf):
                        cw = f"/tmp/wtc/cleanwt.{os.getpid()}"
                        sh(f"git -C /repo worktree add -q --detach {cw} HEAD", "/")
                        _, h0 = sh(ident.format(out=f"/tmp/wtc/clean.{os.getpid()}"), cw)
                        subprocess.run(f"git -C /repo worktree remove --force {cw}", shell=True, stdout=subprocess.DEVNULL, stderr=subprocess.DEVNULL)
                        open(cleanf, "w").write(h0.strip().split()[0] if h0.strip() else "none")
                    h0 = open(cleanf).read().strip()
                    _, h1 = sh(ident.format(out=f"/tmp/wtc/{sid}.id"), wt)
                    h1 = h1.strip().split()[0] if h1.strip() else "none1"
                    if h0 == h1 and len(h0) == 64:
                        log.append(f"{name}: test binary built with the patch is byte-identical to the unpatched build (sha256 {h0[:16]}..., -trimpath): same behaviour as on the unchanged tree, where the suite passes")
                        continue
                    passed = False
                    for attempt in range(4):
                        for _ in range(1440):  # wait (up to 12 h) for a quiet machine: the test has hard-coded timeouts
                            if os.getloadavg()[0] < 12: break
                            time.sleep(30)
                        t = time.time()
                        rcx, outx = sh(cmd + " 2>&1 | tail -12", wt, 3600)
                        if "FAIL" not in outx and "ok" in outx:
                            passed = True
                            log.append(f"{name} with patch: ok (attempt {attempt+1}, {time.time()-t:.0f}s, load {os.getloadavg()[0]:.0f})")
                            break
                    if not passed:
                        log.append(f"NOT CONFIRMED: {name} fails with the patch: " + outx[-400:].replace("\n", " | ")); raise SystemExit
        ok = True
    except SystemExit:
        pass
    finally:
        sh(f"chattr -R -i {wt} 2>/dev/null; true", "/")
        subprocess.run(f"git -C /repo worktree remove --force {wt}; rm -f /tmp/wtc/{sid}.applied.diff", shell=True, stdout=subprocess.DEVNULL, stderr=subprocess.DEVNULL)
    print(("CONFIRMED " if ok else "REJECTED ") + sid)
    for l in log: print("   ", l[:400])
    if ok:
        dst = os.path.join("/verif/seeded", sid)
        os.makedirs(dst, exist_ok=True)
        for f in os.listdir(src):
            if os.path.isfile(os.path.join(src, f)) and not f.endswith(".test") and os.path.getsize(os.path.join(src, f)) < 200000:
                shutil.copy(os.path.join(src, f), dst)
        meta["confirmed_by_main_session"] = {"on_repo_head": subprocess.run("git -C /repo rev-parse --short HEAD", shell=True, stdout=subprocess.PIPE, text=True).stdout.strip(),
                                             "suite_run": not quick, "log": log}
        json.dump(meta, open(os.path.join(dst, "meta.json"), "w"), indent=1)
    return 0 if ok else 1

sys.exit(main())
