#!/usr/bin/env python3
"""Aggregate the condition-sensitivity sweeps of all thorough evidence files:
which forced conditions no property noticed (the checker's blind-spot map)."""
import json, glob, collections, sys
noticed = set(); allblind = {}
for f in sorted(glob.glob('/verif/evidence/sweep/C*.json')):
    c = json.load(open(f))
    for n in c.get('sensitivity_noticed_list') or []: noticed.add(n)
    for n in c.get('sensitivity_unnoticed') or []: allblind[n] = 1
never = sorted(b for b in allblind if b not in noticed)
print(len(noticed), "noticed by some property;", len(never), "never noticed")
pat = sys.argv[1] if len(sys.argv) > 1 else None
if pat:
    import re
    for b in never:
        if re.search(pat, b): print(b[:220])
else:
    c = collections.Counter(b.split()[1] for b in never if b.startswith('force-false'))
    for k, v in c.most_common(60): print(v, k)
