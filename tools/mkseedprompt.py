#!/usr/bin/env python3
"""tools/mkseedprompt.py <Cnn> <seed-id> [extra instruction ...]

Creates a scratch worktree of /repo's HEAD at /tmp/wt/<seed-id> and prints the brief for a fresh
sub-agent: the text of the property and the working directory, nothing from /verif."""
import json, os, subprocess, sys
pid, sid = sys.argv[1], sys.argv[2]
extra = " ".join(sys.argv[3:])
prop = None
for l in open(os.path.join(os.path.dirname(os.path.abspath(__file__)), "..", "properties.jsonl")):
    p = json.loads(l)
    if p["id"] == pid:
        prop = p
wt = "/tmp/wt/" + sid
os.makedirs("/tmp/wt", exist_ok=True)
if not os.path.isdir(wt):
    subprocess.run(["git", "-C", "/repo", "worktree", "add", "-q", "--detach", wt, "HEAD"], check=True)
out = "/tmp/seedout/" + sid
os.makedirs(out, exist_ok=True)
text = {k: prop[k] for k in ("id", "title", "statement", "quantifier", "why_tests_cant", "anchors")}
print(f"""You are helping to evaluate verification tooling for the Go project FiloSottile/sunlight (a Certificate Transparency log server; also contains a witness/mirror, the skylight read-path server and a monitoring client). Your job is to act as a realistic "bug author".

Working directory: {wt}  - a scratch git worktree of the project. Work ONLY there. Do not read or write /repo or /verif or anything else outside {wt} and {out}.

Environment (the sandbox has no network; use this in EVERY shell call or builds fail):
  export PATH=/opt/veriftools/go1.26.8/bin:$PATH GOTOOLCHAIN=local GOFLAGS=-mod=mod GOPROXY=off GOSUMDB=off; unset GOWORK
Notes: the local storage backend sets the ext immutable flag on files when run as root: scratch dirs may need `chattr -R -i <dir>` before rm. Tests that need the network (TestCCADBRoots) fail on the clean tree too; ignore them.

Here is a semantic property that the project is supposed to satisfy:

{json.dumps(text, indent=1)}

TASK. Produce ONE change to the project's non-test source code (a patch of a few lines up to a few dozen lines, the kind of change that could plausibly arrive in a real pull request: a refactor, an "optimisation", a new convenience path, a reordering, a relaxed or misplaced check, an error handled slightly differently, two sites that each look fine alone) such that:
 1. the project still compiles (`go build ./...`) and the EXISTING tests still pass with the change (do not edit, delete or skip existing tests);
 2. the property above is genuinely BROKEN by the change: there is a concrete input / schedule / crash point / fault / multi-step history for which the real code now violates the statement;
 3. the violation needs something specific to manifest - a particular interleaving, a crash or fault at a particular point, a multi-step sequence of operations, an unusual input, or two cooperating sites - NOT something ordinary use or the existing tests would expose at once;
 4. you provide a DEMONSTRATION: a new Go test file (or small program) that FAILS with your change and PASSES on the unchanged tree. It may use the package's existing test helpers (same package `_test.go`, export_test.go hooks, fake backends). Make it deterministic and reasonably fast (< 60 s).
{extra}
Be subtle and realistic rather than blatant; read the code around the property's anchors first, and look at the existing tests to see what they do NOT exercise. Avoid changes whose only effect is a crash/panic or a performance regression, and avoid changing comments/log messages only.

How to validate: while iterating, run only the tests of the packages you touched, e.g. `go test -vet=off -count=1 -skip 'TestSequenceLargeLog' ./internal/ctlog/` (TestSequenceLargeLog alone takes ~5 minutes and is load-sensitive; run it at most once at the end, only if your change touches the sequencer, and say whether you did). The machine is shared: do not run more than one `go test` at a time and do not use -race on whole packages. I will re-run the complete suite myself afterwards.

DELIVERABLES - write these files into {out}/ :
  patch.diff   - `git diff` of your source change only (made in {wt}; NOT including the demo file), applicable with `git apply` on the unchanged tree;
  the demo test file (e.g. {sid.lower().replace('-', '_')}_demo_test.go) - name it uniquely so it collides with nothing;
  meta.json    - {{"property": "{pid}", "summary": "<what the change does, which file/function>", "breaks": "<which clause of the property is violated and how>", "needs": "<what is needed for the violation to manifest>", "demo": {{"copy": [["<demo file name in {out}>", "<path relative to repo root where it must be placed>"]], "run": "<exact go test command, run from the repo root, that fails with the patch and passes without>"}}, "ran": ["<commands you ran and their outcomes>"]}}
Before finishing, verify yourself: (a) with the patch: build ok, touched packages' existing tests pass, demo FAILS; (b) reverse the patch with `git apply -R patch.diff` (NEVER `git stash`: the stash is shared between all worktrees of the repository and other agents use it): demo PASSES; then re-apply it. Leave the worktree with the patch applied and the demo file in place. In your final answer give a 5-line summary (what, where, why it breaks the property, what it needs, results of your runs).""")
