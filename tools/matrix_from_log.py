#!/usr/bin/env python3
"""tools/matrix_from_log.py <allseeds.log>   writes seeded/MATRIX.md from the one-line-per-seed log produced by running
tools/trymutant.sh (all 20 quick checks) on every seed: which obligations of the seed's own property report it,
and which other checks also fail. Only seeds present in /verif/seeded (confirmed) are listed."""
import json, os, re, sys
here = os.path.dirname(os.path.dirname(os.path.abspath(__file__)))
rows = {}
for line in open(sys.argv[1]):
    m = re.match(r"(\S+) own-violated=\[(.*?)\] own-undecided=\[(.*?)\] others=\[(.*?)\]", line)
    if m:
        rows[m.group(1)] = m.groups()[1:]
out = ["# Seeded defects and the checks that report them", "",
       "One row per confirmed seeded defect (`seeded/<id>/`: patch.diff, demonstration, meta.json with what was run to confirm it). "
       "Produced by applying each patch to a scratch worktree and running all 20 quick checks (`tools/trymutant.sh`); "
       "`own check` lists the obligations of the check of the seed's own property that report a violation.", "",
       "| seed | property | change | own check: violated obligations | other checks that fail |", "|---|---|---|---|---|"]
n = own = 0
for sid in sorted(os.listdir(os.path.join(here, "seeded"))):
    mp = os.path.join(here, "seeded", sid, "meta.json")
    if not os.path.exists(mp):
        continue
    meta = json.load(open(mp))
    r = rows.get(sid)
    if r is None:
        continue
    n += 1
    viol = ", ".join(sorted(set(x.replace("VIOLATED ", "").strip() for x in r[0].split(",") if x.strip())))
    if viol:
        own += 1
    out.append(f"| {sid} | {meta.get('property')} | {meta.get('summary','')[:170].replace('|','/')} | {viol or '**not reported**'} | {r[2].strip() or '-'} |")
out += ["", f"{n} confirmed seeded defects listed, {own} reported by the check of their own property."]
open(os.path.join(here, "seeded", "MATRIX.md"), "w").write("\n".join(out) + "\n")
print(n, own)
