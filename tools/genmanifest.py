#!/usr/bin/env python3
"""Regenerates /verif/MANIFEST.json from the table below (kept in one place so the
manifest is always schema-valid and not_applicable always complements checks)."""
import json, os, sys
here = os.path.dirname(os.path.dirname(os.path.abspath(__file__)))
props = [json.loads(l) for l in open(os.path.join(here, 'properties.jsonl'))]

NOTE = ("Trusted: Go type checker and x/tools v0.50.0 (go/packages, go/cfg); sunlint's source normaliser (helper inlining, re-type-checked), path-sensitive cut-reachability / condition-implication / "
        "lockset / value-resolution code; the frozen tables in each rule; documented semantics of dependencies whose bodies are not analysed. "
        "Decides structural necessary conditions of the property on every control-flow path of the analysed functions, not the runtime behaviour itself.")

# id -> (technique, what the check gives)
CLAIMS = {}
def claim(i, tech, text):
    CLAIMS[i] = (tech, text)

exec(open(os.path.join(here, 'tools', 'claims.py')).read())

checks, na = [], []
for p in props:
    i = p['id']
    if i in CLAIMS:
        tech, text = CLAIMS[i]
        checks.append({
            "property_id": i,
            "quick_cmd": f"./check {i} quick",
            "thorough_cmd": f"./check {i} thorough",
            "evidence_file": f"evidence/{i}.json",
            "replay_cmd_template": "./check --replay {path}",
            "engine": "sunlint",
            "level_claimed": {"category": "other", "text": text, "design_ref": f"DESIGN.md section 3, {i}"},
            "level_note": NOTE,
            "technique": tech,
        })
    else:
        na.append({"property_id": i, "reason": NA.get(i, "check not yet implemented in this commit (planned obligations: DESIGN.md section 3)")})

m = {
    "version": 1,
    "setup_cmd": "./setup.sh",
    "hooks": {"guard": "verif",
              "enable": "none: static analysis needs no instrumentation; checks load /repo's working tree in the default build configuration",
              "baseline_off_cmd": "cd /repo && go build ./... && go test -vet=off -count=1 -timeout 25m ./...",
              "source_commits": [], "add_only": True},
    "engines": [{"name": "sunlint", "path": "sunlint", "serves_properties": sorted(CLAIMS),
                 "kind_free_text": "repository-specific static analyser: go/packages + go/types + go/cfg (in-memory source normalisation that inlines helpers newer than the rules, path-sensitive cut-reachability, guard implication, finite-ordering evaluation, locksets, reaching-definition value flow, table agreement); never executes sunlight code"}],
    "checks": checks,
    "notes": "All claims are at level 'other': each check decides named structural necessary conditions (DESIGN.md section 3) on /repo's current source; what is not decided is listed per property there. Known findings: known_findings.json.",
    "not_applicable": na,
}
json.dump(m, open(os.path.join(here, 'MANIFEST.json'), 'w'), indent=1)
print(f"{len(checks)} checks, {len(na)} not applicable")
