#!/bin/sh
# tools/trymutant.sh <patch.diff> [Cnn ...]   apply a seeded defect to $R, run the quick checks, undo.
# Prints one line per property: HOLDS / FAILS (with the first violated obligations).
cd "$(dirname "$0")/.." || exit 2
R=${MUTREPO:-/repo}
P="$1"; shift
case "$P" in /*) ;; *) P="$PWD/$P";; esac
[ -f "$P" ] || { echo "no such patch $P" >&2; exit 2; }
if [ -n "$(git -C $R status --porcelain --untracked-files=no)" ]; then echo "$R has uncommitted changes" >&2; exit 2; fi
if git -C $R apply --check "$P" 2>/dev/null; then
	git -C $R apply "$P"
elif (cd $R && patch -p1 --fuzz=3 --dry-run -s < "$P" >/dev/null 2>&1); then
	(cd $R && patch -p1 --fuzz=3 -s --no-backup-if-mismatch < "$P")
else
	echo "PATCH DOES NOT APPLY: $P"; exit 3
fi
git -C $R reset -q 2>/dev/null
LIST="$*"
[ -n "$LIST" ] || LIST="C01 C02 C03 C04 C05 C06 C07 C08 C09 C10 C11 C12 C13 C14 C15 C16 C17 C18 C19 C20"
mkdir -p /tmp/trymutant_ev$$
cp bin/sunlint /tmp/trymutant_ev$$/sunlint
T=/tmp/trymutant_ev$$
cat > $T/one.sh <<EOS
c=\$1
out=\$(. ./env.sh; $T/sunlint -repo $R -property \$c -tier quick -evidence $T/\$c 2>&1)
if echo "\$out" | grep -q "^VIOLATION"; then
	echo "\$c FAILS: \$(echo "\$out" | grep -E '^(VIOLATED|UNDECIDED)' | cut -c1-260 | head -3 | tr '\\n' '|')"
fi > $T/\$c.out
EOS
printf '%s\n' $LIST | xargs -P 12 -n 1 sh $T/one.sh
for c in $LIST; do cat $T/$c.out 2>/dev/null; done
git -C $R reset -q --hard HEAD; git -C $R clean -fdq 2>/dev/null
rm -rf /tmp/trymutant_ev$$
echo "done $P"
