#!/usr/bin/env python3
"""tools/seedsweep.py [seed-dir ...]   (default: every directory under /verif/seeded)

Applies each seeded defect to a scratch worktree of /repo's HEAD (created under /tmp and removed at the
end; /repo itself is never touched), runs the quick tier of all 20 checks against it, and records which
checks report a violation: seeded/RESULTS.json and seeded/MATRIX.md."""
import json, os, subprocess, sys
here = os.path.dirname(os.path.dirname(os.path.abspath(__file__)))
os.chdir(here)
dirs = sys.argv[1:] or sorted(os.path.join("seeded", d) for d in os.listdir("seeded") if os.path.isdir(os.path.join("seeded", d)))
scratch = "/tmp/seedsweep.%d" % os.getpid()
subprocess.run(["git", "-C", "/repo", "worktree", "add", "-q", "--detach", scratch, "HEAD"], check=True)
os.environ["MUTREPO"] = scratch
import atexit
atexit.register(lambda: subprocess.run(["git", "-C", "/repo", "worktree", "remove", "--force", scratch]))
res = {}
if os.path.exists("seeded/RESULTS.json"):
    res = json.load(open("seeded/RESULTS.json"))
for d in dirs:
    sid = os.path.basename(d.rstrip("/"))
    patch = os.path.join(d, "patch.adapted.diff")
    if not os.path.exists(patch):
        patch = os.path.join(d, "patch.diff")
    out = subprocess.run(["tools/trymutant.sh", patch], stdout=subprocess.PIPE, stderr=subprocess.STDOUT, text=True).stdout
    fired = {}
    for line in out.splitlines():
        if " FAILS: " in line:
            c, rest = line.split(" FAILS: ", 1)
            obs = sorted({w for w in rest.replace("|", " ").split() if w[:1] == "C" and "." in w and w[1:3].isdigit()})
            fired[c] = obs
    meta = json.load(open(os.path.join(d, "meta.json")))
    res[sid] = {"property": meta.get("property"), "summary": meta.get("summary", "")[:300], "fired": fired,
                "does_not_apply": "PATCH DOES NOT APPLY" in out}
    print(sid, "->", ", ".join(f"{c}({'/'.join(o)})" for c, o in fired.items()) or "MISSED")
json.dump(res, open("seeded/RESULTS.json", "w"), indent=1, sort_keys=True)
with open("seeded/MATRIX.md", "w") as f:
    f.write("# Seeded defects and the checks that report them\n\n")
    f.write("Each row is one confirmed seeded defect (directory `seeded/<id>/`: `patch.diff`, demonstration, `meta.json`). "
            "`own check` is the check of the property the defect was written against; `other checks` are further checks whose obligations it also violates.\n\n")
    f.write("| seed | property | change | own check: obligations | other checks |\n|---|---|---|---|---|\n")
    for sid in sorted(res):
        r = res[sid]
        own = r["fired"].get(r["property"], [])
        others = ", ".join(f"{c} ({' '.join(o)})" for c, o in sorted(r["fired"].items()) if c != r["property"])
        f.write(f"| {sid} | {r['property']} | {r['summary'][:160].replace('|','/')} | {' '.join(own) if own else ('**not reported**' if not others else '-')} | {others or '-'} |\n")
    missed = [s for s in res if not res[s]["fired"]]
    f.write(f"\n{len(res)} seeded defects, {len(res)-len(missed)} reported by at least one check, {sum(1 for s in res if res[s]['fired'].get(res[s]['property']))} reported by the check of their own property.\n")
    if missed:
        f.write("\nNot reported: " + ", ".join(sorted(missed)) + "\n")
