# environment shared by setup.sh and ./check (see DESIGN.md section 1)
export PATH=/opt/veriftools/go1.26.8/bin:$PATH
export GOTOOLCHAIN=local GOFLAGS=-mod=mod GOPROXY=off GOSUMDB=off
unset GOWORK
