package main

// C14 - the witness cosigns only one append-only history per log.

import (
	"fmt"
	"go/ast"
	"go/token"
	"go/types"
	"golang.org/x/tools/go/cfg"
	"sort"
	"strings"
)

func init() {
	register(&Property{
		ID:    "C14",
		Title: "The witness cosigns only one append-only history per log",
		Explanation: "Guard-dominance / finite-ordering, value-flow, status-table, lock-discipline and who-signs obligations on serveAddCheckpoint, processAddCheckpointRequest and updateCheckpoint (go/cfg + go/types). " +
			"Decided: signatures leave updateCheckpoint only with the per-log mutex held, old <= new, recorded size == old (else a conflict error carrying the recorded size), a verified consistency proof from the recorded tree when old != 0 and an empty proof when old == 0, the empty-tree hash when new == 0, and after the lock-store CAS of the newly signed checkpoint succeeded; the note is opened with the verifiers configured for its origin and the values checked are the ones parsed from it, extension lines are refused; what is signed is a re-encoding of (origin, size, root) with only the verified signatures attached; each refusal maps to the protocol's status; witness and per-log state are accessed under their mutexes; the cosigning keys are used only there. " +
			"NOT decided: proof verification values, restarts, lock-store behaviour (C05).",
		Assumptions: []string{"tlog.CheckTree verifies RFC 6962 consistency proofs", "LockBackend.Replace is a durable CAS (C05)", "note.Open returns in Sigs only signatures verified by the given verifiers"},
		Obligations: []*Obligation{
			{ID: "C14.a", Title: "COSIGN-GUARDS", Template: "T1+T2", MinInst: 8,
				Rule: "updateCheckpoint's success is unreachable once any one guard's safe edges are cut: old <= new, recorded == old, CheckTree ok (old != 0) / empty proof (old == 0), empty-tree hash (new == 0), Lock.Replace ok; the mutex is held at the CAS and at the return", Run: c14a},
			{ID: "C14.b", Title: "REQUEST-FLOW", Template: "T6+T2", MinInst: 5,
				Rule: "the note is opened with verifiersForOrigin(first line); updateCheckpoint receives the parsed origin/size/hash, the request's old size and proof, and the opened note; an extension line prevents the call", Run: c14b},
			{ID: "C14.c", Title: "RE-ENCODE", Template: "T6", MinInst: 3,
				Rule: "the text signed is Checkpoint{origin, {newSize, newHash}}.String() with Sigs = the submitted note's verified signatures; signers are the witness's two keys; the CAS stores that signed note and the response is its witness signature lines", Run: c14c},
			{ID: "C14.d", Title: "STATUS-TABLE", Template: "T5", MinInst: 6,
				Rule: "serveAddCheckpoint maps conflict->409 with the recorded size, unknown log->404, invalid signature->403, malformed->400, bad proof->422; the processing functions return those sentinels for those failures", Run: c14d},
			{ID: "C14.e", Title: "STATE-LOCK", Template: "T3", MinInst: 10,
				Rule: "logState.checkpoint/nextEntry/mirrorCheckpoint only under logState.mu (helper preconditions checked at call sites); Witness.meta/logs only under logsMu", Run: c14e},
			{ID: "C14.f", Title: "WHO-SIGNS", Template: "T4", MinInst: 3,
				Rule: "the witness signers s1/s2 sign notes only in updateCheckpoint, the mirror signer only in the add-entries commit, subtree signatures only in the sign-subtree handler", Run: c14f},
			{ID: "C14.h", Title: "ERROR-DISCIPLINE", Template: "T12", MinInst: 12,
				Rule: "every Backend/LockBackend call in package witness has its error bound and tested, or returned; the one listed exception is the best-effort Create of an empty checkpoint in PullLogList, whose outcome is decided by the Fetch that follows it",
				Run:  c14h},
			{ID: "C14.g", Title: "CHECKTREE-ARGS", Template: "T6", MinInst: 1,
				Rule: "CheckTree(p=proof, t=newSize, th=newHash, n=recorded size, h=recorded hash) by parameter name", Run: c14g},
			{ID: "C14.j", Title: "KEY-PINNED", Template: "T2", MinInst: 1,
				Rule: "in PullLogList, for an origin already in the configuration, with the edges on which the listed key equals a configured key cut, neither the next list entry, a store to the working configuration nor a successful return is reachable", Run: c14j},
		},
	})
}

func c14e(c *Ctx) {
	c.checkLockDiscipline(Protected{Pkg: pkgWitness, Type: "logState", Mutex: "mu", Fields: []string{"checkpoint", "nextEntry", "mirrorCheckpoint"}}, nil, false)
	c.checkLockDiscipline(Protected{Pkg: pkgWitness, Type: "Witness", Mutex: "logsMu", Fields: []string{"meta", "logs"}}, nil, true)
	c.checkNoReopen(Protected{Pkg: pkgWitness, Type: "logState", Mutex: "mu", Fields: []string{"checkpoint", "nextEntry", "mirrorCheckpoint"}}, specLockRepl, specLockCrea)
}

// guardSuccess checks that okRets are unreachable once safe edges are cut.
func (c *Ctx) guardSuccess(f *Func, name string, safe map[Edge]bool, targets []Site, msg string) {
	g := f.Graph()
	inst := f.Name + " " + name
	if len(targets) == 0 {
		c.Unk(inst, "no target site")
		return
	}
	if len(safe) == 0 {
		c.Bad(inst, targets[0].Pos(), msg+" (no such check)")
		return
	}
	if pt, path := g.ReachableFromEntry(Cut{Edges: safe}, atAnySite(targets)); pt != nil {
		c.Bad(inst, targets[0].Pos(), msg+" (path "+g.describePath(path)+")")
		return
	}
	c.add(Result{Instance: inst, Verdict: Discharged, Sites: sitePositions(targets), Detail: "unreachable unless " + name, Witnesses: f.WitEdges(necessaryEdges(g, g.Entry(), safe, targets, Cut{}))})
}

func c14a(c *Ctx) {
	f := c.Fn("witness.(*Witness).updateCheckpoint")
	if f == nil {
		return
	}
	info := f.Info()
	g := f.Graph()
	okRets := successReturns(f)
	oldP, newP, hashP, proofP := f.paramObj("oldSize"), f.paramObj("newSize"), f.paramObj("newHash"), f.paramObj("proof")
	is := func(o types.Object) func(ast.Expr) bool {
		return func(e ast.Expr) bool { return o != nil && objOf(info, e) == o }
	}
	isZero := func(e ast.Expr) bool { v, ok := constInt(info, e); return ok && v == 0 }
	// known = l.checkpointLocked(...)
	var known types.Object
	ckl := f.Calls(Callee{pkgWitness, "logState", "checkpointLocked"})
	for _, s := range ckl {
		if a, ok := s.Node.(*ast.AssignStmt); ok {
			known = objOf(info, a.Lhs[0])
		}
	}
	if known == nil || len(okRets) == 0 {
		c.Unk(f.Name, "recorded checkpoint (checkpointLocked) or success return not found")
		return
	}
	knownF := func(field string) func(ast.Expr) bool {
		return func(e ast.Expr) bool {
			r, p, ok := fieldPath(info, e)
			return ok && r == known && len(p) == 1 && p[0] == field
		}
	}
	c.requireGate(f.Name+" recorded checkpoint read", f, ckl, OutNil, okRets, "success only after the recorded checkpoint was read")
	c.guardSuccess(f, "old <= new", g.EdgesImplying(func(a Atom) bool { rel, ok := cmpRel(a, is(oldP), is(newP)); return ok && rel&relGT == 0 }), okRets,
		"a checkpoint smaller than the stated old size can be cosigned")
	c.guardSuccess(f, "recorded size == old", g.EdgesImplying(func(a Atom) bool { rel, ok := cmpRel(a, knownF("N"), is(oldP)); return ok && rel == relEQ }), okRets,
		"a cosignature can be issued although the stated old size is not the size on record (the proof would start from a tree the witness never saw)")
	// the conflict answer carries the recorded size
	conflictOK := false
	for _, r := range f.Returns() {
		e := f.errResultExpr(r.X.(*ast.ReturnStmt))
		if e == nil {
			continue
		}
		if v := f.Resolve(e); v.Idx < 0 {
			e = v.E // `err = &conflictError{..}; return err`
		}
		if u, ok := ast.Unparen(e).(*ast.UnaryExpr); ok {
			if cl, ok := ast.Unparen(u.X).(*ast.CompositeLit); ok {
				if tv, has := info.Types[cl]; has && namedIs(tv.Type, pkgWitness, "conflictError") && len(cl.Elts) == 1 {
					v := cl.Elts[0]
					if kv, isKV := v.(*ast.KeyValueExpr); isKV {
						v = kv.Value
					}
					if knownF("N")(v) {
						conflictOK = true
					}
				}
			}
		}
	}
	if conflictOK {
		c.OK(f.Name+" conflict carries recorded size", "&conflictError{known.N}", nil)
	} else {
		c.Bad(f.Name+" conflict carries recorded size", f.Pos(f.Decl), "the size mismatch is not reported with the recorded size (409 body)")
	}
	// proof: enumerate old == 0 / old != 0
	ct := f.Calls(Callee{pkgTlog, "", "CheckTree"})
	ctOK, _ := gateEdges(ct, OutNil)
	isLenProof := func(e ast.Expr) bool {
		call, ok := ast.Unparen(e).(*ast.CallExpr)
		return ok && isBuiltinCall(info, call, "len") && objOf(info, call.Args[0]) == proofP
	}
	emptyProof := g.EdgesImplying(func(a Atom) bool { rel, ok := cmpRel(a, isLenProof, isZero); return ok && rel == relEQ })
	for _, cs := range []struct {
		name string
		zero bool
		safe map[Edge]bool
		msg  string
	}{
		{"old != 0 => consistency proof verified", false, ctOK, "a non-empty recorded tree can be replaced without a verified consistency proof"},
		{"old == 0 => empty proof", true, emptyProof, "for an empty recorded tree a non-empty proof is accepted"},
	} {
		cs := cs
		env := func(e ast.Expr) Tri {
			rel, ok := cmpRel(Atom{e, true}, is(oldP), isZero)
			if !ok {
				return Unknown
			}
			holds := relLT | relGT
			if cs.zero {
				holds = relEQ
			}
			if rel&holds != 0 && rel&^holds == 0 {
				return True
			}
			if rel&holds == 0 {
				return False
			}
			return Unknown
		}
		inst := f.Name + " " + cs.name
		feas := g.FeasibleCut(env)
		if len(cs.safe) == 0 {
			c.Bad(inst, okRets[0].Pos(), cs.msg+" (no such check)")
		} else if pt, _ := g.ReachableFromEntry(Cut{Edges: unionEdges(feas, cs.safe)}, atAnySite(okRets)); pt != nil {
			c.Bad(inst, okRets[0].Pos(), cs.msg)
		} else if pt, _ := g.ReachableFromEntry(Cut{Edges: feas}, atAnySite(okRets)); pt == nil {
			c.Unk(inst, "success unreachable in this case even without the cut")
		} else {
			c.add(Result{Instance: inst, Verdict: Discharged, Evals: 2, Sites: sitePositions(okRets), Detail: "success requires the check in this case", Witnesses: f.WitEdges(cs.safe)})
		}
	}
	// new == 0 => empty tree hash
	{
		isEmptyHash := func(e ast.Expr) bool { return isPkgVar(info, e, pkgWitness, "emptyTreeHash") }
		env := func(e ast.Expr) Tri {
			if rel, ok := cmpRel(Atom{e, true}, is(newP), isZero); ok {
				if rel == relEQ {
					return True
				}
				if rel&relEQ == 0 {
					return False
				}
				return Unknown
			}
			if rel, ok := cmpRel(Atom{e, true}, is(hashP), isEmptyHash); ok {
				// case: hash differs from the empty-tree hash
				if rel&relEQ == 0 {
					return True
				}
				if rel == relEQ {
					return False
				}
			}
			return Unknown
		}
		inst := f.Name + " new == 0 => empty-tree hash"
		// the comparison must exist
		has := len(g.EdgesImplying(func(a Atom) bool { _, ok := cmpRel(a, is(hashP), isEmptyHash); return ok })) > 0
		if !has {
			c.Bad(inst, okRets[0].Pos(), "a size-0 checkpoint with an arbitrary root hash can be cosigned")
		} else if pt, _ := g.ReachableFromEntry(Cut{Edges: g.FeasibleCut(env)}, atAnySite(okRets)); pt != nil {
			c.Bad(inst, okRets[0].Pos(), "a size-0 checkpoint whose hash is not the empty-tree hash can be cosigned")
		} else {
			c.add(Result{Instance: inst, Verdict: Discharged, Sites: sitePositions(okRets), Detail: "newSize == 0 and newHash != emptyTreeHash cannot reach success"})
		}
	}
	// CAS
	repl := f.Calls(specLockRepl)
	c.requireGate(f.Name+" CAS before release", f, repl, OutNil, okRets, "signatures returned only after Lock.Replace succeeded")
	// the public copy of the cosigned checkpoint is a release of the cosignature too: it must not be
	// written before the new checkpoint is recorded in the lock store (seed C14-n2 swapped the two)
	if pubs := f.CallsW(specUpload); len(pubs) > 0 {
		c.requireGate(f.Name+" CAS before publication", f, repl, OutNil, pubs, "the cosigned checkpoint is uploaded to the public bucket only after Lock.Replace succeeded (a cosignature that is public before it is recorded can be followed by a different checkpoint of the same size)")
	} else {
		c.OK(f.Name+" CAS before publication", "updateCheckpoint uploads nothing itself", nil)
	}
	// mutex held at the CAS and at success
	ls := f.locksets(lockset{})
	var lObj ast.Expr
	for _, s := range ckl {
		if sel, ok := ast.Unparen(s.Call.Fun).(*ast.SelectorExpr); ok {
			lObj = sel.X
		}
	}
	if lObj != nil {
		mkey := mutexKeyFor(info, lObj, "mu")
		bad := false
		for _, s := range append(append([]Site{}, repl...), okRets...) {
			if ls.At(s.P)[mkey] < lockW {
				c.Bad(f.Name+" mutex held", s.Pos(), "the per-log mutex is not held here: two requests could both pass the size check and sign divergent checkpoints")
				bad = true
			}
		}
		if !bad {
			c.OK(f.Name+" mutex held", "logState.mu held at the CAS and at the success return", sitePositions(repl))
		}
	}
	// the CAS operand: old = l.checkpoint, new = signed; on failure the cache is dropped
	for _, s := range repl {
		old := argByName(info, s.Call, "old")
		if _, ok := fieldSel(info, old, pkgWitness, "logState", "checkpoint"); !ok {
			c.Bad(f.Name+" CAS operand", s.Pos(), "the CAS does not compare against the recorded checkpoint held under the mutex")
		}
		_, nonNil, _, _ := OutcomeEdges(s)
		dropped := true
		for e := range nonNil {
			stores := f.StoresTo(c.P.fieldVar(pkgWitness, "logState", "checkpoint"))
			ok := false
			for _, st := range stores {
				if st.Rhs != nil && isNilIdent(info, st.Rhs) {
					if pt, _ := g.Reach(EdgeStart(e), Cut{}, atSite(st.Site)); pt != nil {
						ok = true
					}
				}
			}
			if !ok {
				dropped = false
			}
			for _, r := range g.ReturnsFrom(EdgeStart(e), Cut{}) {
				if ex := f.errResultExpr(r); ex == nil || f.mayBeNilError(ex) {
					dropped = false
				}
			}
		}
		if dropped && len(nonNil) > 0 {
			c.OK(f.Name+" unknown CAS outcome", "on CAS failure the cached checkpoint is dropped and an error returned", []string{s.Pos()})
		} else {
			c.Bad(f.Name+" unknown CAS outcome", s.Pos(), "after a failed CAS (outcome unknown) the cached checkpoint is kept or no error is returned")
		}
	}
}

func c14b(c *Ctx) {
	f := c.Fn("witness.(*Witness).processAddCheckpointRequest")
	if f == nil {
		return
	}
	info := f.Info()
	g := f.Graph()
	upd := f.Calls(Callee{pkgWitness, "Witness", "updateCheckpoint"})
	opens := f.Calls(Callee{pkgNote, "", "Open"})
	vfo := f.Calls(Callee{pkgWitness, "Witness", "verifiersForOrigin"})
	if len(upd) != 1 || len(opens) != 1 || len(vfo) != 1 {
		c.Unk(f.Name, fmt.Sprintf("anchors: updateCheckpoint=%d note.Open=%d verifiersForOrigin=%d", len(upd), len(opens), len(vfo)))
		return
	}
	// verifiers for the note's own origin line
	var originObj, vObj, noteObj, ckObj types.Object
	originObj = objOf(info, vfo[0].Call.Args[0])
	if a, ok := vfo[0].Node.(*ast.AssignStmt); ok {
		vObj = objOf(info, a.Lhs[0])
	}
	if a, ok := opens[0].Node.(*ast.AssignStmt); ok {
		noteObj = objOf(info, a.Lhs[0])
	}
	noteBytes := objOf(info, opens[0].Call.Args[0])
	okOrigin := false
	for _, d := range f.Defs(originObj) {
		if d.Kind == DefAssign && d.Idx == 0 {
			if call, ok := ast.Unparen(d.Rhs).(*ast.CallExpr); ok && matchCallee(info, call, Callee{"strings", "", "Cut"}) {
				if objOf(info, stripConv(info, call.Args[0])) == noteBytes {
					if s, _ := constString(info, call.Args[1]); s == "\n" {
						okOrigin = true
					}
				}
			}
		}
	}
	if okOrigin && objOf(info, opens[0].Call.Args[1]) == vObj && vObj != nil {
		c.OK(f.Name+" verifiers of the note's origin", "note.Open(noteBytes, verifiersForOrigin(first line of noteBytes))", []string{opens[0].Pos()})
	} else {
		c.Bad(f.Name+" verifiers of the note's origin", opens[0].Pos(), "the submitted note is not verified with the keys configured for its own origin")
	}
	// unknown origin refused
	tE, _, _, okB := BoolEdges(vfo[0])
	if okB {
		c.guardSuccess(f, "known origin", tE, upd, "an unknown origin can reach the update")
	}
	c.requireGate(f.Name+" note verified", f, opens, OutNil, upd, "update only after the log's signature verified")
	parses := f.Calls(Callee{pkgTorch, "", "ParseCheckpoint"})
	for _, s := range parses {
		if a, ok := s.Node.(*ast.AssignStmt); ok {
			ckObj = objOf(info, a.Lhs[0])
		}
		r, p, ok := fieldPath(info, s.Call.Args[0])
		if !ok || r != noteObj || len(p) != 1 || p[0] != "Text" {
			c.Bad(f.Name+" parsed text", s.Pos(), "the checkpoint parsed is not the verified note's text")
		}
	}
	c.requireGate(f.Name+" checkpoint parses", f, parses, OutNil, upd, "update only after the text parsed")
	ckF := func(field string) func(ast.Expr) bool {
		return func(e ast.Expr) bool {
			r, p, ok := fieldPath(info, e)
			return ok && r == ckObj && ckObj != nil && len(p) == 1 && p[0] == field
		}
	}
	isEmpty := func(e ast.Expr) bool { s, ok := constString(info, e); return ok && s == "" }
	c.guardSuccess(f, "no extension line", g.EdgesImplying(func(a Atom) bool { rel, ok := cmpRel(a, ckF("Extension"), isEmpty); return ok && rel == relEQ }), upd,
		"a checkpoint with extension lines can be cosigned (the cosignature would not cover them)")
	isOriginVar := func(e ast.Expr) bool { return objOf(info, e) == originObj }
	c.guardSuccess(f, "origin line == parsed origin", g.EdgesImplying(func(a Atom) bool { rel, ok := cmpRel(a, isOriginVar, ckF("Origin")); return ok && rel == relEQ }), upd,
		"the origin used to select the verifiers can differ from the parsed origin")
	// arguments
	call := upd[0].Call
	var p []string
	if !ckF("Origin")(argByName(info, call, "origin")) {
		p = append(p, "origin is not the parsed origin")
	}
	if !ckF("N")(argByName(info, call, "newSize")) {
		p = append(p, "newSize is not the parsed size")
	}
	if !ckF("Hash")(argByName(info, call, "newHash")) {
		p = append(p, "newHash is not the parsed hash")
	}
	if objOf(info, argByName(info, call, "submitted")) != noteObj {
		p = append(p, "submitted is not the opened note")
	}
	// oldSize: parsed with ParseInt from the request
	if _, ok := f.IsCallResult(argByName(info, call, "oldSize"), 0, Callee{"strconv", "", "ParseInt"}); !ok {
		p = append(p, "oldSize is not the request's parsed old size")
	}
	if len(p) > 0 {
		c.Bad(f.Name+" update operands", upd[0].Pos(), strings.Join(p, "; "))
	} else {
		c.add(Result{Instance: f.Name + " update operands", Verdict: Discharged, Evals: 5, Sites: []string{upd[0].Pos()}, Detail: "updateCheckpoint(c.Origin, oldSize, c.N, c.Hash, proof, n)"})
	}
	// old size canonical and non-negative
	// (compared up to plain copies: the guard may test the variable the value was parsed into)
	oldObj := objOf(info, f.copyRoot(argByName(info, call, "oldSize")))
	isOld := func(e ast.Expr) bool { return oldObj != nil && objOf(info, f.copyRoot(e)) == oldObj }
	isZero := func(e ast.Expr) bool { v, ok := constInt(info, e); return ok && v == 0 }
	c.guardSuccess(f, "old size >= 0", g.EdgesImplying(func(a Atom) bool {
		rel, ok := cmpRel(a, isOld, isZero)
		return ok && rel&relLT == 0
	}), upd, "a negative old size can reach the update")
	// verifiersForOrigin: built from the configured verifiers of that origin
	if vf := c.Fn("witness.(*Witness).verifiersForOrigin"); vf != nil {
		ok := len(vf.Calls(Callee{pkgWitness, "Witness", "metaForOrigin"})) == 1
		if ok {
			c.OK(vf.Name, "verifier list built from the stored metadata of that origin", nil)
		} else {
			c.Bad(vf.Name, vf.Pos(vf.Decl), "verifiers are not taken from the witness configuration for that origin")
		}
	}
}

func c14c(c *Ctx) {
	f := c.Fn("witness.(*Witness).updateCheckpoint")
	if f == nil {
		return
	}
	info := f.Info()
	recv := f.recvObj()
	signs := f.Calls(Callee{pkgNote, "", "Sign"})
	if len(signs) != 1 {
		c.Unk(f.Name, fmt.Sprintf("expected one note.Sign call, found %d", len(signs)))
		return
	}
	s := signs[0]
	var p []string
	// &note.Note{Text: torchwood.Checkpoint{Origin: origin, Tree: tlog.Tree{N: newSize, Hash: newHash}}.String(), Sigs: submitted.Sigs}
	nl := s.Call.Args[0]
	if u, ok := ast.Unparen(nl).(*ast.UnaryExpr); ok {
		nl = u.X
	}
	cl, ok := ast.Unparen(nl).(*ast.CompositeLit)
	if !ok {
		c.Unk(f.Name, "note literal not found")
		return
	}
	text := compositeField(info, cl, "Text", -1)
	okText := false
	if call, isC := ast.Unparen(text).(*ast.CallExpr); isC {
		if sel, isS := ast.Unparen(call.Fun).(*ast.SelectorExpr); isS && sel.Sel.Name == "String" {
			if ck, isCk := ast.Unparen(sel.X).(*ast.CompositeLit); isCk {
				o := compositeField(info, ck, "Origin", -1)
				tr := compositeField(info, ck, "Tree", -1)
				if trl, isT := ast.Unparen(tr).(*ast.CompositeLit); isT && o != nil {
					n, h := compositeField(info, trl, "N", 0), compositeField(info, trl, "Hash", 1)
					if f.IsParam(o, "origin") && n != nil && h != nil && f.IsParam(n, "newSize") && f.IsParam(h, "newHash") && len(ck.Elts) == 2 {
						okText = true
					}
				}
			}
		}
	}
	if !okText {
		p = append(p, "the text signed is not the re-encoding of (origin, newSize, newHash)")
	}
	sigs := compositeField(info, cl, "Sigs", -1)
	okSigs := false
	if sigs != nil {
		r, path, ok := fieldPath(info, sigs)
		if ok && r == f.paramObj("submitted") && len(path) == 1 && path[0] == "Sigs" {
			okSigs = true
		}
	}
	if !okSigs {
		p = append(p, "signatures attached are not exactly the submitted note's verified signatures")
	}
	if compositeField(info, cl, "UnverifiedSigs", -1) != nil {
		p = append(p, "unverified signatures are carried into the signed note")
	}
	// signers w.s1, w.s2
	okSigners := len(s.Call.Args) == 3
	for i, want := range []string{"s1", "s2"} {
		if i+1 >= len(s.Call.Args) || !f.IsFieldPathOf(s.Call.Args[i+1], func(o types.Object) bool { return o == recv }, want) {
			okSigners = false
		}
	}
	if !okSigners {
		p = append(p, "the note is not signed by exactly the witness's two cosigners")
	}
	if len(p) > 0 {
		c.Bad(f.Name+" signed note", s.Pos(), strings.Join(p, "; "))
	} else {
		c.add(Result{Instance: f.Name + " signed note", Verdict: Discharged, Evals: 3, Sites: []string{s.Pos()}, Detail: "Sign({Text: Checkpoint{origin,{newSize,newHash}}.String(), Sigs: submitted.Sigs}, s1, s2)"})
	}
	// CAS stores the signed note; the response is split from it
	var signedObj types.Object
	if a, ok := s.Node.(*ast.AssignStmt); ok {
		signedObj = objOf(info, a.Lhs[0])
	}
	for _, r := range f.Calls(specLockRepl) {
		if objOf(info, argByName(info, r.Call, "new")) == signedObj && signedObj != nil {
			c.OK(f.Name+" CAS value", "Lock.Replace stores the signed note", []string{r.Pos()})
		} else {
			c.Bad(f.Name+" CAS value", r.Pos(), "what is recorded in the lock store is not the checkpoint that was signed")
		}
	}
	okResp := false
	for _, r := range successReturns(f) {
		if call, ok := f.IsCallResult(r.X.(*ast.ReturnStmt).Results[0], 0, Callee{pkgWitness, "", "splitSignatures"}); ok && objOf(info, call.Args[0]) == signedObj {
			okResp = true
		}
	}
	if okResp {
		c.OK(f.Name+" response", "the response is the witness's signature lines of the recorded note", nil)
	} else {
		c.Bad(f.Name+" response", f.Pos(f.Decl), "the signatures returned are not those of the recorded note")
	}
}

// statusSwitch extracts sentinel -> status from `switch err { case A, B: http.Error(rw, .., code) }`
// and `if err, ok := err.(*T); ok { rw.WriteHeader(code) }`.
func statusSwitch(f *Func) map[string]int64 {
	out := statusSwitchWith(f, false)
	// the status may be computed by a helper `func(err error) int` and passed to http.Error: the
	// helper's own sentinel -> returned constant table then is the handler's table
	info := f.Info()
	ast.Inspect(f.Body, func(n ast.Node) bool {
		call, ok := n.(*ast.CallExpr)
		if !ok || !matchCallee(info, call, Callee{"net/http", "", "Error"}) || len(call.Args) != 3 {
			return true
		}
		hc, ok := ast.Unparen(f.ResolveDeep(call.Args[2]).E).(*ast.CallExpr)
		if !ok || len(hc.Args) != 1 {
			return true
		}
		fn, ok := calleeObj(info, hc).(*types.Func)
		if !ok {
			return true
		}
		if g := f.Prog.FuncOf(fn.Origin()); g != nil && g.Body != nil && g.Pkg == f.Pkg {
			for k, v := range statusSwitchWith(g, true) {
				if _, dup := out[k]; !dup {
					out[k] = v
				}
			}
		}
		return true
	})
	return out
}

// statusSwitchWith extracts the table from f; with returns set, the status of a
// branch is the constant it returns instead of the one it passes to http.Error.
func statusSwitchWith(f *Func, returns bool) map[string]int64 {
	info := f.Info()
	out := map[string]int64{}
	codeIn := func(list []ast.Stmt) int64 {
		if returns {
			var code int64 = -1
			for _, st := range list {
				if r, ok := st.(*ast.ReturnStmt); ok && len(r.Results) == 1 {
					if v, ok := constInt(info, r.Results[0]); ok {
						code = v
					}
				}
			}
			return code
		}
		var code int64 = -1
		for _, st := range list {
			ast.Inspect(st, func(n ast.Node) bool {
				call, ok := n.(*ast.CallExpr)
				if !ok {
					return true
				}
				if matchCallee(info, call, Callee{"net/http", "", "Error"}) && len(call.Args) == 3 {
					if v, ok := constInt(info, call.Args[2]); ok {
						code = v
					}
				}
				if sel, ok := ast.Unparen(call.Fun).(*ast.SelectorExpr); ok && sel.Sel.Name == "WriteHeader" && len(call.Args) == 1 {
					if v, ok := constInt(info, call.Args[0]); ok {
						code = v
					}
				}
				if fn, ok := calleeObj(info, call).(*types.Func); ok && fn.Name() == "httpErrorMirrorInfo" && len(call.Args) == 3 {
					if v, ok := constInt(info, call.Args[2]); ok {
						code = v
					}
				}
				return true
			})
		}
		return code
	}
	// sentinels named by a condition: X, err == X, errors.Is(err, X), and disjunctions of those
	var sentinels func(e ast.Expr) []string
	sentinels = func(e ast.Expr) []string {
		e = ast.Unparen(e)
		if id := identOf(e); id != nil {
			if _, isVar := info.Uses[id].(*types.Var); isVar && !isLocal(info.Uses[id]) {
				return []string{id.Name}
			}
			return nil
		}
		switch x := e.(type) {
		case *ast.BinaryExpr:
			switch x.Op {
			case token.LOR:
				return append(sentinels(x.X), sentinels(x.Y)...)
			case token.EQL:
				if a := sentinels(x.X); len(a) > 0 {
					return a
				}
				return sentinels(x.Y)
			}
		case *ast.CallExpr:
			if matchCallee(info, x, Callee{"errors", "", "Is"}) && len(x.Args) == 2 {
				return sentinels(x.Args[1])
			}
		}
		return nil
	}
	ast.Inspect(f.Body, func(n ast.Node) bool {
		switch s := n.(type) {
		case *ast.SwitchStmt:
			for _, cl := range s.Body.List {
				cc := cl.(*ast.CaseClause)
				code := codeIn(cc.Body)
				for _, e := range cc.List {
					if code < 0 {
						continue
					}
					if s.Tag != nil {
						if id := identOf(e); id != nil {
							out[id.Name] = code
						}
						continue
					}
					for _, name := range sentinels(e) {
						out[name] = code
					}
				}
			}
		case *ast.IfStmt:
			if s.Init == nil {
				if code := codeIn(s.Body.List); code >= 0 {
					for _, name := range sentinels(s.Cond) {
						if _, dup := out[name]; !dup {
							out[name] = code
						}
					}
				}
			}
			// if err, ok := err.(*conflictError); ok { ... }
			if as, ok := s.Init.(*ast.AssignStmt); ok && len(as.Rhs) == 1 {
				if ta, ok := ast.Unparen(as.Rhs[0]).(*ast.TypeAssertExpr); ok && ta.Type != nil {
					if code := codeIn(s.Body.List); code >= 0 {
						out[strings.TrimPrefix(exprString(ta.Type), "*")] = code
					}
				}
			}
			// if errors.As(err, &mirrorConflict) { ... }
			if call, ok := ast.Unparen(s.Cond).(*ast.CallExpr); ok && matchCallee(info, call, Callee{"errors", "", "As"}) && len(call.Args) == 2 {
				if tv, has := info.Types[call.Args[1]]; has {
					name := tv.Type.String()
					name = name[strings.LastIndex(name, ".")+1:]
					if code := codeIn(s.Body.List); code >= 0 {
						if _, dup := out[name]; !dup {
							out[name] = code
						}
					}
				}
			}
		}
		return true
	})
	return out
}

func (c *Ctx) compareStatus(inst string, f *Func, want map[string]int64) {
	got := statusSwitch(f)
	var bad []string
	for k, v := range want {
		if got[k] != v {
			bad = append(bad, fmt.Sprintf("%s -> %d (protocol: %d)", k, got[k], v))
		}
	}
	sort.Strings(bad)
	if len(bad) > 0 {
		c.Bad(inst, f.Pos(f.Decl), "refusals are not answered with the protocol's status: "+strings.Join(bad, ", "))
	} else {
		var ks []string
		for k, v := range want {
			ks = append(ks, fmt.Sprintf("%s->%d", k, v))
		}
		sort.Strings(ks)
		c.add(Result{Instance: inst, Verdict: Discharged, Evals: len(want), Sites: []string{f.Pos(f.Decl)}, Detail: strings.Join(ks, " ")})
	}
}

// returnsSentinelOn: every return reachable from the given edges returns the sentinel.
func (c *Ctx) returnsSentinelOn(inst string, f *Func, edges map[Edge]bool, sentinel string, what string) {
	g := f.Graph()
	if len(edges) == 0 {
		c.Bad(inst, f.Pos(f.Decl), what+": the failure is not tested")
		return
	}
	n := 0
	for e := range edges {
		for _, r := range g.ReturnsFrom(EdgeStart(e), Cut{}) {
			n++
			ex := f.errResultExpr(r)
			if ex != nil {
				// `err = errX; return err`: the one definition that reaches the return
				if v := f.Resolve(ex); v.Idx < 0 {
					ex = v.E
				}
			}
			if ex == nil || !isPkgVar(f.Info(), ex, pkgWitness, sentinel) {
				c.Bad(inst, f.Pos(r), what+" is reported with "+exprStringOrNil(ex)+" instead of "+sentinel)
				return
			}
		}
	}
	if n == 0 {
		c.Bad(inst, f.Pos(f.Decl), what+" does not end the request")
		return
	}
	c.add(Result{Instance: inst, Verdict: Discharged, Evals: n, Detail: what + " -> " + sentinel})
}

func c14d(c *Ctx) {
	if f := c.Fn("witness.(*Witness).serveAddCheckpoint"); f != nil {
		c.compareStatus(f.Name+" status table", f, map[string]int64{
			"conflictError": 409, "errUnknownLog": 404, "errInvalidSignature": 403,
			"errBadRequest": 400, "errBadCheckpoint": 400, "errExtensions": 400, "errProof": 422,
		})
		// 409 body: the recorded size
		info := f.Info()
		ok := false
		ast.Inspect(f.Body, func(n ast.Node) bool {
			call, isC := n.(*ast.CallExpr)
			if isC && matchCallee(info, call, Callee{"fmt", "", "Fprintf"}) && len(call.Args) == 3 {
				if _, p, okp := fieldPath(info, call.Args[2]); okp && len(p) == 1 && p[0] == "known" {
					ok = true
				}
			}
			return true
		})
		if ok {
			c.OK(f.Name+" 409 body", "the conflict response carries the recorded size", nil)
		} else {
			c.Bad(f.Name+" 409 body", f.Pos(f.Decl), "the 409 response does not carry the recorded tree size")
		}
	}
	// which sentinel for which failure
	if f := c.Fn("witness.(*Witness).processAddCheckpointRequest"); f != nil {
		info := f.Info()
		g := f.Graph()
		if vfo := f.Calls(Callee{pkgWitness, "Witness", "verifiersForOrigin"}); len(vfo) == 1 {
			_, fE, _, _ := BoolEdges(vfo[0])
			c.returnsSentinelOn(f.Name+" unknown origin", f, fE, "errUnknownLog", "an unknown origin")
		}
		// signature failures: the type switch on note.Open's error
		okSig := false
		ast.Inspect(f.Body, func(n ast.Node) bool {
			ts, ok := n.(*ast.TypeSwitchStmt)
			if !ok {
				return true
			}
			for _, cl := range ts.Body.List {
				cc := cl.(*ast.CaseClause)
				names := ""
				for _, e := range cc.List {
					names += exprString(e) + " "
				}
				if strings.Contains(names, "UnverifiedNoteError") && strings.Contains(names, "InvalidSignatureError") {
					for _, st := range cc.Body {
						if r, ok := st.(*ast.ReturnStmt); ok && len(r.Results) == 2 && isPkgVar(info, r.Results[1], pkgWitness, "errInvalidSignature") {
							okSig = true
						}
					}
				}
			}
			return true
		})
		if okSig {
			c.OK(f.Name+" bad signature", "UnverifiedNoteError / InvalidSignatureError -> errInvalidSignature", nil)
		} else {
			c.Bad(f.Name+" bad signature", f.Pos(f.Decl), "unverified or invalid log signatures are not reported with errInvalidSignature (403)")
		}
		// extension
		var ckObj types.Object
		for _, s := range f.Calls(Callee{pkgTorch, "", "ParseCheckpoint"}) {
			if a, ok := s.Node.(*ast.AssignStmt); ok {
				ckObj = objOf(info, a.Lhs[0])
			}
		}
		isExt := func(e ast.Expr) bool {
			r, p, ok := fieldPath(info, e)
			return ok && r == ckObj && len(p) == 1 && p[0] == "Extension"
		}
		isEmpty := func(e ast.Expr) bool { s, ok := constString(info, e); return ok && s == "" }
		c.returnsSentinelOn(f.Name+" extension", f, g.EdgesImplying(func(a Atom) bool { rel, ok := cmpRel(a, isExt, isEmpty); return ok && rel&relEQ == 0 }), "errExtensions", "an extension line")
	}
	if f := c.Fn("witness.(*Witness).updateCheckpoint"); f != nil {
		info := f.Info()
		g := f.Graph()
		ct := f.Calls(Callee{pkgTlog, "", "CheckTree"})
		_, bad := gateEdges(ct, OutNonNil)
		_ = bad
		nn, _ := gateEdges(ct, OutNonNil)
		c.returnsSentinelOn(f.Name+" bad proof", f, nn, "errProof", "a consistency proof that does not verify")
		oldP, newP := f.paramObj("oldSize"), f.paramObj("newSize")
		is := func(o types.Object) func(ast.Expr) bool {
			return func(e ast.Expr) bool { return objOf(info, e) == o }
		}
		c.returnsSentinelOn(f.Name+" old > new", f, g.EdgesImplying(func(a Atom) bool { rel, ok := cmpRel(a, is(oldP), is(newP)); return ok && rel == relGT }), "errBadRequest", "an old size above the new size")
	}
}

func c14f(c *Ctx) {
	allowed := map[string]map[string]bool{
		"s1": {"witness.(*Witness).updateCheckpoint": true},
		"s2": {"witness.(*Witness).updateCheckpoint": true, "witness.(*Witness).processSignSubtreeRequest": true},
		"sm": {"witness.(*Witness).processAddEntriesCommit": true, "witness.(*Witness).processSignSubtreeRequest": true},
	}
	n := 0
	for _, f := range c.P.Funcs(pkgWitness) {
		if f.Body == nil {
			continue
		}
		info := f.Info()
		for _, s := range f.Find(func(x ast.Node) bool {
			call, ok := x.(*ast.CallExpr)
			if !ok {
				return false
			}
			fn, ok := calleeObj(info, call).(*types.Func)
			if !ok {
				return false
			}
			return (fn.Pkg() != nil && fn.Pkg().Path() == pkgNote && fn.Name() == "Sign") ||
				(recvName(fn) == "CosignatureSigner" && (fn.Name() == "Sign" || fn.Name() == "SignSubtree"))
		}) {
			n++
			c.touch(f)
			// which signer fields are involved
			var used []string
			ast.Inspect(s.Call, func(x ast.Node) bool {
				if sel, ok := x.(*ast.SelectorExpr); ok {
					if v, ok := info.Uses[sel.Sel].(*types.Var); ok && v.IsField() && fieldBelongsTo(v, "Witness") && (v.Name() == "s1" || v.Name() == "s2" || v.Name() == "sm") {
						used = append(used, v.Name())
					}
				}
				return true
			})
			fnName := calleeObj(info, s.Call).(*types.Func).Name()
			inst := fmt.Sprintf("%s %s(%s)", f.Name, fnName, strings.Join(used, ","))
			if fnName == "SignSubtree" {
				// signer is a loop variable over a list built from s2/sm: checked by C16
				if f.Name == "witness.(*Witness).processSignSubtreeRequest" {
					c.OK(inst, "subtree signing in the sign-subtree handler (guards: C16)", []string{s.Pos()})
				} else {
					c.Bad(inst, s.Pos(), "subtree cosignatures are produced outside the sign-subtree handler")
				}
				continue
			}
			bad := ""
			for _, u := range used {
				if !allowed[u][f.Name] {
					bad = u
				}
			}
			if len(used) == 0 {
				c.Unk(inst, "note.Sign with signers that are not the witness fields at "+s.Pos())
			} else if bad != "" {
				c.Bad(inst, s.Pos(), "cosigner "+bad+" signs a note outside the function that performs its checks")
			} else {
				c.OK(inst, "signing site covered by its guards", []string{s.Pos()})
			}
		}
	}
	if n == 0 {
		c.Unk("signing sites", "no signing call in package witness")
	}
	// the signer fields are assigned only in NewWitness
	for _, fld := range []string{"s1", "s2", "sm"} {
		for _, st := range c.P.AllStoresTo(c.P.fieldVar(pkgWitness, "Witness", fld)) {
			if st.F.Name != "witness.NewWitness" {
				c.Bad("Witness."+fld+" store in "+st.F.Name, st.Pos(), "a cosigner is replaced after construction")
			}
		}
	}
}

func c14g(c *Ctx) {
	f := c.Fn("witness.(*Witness).updateCheckpoint")
	if f == nil {
		return
	}
	info := f.Info()
	var known types.Object
	for _, s := range f.Calls(Callee{pkgWitness, "logState", "checkpointLocked"}) {
		if a, ok := s.Node.(*ast.AssignStmt); ok {
			known = objOf(info, a.Lhs[0])
		}
	}
	for _, s := range f.Calls(Callee{pkgTlog, "", "CheckTree"}) {
		kn := func(e ast.Expr, field string) bool {
			r, p, ok := fieldPath(info, e)
			return ok && r == known && len(p) == 1 && p[0] == field
		}
		var p []string
		if !f.IsParam(argByName(info, s.Call, "p"), "proof") {
			p = append(p, "p is not the submitted proof")
		}
		if !f.IsParam(argByName(info, s.Call, "t"), "newSize") {
			p = append(p, "t (larger tree size) is not newSize")
		}
		if !f.IsParam(argByName(info, s.Call, "th"), "newHash") {
			p = append(p, "th (larger tree hash) is not newHash")
		}
		if !kn(argByName(info, s.Call, "n"), "N") {
			p = append(p, "n (older tree size) is not the recorded size")
		}
		if !kn(argByName(info, s.Call, "h"), "Hash") {
			p = append(p, "h (older tree hash) is not the recorded hash")
		}
		if len(p) > 0 {
			c.Bad(f.Name+" CheckTree operands", s.Pos(), strings.Join(p, "; "))
		} else {
			c.add(Result{Instance: f.Name + " CheckTree operands", Verdict: Discharged, Evals: 5, Sites: []string{s.Pos()}, Detail: "CheckTree(proof, newSize, newHash, known.N, known.Hash)"})
		}
	}
}

func c14h(c *Ctx) {
	watched := []Callee{specUpload, specFetch, specDiscard, specLockFet, specLockRepl, specLockCrea, {pkgWitness, "", "fetchAndDecompress"}}
	for _, f := range c.P.Funcs(pkgWitness) {
		if f.Body == nil {
			continue
		}
		for _, s := range f.Calls(watched...) {
			c.touch(f)
			inst := fmt.Sprintf("%s: %s at %s", f.Name, exprString(s.Call.Fun), s.Pos())
			ok, how := errDiscipline(s)
			if ok {
				c.OK(inst, how, []string{s.Pos()})
				continue
			}
			// exception: createErr := Lock.Create(...) immediately followed by a tested Lock.Fetch of the same key
			if matchCallee(f.Info(), s.Call, specLockCrea) && f.Top().Name == "witness.(*Witness).PullLogList" {
				g := f.Graph()
				next := f.Calls(specLockFet)
				follows := false
				for _, n := range next {
					if exprString(argByName(f.Info(), n.Call, "logID")) == exprString(argByName(f.Info(), s.Call, "logID")) {
						if pt, _ := g.Reach(s.After(), Cut{}, atSite(n)); pt != nil {
							if okN, _ := errDiscipline(n); okN {
								follows = true
							}
						}
					}
				}
				if follows {
					c.OK(inst, "listed exception: best-effort Create, the tested Fetch of the same key decides", []string{s.Pos()})
					continue
				}
			}
			c.Bad(inst, s.Pos(), "a storage/lock error is not handled in the witness: "+how)
		}
	}
}

// ---------------------------------------------------------------------------
// C14.j KEY-PINNED: "that log's key" cannot be replaced by a later log list.

func c14j(c *Ctx) {
	f := c.Fn("witness.(*Witness).PullLogList")
	if f == nil {
		return
	}
	c.touch(f)
	info := f.Info()
	g := f.Graph()
	inst := f.Name + " known origin keeps its key"
	// the loop over the parsed list and the lookup `l, ok := newMeta[origin]`
	var loop *ast.RangeStmt
	ast.Inspect(f.Body, func(n ast.Node) bool {
		if rs, ok := n.(*ast.RangeStmt); ok && rs.Key != nil && rs.Value != nil {
			if _, isPL := f.IsCallResult(rs.X, 0, Callee{pkgWitness, "", "parseLogList"}); isPL {
				loop = rs
			}
		}
		return true
	})
	if loop == nil {
		c.Unk(inst, "loop over parseLogList's result not found")
		return
	}
	originObj, vkeyObj := objOf(info, loop.Key), objOf(info, loop.Value)
	var known map[Edge]bool
	var metaObj types.Object
	for _, s := range f.Find(func(n ast.Node) bool {
		a, ok := n.(*ast.AssignStmt)
		if !ok || len(a.Lhs) != 2 || len(a.Rhs) != 1 {
			return false
		}
		ix, ok := ast.Unparen(a.Rhs[0]).(*ast.IndexExpr)
		return ok && objOf(info, ix.Index) == originObj
	}) {
		a := s.X.(*ast.AssignStmt)
		metaObj = objOf(info, ast.Unparen(a.Rhs[0]).(*ast.IndexExpr).X)
		s2 := s
		s2.Call = nil
		_, known = boolOrErrEdges(s2, objOf(info, a.Lhs[1]), false)
	}
	lv := liveEdges(g, known)
	if metaObj == nil || len(lv) == 0 {
		c.Unk(inst, "lookup of the origin in the working configuration not found")
		return
	}
	// the key comparison: a ContainsFunc over the entry's verifiers whose predicate compares with the listed vkey
	var same map[Edge]bool
	for _, s := range f.Calls(Callee{"slices", "", "ContainsFunc"}) {
		if len(s.Call.Args) != 2 {
			continue
		}
		lit, ok := ast.Unparen(s.Call.Args[1]).(*ast.FuncLit)
		if !ok {
			continue
		}
		usesVkey := false
		ast.Inspect(lit.Body, func(n ast.Node) bool {
			if be, ok := n.(*ast.BinaryExpr); ok && be.Op == token.EQL && (objOf(info, be.X) == vkeyObj || objOf(info, be.Y) == vkeyObj) {
				usesVkey = true
			}
			return true
		})
		if usesVkey {
			same = callTrueEdges(g, s.Call)
		}
	}
	if len(same) == 0 {
		c.Bad(inst, f.Pos(loop), "for an origin that is already configured the listed key is not compared with the configured one")
		return
	}
	head := rangeHead(g, loop)
	okRets := successReturns(f)
	var stores []Site
	for _, s := range f.Find(func(n ast.Node) bool {
		a, ok := n.(*ast.AssignStmt)
		if !ok {
			return false
		}
		for _, l := range a.Lhs {
			if ix, ok := ast.Unparen(l).(*ast.IndexExpr); ok && objOf(info, ix.X) == metaObj {
				return true
			}
		}
		return false
	}) {
		stores = append(stores, s)
	}
	bad := false
	for _, e := range lv {
		cut := Cut{Edges: same}
		if g.EntersBlock(EdgeStart(e), cut, head) {
			bad = true
		}
		if pt, _ := g.Reach(EdgeStart(e), Cut{Edges: same, NoEnter: func(b *cfg.Block) bool { return b == head }}, atAnySite(append(stores, okRets...))); pt != nil {
			bad = true
		}
	}
	if bad {
		c.Bad(inst, f.Pos(loop), "a log list that names an already configured origin with a different key can be accepted (or even update the configuration): checkpoints for that origin would then be accepted under a key other than the one on record")
		return
	}
	c.add(Result{Instance: inst, Verdict: Discharged, Evals: len(lv), Sites: []string{f.Pos(loop)}, Detail: "from the known-origin edge, with the same-key edges cut, neither the next entry, a configuration store nor a successful return is reachable", Witnesses: f.WitEdges(same)})
}
