package main

// Value flow on the AST (template T6): an identifier whose object has exactly
// one defining assignment in the enclosing top-level function stands for that
// assignment's right-hand side. Variables captured by closures are handled
// uniformly because definitions are collected over the whole declaration,
// nested literals included.

import (
	"go/ast"
	"go/token"
	"go/types"
)

type DefKind int

const (
	DefAssign DefKind = iota // x := rhs / x = rhs / var x = rhs (Rhs set; Idx>=0 for tuple results)
	DefZero                  // var x T
	DefRange                 // range key/value
	DefOther                 // x++, x += .., &x escapes, select recv, type switch
)

type Def struct {
	Kind DefKind
	Rhs  ast.Expr
	Idx  int // tuple index when Rhs is a multi-value call, else -1
	Node ast.Node
}

// Defs returns every definition of obj inside f's top-level declaration.
func (f *Func) Defs(obj types.Object) []Def {
	top := f.Top()
	if top.defs == nil {
		top.collectDefs()
	}
	return top.defs[obj]
}

func (f *Func) collectDefs() {
	f.defs = map[types.Object][]Def{}
	if f.Body == nil {
		return
	}
	info := f.Info()
	add := func(e ast.Expr, d Def) {
		if o := objOf(info, e); o != nil {
			f.defs[o] = append(f.defs[o], d)
		}
	}
	ast.Inspect(f.Body, func(n ast.Node) bool {
		switch s := n.(type) {
		case *ast.AssignStmt:
			if s.Tok != token.ASSIGN && s.Tok != token.DEFINE {
				for _, l := range s.Lhs {
					add(l, Def{Kind: DefOther, Node: s})
				}
				return true
			}
			if len(s.Rhs) == 1 && len(s.Lhs) > 1 {
				for i, l := range s.Lhs {
					add(l, Def{Kind: DefAssign, Rhs: s.Rhs[0], Idx: i, Node: s})
				}
			} else {
				for i, l := range s.Lhs {
					if i < len(s.Rhs) {
						add(l, Def{Kind: DefAssign, Rhs: s.Rhs[i], Idx: -1, Node: s})
					}
				}
			}
		case *ast.ValueSpec:
			if len(s.Values) == 0 {
				for _, nm := range s.Names {
					add(nm, Def{Kind: DefZero, Node: s})
				}
			} else if len(s.Values) == 1 && len(s.Names) > 1 {
				for i, nm := range s.Names {
					add(nm, Def{Kind: DefAssign, Rhs: s.Values[0], Idx: i, Node: s})
				}
			} else {
				for i, nm := range s.Names {
					if i < len(s.Values) {
						add(nm, Def{Kind: DefAssign, Rhs: s.Values[i], Idx: -1, Node: s})
					}
				}
			}
		case *ast.RangeStmt:
			if s.Key != nil {
				add(s.Key, Def{Kind: DefRange, Rhs: s.X, Idx: 0, Node: s})
			}
			if s.Value != nil {
				add(s.Value, Def{Kind: DefRange, Rhs: s.X, Idx: 1, Node: s})
			}
		case *ast.IncDecStmt:
			add(s.X, Def{Kind: DefOther, Node: s})
		case *ast.UnaryExpr:
			if s.Op == token.AND {
				if _, ok := ast.Unparen(s.X).(*ast.Ident); ok {
					add(s.X, Def{Kind: DefOther, Node: s})
				}
			}
		case *ast.TypeSwitchStmt:
			// implicit objects of the clauses: leave unresolved
		}
		return true
	})
}

// Val is a resolved value: an expression, or result Idx of a multi-value call.
type Val struct {
	E   ast.Expr
	Idx int // -1 unless E is a call/range whose Idx-th result is meant
}

// isLocal reports whether obj is a variable local to some function (not a
// package-level variable, not a field).
func isLocal(obj types.Object) bool {
	v, ok := obj.(*types.Var)
	if !ok || v.IsField() || v.Pkg() == nil {
		return false
	}
	return v.Parent() != v.Pkg().Scope()
}

// Resolve follows single-definition local identifiers (and parentheses) to the
// expression that defines the value.
func (f *Func) Resolve(e ast.Expr) Val {
	info := f.Info()
	for depth := 0; depth < 32; depth++ {
		e = ast.Unparen(e)
		id, ok := e.(*ast.Ident)
		if !ok {
			return Val{e, -1}
		}
		obj := info.Uses[id]
		if obj == nil {
			obj = info.Defs[id]
		}
		if obj == nil || !isLocal(obj) {
			return Val{e, -1}
		}
		defs := f.Defs(obj)
		if len(defs) > 1 {
			// several definitions: flow-sensitive answer - the single definition that reaches this use
			if d, ok := f.holderOf(id).reachingDef(obj, id, defs); ok {
				defs = []Def{d}
			}
		}
		if len(defs) != 1 || defs[0].Kind != DefAssign {
			return Val{e, -1}
		}
		if defs[0].Idx >= 0 {
			return Val{defs[0].Rhs, defs[0].Idx}
		}
		e = defs[0].Rhs
	}
	return Val{e, -1}
}

// stripConv removes type conversions T(x) and slicing x[:] from e.
func stripConv(info *types.Info, e ast.Expr) ast.Expr {
	for {
		e = ast.Unparen(e)
		switch x := e.(type) {
		case *ast.CallExpr:
			if tv, ok := info.Types[x.Fun]; ok && tv.IsType() && len(x.Args) == 1 {
				e = x.Args[0]
				continue
			}
		case *ast.SliceExpr:
			if x.Low == nil && x.High == nil && x.Max == nil {
				e = x.X
				continue
			}
		}
		return e
	}
}

// ResolveDeep resolves through identifiers, conversions and full slices.
func (f *Func) ResolveDeep(e ast.Expr) Val {
	info := f.Info()
	for depth := 0; depth < 16; depth++ {
		v := f.Resolve(e)
		if v.Idx >= 0 {
			return v
		}
		s := stripConv(info, v.E)
		if s == v.E {
			return v
		}
		e = s
	}
	return f.Resolve(e)
}

// IsCallResult reports whether e is (result idx of) a call to one of specs;
// idx < 0 accepts any result position / the single result.
func (f *Func) IsCallResult(e ast.Expr, idx int, specs ...Callee) (*ast.CallExpr, bool) {
	v := f.ResolveDeep(e)
	c, ok := ast.Unparen(v.E).(*ast.CallExpr)
	if !ok || !matchCallee(f.Info(), c, specs...) {
		return nil, false
	}
	if idx >= 0 && v.Idx >= 0 && v.Idx != idx {
		return nil, false
	}
	if idx > 0 && v.Idx < 0 {
		return nil, false
	}
	return c, true
}

// paramObj returns the parameter (or receiver) object of f named name.
func (f *Func) paramObj(name string) types.Object {
	info := f.Info()
	check := func(fl *ast.FieldList) types.Object {
		if fl == nil {
			return nil
		}
		for _, fld := range fl.List {
			for _, nm := range fld.Names {
				if nm.Name == name {
					return info.Defs[nm]
				}
			}
		}
		return nil
	}
	if f.Decl != nil {
		if o := check(f.Decl.Recv); o != nil {
			return o
		}
	}
	if o := check(f.Type.Params); o != nil {
		return o
	}
	// renamed since the rules were written: use the recorded position
	if f.Obj != nil {
		n := 0
		var objs []types.Object
		for _, fld := range f.Type.Params.List {
			for _, nm := range fld.Names {
				objs = append(objs, info.Defs[nm])
				n++
			}
		}
		if i := frozenParamIndex(f.Obj, name, n); i >= 0 && i < len(objs) {
			return objs[i]
		}
	}
	return nil
}

// recvObj returns the receiver object of a method.
func (f *Func) recvObj() types.Object {
	t := f.Top()
	if t.Decl == nil || t.Decl.Recv == nil || len(t.Decl.Recv.List) == 0 || len(t.Decl.Recv.List[0].Names) == 0 {
		return nil
	}
	return t.Info().Defs[t.Decl.Recv.List[0].Names[0]]
}

// IsParam reports whether e resolves to the named parameter of f (or of an
// enclosing function when f is a literal).
func (f *Func) IsParam(e ast.Expr, name string) bool {
	v := f.ResolveDeep(e)
	if v.Idx >= 0 {
		return false
	}
	o := objOf(f.Info(), v.E)
	if o == nil {
		return false
	}
	for x := f; x != nil; x = x.Parent {
		if p := x.paramObj(name); p != nil && p == o {
			return true
		}
	}
	return false
}

// rootObj returns the object at the root of a selector/index chain.
func rootObj(info *types.Info, e ast.Expr) types.Object {
	for {
		switch x := ast.Unparen(e).(type) {
		case *ast.SelectorExpr:
			if _, isPkg := info.Uses[identOf(x.X)].(*types.PkgName); isPkg {
				return info.Uses[x.Sel]
			}
			e = x.X
		case *ast.IndexExpr:
			e = x.X
		case *ast.StarExpr:
			e = x.X
		case *ast.UnaryExpr:
			e = x.X
		case *ast.SliceExpr:
			e = x.X
		case *ast.Ident:
			return objOf(info, x)
		default:
			return nil
		}
	}
}

func identOf(e ast.Expr) *ast.Ident {
	id, _ := ast.Unparen(e).(*ast.Ident)
	return id
}

// fieldPath decomposes x.a.b.c into the root object and the field names
// ("a","b","c"); embedded promotions are reported as written.
func fieldPath(info *types.Info, e ast.Expr) (root types.Object, path []string, ok bool) {
	for {
		switch x := ast.Unparen(e).(type) {
		case *ast.SelectorExpr:
			if _, isPkg := info.Uses[identOf(x.X)].(*types.PkgName); isPkg {
				return info.Uses[x.Sel], path, true
			}
			path = append([]string{x.Sel.Name}, path...)
			e = x.X
		case *ast.Ident:
			return objOf(info, x), path, true
		default:
			return nil, nil, false
		}
	}
}

// IsFieldPathOf reports whether e is root.p1.p2... where root resolves to the
// object accepted by isRoot.
func (f *Func) IsFieldPathOf(e ast.Expr, isRoot func(types.Object) bool, path ...string) bool {
	v := f.ResolveDeep(e)
	if v.Idx >= 0 {
		return false
	}
	root, p, ok := fieldPath(f.Info(), v.E)
	if !ok || root == nil || !isRoot(root) || len(p) != len(path) {
		return false
	}
	for i := range p {
		if p[i] != path[i] {
			return false
		}
	}
	return true
}

// SameValue reports whether a and b denote the same value: they resolve to the
// same defining expression node, or to the same single-assignment object, or
// to the same parameter.
func (f *Func) SameValue(a, b ast.Expr) bool {
	va, vb := f.ResolveDeep(a), f.ResolveDeep(b)
	if va.E == vb.E && va.Idx == vb.Idx {
		return true
	}
	info := f.Info()
	oa, ob := objOf(info, va.E), objOf(info, vb.E)
	if oa != nil && oa == ob && va.Idx == vb.Idx {
		// same variable: only identical if never reassigned (params, or single def)
		return len(f.Defs(oa)) <= 1
	}
	// two evaluations of the same side-effect-free expression over variables that are never
	// reassigned (filepath.Join(prefix, entry.Name()) computed twice)
	if va.Idx < 0 && vb.Idx < 0 {
		return f.sameStableExpr(va.E, vb.E, 0)
	}
	return false
}

// sameStableExpr: structurally equal expressions built from constants, calls to
// functions of the standard library's path/strings packages and methods named
// Name, and variables with at most one definition.
func (f *Func) sameStableExpr(a, b ast.Expr, depth int) bool {
	if depth > 6 {
		return false
	}
	info := f.Info()
	a, b = ast.Unparen(f.ResolveDeep(a).E), ast.Unparen(f.ResolveDeep(b).E)
	switch x := a.(type) {
	case *ast.Ident:
		y, ok := b.(*ast.Ident)
		if !ok {
			return false
		}
		oa, ob := objOf(info, x), objOf(info, y)
		return oa != nil && oa == ob && len(f.Defs(oa)) <= 1
	case *ast.BasicLit:
		y, ok := b.(*ast.BasicLit)
		return ok && x.Value == y.Value
	case *ast.SelectorExpr:
		y, ok := b.(*ast.SelectorExpr)
		return ok && x.Sel.Name == y.Sel.Name && info.Uses[x.Sel] == info.Uses[y.Sel] && f.sameStableExpr(x.X, y.X, depth+1)
	case *ast.CallExpr:
		y, ok := b.(*ast.CallExpr)
		if !ok || len(x.Args) != len(y.Args) {
			return false
		}
		fa, fb := calleeObj(info, x), calleeObj(info, y)
		fn, isFn := fa.(*types.Func)
		if !isFn || fa != fb {
			return false
		}
		pure := false
		if fn.Pkg() != nil {
			switch fn.Pkg().Path() {
			case "path/filepath", "path", "strings", "strconv":
				pure = true
			}
		}
		if fn.Name() == "Name" && len(x.Args) == 0 {
			pure = true // accessor of a directory entry / file info
		}
		if !pure {
			return false
		}
		if sx, ok := ast.Unparen(x.Fun).(*ast.SelectorExpr); ok {
			sy, ok2 := ast.Unparen(y.Fun).(*ast.SelectorExpr)
			if !ok2 {
				return false
			}
			if _, isPkg := info.Uses[identOf(sx.X)].(*types.PkgName); !isPkg || identOf(sx.X) == nil {
				if !f.sameStableExpr(sx.X, sy.X, depth+1) {
					return false
				}
			}
		}
		for i := range x.Args {
			if !f.sameStableExpr(x.Args[i], y.Args[i], depth+1) {
				return false
			}
		}
		return true
	}
	return false
}

// soleReachingDef reports whether, at site use, the only definition of obj
// that can reach it is the one made by statement def (reaching definitions on
// the CFG of f; definitions inside nested literals make the answer false).
func (f *Func) soleReachingDef(obj types.Object, def ast.Node, use Site) bool {
	g := f.Graph()
	var defSites []Site
	for _, d := range f.Defs(obj) {
		ss := f.Find(func(n ast.Node) bool { return n == d.Node })
		if len(ss) == 0 {
			if d.Kind == DefZero {
				continue
			}
			return false // defined somewhere we cannot place (a nested literal)
		}
		defSites = append(defSites, ss[0])
	}
	isDef := func(p Point, _ ast.Node) bool {
		for _, s := range defSites {
			if s.P == p {
				return true
			}
		}
		return false
	}
	ok := false
	for _, s := range defSites {
		if pt, _ := g.Reach(s.After(), Cut{Stop: isDef}, atSite(use)); pt != nil {
			if s.Node != def && s.X != def {
				return false
			}
			ok = true
		}
	}
	return ok
}

// soleFuncParam returns the single parameter of function type of a literal
// (the `yield` of an iterator body), independent of its name.
func (f *Func) soleFuncParam() types.Object {
	var out types.Object
	n := 0
	for _, fld := range f.Type.Params.List {
		for _, nm := range fld.Names {
			o := f.Info().Defs[nm]
			if o == nil {
				continue
			}
			if _, ok := o.Type().Underlying().(*types.Signature); ok {
				out = o
				n++
			}
		}
	}
	if n == 1 {
		return out
	}
	return nil
}

// reachingDef: among several definitions of obj, the only one that reaches the
// use id (every other definition is overwritten, or leaves the function, on all
// paths to the use). Decided on the CFG of the function that contains the use,
// and only when all definitions are nodes of that same graph (a definition or a
// use inside another function literal runs at an unknown time).
func (f *Func) reachingDef(obj types.Object, id *ast.Ident, defs []Def) (Def, bool) {
	if f.rdCache == nil {
		f.rdCache = map[*ast.Ident]*Def{}
	}
	if d, ok := f.rdCache[id]; ok {
		if d == nil {
			return Def{}, false
		}
		return *d, true
	}
	f.rdCache[id] = nil
	if f.Body == nil || id.Pos() < f.Body.Pos() || id.End() > f.Body.End() {
		return Def{}, false
	}
	if f.Lit != nil && f.Parent != nil {
		// a captured variable whose definitions all lie outside the literal: the value the literal
		// sees is the definition that reaches the literal in the enclosing function, provided the
		// variable is not redefined once the literal exists (other than by a new declaration of it,
		// i.e. the next iteration's variable).
		outside := true
		for _, d := range defs {
			if d.Node.Pos() >= f.Lit.Pos() && d.Node.End() <= f.Lit.End() {
				outside = false
			}
		}
		if outside {
			if d, ok := f.Parent.reachingAtLit(f.Lit, defs); ok {
				f.rdCache[id] = &d
				return d, true
			}
			return Def{}, false
		}
	}
	use := f.Find(func(n ast.Node) bool { return n == ast.Node(id) })
	if len(use) != 1 {
		return Def{}, false
	}
	// definitions made inside a directly deferred literal of f run when f exits: they reach no use
	// in f's own body
	if dl := deferredLits(f); len(dl) > 0 {
		var kept []Def
		for _, d := range defs {
			inDeferred := false
			for _, l := range dl {
				if d.Node.Pos() >= l.Lit.Pos() && d.Node.End() <= l.Lit.End() {
					inDeferred = true
				}
			}
			if !inDeferred {
				kept = append(kept, d)
			}
		}
		defs = kept
	}
	sites := make([]Site, len(defs))
	for i, d := range defs {
		if d.Kind != DefAssign && d.Kind != DefZero {
			return Def{}, false
		}
		ds := f.Find(func(n ast.Node) bool { return n == d.Node })
		if len(ds) != 1 {
			return Def{}, false
		}
		sites[i] = ds[0]
	}
	g := f.Graph()
	isDef := func(p Point, _ ast.Node) bool {
		for _, s := range sites {
			if s.P == p {
				return true
			}
		}
		return false
	}
	var reaching []int
	for i := range defs {
		if sites[i].P == use[0].P {
			// the use is part of the defining statement itself (x = f(x)): the right-hand side sees
			// the earlier definitions, not this one, unless a loop brings it back
		}
		if pt, _ := g.ReachAfter(sites[i], Cut{Stop: isDef}, atSite(use[0])); pt != nil {
			reaching = append(reaching, i)
		}
	}
	if len(reaching) != 1 {
		return Def{}, false
	}
	d := defs[reaching[0]]
	f.rdCache[id] = &d
	return d, true
}

// holderOf returns f or the enclosing function whose body contains id: a value
// followed out of a literal continues in the function that created the literal.
func (f *Func) holderOf(id *ast.Ident) *Func {
	cf := f
	for cf.Parent != nil && cf.Body != nil && (id.Pos() < cf.Body.Pos() || id.End() > cf.Body.End()) {
		cf = cf.Parent
	}
	return cf
}

// reachingAtLit answers reachingDef for a variable captured by the literal lit,
// which is created in f (or in a literal nested in f's own literals).
func (f *Func) reachingAtLit(lit *ast.FuncLit, defs []Def) (Def, bool) {
	at := f.Find(func(n ast.Node) bool { return n == ast.Node(lit) })
	if len(at) != 1 {
		return Def{}, false
	}
	sites := make([]Site, len(defs))
	for i, d := range defs {
		if d.Kind != DefAssign && d.Kind != DefZero {
			return Def{}, false
		}
		ds := f.Find(func(n ast.Node) bool { return n == d.Node })
		if len(ds) != 1 {
			return Def{}, false
		}
		sites[i] = ds[0]
	}
	g := f.Graph()
	isDef := func(p Point, _ ast.Node) bool {
		for _, s := range sites {
			if s.P == p {
				return true
			}
		}
		return false
	}
	isDecl := func(p Point, _ ast.Node) bool {
		for i, s := range sites {
			if s.P == p && defs[i].Kind == DefZero {
				return true
			}
		}
		return false
	}
	var reaching []int
	for i := range defs {
		if pt, _ := g.ReachAfter(sites[i], Cut{Stop: isDef}, atSite(at[0])); pt != nil {
			reaching = append(reaching, i)
		}
	}
	if len(reaching) != 1 {
		return Def{}, false
	}
	// no redefinition of the same variable after the literal was created
	for i := range defs {
		if defs[i].Kind == DefZero {
			continue
		}
		if pt, _ := g.Reach(at[0].After(), Cut{Stop: isDecl}, atSite(sites[i])); pt != nil {
			return Def{}, false
		}
	}
	return defs[reaching[0]], true
}

// SourceDefs lists the definitions that can supply the value of obj: its own
// definitions, with every plain copy of another local variable (x = y) replaced
// by that variable's source definitions. Flow-insensitive, so an
// over-approximation of what reaches any one use.
func (f *Func) SourceDefs(obj types.Object) []Def {
	info := f.Info()
	seen := map[types.Object]bool{}
	var out []Def
	var walk func(o types.Object)
	walk = func(o types.Object) {
		if seen[o] {
			return
		}
		seen[o] = true
		for _, d := range f.Defs(o) {
			if d.Kind == DefAssign && d.Idx < 0 && d.Rhs != nil {
				if id, ok := ast.Unparen(d.Rhs).(*ast.Ident); ok {
					if src := objOf(info, id); src != nil && isLocal(src) {
						walk(src)
						continue
					}
				}
			}
			out = append(out, d)
		}
	}
	walk(obj)
	return out
}

// copyRoot follows plain copies (x := y) from an identifier to the variable the
// value was first held in; it stops at the first variable that is defined by
// anything other than a copy of another variable.
func (f *Func) copyRoot(e ast.Expr) ast.Expr {
	info := f.Info()
	for depth := 0; depth < 16; depth++ {
		id, ok := ast.Unparen(e).(*ast.Ident)
		if !ok {
			return e
		}
		obj := objOf(info, id)
		if obj == nil || !isLocal(obj) {
			return e
		}
		defs := f.Defs(obj)
		if len(defs) > 1 {
			if d, ok := f.holderOf(id).reachingDef(obj, id, defs); ok {
				defs = []Def{d}
			}
		}
		if len(defs) != 1 || defs[0].Kind != DefAssign || defs[0].Idx >= 0 {
			return e
		}
		if _, isId := ast.Unparen(defs[0].Rhs).(*ast.Ident); !isId {
			return e
		}
		e = defs[0].Rhs
	}
	return e
}
