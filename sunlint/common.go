package main

// Helpers shared by the property rules: callee specs taken from the
// repository's own interfaces, semantic anchors, and the recurring
// "must pass the success edge of A before B" obligation (T1).

import (
	"fmt"
	"go/ast"
	"go/token"
	"go/types"
	"os"
	"sort"
	"strings"
)

var (
	specUpload   = Callee{pkgCtlog, "Backend", "Upload"}
	specFetch    = Callee{pkgCtlog, "Backend", "Fetch"}
	specDiscard  = Callee{pkgCtlog, "Backend", "Discard"}
	specLockFet  = Callee{pkgCtlog, "LockBackend", "Fetch"}
	specLockRepl = Callee{pkgCtlog, "LockBackend", "Replace"}
	specLockCrea = Callee{pkgCtlog, "LockBackend", "Create"}
)

// srcText returns the source text of node n (from disk or the overlay the
// program was loaded with).
func (p *Program) srcText(n ast.Node) string {
	s := p.Fset.Position(n.Pos())
	e := p.Fset.Position(n.End())
	b, err := p.readFile(s.Filename)
	if err != nil || e.Offset > len(b) {
		return ""
	}
	return string(b[s.Offset:e.Offset])
}

var fileCache = map[string][]byte{}

func (p *Program) readFile(name string) ([]byte, error) {
	if p.overlay != nil {
		if b, ok := p.overlay[name]; ok {
			return b, nil
		}
	}
	if b, ok := fileCache[name]; ok {
		return b, nil
	}
	b, err := os.ReadFile(name)
	if err == nil {
		fileCache[name] = b
	}
	return b, err
}

// WitEdge builds the witness that neutralises the guard carried by edge e:
// the condition is rewritten so that e no longer implies anything.
func (f *Func) WitEdge(e Edge) Witness {
	c := Cond(e.From)
	if c == nil {
		return Witness{}
	}
	src := f.Prog.srcText(c)
	repl := "(" + src + ") && false"
	if e.Idx == 0 {
		repl = "(" + src + ") || true"
	}
	return f.Wit(c, repl, "neutralise-guard")
}

func (f *Func) WitEdges(es map[Edge]bool) []Witness {
	var out []Witness
	var list []Edge
	for e := range es {
		list = append(list, e)
	}
	sort.Slice(list, func(i, j int) bool {
		a, b := Cond(list[i].From), Cond(list[j].From)
		if a == nil || b == nil {
			return false
		}
		return a.Pos() < b.Pos()
	})
	for _, e := range list {
		if w := f.WitEdge(e); w.File != "" {
			out = append(out, w)
		}
	}
	return out
}

// WitDelete builds a witness that removes the effect of statement n while
// keeping its operands used (so that the variant still compiles): a call or
// defer becomes a no-op function applied to the same arguments, an assignment
// keeps only the evaluation of its right-hand side.
func (f *Func) WitDelete(n ast.Node) Witness {
	info := f.Info()
	noop := func(call *ast.CallExpr) string {
		var args []string
		switch fun := ast.Unparen(call.Fun).(type) {
		case *ast.Ident:
			if o := info.Uses[fun]; o != nil && isLocal(o) {
				args = append(args, fun.Name)
			}
		case *ast.SelectorExpr:
			if o := rootObj(info, fun.X); o != nil && isLocal(o) {
				if id, ok := ast.Unparen(fun.X).(*ast.Ident); ok {
					args = append(args, id.Name)
				}
			}
		}
		for _, a := range call.Args {
			if _, isLit := ast.Unparen(a).(*ast.FuncLit); isLit {
				continue
			}
			if isNilIdent(info, a) {
				continue
			}
			args = append(args, f.Prog.srcText(a))
		}
		return "func(...any) {}(" + strings.Join(args, ", ") + ")"
	}
	switch s := n.(type) {
	case *ast.DeferStmt:
		if _, isLit := ast.Unparen(s.Call.Fun).(*ast.FuncLit); !isLit {
			return f.Wit(n, noop(s.Call), "delete-stmt")
		}
		// a deferred literal: drop the defer keyword's effect by not calling it
		return f.Wit(n, "_ = "+f.Prog.srcText(s.Call.Fun), "delete-stmt")
	case *ast.ExprStmt:
		if call, ok := s.X.(*ast.CallExpr); ok {
			return f.Wit(n, noop(call), "delete-stmt")
		}
	case *ast.AssignStmt:
		if s.Tok == token.ASSIGN && len(s.Rhs) == 1 {
			if !isNilIdent(info, s.Rhs[0]) {
				blanks := strings.TrimSuffix(strings.Repeat("_, ", len(s.Lhs)), ", ")
				return f.Wit(n, blanks+" = "+f.Prog.srcText(s.Rhs[0]), "delete-stmt")
			}
		}
	case *ast.IncDecStmt:
		return f.Wit(n, "_ = "+f.Prog.srcText(s.X), "delete-stmt")
	}
	return f.Wit(n, "{}", "delete-stmt")
}

// necessaryEdges returns the subset of safe edges that are individually
// necessary: with all the others cut, leaving this one open makes a target
// reachable from start. They are the meaningful witnesses of a guard rule.
func necessaryEdges(g *Graph, start Point, safe map[Edge]bool, targets []Site, extra Cut) map[Edge]bool {
	out := map[Edge]bool{}
	for e := range safe {
		rest := map[Edge]bool{}
		for x := range safe {
			if x != e {
				rest[x] = true
			}
		}
		for x := range extra.Edges {
			rest[x] = true
		}
		cut := extra
		cut.Edges = rest
		if pt, _ := g.Reach(start, cut, atAnySite(targets)); pt != nil {
			out[e] = true
		}
	}
	return out
}

func sitePositions(ss []Site) []string {
	var out []string
	for _, s := range ss {
		out = append(out, s.Pos())
	}
	return out
}

// ---------------------------------------------------------------------------
// semantic anchors in package ctlog

// funcsCalling returns the declared functions of pkg whose own body (not
// nested literals) calls one of specs, optionally filtered by the call.
func (p *Program) funcsCalling(pkg string, filter func(f *Func, c *ast.CallExpr) bool, specs ...Callee) []*Func {
	var out []*Func
	for _, f := range p.Decls(pkg) {
		if p.isWrapperOf(f, specs...) {
			continue // a thin helper around the operation: its callers are the functions of interest
		}
		for _, s := range f.CallsW(specs...) {
			if filter == nil || filter(f, s.Call) {
				out = append(out, f)
				break
			}
		}
	}
	return out
}

// uploadKeyIs filters Backend.Upload calls by constant key.
func uploadKeyIs(key string) func(f *Func, c *ast.CallExpr) bool {
	return func(f *Func, c *ast.CallExpr) bool {
		k := argByName(f.Info(), c, "key")
		if k == nil {
			return false
		}
		s, ok := constString(f.Info(), f.ResolveDeep(k).E)
		return ok && s == key
	}
}

// sequencers: the functions of ctlog that commit to the lock store with
// LockBackend.Replace (today: sequencePool).
func sequencers(p *Program) []*Func { return p.funcsCalling(pkgCtlog, nil, specLockRepl) }

// errResultExpr returns the expression returned in the error result position
// of ret (nil for a bare return or when f has no error result).
func (f *Func) errResultExpr(ret *ast.ReturnStmt) ast.Expr {
	res := f.Type.Results
	if res == nil || len(ret.Results) == 0 {
		return nil
	}
	n := 0
	for _, fl := range res.List {
		k := len(fl.Names)
		if k == 0 {
			k = 1
		}
		n += k
	}
	if len(ret.Results) != n {
		return nil
	}
	last := ret.Results[n-1]
	if tv, ok := f.Info().Types[last]; ok && (isErrorType(tv.Type) || tv.IsNil() || types.Implements(tv.Type, errorIface())) {
		return last
	}
	return nil
}

func errorIface() *types.Interface {
	return types.Universe.Lookup("error").Type().Underlying().(*types.Interface)
}

// hasErrorResult reports whether f's last result is of type error.
func (f *Func) hasErrorResult() bool {
	res := f.Type.Results
	if res == nil || len(res.List) == 0 {
		return false
	}
	last := res.List[len(res.List)-1]
	tv, ok := f.Info().Types[last.Type]
	return ok && isErrorType(tv.Type)
}

// namedErrResult returns the object of a named error result, if any.
func (f *Func) namedErrResult() types.Object {
	res := f.Type.Results
	if res == nil || len(res.List) == 0 {
		return nil
	}
	last := res.List[len(res.List)-1]
	if len(last.Names) == 0 {
		return nil
	}
	o := f.Info().Defs[last.Names[len(last.Names)-1]]
	if o != nil && isErrorType(o.Type()) {
		return o
	}
	return nil
}

// wrapsVar reports whether e resolves to fmt.Errorf/fmtErrorf(...) with a %w
// operand that is the package variable pkg.name.
func (f *Func) wrapsVar(e ast.Expr, pkg, name string) bool {
	v := f.ResolveDeep(e)
	c, ok := ast.Unparen(v.E).(*ast.CallExpr)
	if !ok {
		return false
	}
	return errorfWraps(f.Info(), c, func(a ast.Expr) bool { return isPkgVar(f.Info(), a, pkg, name) })
}

// isNilIdent reports the predeclared nil.
func isNilIdent(info *types.Info, e ast.Expr) bool {
	if st, ok := ast.Unparen(e).(*ast.StarExpr); ok {
		// *new(T): the zero value of T, which is nil for the nilable kinds
		if call, ok := ast.Unparen(st.X).(*ast.CallExpr); ok && isBuiltinCall(info, call, "new") && len(call.Args) == 1 {
			switch info.TypeOf(call.Args[0]).Underlying().(type) {
			case *types.Pointer, *types.Interface, *types.Slice, *types.Map, *types.Chan, *types.Signature:
				return true
			}
		}
		return false
	}
	id, ok := ast.Unparen(e).(*ast.Ident)
	if !ok {
		return false
	}
	_, isNil := info.Uses[id].(*types.Nil)
	return isNil
}

// mayBeNilError classifies a returned error expression: false when it is
// certainly non-nil (constructor call, composite literal, address-of,
// non-nil package-level sentinel, variable inside its own != nil guard is
// handled by callers through outcome edges).
func (f *Func) mayBeNilError(e ast.Expr) bool {
	info := f.Info()
	if id, ok := ast.Unparen(e).(*ast.Ident); ok && f.guardedNonNil(id) {
		return false
	}
	v := f.ResolveDeep(e)
	switch x := ast.Unparen(v.E).(type) {
	case *ast.CallExpr:
		if fn, ok := calleeObj(info, x).(*types.Func); ok {
			full := ""
			if fn.Pkg() != nil {
				full = fn.Pkg().Path() + "." + fn.Name()
			}
			switch full {
			case "fmt.Errorf", "errors.New":
				return false
			}
			if fn.Name() == "fmtErrorf" {
				return false
			}
		}
		return true
	case *ast.CompositeLit:
		return false
	case *ast.UnaryExpr:
		if x.Op == token.AND {
			return false
		}
	case *ast.Ident:
		if o, ok := info.Uses[x].(*types.Var); ok && !isLocal(o) && !o.IsField() {
			// package-level sentinel initialised with a constructor
			return !f.Prog.pkgVarNonNil(o)
		}
	case *ast.SelectorExpr:
		if o, ok := info.Uses[x.Sel].(*types.Var); ok && !isLocal(o) && !o.IsField() {
			if stdSentinel(o) {
				return false
			}
			return !f.Prog.pkgVarNonNil(o)
		}
	}
	return true
}

// stdSentinel: an exported error variable of the standard library named EOF or
// Err... (io.EOF, fs.ErrNotExist, context.Canceled is not matched): these are
// initialised with errors.New and never nil.
func stdSentinel(o *types.Var) bool {
	if o.Pkg() == nil || !o.Exported() || !isErrorType(o.Type()) {
		return false
	}
	first := o.Pkg().Path()
	if i := strings.Index(first, "/"); i >= 0 {
		first = first[:i]
	}
	if strings.Contains(first, ".") {
		return false
	}
	return o.Name() == "EOF" || strings.HasPrefix(o.Name(), "Err")
}

// guardedNonNil: the use id of a local error variable is only reachable through
// an edge on which `id != nil` holds, with no definition of the variable in
// between: every path from the function entry or from a definition of the
// variable to the use crosses such an edge.
func (f *Func) guardedNonNil(id *ast.Ident) bool {
	info := f.Info()
	obj := info.Uses[id]
	if obj == nil || !isLocal(obj) || !isErrorType(obj.Type()) || f.Body == nil {
		return false
	}
	if id.Pos() < f.Body.Pos() || id.End() > f.Body.End() {
		return false
	}
	use := f.Find(func(n ast.Node) bool { return n == ast.Node(id) })
	if len(use) != 1 {
		return false
	}
	// the variable must only be written by nodes of f's own graph (or by directly deferred literals)
	var sites []Site
	for _, d := range f.Defs(obj) {
		ds := f.Find(func(n ast.Node) bool { return n == d.Node })
		if len(ds) != 1 {
			inDeferred := false
			for _, l := range deferredLits(f) {
				if d.Node.Pos() >= l.Lit.Pos() && d.Node.End() <= l.Lit.End() {
					inDeferred = true
				}
			}
			if inDeferred {
				continue
			}
			return false
		}
		if d.Kind == DefOther {
			return false // address taken, ++ ...
		}
		sites = append(sites, ds[0])
	}
	g := f.Graph()
	nonNil := g.EdgesImplying(func(a Atom) bool {
		b, ok := ast.Unparen(a.E).(*ast.BinaryExpr)
		if !ok {
			return false
		}
		var other ast.Expr
		switch {
		case objOf(info, b.X) == obj:
			other = b.Y
		case objOf(info, b.Y) == obj:
			other = b.X
		default:
			return false
		}
		if !isNilIdent(info, other) {
			return false
		}
		return (b.Op == token.NEQ && a.Val) || (b.Op == token.EQL && !a.Val)
	})
	if len(nonNil) == 0 {
		return false
	}
	cut := Cut{Edges: nonNil}
	if pt, _ := g.ReachableFromEntry(cut, atSite(use[0])); pt != nil {
		return false
	}
	for _, s := range sites {
		if s.P == use[0].P {
			continue
		}
		if pt, _ := g.Reach(s.After(), cut, atSite(use[0])); pt != nil {
			return false
		}
	}
	return true
}

// pkgVarNonNil: a package-level error variable of the module declared with an
// errors.New / fmt.Errorf / fmtErrorf initialiser and never assigned elsewhere.
func (p *Program) pkgVarNonNil(v *types.Var) bool {
	if v.Pkg() == nil {
		return false
	}
	pk := p.Pkgs[v.Pkg().Path()]
	if pk == nil {
		return false
	}
	ok := false
	for _, file := range pk.Syntax {
		for _, d := range file.Decls {
			gd, isGen := d.(*ast.GenDecl)
			if !isGen || gd.Tok != token.VAR {
				continue
			}
			for _, sp := range gd.Specs {
				vs := sp.(*ast.ValueSpec)
				for i, nm := range vs.Names {
					if pk.TypesInfo.Defs[nm] != v || i >= len(vs.Values) {
						continue
					}
					if c, isCall := vs.Values[i].(*ast.CallExpr); isCall {
						if fn, isFn := calleeObj(pk.TypesInfo, c).(*types.Func); isFn {
							if (fn.Pkg() != nil && (fn.Pkg().Path()+"."+fn.Name() == "errors.New" || fn.Pkg().Path()+"."+fn.Name() == "fmt.Errorf")) || fn.Name() == "fmtErrorf" {
								ok = true
							}
						}
					}
				}
			}
		}
	}
	if !ok {
		return false
	}
	// never assigned in non-test code
	for _, f := range p.Funcs(v.Pkg().Path()) {
		if f.Body == nil {
			continue
		}
		assigned := false
		inspectNoLit(f.Body, func(n ast.Node) bool {
			if a, isA := n.(*ast.AssignStmt); isA {
				for _, l := range a.Lhs {
					if objOf(f.Info(), l) == v {
						assigned = true
					}
				}
			}
			return true
		})
		if assigned {
			return false
		}
	}
	return true
}

// ---------------------------------------------------------------------------
// stores through a struct field

// fieldVar looks up the field object pkg.typ.field.
func (p *Program) fieldVar(pkg, typ, field string) *types.Var {
	pk := p.Pkgs[pkg]
	if pk == nil {
		return nil
	}
	tn, ok := pk.Types.Scope().Lookup(typ).(*types.TypeName)
	if !ok {
		return nil
	}
	st, ok := tn.Type().Underlying().(*types.Struct)
	if !ok {
		return nil
	}
	for i := 0; i < st.NumFields(); i++ {
		if st.Field(i).Name() == field {
			return st.Field(i)
		}
	}
	return nil
}

// lhsThroughField reports whether the assignable expression e designates the
// field fv or something inside it (x.f, x.f.g, x.f[k], *x.f ...). direct is
// true when e is exactly x.f.
func lhsThroughField(info *types.Info, e ast.Expr, fv *types.Var) (through, direct bool, base ast.Expr) {
	first := true
	for {
		switch x := ast.Unparen(e).(type) {
		case *ast.SelectorExpr:
			if info.Uses[x.Sel] == fv {
				return true, first, x.X
			}
			// promoted through embedding: selection path
			if sel, ok := info.Selections[x]; ok && sel.Kind() == types.FieldVal {
				// walk the implicit path
				t := sel.Recv()
				for _, idx := range sel.Index() {
					if p, isPtr := t.Underlying().(*types.Pointer); isPtr {
						t = p.Elem()
					}
					st, isSt := t.Underlying().(*types.Struct)
					if !isSt {
						break
					}
					if st.Field(idx) == fv {
						return true, false, x.X
					}
					t = st.Field(idx).Type()
				}
			}
			e = x.X
		case *ast.IndexExpr:
			e = x.X
		case *ast.StarExpr:
			e = x.X
		case *ast.SliceExpr:
			e = x.X
		default:
			return false, false, nil
		}
		first = false
	}
}

// Store is an assignment whose left-hand side goes through a given field.
type Store struct {
	Site
	Lhs    ast.Expr
	Rhs    ast.Expr // nil for ++/--/op-assign/tuple
	RhsIdx int
	Direct bool
	Base   ast.Expr
}

// StoresTo lists assignments in f's own body through field fv.
func (f *Func) StoresTo(fv *types.Var) []Store {
	info := f.Info()
	var out []Store
	for _, s := range f.Find(func(n ast.Node) bool {
		switch n.(type) {
		case *ast.AssignStmt, *ast.IncDecStmt:
			return true
		}
		return false
	}) {
		switch a := s.X.(type) {
		case *ast.AssignStmt:
			for i, l := range a.Lhs {
				th, direct, base := lhsThroughField(info, l, fv)
				if !th {
					continue
				}
				st := Store{Site: s, Lhs: l, Direct: direct, Base: base, RhsIdx: -1}
				if a.Tok == token.ASSIGN || a.Tok == token.DEFINE {
					if len(a.Rhs) == len(a.Lhs) {
						st.Rhs = a.Rhs[i]
					} else if len(a.Rhs) == 1 {
						st.Rhs, st.RhsIdx = a.Rhs[0], i
					}
				}
				out = append(out, st)
			}
		case *ast.IncDecStmt:
			if th, direct, base := lhsThroughField(info, a.X, fv); th {
				out = append(out, Store{Site: s, Lhs: a.X, Direct: direct, Base: base, RhsIdx: -1})
			}
		}
	}
	return out
}

// AllStoresTo lists assignments through fv in every function of the module
// (declarations and literals).
func (p *Program) AllStoresTo(fv *types.Var) []Store {
	var out []Store
	for _, f := range p.Funcs("") {
		if f.Body == nil {
			continue
		}
		out = append(out, f.StoresTo(fv)...)
	}
	return out
}

// ---------------------------------------------------------------------------
// T1 helper

// gateEdges collects, for the given call sites, the edges on which the call is
// known to have returned a nil error (or non-nil when want == OutNonNil).
// Sites whose outcome does not steer control flow are returned in 'untested'.
func gateEdges(sites []Site, want Outcome) (edges map[Edge]bool, untested []Site) {
	edges = map[Edge]bool{}
	for _, s := range sites {
		n, nn, _, ok := OutcomeEdges(s)
		if !ok {
			untested = append(untested, s)
			continue
		}
		src := n
		if want == OutNonNil {
			src = nn
		}
		if len(src) == 0 {
			untested = append(untested, s)
		}
		for e := range src {
			edges[e] = true
		}
	}
	return
}

// requireGate checks T1: with the success (or failure) edges of every gate
// call cut, none of the targets is reachable from the function entry.
// It records the verdict under instance and returns whether it held.
func (c *Ctx) requireGate(instance string, f *Func, gates []Site, want Outcome, targets []Site, what string) bool {
	c.touch(f)
	if len(gates) == 0 {
		c.Unk(instance, "no gate call found for "+what)
		return false
	}
	if len(targets) == 0 {
		c.Unk(instance, "no target site found for "+what)
		return false
	}
	g := f.Graph()
	edges, untested := gateEdges(gates, want)
	if len(untested) > 0 && len(edges) == 0 {
		c.Bad(instance, untested[0].Pos(), fmt.Sprintf("%s: the result of %s is not tested before the guarded operation (error dropped or not bound)", what, exprString(untested[0].Call.Fun)))
		return false
	}
	for _, t := range targets {
		// a target textually before all gates in the same block would be reached first
		if pt, path := g.ReachableFromEntry(Cut{Edges: edges}, atSite(t)); pt != nil {
			c.Bad(instance, t.Pos(), fmt.Sprintf("%s: %s is reachable from the entry of %s without passing the required outcome of %s (path %s)",
				what, nodeStr(t.X), f.Name, strings.Join(callNames(gates), "/"), g.describePath(path)))
			return false
		}
	}
	sites := append(sitePositions(gates), sitePositions(targets)...)
	r := Result{Instance: instance, Verdict: Discharged, Sites: sites, Evals: len(targets),
		Detail:    fmt.Sprintf("%s: cut %d outcome edge(s) of %s; %d target site(s) unreachable", what, len(edges), strings.Join(callNames(gates), "/"), len(targets)),
		Witnesses: f.WitEdges(necessaryEdges(g, g.Entry(), edges, targets, Cut{}))}
	c.add(r)
	return true
}

func callNames(ss []Site) []string {
	seen := map[string]bool{}
	var out []string
	for _, s := range ss {
		n := nodeStr(s.X)
		if s.Call != nil {
			n = exprString(s.Call.Fun)
		}
		if !seen[n] {
			seen[n] = true
			out = append(out, n)
		}
	}
	return out
}

func nodeStr(n ast.Node) string {
	switch x := n.(type) {
	case ast.Expr:
		s := exprString(x)
		if len(s) > 80 {
			s = s[:77] + "..."
		}
		return s
	case *ast.AssignStmt:
		l := []string{}
		for _, e := range x.Lhs {
			l = append(l, exprString(e))
		}
		return strings.Join(l, ", ") + " " + x.Tok.String() + " ..."
	case *ast.ReturnStmt:
		return "return"
	case *ast.IncDecStmt:
		return exprString(x.X) + x.Tok.String()
	case *ast.ExprStmt:
		return nodeStr(x.X)
	case *ast.DeferStmt:
		return "defer " + nodeStr(x.Call)
	}
	return fmt.Sprintf("%T", n)
}

// ---------------------------------------------------------------------------
// Wrapper summaries (T1 "a same-package helper counts as event A").

var watchedOps = []Callee{specUpload, specFetch, specDiscard, specLockFet, specLockRepl, specLockCrea, specApply, {pkgCtlog, "Log", "cachePut"}}

// wrapperCall reports whether g is a thin wrapper of one of specs: a declared
// function of the same package whose own body contains exactly one watched
// storage/lock operation, that operation matches specs, and every return with
// a possibly-nil error either returns that call or is dominated by its
// success edge. Such a helper is, for ordering rules, the operation itself.
func (p *Program) wrapperCall(g *Func, specs []Callee, depth int) *ast.CallExpr {
	if g == nil || g.Decl == nil || g.Body == nil || !g.hasErrorResult() {
		return nil
	}
	all := g.Calls(watchedOps...)
	if len(all) != 1 || !matchCallee(g.Info(), all[0].Call, specs...) {
		return nil
	}
	// nested literals must not perform watched operations either
	for _, l := range allLits(g) {
		if len(l.Calls(watchedOps...)) > 0 {
			return nil
		}
	}
	s := all[0]
	nilE, _, _, tested := OutcomeEdges(s)
	gg := g.Graph()
	for _, r := range g.Returns() {
		ret := r.X.(*ast.ReturnStmt)
		// `return op(...)` passing all results through
		if len(ret.Results) == 1 {
			if c, ok := ast.Unparen(ret.Results[0]).(*ast.CallExpr); ok && c == s.Call {
				continue
			}
		}
		e := g.errResultExpr(ret)
		if e == nil {
			return nil
		}
		if !g.mayBeNilError(e) {
			continue
		}
		if c, ok := ast.Unparen(g.ResolveDeep(e).E).(*ast.CallExpr); ok && c == s.Call {
			continue // return op(...)
		}
		if !tested || len(nilE) == 0 {
			return nil
		}
		if pt, _ := gg.ReachableFromEntry(Cut{Edges: nilE}, atSite(r)); pt != nil {
			return nil
		}
	}
	return s.Call
}

// CallsW is Calls extended with calls to thin wrappers of the operation. For
// a wrapper site, Site.Call is a virtual call whose callee is the wrapped
// operation and whose arguments are the caller's expressions wherever the
// helper passes a parameter straight through (the helper's own expression
// otherwise); Site.Real is the call in f's body.
func (f *Func) CallsW(specs ...Callee) []Site {
	out := f.Calls(specs...)
	info := f.Info()
	for _, s := range f.Find(func(n ast.Node) bool {
		call, ok := n.(*ast.CallExpr)
		if !ok {
			return false
		}
		fn, ok := calleeObj(info, call).(*types.Func)
		if !ok || fn.Pkg() == nil || fn.Pkg().Path() != f.Pkg.PkgPath {
			return false
		}
		return !matchCallee(info, call, specs...)
	}) {
		fn := calleeObj(info, s.Call).(*types.Func)
		g := f.Prog.FuncOf(fn)
		if g == nil || g == f {
			continue
		}
		inner := f.Prog.wrapperCall(g, specs, 0)
		if inner == nil {
			continue
		}
		virt := &ast.CallExpr{Fun: inner.Fun, Lparen: s.Call.Lparen, Rparen: s.Call.Rparen}
		for _, a := range inner.Args {
			virt.Args = append(virt.Args, reroot(info, g, s.Call, a))
		}
		ws := s
		ws.Real, ws.Call, ws.Via = s.Call, virt, g
		out = append(out, ws)
	}
	sort.Slice(out, func(i, j int) bool { return out[i].X.Pos() < out[j].X.Pos() })
	return out
}

// isWrapperOf reports whether f itself is a thin wrapper of specs.
func (p *Program) isWrapperOf(f *Func, specs ...Callee) bool {
	return p.wrapperCall(f, specs, 0) != nil
}

// reroot rewrites an expression of helper g in terms of the caller: a
// parameter (or the receiver) is replaced by the argument at call, and a field
// path rooted at one keeps its selectors (whose identifiers stay known to the
// type checker) over the caller's expression.
func reroot(info *types.Info, g *Func, call *ast.CallExpr, e ast.Expr) ast.Expr {
	switch x := ast.Unparen(e).(type) {
	case *ast.Ident:
		if o := objOf(info, x); o != nil && isParamOrRecv(g, o) {
			if arg := argForParam(g, call, o); arg != nil {
				return arg
			}
		}
	case *ast.SelectorExpr:
		nx := reroot(info, g, call, x.X)
		if nx != x.X {
			return &ast.SelectorExpr{X: nx, Sel: x.Sel}
		}
	}
	return e
}

// IsCallResultW is IsCallResult that also accepts a call to a thin wrapper of
// the operation; it returns the (virtual) call.
func (f *Func) IsCallResultW(e ast.Expr, idx int, specs ...Callee) (*ast.CallExpr, bool) {
	if c, ok := f.IsCallResult(e, idx, specs...); ok {
		return c, true
	}
	v := f.ResolveDeep(e)
	call, ok := ast.Unparen(v.E).(*ast.CallExpr)
	if !ok {
		return nil, false
	}
	if idx >= 0 && v.Idx >= 0 && v.Idx != idx {
		return nil, false
	}
	for _, s := range f.Top().CallsWDeep(specs...) {
		if s.Real == call {
			return s.Call, true
		}
	}
	return nil, false
}

// CallsWDeep is CallsW over f and its nested literals.
func (f *Func) CallsWDeep(specs ...Callee) []Site {
	out := f.CallsW(specs...)
	for _, l := range f.Lits {
		out = append(out, l.CallsWDeep(specs...)...)
	}
	return out
}

// ---------------------------------------------------------------------------
// T12 helper: no swallowed error on the way to a protected effect.

// errCalls lists every call in f's own body (closures excluded) whose error
// result is bound to a variable that steers control flow.
func (f *Func) errCalls() (tested []Site, unbound []Site) {
	info := f.Info()
	for _, s := range f.Find(func(n ast.Node) bool {
		call, ok := n.(*ast.CallExpr)
		if !ok {
			return false
		}
		tv, ok := info.Types[call]
		if !ok {
			return false
		}
		if ftv, isT := info.Types[call.Fun]; isT && ftv.IsType() {
			return false // a conversion, not a call
		}
		// building an error value is not a step that can fail
		if fn, isFn := calleeObj(info, call).(*types.Func); isFn {
			full := fn.Name()
			if fn.Pkg() != nil {
				full = fn.Pkg().Path() + "." + fn.Name()
			}
			if full == "fmt.Errorf" || full == "errors.New" || fn.Name() == "fmtErrorf" {
				return false
			}
		}
		switch t := tv.Type.(type) {
		case *types.Tuple:
			for i := 0; i < t.Len(); i++ {
				if isErrorType(t.At(i).Type()) {
					return true
				}
			}
			return false
		default:
			return isErrorType(t)
		}
	}) {
		if _, _, _, ok := OutcomeEdges(s); ok {
			tested = append(tested, s)
		} else {
			unbound = append(unbound, s)
		}
	}
	return
}

// calleeName is a stable name for the callee of call: the type-resolved
// function's full name, or the source text when the callee is a value.
func calleeName(info *types.Info, call *ast.CallExpr) string {
	if fn, ok := calleeObj(info, call).(*types.Func); ok {
		n := fn.FullName()
		n = strings.ReplaceAll(n, pkgRoot+"/internal/", "")
		n = strings.ReplaceAll(n, pkgRoot+"/", "")
		return n
	}
	return exprString(call.Fun)
}

// errorsGate checks that for every error-returning call of f whose result is
// tested, the protected effect cannot be reached from the call once the edges
// on which that error is nil are cut: a
// failing step never falls through to the effect. tolerated gives, for a call
// whose failure is allowed to fall through by the property's own statement,
// the reason. One result is recorded per call; the number of gated calls is
// returned.
func (c *Ctx) errorsGate(instance string, f *Func, what string, effect func(Point, ast.Node) bool, tolerated func(Site) string) int {
	c.touch(f)
	g := f.Graph()
	tested, untested := f.errCalls()
	n := 0
	ord := map[string]int{}
	for _, s := range tested {
		name := calleeName(f.Info(), s.real())
		ord[name]++
		inst := fmt.Sprintf("%s: %s #%d", instance, name, ord[name])
		nilE, _, errObj, _ := OutcomeEdges(s)
		if pt, _ := g.Reach(s.After(), Cut{}, effect); pt == nil {
			continue // the effect does not follow this call at all
		}
		// io.EOF is the designed end of a stream, not a failure of the step
		nilE = unionEdges(nilE, g.EdgesImplying(func(a Atom) bool {
			isEOF := func(e ast.Expr) bool { return isPkgVar(f.Info(), e, "io", "EOF") }
			isErr := func(e ast.Expr) bool { return objOf(f.Info(), e) == errObj }
			return a.Val && isSentinelTest(f.Info(), a.E, isErr, isEOF)
		}))
		// phase 1: while the error value of this call is live, only the failure
		// edges are open; phase 2: once the variable has been overwritten the
		// failure was not acted upon, and whatever follows is reachable from it
		reassigned := func(p Point, nd ast.Node) bool {
			return nd != nil && p != s.P && errObj != nil && assignsTo(f.Info(), nd, errObj)
		}
		pt, path := g.Reach(s.After(), Cut{Edges: nilE, Stop: reassigned}, effect)
		if pt == nil {
			for _, q := range g.ReachAll(s.After(), Cut{Edges: nilE, Stop: reassigned}, reassigned) {
				if pt, path = g.Reach(Point{q.B, q.I + 1}, Cut{}, effect); pt != nil {
					break
				}
			}
		}
		if pt == nil {
			n++
			c.add(Result{Instance: inst, Verdict: Discharged, Sites: []string{s.Pos()}, Evals: 1,
				Detail:    fmt.Sprintf("%s: with the nil-error edges of %s cut, the protected effect is unreachable from the call", what, name),
				Witnesses: f.WitEdges(nilE)})
			continue
		}
		if why := tolerated(s); why != "" {
			c.add(Result{Instance: inst, Verdict: Discharged, Sites: []string{s.Pos()}, Detail: "tolerated fall-through: " + why})
			continue
		}
		c.Bad(inst, s.Pos(), fmt.Sprintf("%s: in %s, after %s fails control can still reach %s (path %s): the error is swallowed",
			what, f.Name, name, nodeStr(pt.B.Nodes[pt.I]), g.describePath(path)))
	}
	for _, s := range untested {
		if _, isDefer := s.Node.(*ast.DeferStmt); isDefer {
			continue // runs after the effect
		}
		if pt, _ := g.Reach(s.After(), Cut{}, effect); pt == nil {
			continue
		}
		name := calleeName(f.Info(), s.real())
		ord[name]++
		inst := fmt.Sprintf("%s: %s #%d", instance, name, ord[name])
		if nilE := inlineNilEdges(g, s); len(nilE) > 0 {
			// `if call(...) != nil {` : the result is tested in place
			if pt, path := g.Reach(s.After(), Cut{Edges: nilE}, effect); pt != nil {
				if why := tolerated(s); why != "" {
					c.add(Result{Instance: inst, Verdict: Discharged, Sites: []string{s.Pos()}, Detail: "tolerated fall-through: " + why})
					continue
				}
				c.Bad(inst, s.Pos(), fmt.Sprintf("%s: in %s, after %s fails control can still reach %s (path %s): the error is swallowed",
					what, f.Name, name, nodeStr(pt.B.Nodes[pt.I]), g.describePath(path)))
				continue
			}
			n++
			c.add(Result{Instance: inst, Verdict: Discharged, Sites: []string{s.Pos()}, Evals: 1,
				Detail:    fmt.Sprintf("%s: with the nil-error edges of %s cut, the protected effect is unreachable from the call", what, name),
				Witnesses: f.WitEdges(nilE)})
			continue
		}
		if ok, how := errDiscipline(s); !ok {
			if obj, bound := resultVar(s, isErrorType); bound && usedInCondition(f, s, obj) {
				continue // classified by a predicate (errors.As, IsFatal, ...): not dropped, polarity unknown
			}
			if why := tolerated(s); why != "" {
				c.add(Result{Instance: inst, Verdict: Discharged, Sites: []string{s.Pos()}, Detail: "tolerated fall-through: " + why})
				continue
			}
			c.Bad(inst, s.Pos(), fmt.Sprintf("%s: in %s the error of %s is dropped before %s (%s)", what, f.Name, name, "the protected effect", how))
		}
	}
	if len(tested) == 0 {
		c.Unk(instance, fmt.Sprintf("%s: no tested error-returning call found in %s", what, f.Name))
	}
	return n
}

// inlineNilEdges returns, for a call used directly as an operand of a nil
// comparison in a branch condition (`if f(x) != nil {`), the edges on which
// its result is known to be nil.
func inlineNilEdges(g *Graph, s Site) map[Edge]bool {
	info := s.F.Info()
	call := s.real()
	return g.EdgesImplying(func(a Atom) bool {
		be, ok := ast.Unparen(a.E).(*ast.BinaryExpr)
		if !ok || (be.Op != token.EQL && be.Op != token.NEQ) {
			return false
		}
		var other ast.Expr
		switch {
		case ast.Unparen(be.X) == call:
			other = be.Y
		case ast.Unparen(be.Y) == call:
			other = be.X
		default:
			return false
		}
		if !isNilIdent(info, other) {
			return false
		}
		return (be.Op == token.EQL) == a.Val
	})
}

// usedInCondition reports whether obj, as bound at site s, is an operand of a
// branch condition before being overwritten.
func usedInCondition(f *Func, s Site, obj types.Object) bool {
	info := f.Info()
	g := f.Graph()
	used := false
	g.ReachAll(s.After(), Cut{Stop: func(_ Point, n ast.Node) bool { return n != nil && assignsTo(info, n, obj) }}, func(p Point, n ast.Node) bool {
		if n != nil && Cond(p.B) == n {
			// only as the argument of a predicate call: a direct comparison that
			// implies nothing about obj on either edge classifies nothing
			ast.Inspect(n, func(x ast.Node) bool {
				if call, ok := x.(*ast.CallExpr); ok {
					for _, a := range call.Args {
						if objOf(info, a) == obj {
							used = true
						}
					}
				}
				return true
			})
		}
		return false
	})
	return used
}

// isSentinelTest: e is `err == X` (either order) or `errors.Is(err, X)` for an
// err accepted by isErr and a sentinel accepted by isX.
func isSentinelTest(info *types.Info, e ast.Expr, isErr, isX func(ast.Expr) bool) bool {
	switch x := ast.Unparen(e).(type) {
	case *ast.BinaryExpr:
		if x.Op != token.EQL {
			return false
		}
		return (isErr(x.X) && isX(x.Y)) || (isErr(x.Y) && isX(x.X))
	case *ast.CallExpr:
		return len(x.Args) == 2 && matchCallee(info, x, Callee{"errors", "", "Is"}) && isErr(x.Args[0]) && isX(x.Args[1])
	}
	return false
}
