package main

// C18 - garbage collection removes only superseded partial tiles.

import (
	"fmt"
	"go/ast"
	"go/token"
	"go/types"
	"strings"
)

func init() {
	register(&Property{
		ID:    "C18",
		Title: "Garbage collection removes only superseded partial tiles",
		Explanation: "Who-may-call inventory, guard-dominance and value-flow obligations on cmd/partial-aftersun (cleanDir, overrideImmutable, logSize, mirroredLogSize, main). " +
			"Decided: the only deleting calls of the command are the two Remove calls of cleanDir; each is dominated by the full-sibling test, the right-edge test (tile index below size / tile span, with the tile parsed by the supplied parser and size the parameter), and for files the non-full-width test and a successful overrideImmutable (itself guarded by path shape, numeric width, and a non-empty regular full tile); the size comes from logSize / mirroredLogSize of the same directory, logSize returning only after note.Open with the log's key and origin equality; each directory kind is cleaned with its own path parser; the immutable flag is cleared only inside overrideImmutable after its guards. " +
			"The tile span dividing the size is constant-folded for every level -2..6 and must equal 256^(max(0,L)+1) (C18.g). NOT decided: post-run auditability (runtime).",
		Assumptions: []string{"os.Root confines every operation to the opened directory", "the checkpoint on disk is the published one"},
		Obligations: []*Obligation{
			{ID: "C18.a", Title: "WHO-DELETES", Template: "T4", MinInst: 2,
				Rule: "the deleting / mutating file-system calls of the command are exactly the two Remove calls in the cleaning function", Run: c18a},
			{ID: "C18.b", Title: "FOUR-GUARDS", Template: "T2", MinInst: 6,
				Rule: "each Remove is unreachable once the safe edges of any one guard are cut: full sibling listed, tile index < size/span, (files) width != TileWidth, (files) overrideImmutable ok", Run: c18b},
			{ID: "C18.c", Title: "SIZE-SOURCE", Template: "T6+T2", MinInst: 4,
				Rule: "the size given to the cleaning function is the result of logSize / mirroredLogSize on the same root; logSize succeeds only after note.Open with the verifier of the log's name and key, and origin equality", Run: c18c},
			{ID: "C18.d", Title: "PARSER-PAIRING", Template: "T6", MinInst: 2,
				Rule: "log directories are cleaned with sunlight.ParseTilePath, mirror directories with torchwood.ParseTilePath", Run: c18d},
			{ID: "C18.e", Title: "UNSET-GUARDED", Template: "T4+T2", MinInst: 2,
				Rule: "immutable.Unset is called only in overrideImmutable, after the path-shape, numeric-width and non-empty regular full tile checks", Run: c18e},
			{ID: "C18.g", Title: "TILE-SPAN", Template: "T5", MinInst: 1,
				Rule: "the divisor of the right-edge test size / span, constant-folded with the tile level bound to each of -2..6, equals 256^(max(0,L)+1)", Run: c18g},
		},
	})
}

var mutatingFS = map[string]bool{"Remove": true, "RemoveAll": true, "Rename": true, "WriteFile": true, "Truncate": true, "Create": true, "OpenFile": true, "Mkdir": true, "MkdirAll": true, "Chmod": true, "Symlink": true, "Link": true}

func c18a(c *Ctx) {
	n := 0
	for _, f := range c.P.Funcs(pkgAftersun) {
		if f.Body == nil {
			continue
		}
		for _, s := range f.Find(func(x ast.Node) bool {
			call, ok := x.(*ast.CallExpr)
			if !ok {
				return false
			}
			fn, ok := calleeObj(f.Info(), call).(*types.Func)
			if !ok || fn.Pkg() == nil {
				return false
			}
			p := fn.Pkg().Path()
			return (p == "os" || p == "io/fs" || p == "io/ioutil" || p == "syscall") && mutatingFS[fn.Name()]
		}) {
			n++
			c.touch(f)
			fn := calleeObj(f.Info(), s.Call).(*types.Func)
			inst := fmt.Sprintf("%s %s.%s", f.Name, recvName(fn), fn.Name())
			if f.Name == "partial-aftersun.cleanDir" && recvName(fn) == "Root" && fn.Name() == "Remove" {
				c.OK(inst+" at "+s.Pos(), "guarded by C18.b", []string{s.Pos()})
			} else {
				c.Bad(inst, s.Pos(), "the cleanup tool modifies the file system outside the guarded Remove calls of the cleaning function")
			}
		}
	}
	if n != 2 {
		c.Unk("deleting calls", fmt.Sprintf("expected exactly the two guarded Remove calls, found %d mutating calls", n))
	}
}

func c18b(c *Ctx) {
	f := c.Fn("partial-aftersun.cleanDir")
	if f == nil {
		return
	}
	info := f.Info()
	g := f.Graph()
	removes := f.Calls(Callee{"os", "Root", "Remove"})
	if len(removes) != 2 {
		c.Unk(f.Name, fmt.Sprintf("expected two Remove calls, found %d", len(removes)))
		return
	}
	sizeP, parseP := f.paramObj("size"), f.paramObj("parseTilePath")
	// 1. full sibling
	var sib []Site
	for _, s := range f.Find(func(n ast.Node) bool {
		a, ok := n.(*ast.AssignStmt)
		if !ok || len(a.Lhs) != 2 || len(a.Rhs) != 1 {
			return false
		}
		ix, ok := ast.Unparen(a.Rhs[0]).(*ast.IndexExpr)
		if !ok {
			return false
		}
		// names[full] with full from CutSuffix(entry.Name(), ".p")
		_, ok = f.IsCallResult(ix.Index, 0, Callee{"strings", "", "CutSuffix"})
		return ok
	}) {
		sib = append(sib, s)
	}
	sibOK := map[Edge]bool{}
	for _, s := range sib {
		a := s.X.(*ast.AssignStmt)
		s2 := s
		s2.Call = nil
		_, t := boolOrErrEdges(s2, objOf(info, a.Lhs[1]), false)
		for e := range t {
			sibOK[e] = true
		}
	}
	// the suffix test itself
	var cutOK map[Edge]bool
	for _, s := range f.Calls(Callee{"strings", "", "CutSuffix"}) {
		if suf, _ := constString(info, s.Call.Args[1]); suf == ".p" {
			t, _, _, ok := BoolEdges(s)
			if ok {
				cutOK = t
			}
		}
	}
	// 2. right edge
	var tObjs []types.Object
	for _, s := range f.Find(func(n ast.Node) bool {
		call, ok := n.(*ast.CallExpr)
		return ok && objOf(info, call.Fun) == parseP && parseP != nil
	}) {
		if a, ok := s.Node.(*ast.AssignStmt); ok {
			tObjs = append(tObjs, objOf(info, a.Lhs[0]))
		}
	}
	isTN := func(e ast.Expr) bool {
		r, p, ok := fieldPath(info, e)
		if !ok || len(p) != 1 || p[0] != "N" {
			return false
		}
		for _, o := range tObjs {
			if r == o {
				return true
			}
		}
		return false
	}
	isBound := func(e ast.Expr) bool {
		be, ok := ast.Unparen(e).(*ast.BinaryExpr)
		return ok && be.Op.String() == "/" && objOf(info, be.X) == sizeP
	}
	inner := g.EdgesImplying(func(a Atom) bool { rel, ok := cmpRel(a, isTN, isBound); return ok && rel == relLT })
	// 3. width
	isTW := func(e ast.Expr) bool {
		r, p, ok := fieldPath(info, e)
		if !ok || len(p) != 1 || p[0] != "W" {
			return false
		}
		for _, o := range tObjs {
			if r == o {
				return true
			}
		}
		return false
	}
	isFullW := func(e ast.Expr) bool { v, ok := constInt(info, e); return ok && v == 256 }
	partial := g.EdgesImplying(func(a Atom) bool { rel, ok := cmpRel(a, isTW, isFullW); return ok && rel&relEQ == 0 })
	// 4. overrideImmutable
	ov := f.Calls(Callee{pkgAftersun, "", "overrideImmutable"})
	ovOK, _ := gateEdges(ov, OutNil)
	// classify removes: the one inside the inner loop over partials removes files
	var fileRm, dirRm Site
	if len(ov) == 1 && removes[0].Call.Pos() < removes[1].Call.Pos() {
		fileRm, dirRm = removes[0], removes[1]
	} else {
		fileRm, dirRm = removes[1], removes[0]
	}
	type gd struct {
		name string
		safe map[Edge]bool
		on   []Site
		msg  string
	}
	for _, x := range []gd{
		{"name ends in .p", cutOK, removes, "a file or directory that is not a partial-tile directory can be deleted"},
		{"full sibling listed", sibOK, removes, "a partial tile can be deleted although its full tile is not present"},
		{"left of the right edge", inner, removes, "a partial tile at (or beyond) the right edge of the published tree can be deleted"},
		{"width != full", partial, []Site{fileRm}, "a full-width tile inside a .p directory can be deleted"},
		{"overrideImmutable ok", ovOK, []Site{fileRm}, "a partial file can be deleted although the independent full-tile check failed"},
	} {
		c.guardSuccess(f, x.name, x.safe, x.on, x.msg)
	}
	// the file removed is the one checked: Remove(name) with the same name as overrideImmutable(root, name) and the parsed path
	okNames := len(ov) == 1 && f.SameValue(fileRm.Call.Args[0], ov[0].Call.Args[1])
	if okNames {
		c.OK(f.Name+" same file", "the file removed is the one checked by overrideImmutable", []string{fileRm.Pos()})
	} else {
		c.Bad(f.Name+" same file", fileRm.Pos(), "the file removed is not the file whose full tile was checked")
	}
	// the directory removal follows the loop over its partials; the name removed is prefix/entry.Name()
	_ = dirRm
	// t.N compared is of the entry's own path: parse(TrimSuffix(name, ".p")) with name = Join(prefix, entry.Name())
	okParse := false
	for _, s := range f.Find(func(n ast.Node) bool {
		call, ok := n.(*ast.CallExpr)
		return ok && objOf(info, call.Fun) == parseP && parseP != nil
	}) {
		if call, ok := ast.Unparen(s.Call.Args[0]).(*ast.CallExpr); ok && matchCallee(info, call, Callee{"strings", "", "TrimSuffix"}) {
			if f.SameValue(call.Args[0], dirRm.Call.Args[0]) {
				okParse = true
			}
		}
	}
	if okParse {
		c.OK(f.Name+" parsed path", "the tile coordinate tested is parsed from the directory that is removed", []string{dirRm.Pos()})
	} else {
		c.Bad(f.Name+" parsed path", dirRm.Pos(), "the right-edge test is made on a path other than the directory being removed")
	}
}

func c18c(c *Ctx) {
	m := c.Fn("partial-aftersun.main")
	if m == nil {
		return
	}
	info := m.Info()
	for _, s := range m.Calls(Callee{pkgAftersun, "", "cleanDir"}) {
		size := argByName(info, s.Call, "size")
		root := argByName(info, s.Call, "root")
		inst := "cleanDir size at " + s.Pos()
		call, ok := m.IsCallResult(size, 0, Callee{pkgAftersun, "", "logSize"}, Callee{pkgAftersun, "", "mirroredLogSize"})
		if !ok {
			c.Bad(inst, s.Pos(), "the tree size does not come from the directory's checkpoint")
			continue
		}
		if objOf(info, call.Args[0]) != objOf(info, root) {
			c.Bad(inst, s.Pos(), "the tree size is read from a different directory than the one cleaned")
			continue
		}
		// failure of the size function prevents cleaning
		var szSite []Site
		for _, x := range m.Find(func(n ast.Node) bool { return n == ast.Node(call) }) {
			szSite = append(szSite, x)
		}
		c.requireGate(inst, m, szSite, OutNil, []Site{s}, "cleaning only after the size was obtained")
	}
	// the recursive descent keeps the same root, size and parser
	if cd := c.Fn("partial-aftersun.cleanDir"); cd != nil {
		for _, s := range cd.Calls(Callee{pkgAftersun, "", "cleanDir"}) {
			ok := true
			for _, nm := range []string{"root", "size", "parseTilePath"} {
				if !cd.IsParam(argByName(cd.Info(), s.Call, nm), nm) {
					ok = false
				}
			}
			if ok {
				c.OK("cleanDir recursion", "subdirectories are cleaned with the same root, size and parser", []string{s.Pos()})
			} else {
				c.Bad("cleanDir recursion", s.Pos(), "a subdirectory is cleaned with a different root, size or parser")
			}
		}
	}
	if f := c.Fn("partial-aftersun.logSize"); f != nil {
		fi := f.Info()
		g := f.Graph()
		okRets := successReturns(f)
		var infoObj, vObj, ckObj types.Object
		for _, s := range f.Calls(Callee{pkgRoot, "", "NewRFC6962Verifier"}) {
			if a, ok := s.Node.(*ast.AssignStmt); ok {
				vObj = objOf(fi, a.Lhs[0])
			}
			r, p, ok := fieldPath(fi, argByName(fi, s.Call, "name"))
			if ok && len(p) == 1 && p[0] == "Name" {
				infoObj = r
			}
			if _, ok := f.IsCallResult(argByName(fi, s.Call, "key"), 0, Callee{"crypto/x509", "", "ParsePKIXPublicKey"}); !ok {
				c.Bad(f.Name+" verifier", s.Pos(), "the verifier is not built from the log's published key")
			}
		}
		opens := f.Calls(Callee{pkgNote, "", "Open"})
		for _, s := range opens {
			vl, ok := ast.Unparen(s.Call.Args[1]).(*ast.CallExpr)
			if !ok || len(vl.Args) != 1 || objOf(fi, vl.Args[0]) != vObj || vObj == nil {
				c.Bad(f.Name+" verifier list", s.Pos(), "the checkpoint is not verified with exactly the log's verifier")
			}
		}
		c.requireGate(f.Name+" signature verified", f, opens, OutNil, okRets, "size returned only for a checkpoint signed by the log")
		for _, s := range f.Calls(Callee{pkgTorch, "", "ParseCheckpoint"}) {
			if a, ok := s.Node.(*ast.AssignStmt); ok {
				ckObj = objOf(fi, a.Lhs[0])
			}
		}
		isCkO := func(e ast.Expr) bool {
			r, p, ok := fieldPath(fi, e)
			return ok && r == ckObj && ckObj != nil && len(p) == 1 && p[0] == "Origin"
		}
		isName := func(e ast.Expr) bool {
			r, p, ok := fieldPath(fi, e)
			return ok && r == infoObj && infoObj != nil && len(p) == 1 && p[0] == "Name"
		}
		c.guardSuccess(f, "origin == log name", g.EdgesImplying(func(a Atom) bool { rel, ok := cmpRel(a, isCkO, isName); return ok && rel == relEQ }), okRets, "the size of a checkpoint of another origin can be used")
		for _, r := range okRets {
			rr, p, ok := fieldPath(fi, r.X.(*ast.ReturnStmt).Results[0])
			if !ok || rr != ckObj || len(p) != 1 || p[0] != "N" {
				c.Bad(f.Name+" result", r.Pos(), "the size returned is not the verified checkpoint's size")
			}
		}
	}
	if f := c.Fn("partial-aftersun.mirroredLogSize"); f != nil {
		fi := f.Info()
		g := f.Graph()
		okRets := successReturns(f)
		hashP := f.paramObj("originHash")
		isH := func(e ast.Expr) bool { return objOf(fi, e) == hashP }
		isOH := func(e ast.Expr) bool {
			_, ok := f.IsCallResult(e, -1, Callee{pkgWitness, "", "OriginHash"})
			return ok
		}
		c.guardSuccess(f, "origin hash == directory", g.EdgesImplying(func(a Atom) bool { rel, ok := cmpRel(a, isOH, isH); return ok && rel == relEQ }), okRets, "a checkpoint of another origin can decide what is deleted in this mirror directory")
	}
}

func c18d(c *Ctx) {
	m := c.Fn("partial-aftersun.main")
	if m == nil {
		return
	}
	info := m.Info()
	for _, s := range m.Calls(Callee{pkgAftersun, "", "cleanDir"}) {
		size := argByName(info, s.Call, "size")
		parser := argByName(info, s.Call, "parseTilePath")
		fn, _ := info.Uses[func() *ast.Ident {
			if se, ok := ast.Unparen(parser).(*ast.SelectorExpr); ok {
				return se.Sel
			}
			return identOf(parser)
		}()].(*types.Func)
		inst := "cleanDir parser at " + s.Pos()
		if fn == nil {
			c.Bad(inst, s.Pos(), "the path parser is not a known tile-path parser")
			continue
		}
		_, isLog := m.IsCallResult(size, 0, Callee{pkgAftersun, "", "logSize"})
		_, isMirror := m.IsCallResult(size, 0, Callee{pkgAftersun, "", "mirroredLogSize"})
		want := map[bool]string{true: pkgRoot, false: pkgTorch}[isLog]
		if (isLog || isMirror) && fn.Name() == "ParseTilePath" && fn.Pkg().Path() == want {
			c.OK(inst, shortPkg(want)+".ParseTilePath for this directory kind", []string{s.Pos()})
		} else {
			c.Bad(inst, s.Pos(), "this directory kind is cleaned with the wrong tile-path parser ("+fn.FullName()+")")
		}
	}
}

func c18e(c *Ctx) {
	n := 0
	for _, f := range c.P.Funcs(pkgAftersun) {
		if f.Body == nil {
			continue
		}
		for _, s := range f.Calls(Callee{pkgImmut, "", "Unset"}) {
			n++
			if f.Name != "partial-aftersun.overrideImmutable" {
				c.Bad("immutable.Unset in "+f.Name, s.Pos(), "the immutable flag is cleared outside overrideImmutable")
			}
		}
	}
	f := c.Fn("partial-aftersun.overrideImmutable")
	if f == nil {
		return
	}
	info := f.Info()
	g := f.Graph()
	uns := f.Calls(Callee{pkgImmut, "", "Unset"})
	if len(uns) == 0 {
		c.Unk(f.Name, "no Unset call")
		return
	}
	cut := f.Calls(Callee{"strings", "", "Cut"})
	if len(cut) == 1 {
		if sep, _ := constString(info, cut[0].Call.Args[1]); sep == ".p/" {
			t, _, _, ok := BoolEdges(cut[0])
			if ok {
				c.guardSuccess(f, "path has the form <full>.p/<width>", t, uns, "the flag can be cleared on a path that is not inside a .p directory")
			}
		}
	}
	c.requireGate(f.Name+" numeric width", f, f.Calls(Callee{"strconv", "", "Atoi"}), OutNil, uns, "flag cleared only for a numeric partial width")
	st := f.Calls(Callee{"os", "Root", "Stat"})
	c.requireGate(f.Name+" full tile exists", f, st, OutNil, uns, "flag cleared only when the full tile can be stat'ed")
	var fi types.Object
	for _, s := range st {
		if a, ok := s.Node.(*ast.AssignStmt); ok {
			fi = objOf(info, a.Lhs[0])
		}
		// the path stat'ed is the <full> part of the Cut
		if len(cut) == 1 {
			if a, ok := cut[0].Node.(*ast.AssignStmt); ok && objOf(info, s.Call.Args[0]) != objOf(info, a.Lhs[0]) {
				c.Bad(f.Name+" stat operand", s.Pos(), "the file checked is not the full tile of this partial")
			}
		}
	}
	isCall := func(method string) func(ast.Expr) bool {
		return func(e ast.Expr) bool {
			call, ok := ast.Unparen(e).(*ast.CallExpr)
			if !ok {
				return false
			}
			sel, ok := ast.Unparen(call.Fun).(*ast.SelectorExpr)
			return ok && sel.Sel.Name == method && objOf(info, sel.X) == fi && fi != nil
		}
	}
	c.guardSuccess(f, "full tile is not a directory", g.EdgesImplying(func(a Atom) bool { return isCall("IsDir")(a.E) && !a.Val }), uns, "the flag can be cleared when the 'full tile' is a directory")
	isZero := func(e ast.Expr) bool { v, ok := constInt(info, e); return ok && v == 0 }
	c.guardSuccess(f, "full tile is not empty", g.EdgesImplying(func(a Atom) bool { rel, ok := cmpRel(a, isCall("Size"), isZero); return ok && rel&relEQ == 0 }), uns, "the flag can be cleared although the full tile is empty")
	if n == 0 {
		c.Unk("Unset sites", "none")
	}
	_ = strings.Join
}

// ---------------------------------------------------------------------------
// C18.g TILE-SPAN: the divisor of the right-edge test is the number of leaves
// one tile of that level covers.

func c18g(c *Ctx) {
	f := c.Fn("partial-aftersun.cleanDir")
	if f == nil {
		return
	}
	c.touch(f)
	info := f.Info()
	sizeP := f.paramObj("size")
	inst := f.Name + " tile span"
	var div ast.Expr
	var at ast.Node
	ast.Inspect(f.Body, func(n ast.Node) bool {
		be, ok := n.(*ast.BinaryExpr)
		if ok && be.Op == token.QUO && sizeP != nil && objOf(info, be.X) == sizeP {
			div, at = be.Y, be
		}
		return true
	})
	if div == nil {
		c.Unk(inst, "the right-edge bound size / <tile span> was not found")
		return
	}
	var bad []string
	n := 0
	for lvl := int64(-2); lvl <= 6; lvl++ {
		lvl := lvl
		env := func(e ast.Expr) (int64, bool) {
			sel, ok := ast.Unparen(e).(*ast.SelectorExpr)
			if !ok || sel.Sel.Name != "L" {
				return 0, false
			}
			if tv, ok := info.Types[sel.X]; ok && namedIs(tv.Type, pkgTlog, "Tile") {
				return lvl, true
			}
			// inlined helper: the caller's expression re-rooted (types unknown for synthetic nodes)
			if _, isIdent := ast.Unparen(sel.X).(*ast.Ident); isIdent {
				if o := objOf(info, sel.X); o != nil && namedIs(o.Type(), pkgTlog, "Tile") {
					return lvl, true
				}
			}
			return 0, false
		}
		got, ok := foldInt(f, div, env, 0)
		if !ok {
			c.Unk(inst, fmt.Sprintf("the tile span expression %s cannot be folded for level %d", exprString(div), lvl))
			return
		}
		want := int64(1)
		for i := int64(0); i <= max(0, lvl); i++ {
			want *= 256
		}
		n++
		if got != want {
			bad = append(bad, fmt.Sprintf("level %d: %d leaves instead of %d", lvl, got, want))
		}
	}
	if len(bad) > 0 {
		c.Bad(inst, f.Pos(at), "the right-edge bound divides the tree size by something other than the number of leaves a tile of that level spans (256^(max(0,L)+1)): "+strings.Join(bad, "; "))
		return
	}
	c.add(Result{Instance: inst, Verdict: Discharged, Evals: n, Sites: []string{f.Pos(at)}, Detail: fmt.Sprintf("%s folds to 256^(max(0,L)+1) for every level -2..6", exprString(div))})
}
