package main

// C13 - the filesystem backend is atomic, durable, immutable-respecting and confined.

import (
	"fmt"
	"go/ast"
	"go/token"
	"go/types"
	"strings"
)

func init() {
	register(&Property{
		ID:    "C13",
		Title: "The filesystem backend is atomic, durable, immutable-respecting and confined",
		Explanation: "Defer-order, must-pass-through, guard, value-flow, who-may-call and loop-progress obligations on internal/durable (WriteFile, Mkdir, MkdirAll, fsyncAndClose) and ctlog.LocalBackend (Upload, Fetch, Discard, compareFile). " +
			"Decided: the three deferred steps of WriteFile are registered parent-sync, rename, file-sync before the data is written, so they run file-sync+close, rename, parent-sync+close; the temp file is created in the directory that is opened and synced and renamed onto the target; the helper syncs before closing and records the sync error; the rename happens only if no error occurred, else the temp file is removed; Mkdir syncs the new directory then its parent and MkdirAll creates parents first; LocalBackend never creates or renames files except through durable; every path it touches is Join(dir, Localize(key)) with the Localize error returned; an existing immutable object is compared and never rewritten; the comparison loop makes progress for every input length; the directory is created before the write. " +
			"NOT decided: kernel / file-system behaviour at power loss, reader/writer races (follow from rename atomicity given the ordering), very large objects.",
		Assumptions: []string{"fsync, rename(2) and O_EXCL temp files behave as POSIX/ext4/ZFS document", "deferred calls run in reverse registration order (Go specification)"},
		Obligations: []*Obligation{
			{ID: "C13.a", Title: "WRITE-ORDER", Template: "T9+T1", MinInst: 2,
				Rule: "in WriteFile the defers dominating the data write are, in registration order, parent-sync, rename, file-sync; the write is followed only by the return", Run: c13a},
			{ID: "C13.b", Title: "SAME-DIR", Template: "T6", MinInst: 2,
				Rule: "temp directory = Dir(name) = the opened parent; rename source = the temp file's name captured at defer time; rename target = name", Run: c13b},
			{ID: "C13.c", Title: "FSYNC-HELPER", Template: "T1", MinInst: 1,
				Rule: "in the sync helper Close is not reached before Sync unless an earlier error is recorded, and the Sync error is stored through the error pointer", Run: c13c},
			{ID: "C13.d", Title: "RENAME-GUARD", Template: "T2", MinInst: 2,
				Rule: "the rename is reachable only with no error so far; with an error the temp file is removed", Run: c13d},
			{ID: "C13.e", Title: "MKDIR-ORDER", Template: "T9+T1", MinInst: 2,
				Rule: "Mkdir opens the parent and defers its sync before creating the directory, then defers the new directory's sync; MkdirAll calls Mkdir only after the parent chain succeeded", Run: c13e},
			{ID: "C13.f", Title: "WRITES-VIA-DURABLE", Template: "T4", MinInst: 3,
				Rule: "no file-creating, renaming or permission-changing os call in package ctlog; only Open/ReadFile/Stat/Remove", Run: c13f},
			{ID: "C13.g", Title: "LOCALIZE", Template: "T6", MinInst: 3,
				Rule: "every file operation of LocalBackend.Upload/Fetch/Discard uses Join(dir, Localize(key)) and is reachable only after Localize succeeded", Run: c13g},
			{ID: "C13.h", Title: "IMMUTABLE-PATH", Template: "T2", MinInst: 2,
				Rule: "when the immutable object already exists (open succeeded) the write is unreachable and success requires the comparison to succeed", Run: c13h},
			{ID: "C13.i", Title: "READ-LOOP-PROGRESS", Template: "T10", MinInst: 1,
				Rule: "a Read-driven loop's buffer length has a static lower bound >= 1 (interval arithmetic over constants, len >= 0, min, max, +)", Run: c13i},
			{ID: "C13.k", Title: "COMPARE-COMPLETE", Template: "T2", MinInst: 2,
				Rule: "the comparison helper returns nil only on the edge where the read hit io.EOF (the whole existing file was read) and the remaining new data is empty; every read chunk is compared with the new data",
				Run:  c13k},
			{ID: "C13.j", Title: "MKDIR-BEFORE-WRITE", Template: "T1", MinInst: 1,
				Rule: "Upload's durable.WriteFile is reachable only after durable.MkdirAll of the same directory succeeded", Run: c13j},
		},
	})
}

func deferSites(f *Func) []Site {
	return f.Find(func(n ast.Node) bool { _, ok := n.(*ast.DeferStmt); return ok })
}

// classifyDurableDefer: "sync:<obj>" for fsyncAndClose(x, &err), "rename" for
// a literal calling os.Rename, "" otherwise.
func classifyDurableDefer(f *Func, d *ast.DeferStmt) (kind string, obj types.Object) {
	info := f.Info()
	if matchCallee(info, d.Call, Callee{pkgDurable, "", "fsyncAndClose"}) && len(d.Call.Args) == 2 {
		return "sync", objOf(info, d.Call.Args[0])
	}
	if lit, ok := ast.Unparen(d.Call.Fun).(*ast.FuncLit); ok {
		found := false
		ast.Inspect(lit.Body, func(n ast.Node) bool {
			if c, ok := n.(*ast.CallExpr); ok && matchCallee(info, c, Callee{"os", "", "Rename"}) {
				found = true
			}
			return true
		})
		if found {
			return "rename", nil
		}
	}
	return "", nil
}

func c13a(c *Ctx) {
	f := c.Fn("durable.WriteFile")
	if f == nil {
		return
	}
	info := f.Info()
	g := f.Graph()
	// anchors
	var parentObj, fileObj types.Object
	for _, s := range f.Calls(Callee{"os", "", "OpenFile"}) {
		if a, ok := s.Node.(*ast.AssignStmt); ok {
			parentObj = objOf(info, a.Lhs[0])
		}
	}
	for _, s := range f.Calls(Callee{"os", "", "CreateTemp"}) {
		if a, ok := s.Node.(*ast.AssignStmt); ok {
			fileObj = objOf(info, a.Lhs[0])
		}
	}
	writes := f.Find(func(n ast.Node) bool {
		call, ok := n.(*ast.CallExpr)
		if !ok || !matchCallee(info, call, Callee{"os", "File", "Write"}, Callee{"os", "File", "WriteString"}, Callee{"os", "File", "WriteAt"}) {
			return false
		}
		sel, _ := ast.Unparen(call.Fun).(*ast.SelectorExpr)
		return sel != nil && objOf(info, sel.X) == fileObj
	})
	if parentObj == nil || fileObj == nil || len(writes) == 0 {
		c.Unk(f.Name, "parent directory handle, temp file or data write not found")
		return
	}
	var dParent, dRename, dFile *Site
	for _, s := range deferSites(f) {
		s := s
		kind, obj := classifyDurableDefer(f, s.X.(*ast.DeferStmt))
		switch {
		case kind == "sync" && obj == parentObj:
			dParent = &s
		case kind == "sync" && obj == fileObj:
			dFile = &s
		case kind == "rename":
			dRename = &s
		}
	}
	inst := f.Name + " defer order"
	if dParent == nil || dRename == nil || dFile == nil {
		missing := []string{}
		if dParent == nil {
			missing = append(missing, "sync of the parent directory")
		}
		if dRename == nil {
			missing = append(missing, "rename")
		}
		if dFile == nil {
			missing = append(missing, "sync of the file")
		}
		c.Bad(inst, writes[0].Pos(), "WriteFile does not defer: "+strings.Join(missing, ", "))
		return
	}
	stopAt := func(s *Site) func(Point, ast.Node) bool {
		return func(p Point, _ ast.Node) bool { return p == s.P }
	}
	type ord struct {
		first, then *Site
		msg         string
	}
	bad := false
	for _, o := range []ord{
		{dParent, dRename, "the rename is registered before the parent-directory sync, so it would run after it: the new directory entry would not be durable when WriteFile returns"},
		{dRename, dFile, "the file sync is registered before the rename, so the rename would run first: the name could point to data that is not yet on disk"},
	} {
		if pt, _ := g.ReachableFromEntry(Cut{Stop: stopAt(o.first)}, atSite(*o.then)); pt != nil {
			c.Bad(inst, o.then.Pos(), o.msg)
			bad = true
		}
	}
	for _, d := range []*Site{dParent, dRename, dFile} {
		if pt, _ := g.ReachableFromEntry(Cut{Stop: stopAt(d)}, atAnySite(writes)); pt != nil {
			c.Bad(inst, writes[0].Pos(), "the data can be written on a path where the deferred step at "+d.Pos()+" was not registered")
			bad = true
		}
	}
	if !bad {
		c.add(Result{Instance: inst, Verdict: Discharged, Evals: 5, Sites: []string{dParent.Pos(), dRename.Pos(), dFile.Pos(), writes[0].Pos()},
			Detail:    "registered parent-sync, rename, file-sync (run in reverse) before the data write",
			Witnesses: []Witness{f.WitDelete(dParent.Node), f.WitDelete(dFile.Node)}})
	}
	// nothing but the return follows the write (no operation after the data write that the syncs would not cover... they run after anyway);
	// the write's error is returned so the rename is skipped on a short write
	inst2 := f.Name + " write error returned"
	ok := false
	for _, w := range writes {
		if o, found := resultVar(w, isErrorType); found && o == f.namedErrResult() {
			ok = true
		}
		if r, isRet := w.Node.(*ast.ReturnStmt); isRet && len(r.Results) > 0 {
			ok = true
		}
	}
	if ok {
		c.OK(inst2, "the write's error is assigned to the named result seen by the deferred steps", sitePositions(writes))
	} else {
		c.Bad(inst2, writes[0].Pos(), "the error of the data write is not stored in the function's error result: a failed write would still be renamed into place")
	}
}

func c13b(c *Ctx) {
	f := c.Fn("durable.WriteFile")
	if f == nil {
		return
	}
	info := f.Info()
	isDirOfName := func(e ast.Expr) bool {
		call, ok := ast.Unparen(f.ResolveDeep(e).E).(*ast.CallExpr)
		return ok && matchCallee(info, call, Callee{"path/filepath", "", "Dir"}) && len(call.Args) == 1 && f.IsParam(call.Args[0], "name")
	}
	var p []string
	var fileObj types.Object
	for _, s := range f.Calls(Callee{"os", "", "OpenFile"}) {
		if !isDirOfName(s.Call.Args[0]) {
			p = append(p, "the directory opened for syncing is not Dir(name)")
		}
	}
	for _, s := range f.Calls(Callee{"os", "", "CreateTemp"}) {
		if !isDirOfName(s.Call.Args[0]) {
			p = append(p, "the temp file is not created in Dir(name): the rename would cross directories (not atomic, wrong directory synced)")
		}
		if a, ok := s.Node.(*ast.AssignStmt); ok {
			fileObj = objOf(info, a.Lhs[0])
		}
	}
	if len(p) > 0 {
		c.Bad(f.Name+" directories", f.Pos(f.Decl), strings.Join(p, "; "))
	} else {
		c.OK(f.Name+" directories", "OpenFile(Dir(name)) and CreateTemp(Dir(name), ...)", nil)
	}
	// rename(src = closure param bound to f.Name(), dst = name)
	for _, s := range deferSites(f) {
		d := s.X.(*ast.DeferStmt)
		if k, _ := classifyDurableDefer(f, d); k != "rename" {
			continue
		}
		lit := c.P.FuncOfLit(ast.Unparen(d.Call.Fun).(*ast.FuncLit))
		inst := f.Name + " rename operands"
		okSrc, okDst := false, false
		for _, r := range lit.Calls(Callee{"os", "", "Rename"}) {
			src, dst := r.Call.Args[0], r.Call.Args[1]
			// src: the literal's parameter, whose argument at the defer is <temp file>.Name()
			if len(lit.Type.Params.List) == 1 && len(lit.Type.Params.List[0].Names) == 1 && objOf(info, src) == info.Defs[lit.Type.Params.List[0].Names[0]] && len(d.Call.Args) == 1 {
				if call, ok := ast.Unparen(d.Call.Args[0]).(*ast.CallExpr); ok {
					if sel, ok := ast.Unparen(call.Fun).(*ast.SelectorExpr); ok && sel.Sel.Name == "Name" && objOf(info, sel.X) == fileObj {
						okSrc = true
					}
				}
			}
			// ... or a variable captured by the literal whose single definition is <temp file>.Name()
			if !okSrc {
				if call, ok := ast.Unparen(lit.ResolveDeep(src).E).(*ast.CallExpr); ok {
					if sel, ok := ast.Unparen(call.Fun).(*ast.SelectorExpr); ok && sel.Sel.Name == "Name" && objOf(info, sel.X) == fileObj && fileObj != nil {
						okSrc = true
					}
				}
			}
			if f.paramObj("name") == objOf(info, dst) {
				okDst = true
			}
		}
		if okSrc && okDst {
			c.OK(inst, "Rename(temp file's name, name)", []string{s.Pos()})
		} else {
			c.Bad(inst, s.Pos(), fmt.Sprintf("the rename does not move the temp file onto the target (source ok=%v, target ok=%v)", okSrc, okDst))
		}
	}
}

func c13c(c *Ctx) {
	f := c.Fn("durable.fsyncAndClose")
	if f == nil {
		return
	}
	info := f.Info()
	g := f.Graph()
	syncs := f.Calls(Callee{"os", "File", "Sync"})
	closes := f.Calls(Callee{"os", "File", "Close"})
	errP := f.paramObj("err")
	if len(syncs) == 0 {
		c.Bad(f.Name, f.Pos(f.Decl), "the helper closes the file without syncing it")
		return
	}
	if len(closes) == 0 || errP == nil {
		c.Unk(f.Name, "Close call or error pointer parameter not found")
		return
	}
	isDeref := func(e ast.Expr) bool {
		st, ok := ast.Unparen(e).(*ast.StarExpr)
		return ok && objOf(info, st.X) == errP
	}
	// sync error stored through the pointer
	stored := false
	for _, s := range syncs {
		if a, ok := s.Node.(*ast.AssignStmt); ok && len(a.Lhs) == 1 && isDeref(a.Lhs[0]) {
			stored = true
		}
	}
	if !stored {
		c.Bad(f.Name, syncs[0].Pos(), "the result of Sync is not stored through the error pointer: an fsync failure would be lost")
		return
	}
	prior := g.EdgesImplying(func(a Atom) bool {
		eq, ok := isNilCmp(info, a.E, isDeref)
		return ok && eq != a.Val
	})
	if pt, _ := g.ReachableFromEntry(Cut{Edges: prior, Stop: func(p Point, _ ast.Node) bool { return p == syncs[0].P }}, atAnySite(closes)); pt != nil {
		c.Bad(f.Name, closes[0].Pos(), "the file can be closed without having been synced although no earlier error occurred")
		return
	}
	c.add(Result{Instance: f.Name, Verdict: Discharged, Sites: []string{syncs[0].Pos(), closes[0].Pos()}, Evals: 2, Detail: "Sync (error stored) precedes Close unless an earlier error is recorded", Witnesses: []Witness{f.WitDelete(syncs[0].Node)}})
}

func c13d(c *Ctx) {
	f := c.Fn("durable.WriteFile")
	if f == nil {
		return
	}
	errObj := f.namedErrResult()
	for _, s := range deferSites(f) {
		d := s.X.(*ast.DeferStmt)
		if k, _ := classifyDurableDefer(f, d); k != "rename" {
			continue
		}
		lit := c.P.FuncOfLit(ast.Unparen(d.Call.Fun).(*ast.FuncLit))
		c.touch(lit)
		info := lit.Info()
		g := lit.Graph()
		isErr := func(e ast.Expr) bool { return objOf(info, e) == errObj && errObj != nil }
		okE := g.EdgesImplying(func(a Atom) bool { eq, ok := isNilCmp(info, a.E, isErr); return ok && eq == a.Val })
		badE := g.EdgesImplying(func(a Atom) bool { eq, ok := isNilCmp(info, a.E, isErr); return ok && eq != a.Val })
		ren := lit.Calls(Callee{"os", "", "Rename"})
		rem := lit.Calls(Callee{"os", "", "Remove"})
		inst := f.Name + " rename only without error"
		if len(okE) == 0 {
			c.Bad(inst, ren[0].Pos(), "the rename is not conditional on the absence of an error: a partially written or unsynced temp file could be published")
		} else if pt, _ := g.ReachableFromEntry(Cut{Edges: okE}, atAnySite(ren)); pt != nil {
			c.Bad(inst, ren[0].Pos(), "the rename is reachable although an error occurred")
		} else {
			c.add(Result{Instance: inst, Verdict: Discharged, Sites: sitePositions(ren), Detail: "Rename unreachable unless err == nil", Witnesses: lit.WitEdges(necessaryEdges(g, g.Entry(), okE, ren, Cut{}))})
		}
		// rename's own error is recorded
		recorded := false
		for _, r := range ren {
			if a, ok := r.Node.(*ast.AssignStmt); ok && len(a.Lhs) == 1 && objOf(info, a.Lhs[0]) == errObj {
				recorded = true
			}
		}
		if !recorded {
			c.Bad(f.Name+" rename error recorded", ren[0].Pos(), "the error of the rename is not stored in the function's result")
		} else {
			c.OK(f.Name+" rename error recorded", "err = os.Rename(...)", sitePositions(ren))
		}
		inst2 := f.Name + " temp removed on error"
		if len(rem) == 0 {
			c.Bad(inst2, s.Pos(), "the temp file is never removed on failure")
		} else if len(badE) > 0 {
			// from each error edge the removal must be reached before the end
			missing := false
			for e := range badE {
				if pt, _ := g.Reach(EdgeStart(e), Cut{}, atAnySite(rem)); pt == nil {
					missing = true
				}
			}
			if missing {
				c.Bad(inst2, rem[0].Pos(), "an error path of the deferred step does not remove the temp file")
			} else {
				c.OK(inst2, "Remove(temp) on the error edge", sitePositions(rem))
			}
		} else {
			c.Bad(inst2, rem[0].Pos(), "the temp file removal is not tied to the error state")
		}
	}
}

func c13e(c *Ctx) {
	f := c.Fn("durable.Mkdir")
	if f != nil {
		info := f.Info()
		g := f.Graph()
		var parentObj, dirObj types.Object
		opens := f.Calls(Callee{"os", "", "OpenFile"})
		mk := f.Calls(Callee{"os", "", "Mkdir"})
		pathP := f.paramObj("path")
		for _, s := range opens {
			a, ok := s.Node.(*ast.AssignStmt)
			if !ok {
				continue
			}
			arg := f.ResolveDeep(s.Call.Args[0]).E
			if call, isCall := ast.Unparen(arg).(*ast.CallExpr); isCall && matchCallee(info, call, Callee{"path/filepath", "", "Dir"}) && objOf(info, call.Args[0]) == pathP {
				parentObj = objOf(info, a.Lhs[0])
			} else if objOf(info, arg) == pathP {
				dirObj = objOf(info, a.Lhs[0])
			}
		}
		var dParent, dDir *Site
		for _, s := range deferSites(f) {
			s := s
			k, o := classifyDurableDefer(f, s.X.(*ast.DeferStmt))
			if k == "sync" && o == parentObj && parentObj != nil {
				dParent = &s
			}
			if k == "sync" && o == dirObj && dirObj != nil {
				dDir = &s
			}
		}
		inst := f.Name + " order"
		switch {
		case len(mk) == 0 || dParent == nil || dDir == nil:
			c.Bad(inst, f.Pos(f.Decl), "Mkdir does not sync both the new directory and its parent")
		default:
			bad := false
			stop := func(s *Site) func(Point, ast.Node) bool {
				return func(p Point, _ ast.Node) bool { return p == s.P }
			}
			if pt, _ := g.ReachableFromEntry(Cut{Stop: stop(dParent)}, atAnySite(mk)); pt != nil {
				c.Bad(inst, mk[0].Pos(), "the directory is created before the parent's sync is registered")
				bad = true
			}
			if pt, _ := g.ReachableFromEntry(Cut{Stop: stop(dParent)}, atSite(*dDir)); pt != nil {
				c.Bad(inst, dDir.Pos(), "the new directory's sync is registered before the parent's, so the parent would be synced first")
				bad = true
			}
			// every successful return passes the new directory's sync registration
			if pt, _ := g.ReachableFromEntry(Cut{Stop: stop(dDir)}, atAnySite(successReturns(f))); pt != nil {
				c.Bad(inst, dDir.Pos(), "Mkdir can succeed without syncing the new directory")
				bad = true
			}
			if !bad {
				c.add(Result{Instance: inst, Verdict: Discharged, Evals: 3, Sites: []string{dParent.Pos(), mk[0].Pos(), dDir.Pos()},
					Detail: "open parent + defer sync; mkdir; open dir + defer sync (runs dir sync, then parent sync)", Witnesses: []Witness{f.WitDelete(dParent.Node), f.WitDelete(dDir.Node)}})
			}
		}
	}
	ma := c.Fn("durable.MkdirAll")
	if ma != nil {
		info := ma.Info()
		g := ma.Graph()
		rec := ma.Calls(Callee{pkgDurable, "", "MkdirAll"})
		mk := ma.Calls(Callee{pkgDurable, "", "Mkdir"})
		inst := ma.Name + " parents first"
		if len(rec) == 0 || len(mk) == 0 {
			c.Bad(inst, ma.Pos(ma.Decl), "MkdirAll does not create the parent chain before the directory")
			return
		}
		succ, _ := gateEdges(rec, OutNil)
		// bypass: the false edge of the condition guarding the recursive call
		bypass := map[Edge]bool{}
		if ifs := enclosingIf(ma.Body, rec[0].Call); ifs != nil {
			for _, e := range g.CondEdges() {
				if Cond(e.From) == ifs.Cond && e.Idx == 1 {
					bypass[e] = true
				}
			}
		}
		if len(succ) == 0 {
			c.Bad(inst, rec[0].Pos(), "the error of creating the parent chain is not tested")
		} else if pt, _ := g.ReachableFromEntry(Cut{Edges: unionEdges(succ, bypass)}, atAnySite(mk)); pt != nil {
			c.Bad(inst, mk[0].Pos(), "the directory can be created although creating its parents failed")
		} else {
			// the recursive argument is Dir(path)
			okArg := false
			if call, ok := ast.Unparen(ma.ResolveDeep(rec[0].Call.Args[0]).E).(*ast.CallExpr); ok && matchCallee(info, call, Callee{"path/filepath", "", "Dir"}) {
				okArg = true
			}
			if okArg {
				c.add(Result{Instance: inst, Verdict: Discharged, Evals: 2, Sites: []string{rec[0].Pos(), mk[0].Pos()}, Detail: "Mkdir(path) only after MkdirAll(Dir(path)) succeeded (or at the root)", Witnesses: ma.WitEdges(succ)})
			} else {
				c.Bad(inst, rec[0].Pos(), "the recursive call is not on Dir(path)")
			}
		}
	}
}

func c13f(c *Ctx) {
	allowed := map[string]bool{"Open": true, "ReadFile": true, "Stat": true, "Remove": true, "IsNotExist": true, "IsExist": true, "Lstat": true, "ReadDir": true, "Getenv": true}
	n := 0
	for _, f := range c.P.Funcs(pkgCtlog) {
		if f.Body == nil {
			continue
		}
		for _, s := range f.Find(func(x ast.Node) bool {
			call, ok := x.(*ast.CallExpr)
			if !ok {
				return false
			}
			fn, ok := calleeObj(f.Info(), call).(*types.Func)
			return ok && fn.Pkg() != nil && (fn.Pkg().Path() == "os" || fn.Pkg().Path() == "io/ioutil") && recvName(fn) == ""
		}) {
			n++
			c.touch(f)
			fn := calleeObj(f.Info(), s.Call).(*types.Func)
			inst := fmt.Sprintf("%s: os.%s", f.Name, fn.Name())
			if allowed[fn.Name()] {
				c.OK(inst, "read-only or delete operation", []string{s.Pos()})
			} else {
				c.Bad(inst, s.Pos(), "package ctlog modifies the file system with os."+fn.Name()+" instead of internal/durable: the result is not synced / not atomic")
			}
		}
		// writes through an *os.File
		for _, s := range f.Calls(Callee{"os", "File", "Write"}, Callee{"os", "File", "WriteString"}, Callee{"os", "File", "Truncate"}, Callee{"os", "File", "WriteAt"}, Callee{"os", "File", "Chmod"}) {
			c.Bad(f.Name+": (*os.File) write", s.Pos(), "package ctlog writes a file directly instead of through internal/durable")
		}
	}
	// the write of Upload is durable.WriteFile
	if up := c.Fn("ctlog.(*LocalBackend).Upload"); up != nil {
		if len(up.Calls(Callee{pkgDurable, "", "WriteFile"})) > 0 {
			c.OK(up.Name+" writes with durable.WriteFile", "", nil)
		} else {
			c.Bad(up.Name+" writes with durable.WriteFile", up.Pos(up.Decl), "LocalBackend.Upload does not write through durable.WriteFile")
		}
	}
	_ = n
}

func c13g(c *Ctx) {
	for _, name := range []string{"Upload", "Fetch", "Discard"} {
		f := c.Fn("ctlog.(*LocalBackend)." + name)
		if f == nil {
			continue
		}
		info := f.Info()
		recv := f.recvObj()
		loc := f.Calls(Callee{"path/filepath", "", "Localize"})
		inst := f.Name + " localized paths"
		if len(loc) != 1 || !f.IsParam(loc[0].Call.Args[0], "key") {
			c.Bad(inst, f.Pos(f.Decl), "the key is not passed through filepath.Localize")
			continue
		}
		isGoodPath := func(e ast.Expr) bool {
			v := f.ResolveDeep(e)
			call, ok := ast.Unparen(v.E).(*ast.CallExpr)
			if !ok {
				return false
			}
			if matchCallee(info, call, Callee{"path/filepath", "", "Dir"}) && len(call.Args) == 1 {
				v = f.ResolveDeep(call.Args[0])
				call, ok = ast.Unparen(v.E).(*ast.CallExpr)
				if !ok {
					return false
				}
			}
			if !matchCallee(info, call, Callee{"path/filepath", "", "Join"}) || len(call.Args) != 2 {
				return false
			}
			if !f.IsFieldPathOf(call.Args[0], func(o types.Object) bool { return o == recv }, "dir") {
				return false
			}
			_, ok = f.IsCallResult(call.Args[1], 0, Callee{"path/filepath", "", "Localize"})
			return ok
		}
		var ops []Site
		bad := false
		// every os / durable call taking a path string as first argument
		for _, fx := range append([]*Func{f}, allLits(f)...) {
			for _, s := range fx.Find(func(x ast.Node) bool {
				call, ok := x.(*ast.CallExpr)
				if !ok || len(call.Args) == 0 {
					return false
				}
				fn, ok := calleeObj(info, call).(*types.Func)
				if !ok || fn.Pkg() == nil || recvName(fn) != "" {
					return false
				}
				if fn.Pkg().Path() != "os" && fn.Pkg().Path() != pkgDurable {
					return false
				}
				tv, ok := info.Types[call.Args[0]]
				return ok && isStringType(tv.Type)
			}) {
				if fx == f {
					ops = append(ops, s)
				}
				if !isGoodPath(s.Call.Args[0]) {
					c.Bad(inst, s.Pos(), "a file operation uses a path that is not Join(s.dir, Localize(key)): "+exprString(s.Call.Args[0]))
					bad = true
				}
			}
		}
		if bad {
			continue
		}
		if len(ops) == 0 {
			c.Unk(inst, "no file operation found")
			continue
		}
		c.requireGate(inst, f, loc, OutNil, ops, "file operations after Localize succeeded")
	}
}

func isStringType(t types.Type) bool {
	b, ok := t.Underlying().(*types.Basic)
	return ok && b.Info()&types.IsString != 0
}

func c13h(c *Ctx) {
	f := c.Fn("ctlog.(*LocalBackend).Upload")
	if f == nil {
		return
	}
	info := f.Info()
	g := f.Graph()
	allOpens := f.Calls(Callee{"os", "", "Open"})
	writes := f.Calls(Callee{pkgDurable, "", "WriteFile"})
	cmp := f.Calls(Callee{pkgCtlog, "", "compareFile"})
	// the probe is an Open made before the write (one made after it - to set the immutable flag on the
	// file just written - probes nothing)
	var opens []Site
	for _, o := range allOpens {
		if pt, _ := g.Reach(o.After(), Cut{}, atAnySite(writes)); pt != nil {
			opens = append(opens, o)
		}
	}
	if len(opens) == 0 || len(writes) == 0 {
		c.Bad(f.Name+" existing object", f.Pos(f.Decl), "Upload does not probe for an existing object before writing an immutable one")
		return
	}
	// the probe is on the immutable branch: reachable only when opts.Immutable
	exists, _ := gateEdges(opens, OutNil)
	if len(exists) == 0 {
		c.Bad(f.Name+" existing object", opens[0].Pos(), "the result of probing for an existing object is not used")
		return
	}
	inst := f.Name + " existing object never rewritten"
	bad := false
	for e := range exists {
		if pt, _ := g.Reach(EdgeStart(e), Cut{}, atAnySite(writes)); pt != nil {
			c.Bad(inst, writes[0].Pos(), "an existing immutable object can be overwritten")
			bad = true
		}
	}
	if !bad {
		c.add(Result{Instance: inst, Verdict: Discharged, Sites: sitePositions(append(opens, writes...)), Detail: "WriteFile unreachable from the edge where the object exists"})
	}
	inst2 := f.Name + " existing object compared"
	if len(cmp) == 0 {
		c.Bad(inst2, opens[0].Pos(), "an existing immutable object is accepted without comparing its content")
		return
	}
	same, _ := gateEdges(cmp, OutNil)
	bad = false
	for e := range exists {
		for _, r := range g.ReturnsFrom(EdgeStart(e), Cut{Edges: same}) {
			ex := f.errResultExpr(r)
			if ex == nil || f.mayBeNilError(ex) {
				c.Bad(inst2, f.Pos(r), "Upload can report success for an existing immutable object whose content differs")
				bad = true
			}
		}
	}
	// compared against the uploaded data and the opened file
	for _, s := range cmp {
		if len(s.Call.Args) != 2 || !f.IsParam(s.Call.Args[1], "data") {
			c.Bad(inst2, s.Pos(), "the existing object is not compared with the uploaded data")
			bad = true
		}
	}
	// the probe happens only for immutable uploads and before the write
	isImm := func(e ast.Expr) bool {
		_, p, ok := fieldPath(info, e)
		return ok && len(p) == 1 && p[0] == "Immutable"
	}
	imm := g.EdgesImplying(func(a Atom) bool { return isImm(a.E) && a.Val })
	if pt, _ := g.ReachableFromEntry(Cut{Edges: imm}, atAnySite(opens)); pt != nil || len(imm) == 0 {
		c.Bad(inst2, opens[0].Pos(), "the existing-object probe is not tied to opts.Immutable")
		bad = true
	}
	if !bad {
		c.add(Result{Instance: inst2, Verdict: Discharged, Evals: 3, Sites: sitePositions(cmp), Detail: "exists => success only if compareFile(f, data) == nil", Witnesses: f.WitEdges(same)})
	}
}

// lowerBound computes a static lower bound of integer expression e.
func (f *Func) lowerBound(e ast.Expr, depth int) (int64, bool) {
	info := f.Info()
	if depth > 8 {
		return 0, false
	}
	if v, ok := constInt(info, e); ok {
		return v, true
	}
	switch x := ast.Unparen(e).(type) {
	case *ast.CallExpr:
		if isBuiltinCall(info, x, "len") || isBuiltinCall(info, x, "cap") {
			return 0, true
		}
		if isBuiltinCall(info, x, "min") {
			var m int64
			for i, a := range x.Args {
				v, ok := f.lowerBound(a, depth+1)
				if !ok {
					return 0, false
				}
				if i == 0 || v < m {
					m = v
				}
			}
			return m, true
		}
		if isBuiltinCall(info, x, "max") {
			var m int64
			any := false
			for _, a := range x.Args {
				if v, ok := f.lowerBound(a, depth+1); ok && (!any || v > m) {
					m, any = v, true
				}
			}
			return m, any
		}
		if tv, ok := info.Types[x.Fun]; ok && tv.IsType() && len(x.Args) == 1 {
			return f.lowerBound(x.Args[0], depth+1)
		}
	case *ast.BinaryExpr:
		if x.Op == token.ADD {
			a, ok1 := f.lowerBound(x.X, depth+1)
			b, ok2 := f.lowerBound(x.Y, depth+1)
			return a + b, ok1 && ok2
		}
		if x.Op == token.MUL {
			a, ok1 := f.lowerBound(x.X, depth+1)
			b, ok2 := f.lowerBound(x.Y, depth+1)
			if ok1 && ok2 && a >= 0 && b >= 0 {
				return a * b, true
			}
		}
	case *ast.Ident:
		v := f.Resolve(x)
		if v.E != ast.Expr(x) && v.Idx < 0 {
			return f.lowerBound(v.E, depth+1)
		}
	}
	return 0, false
}

func c13i(c *Ctx) {
	n := 0
	for _, f := range c.P.Funcs(pkgCtlog) {
		if f.Body == nil {
			continue
		}
		info := f.Info()
		ast.Inspect(f.Body, func(x ast.Node) bool {
			loop, ok := x.(*ast.ForStmt)
			if !ok {
				return true
			}
			if _, isLit := x.(*ast.FuncLit); isLit {
				return false
			}
			var reads []*ast.CallExpr
			ast.Inspect(loop.Body, func(y ast.Node) bool {
				if call, ok := y.(*ast.CallExpr); ok {
					if matchCallee(info, call, Callee{"io", "", "ReadFull"}, Callee{"io", "", "ReadAtLeast"}) && len(call.Args) >= 2 {
						// a fill-the-buffer read: the last, short chunk is reported as
						// io.ErrUnexpectedEOF, which must be handled like EOF
						n++
						c.touch(f)
						mentions := false
						ast.Inspect(loop.Body, func(z ast.Node) bool {
							if se, ok := z.(*ast.SelectorExpr); ok && se.Sel.Name == "ErrUnexpectedEOF" {
								mentions = true
							}
							return true
						})
						if mentions {
							c.OK(f.Name+" read loop short chunk", "io.ErrUnexpectedEOF handled", []string{f.Pos(call)})
						} else {
							c.Bad(f.Name+" read loop short chunk", f.Pos(call), "the loop reads with "+exprString(call.Fun)+" but treats io.ErrUnexpectedEOF (a final chunk shorter than the buffer) as an error: identical content longer than one buffer and not a multiple of it would be reported as different")
						}
						reads = append(reads, &ast.CallExpr{Fun: call.Fun, Args: []ast.Expr{call.Args[1]}, Lparen: call.Lparen, Rparen: call.Rparen})
						return true
					}
					if fn, ok := calleeObj(info, call).(*types.Func); ok && fn.Name() == "Read" && len(call.Args) == 1 {
						if tv, ok := info.Types[call.Args[0]]; ok {
							if sl, ok := tv.Type.Underlying().(*types.Slice); ok {
								if b, ok := sl.Elem().Underlying().(*types.Basic); ok && b.Kind() == types.Byte {
									reads = append(reads, call)
								}
							}
						}
					}
				}
				return true
			})
			for _, rd := range reads {
				n++
				c.touch(f)
				inst := f.Name + " read loop"
				buf := f.ResolveDeep(rd.Args[0])
				mk, ok := ast.Unparen(buf.E).(*ast.CallExpr)
				if !ok || !isBuiltinCall(info, mk, "make") || len(mk.Args) < 2 {
					c.Unk(inst, "cannot find the allocation of the read buffer at "+f.Pos(rd))
					continue
				}
				lb, ok := f.lowerBound(mk.Args[1], 0)
				if !ok {
					c.Unk(inst, "cannot bound the buffer length "+exprString(mk.Args[1]))
					continue
				}
				if lb >= 1 {
					c.add(Result{Instance: inst, Verdict: Discharged, Sites: []string{f.Pos(rd)}, Detail: fmt.Sprintf("buffer length %s >= %d", exprString(mk.Args[1]), lb)})
				} else {
					c.Bad(inst, f.Pos(mk), fmt.Sprintf("the read buffer length %s can be %d: Read with an empty buffer returns (0, nil) forever, so the loop never terminates (re-uploading an identical empty immutable object hangs)", exprString(mk.Args[1]), lb))
				}
			}
			return true
		})
	}
	if n == 0 {
		c.Unk("read loops", "no Read-driven loop found in package ctlog (expected compareFile's)")
	}
}

func c13j(c *Ctx) {
	f := c.Fn("ctlog.(*LocalBackend).Upload")
	if f == nil {
		return
	}
	mk := f.Calls(Callee{pkgDurable, "", "MkdirAll"})
	wr := f.Calls(Callee{pkgDurable, "", "WriteFile"})
	if len(mk) == 0 {
		c.Bad(f.Name+" mkdir before write", f.Pos(f.Decl), "the object's directory is not created durably before the write")
		return
	}
	// same directory: MkdirAll(Dir(path)) and WriteFile(path)
	info := f.Info()
	okDir := false
	if call, ok := ast.Unparen(f.ResolveDeep(mk[0].Call.Args[0]).E).(*ast.CallExpr); ok && matchCallee(info, call, Callee{"path/filepath", "", "Dir"}) && len(wr) > 0 {
		okDir = f.SameValue(call.Args[0], wr[0].Call.Args[0])
	}
	if !okDir {
		c.Bad(f.Name+" mkdir before write", mk[0].Pos(), "the directory created is not the directory of the file written")
		return
	}
	c.requireGate(f.Name+" mkdir before write", f, mk, OutNil, wr, "write after the directory chain was created and synced")
}

func c13k(c *Ctx) {
	up := c.Fn("ctlog.(*LocalBackend).Upload")
	if up == nil {
		return
	}
	var cmpf *Func
	for _, s := range up.Calls(Callee{pkgCtlog, "", "compareFile"}) {
		if fn, ok := calleeObj(up.Info(), s.Call).(*types.Func); ok {
			cmpf = c.P.FuncOf(fn)
		}
	}
	if cmpf == nil {
		c.Unk("comparison helper", "Upload does not call a comparison helper")
		return
	}
	f := cmpf
	c.touch(f)
	info := f.Info()
	g := f.Graph()
	okRets := successReturns(f)
	dataP := f.paramObj("data")
	if len(okRets) == 0 || dataP == nil {
		c.Unk(f.Name, "no nil return / data parameter")
		return
	}
	// the read's error variable
	var errObj types.Object
	var reads []Site
	for _, s := range f.Find(func(n ast.Node) bool {
		call, ok := n.(*ast.CallExpr)
		if !ok {
			return false
		}
		fn, ok := calleeObj(info, call).(*types.Func)
		return ok && (fn.Name() == "Read" || fn.Name() == "ReadFull" || fn.Name() == "ReadAtLeast")
	}) {
		reads = append(reads, s)
		if o, ok := resultVar(s, isErrorType); ok {
			errObj = o
		}
	}
	if errObj == nil {
		c.Bad(f.Name+" reads to EOF", f.Pos(f.Decl), "the existing file is not read")
		return
	}
	isErr := func(e ast.Expr) bool { return objOf(info, e) == errObj }
	isEOF := func(e ast.Expr) bool {
		sel, ok := ast.Unparen(e).(*ast.SelectorExpr)
		return ok && (sel.Sel.Name == "EOF" || sel.Sel.Name == "ErrUnexpectedEOF")
	}
	eof := g.EdgesImplying(func(a Atom) bool {
		if rel, ok := cmpRel(a, isErr, isEOF); ok && rel == relEQ {
			return true
		}
		return a.Val && isSentinelTest(info, a.E, isErr, isEOF)
	})
	c.guardSuccess(f, "file read to EOF", eof, okRets, "the comparison can report equality without having read the existing file to its end: a longer existing object would be accepted as identical to its prefix")
	isLenData := func(e ast.Expr) bool {
		call, ok := ast.Unparen(e).(*ast.CallExpr)
		return ok && isBuiltinCall(info, call, "len") && objOf(info, call.Args[0]) == dataP
	}
	isZero := func(e ast.Expr) bool { v, ok := constInt(info, e); return ok && v == 0 }
	empty := g.EdgesImplying(func(a Atom) bool { rel, ok := cmpRel(a, isLenData, isZero); return ok && rel == relEQ })
	c.guardSuccess(f, "no new data left", empty, okRets, "the comparison can report equality although part of the new data was not matched against the file")
	// every chunk is compared: from a read, reaching the next read or a nil return passes bytes.Equal's "equal" edge
	eqs := f.Find(func(n ast.Node) bool {
		call, ok := n.(*ast.CallExpr)
		return ok && matchCallee(info, call, Callee{"bytes", "", "Equal"})
	})
	if len(eqs) == 0 {
		c.Bad(f.Name+" chunks compared", reads[0].Pos(), "read chunks are never compared with the new data")
		return
	}
	same := g.EdgesImplying(func(a Atom) bool {
		call, ok := ast.Unparen(a.E).(*ast.CallExpr)
		if ok && a.Val && call == eqs[0].Call {
			return true
		}
		// false edge of `n > len(data) || !bytes.Equal(..)`
		return false
	})
	bad := false
	for _, r := range reads {
		if pt, _ := g.Reach(r.After(), Cut{Edges: same}, atAnySite(append(append([]Site{}, okRets...), reads...))); pt != nil {
			bad = true
		}
	}
	// ... and the whole chunk takes part in the comparison: a chunk longer than what is left of the
	// new data is a difference (seed C13-r1 clamped the compared length to the shorter of the two, so
	// an existing object was "equal" to any of its prefixes)
	var nObj types.Object
	for _, r := range reads {
		if a, ok := r.Node.(*ast.AssignStmt); ok && len(a.Lhs) == 2 {
			nObj = objOf(info, a.Lhs[0])
		}
	}
	var isChunkLen func(e ast.Expr) bool
	isChunkLen = func(e ast.Expr) bool {
		if o := objOf(info, f.copyRoot(e)); o != nil && o == nObj {
			return true
		}
		v := ast.Unparen(f.ResolveDeep(e).E)
		if o := objOf(info, v); o != nil && o == nObj {
			return true
		}
		if call, ok := v.(*ast.CallExpr); ok && isBuiltinCall(info, call, "len") && len(call.Args) == 1 {
			if sl, isSl := ast.Unparen(f.ResolveDeep(call.Args[0]).E).(*ast.SliceExpr); isSl && sl.Low == nil && sl.High != nil {
				return isChunkLen(sl.High)
			}
		}
		return false
	}
	fits := g.EdgesImplying(func(a Atom) bool { rel, ok := cmpRel(a, isChunkLen, isLenData); return ok && rel&relGT == 0 })
	if nObj == nil || len(fits) == 0 {
		c.Bad(f.Name+" whole chunk compared", eqs[0].Pos(), "nothing rejects a chunk of the existing file that is longer than the remaining new data: an existing object would be accepted as identical to any prefix of it")
	} else {
		bad2 := false
		for _, r := range reads {
			if pt, _ := g.Reach(r.After(), Cut{Edges: fits}, atAnySite(append(append([]Site{}, okRets...), reads...))); pt != nil {
				bad2 = true
			}
		}
		if bad2 {
			c.Bad(f.Name+" whole chunk compared", eqs[0].Pos(), "after reading a chunk longer than the remaining new data the comparison can continue or succeed")
		} else {
			c.add(Result{Instance: f.Name + " whole chunk compared", Verdict: Discharged, Evals: len(reads), Sites: sitePositions(reads), Detail: "chunk length > len(data) never reaches the next read or success", Witnesses: f.WitEdges(fits)})
		}
	}
	if bad || len(same) == 0 {
		c.Bad(f.Name+" chunks compared", eqs[0].Pos(), "after a read the function can continue (or succeed) without the chunk having been found equal to the new data")
	} else {
		c.add(Result{Instance: f.Name + " chunks compared", Verdict: Discharged, Evals: len(reads), Sites: sitePositions(eqs), Detail: "from each read, the next read / success is reachable only on the bytes.Equal edge", Witnesses: f.WitEdges(same)})
	}
}
