package main

// C10 - tile, leaf, extension and tile-path encodings are canonical bijections.

import (
	"fmt"
	"go/ast"
	"go/token"
	"go/types"
	"sort"
	"strings"
)

func init() {
	register(&Property{
		ID:    "C10",
		Title: "Tile, leaf, extension and tile-path encodings are canonical bijections",
		Explanation: "Writer/reader schema agreement by abstract interpretation of the cryptobyte Builder/String code over the domain 'sequence of wire tokens' (path-wise, keyed by the discriminating conditions), a frozen RFC 6962 MerkleTreeLeaf table, guard dominance for range checks and strictness, shift-table agreement for the 40-bit codec, tile-path prefix tables, and call-graph non-reachability of panics from the decoders. " +
			"Decided: every field AppendTileLeaf writes is read back with the same width/prefix/constant by readTileLeaf on the matching path and vice versa; MerkleTreeLeaf has the RFC 6962 layout; MarshalExtensions, ParseExtensions and the extension branch of readTileLeaf agree; the extension writer is guarded by 0 <= index < 2^40; every parsed substring is fully consumed on success and timestamps above MaxInt64 are rejected; no panic is reachable from the decoders and constant indexes follow a successful fixed-length read; TilePath and ParseTilePath use the same prefix table with the longer prefix tested first. " +
			"NOT decided: round-trip equality for all values and totality on all byte strings (runtime), tlog's path canonicity.",
		Assumptions: []string{"cryptobyte Builder/String implement TLS presentation-language primitives as documented", "tlog.Tile.Path / tlog.ParseTilePath are inverse canonical codecs"},
		Obligations: []*Obligation{
			{ID: "C10.a", Title: "TILE-LEAF-SCHEMA", Template: "T5a", MinInst: 4,
				Rule: "every live path of AppendTileLeaf has a wire-equal path of readTileLeaf and vice versa (entry type x archival)", Run: c10a},
			{ID: "C10.b", Title: "MERKLE-LEAF-SCHEMA", Template: "T5a", MinInst: 4,
				Rule: "MerkleTreeLeaf's paths equal the frozen RFC 6962 section 3.4 table (version, leaf type, timestamp, entry type, [issuer key hash], u24 certificate, extensions)", Run: c10b},
			{ID: "C10.c", Title: "EXTENSION-SCHEMA", Template: "T5a+T2", MinInst: 3,
				Rule: "MarshalExtensions = leaf-index branch of ParseExtensions = extension branch of readTileLeaf; the writer is guarded by 0 <= LeafIndex < 1<<40", Run: c10c},
			{ID: "C10.d", Title: "UINT40", Template: "T5", MinInst: 1,
				Rule: "addUint40 and readUint40 use the same big-endian shift table over 5 bytes", Run: c10d},
			{ID: "C10.e", Title: "STRICT-READER", Template: "T2", MinInst: 3,
				Rule: "on every successful path of readTileLeaf each parsed length-prefixed substring is fully consumed, and the timestamp conversion is guarded by timestamp <= MaxInt64", Run: c10e},
			{ID: "C10.f", Title: "NO-PANIC", Template: "T11", MinInst: 5,
				Rule: "no panic / *OrPanic call is reachable in the module call graph from the decoders; constant slice indexes in them follow a successful fixed-length read of sufficient length", Run: c10f},
			{ID: "C10.g", Title: "TILE-PATH", Template: "T5", MinInst: 3,
				Rule: "TilePath and ParseTilePath use the same (public prefix, tlog prefix, level) rows, the tlog prefix encodes TileHeight, and the longer public prefix is tested first", Run: c10g},
		},
	})
}

// cryptoStringRoot: the first local cryptobyte.String variable of f that is a
// conversion of a parameter.
func cryptoStringRoot(f *Func) types.Object {
	info := f.Info()
	var out types.Object
	ast.Inspect(f.Body, func(n ast.Node) bool {
		if out != nil {
			return false
		}
		a, ok := n.(*ast.AssignStmt)
		if !ok || len(a.Lhs) != 1 || len(a.Rhs) != 1 {
			return true
		}
		o := objOf(info, a.Lhs[0])
		if o == nil || !isCryptobyteType(o.Type(), "String") {
			return true
		}
		if c, ok := ast.Unparen(a.Rhs[0]).(*ast.CallExpr); ok {
			if tv, ok := info.Types[c.Fun]; ok && tv.IsType() {
				out = o
			}
		}
		return true
	})
	return out
}

func livePaths(s Schema) []SchemaPath {
	var out []SchemaPath
	for _, p := range s {
		if !p.Dead {
			out = append(out, p)
		}
	}
	return out
}

func cleanConds(cs []string) string {
	var out []string
	for _, c := range cs {
		if !strings.HasPrefix(c, "#") {
			out = append(out, c)
		}
	}
	return strings.Join(out, ",")
}

// agree checks writer/reader path-wise agreement.
func (c *Ctx) agree(name string, wf *Func, ws Schema, rf *Func, rs Schema) {
	wl, rl := livePaths(ws), livePaths(rs)
	if len(wl) == 0 || len(rl) == 0 {
		c.Unk(name, fmt.Sprintf("empty schema: writer %d paths, reader %d paths", len(wl), len(rl)))
		return
	}
	matchedR := make([]bool, len(rl))
	for _, w := range wl {
		inst := fmt.Sprintf("%s writer[%s]", name, cleanConds(w.Conds))
		found := false
		why := ""
		for i, r := range rl {
			if !constsCompatible(w.Toks, r.Toks) {
				continue
			}
			ok, reason := wireEqual(w.Toks, r.Toks)
			if ok {
				found = true
				matchedR[i] = true
			} else if why == "" {
				why = fmt.Sprintf("reader[%s]: %s", cleanConds(r.Conds), reason)
			}
		}
		if found {
			c.add(Result{Instance: inst, Verdict: Discharged, Sites: []string{wf.Pos(wf.Decl)}, Detail: toksString(w.Toks), Evals: len(rl)})
		} else {
			if why == "" {
				why = "no reader path accepts the constants this path writes"
			}
			c.Bad(inst, wf.Pos(wf.Decl), "what "+wf.Name+" writes is not what "+rf.Name+" reads: "+why)
		}
	}
	for i, r := range rl {
		if !matchedR[i] {
			c.Bad(fmt.Sprintf("%s reader[%s]", name, cleanConds(r.Conds)), rf.Pos(rf.Decl), "the reader accepts a layout the writer never produces: "+toksString(r.Toks))
		}
	}
}

func c10a(c *Ctx) {
	w := c.Fn("sunlight.AppendTileLeaf")
	r := c.Fn("sunlight.readTileLeaf")
	if w == nil || r == nil {
		return
	}
	ws, err := builderSchema(w, nil)
	if err != nil {
		c.Unk("AppendTileLeaf", "cannot extract writer schema: "+err.Error())
		return
	}
	root := cryptoStringRoot(r)
	if root == nil {
		c.Unk("readTileLeaf", "no cryptobyte.String over the input")
		return
	}
	rs, err := readerSchema(r, root)
	if err != nil {
		c.Unk("readTileLeaf", "cannot extract reader schema: "+err.Error())
		return
	}
	c.agree("tile leaf", w, ws, r, rs)
}

func c10b(c *Ctx) {
	m := c.Fn("sunlight.(*LogEntry).MerkleTreeLeaf")
	if m == nil {
		return
	}
	ms, err := builderSchema(m, nil)
	if err != nil {
		c.Unk("MerkleTreeLeaf", err.Error())
		return
	}
	// RFC 6962 section 3.4: MerkleTreeLeaf{version(1)=v1(0), leaf_type(1)=timestamped_entry(0),
	// TimestampedEntry{uint64 timestamp, LogEntryType entry_type(2), select{x509: ASN.1Cert<1..2^24-1>; precert: opaque issuer_key_hash[32], TBSCertificate<1..2^24-1>}, CtExtensions<0..2^16-1>}}
	// static-ct-api: extensions = Extension{leaf_index(0), opaque<0..2^16-1> = uint40}, absent for archival leaves.
	want := map[string]string{
		"IsPrecert=false,RFC6962ArchivalLeaf=false": "u8=0 u8=0 u64 u16=0 u24[opaque] u16[u8=0 u16[fixed5]]",
		"IsPrecert=false,RFC6962ArchivalLeaf=true":  "u8=0 u8=0 u64 u16=0 u24[opaque] u16=0",
		"IsPrecert=true,RFC6962ArchivalLeaf=false":  "u8=0 u8=0 u64 u16=1 fixed32 u24[opaque] u16[u8=0 u16[fixed5]]",
		"IsPrecert=true,RFC6962ArchivalLeaf=true":   "u8=0 u8=0 u64 u16=1 fixed32 u24[opaque] u16=0",
	}
	seen := map[string]bool{}
	for _, p := range livePaths(ms) {
		k := cleanConds(p.Conds)
		seen[k] = true
		exp, ok := want[k]
		inst := "MerkleTreeLeaf[" + k + "]"
		if !ok {
			c.Bad(inst, m.Pos(m.Decl), "unexpected encoding case: "+toksString(p.Toks))
			continue
		}
		if got := toksString(p.Toks); got == exp {
			c.OK(inst, got, []string{m.Pos(m.Decl)})
		} else {
			c.Bad(inst, m.Pos(m.Decl), "MerkleTreeLeaf layout is "+got+", RFC 6962 requires "+exp)
		}
	}
	for k := range want {
		if !seen[k] {
			c.Bad("MerkleTreeLeaf["+k+"]", m.Pos(m.Decl), "encoding case missing")
		}
	}
}

func c10c(c *Ctx) {
	mw := c.Fn("sunlight.MarshalExtensions")
	pr := c.Fn("sunlight.ParseExtensions")
	rt := c.Fn("sunlight.readTileLeaf")
	if mw == nil || pr == nil || rt == nil {
		return
	}
	ws, err := builderSchema(mw, nil)
	if err != nil || len(livePaths(ws)) != 1 {
		c.Unk("MarshalExtensions", fmt.Sprintf("cannot extract writer schema: %v", err))
		return
	}
	w := livePaths(ws)[0].Toks
	// ParseExtensions
	root := cryptoStringRoot(pr)
	ps, err := readerSchema(pr, root)
	if err != nil || root == nil {
		c.Unk("ParseExtensions", fmt.Sprintf("cannot extract reader schema: %v", err))
	} else {
		okAny := false
		why := "no successful path"
		for _, p := range livePaths(ps) {
			toks := stripEnds(p.Toks)
			// skip the leading rep{} of ignored extensions
			if len(toks) > 0 && toks[0].Kind == "rep" {
				toks = toks[1:]
			}
			if ok, reason := wireEqual(w, toks); ok {
				okAny = true
			} else {
				why = reason
			}
		}
		if okAny {
			c.OK("MarshalExtensions = ParseExtensions", toksString(w), []string{mw.Pos(mw.Decl), pr.Pos(pr.Decl)})
		} else {
			c.Bad("MarshalExtensions = ParseExtensions", pr.Pos(pr.Decl), "ParseExtensions does not read what MarshalExtensions writes: "+why)
		}
	}
	// readTileLeaf extension branch
	rroot := cryptoStringRoot(rt)
	rs, err := readerSchema(rt, rroot)
	if err != nil || rroot == nil {
		c.Unk("readTileLeaf extensions", fmt.Sprintf("cannot extract reader schema: %v", err))
	} else {
		n, bad := 0, ""
		for _, p := range livePaths(rs) {
			if !strings.Contains(cleanConds(p.Conds), "nonempty(") {
				continue
			}
			for _, t := range p.Toks {
				// the extensions field: the u16-prefixed substring that is parsed into typed sub-fields
				if t.Kind == "pfx" && t.N == 2 && t.sub != nil && len(stripEnds(t.Kids)) > 0 && stripEnds(t.Kids)[0].Kind == "u" {
					n++
					if ok, reason := wireEqual(w, t.Kids); !ok {
						bad = reason
					}
				}
			}
		}
		if n == 0 {
			c.Bad("MarshalExtensions = readTileLeaf extensions", rt.Pos(rt.Decl), "readTileLeaf has no path that parses a non-empty extensions field")
		} else if bad != "" {
			c.Bad("MarshalExtensions = readTileLeaf extensions", rt.Pos(rt.Decl), "readTileLeaf parses extensions differently from MarshalExtensions: "+bad)
		} else {
			c.OK("MarshalExtensions = readTileLeaf extensions", toksString(w), []string{rt.Pos(rt.Decl)})
		}
	}
	// range guard in the writer
	var lit *Func
	var site Site
	for _, l := range allLits(mw) {
		for _, s := range l.Calls(Callee{pkgRoot, "", "addUint40"}) {
			lit, site = l, s
		}
	}
	if lit == nil {
		c.Unk("MarshalExtensions range guard", "addUint40 call not found")
		return
	}
	info := lit.Info()
	g := lit.Graph()
	isLI := func(e ast.Expr) bool {
		_, p, ok := fieldPath(info, e)
		return ok && len(p) == 1 && p[0] == "LeafIndex"
	}
	isConst := func(v int64) func(ast.Expr) bool {
		return func(e ast.Expr) bool { x, ok := constInt(info, e); return ok && x == v }
	}
	lo := g.EdgesImplying(func(a Atom) bool { rel, ok := cmpRel(a, isLI, isConst(0)); return ok && rel&relLT == 0 })
	hi := g.EdgesImplying(func(a Atom) bool { rel, ok := cmpRel(a, isLI, isConst(1<<40)); return ok && rel == relLT })
	for _, gd := range []struct {
		name string
		e    map[Edge]bool
	}{{"LeafIndex >= 0", lo}, {"LeafIndex < 1<<40", hi}} {
		inst := "MarshalExtensions guard " + gd.name
		if len(gd.e) == 0 {
			c.Bad(inst, site.Pos(), "the leaf index is encoded without checking "+gd.name)
		} else if pt, _ := g.ReachableFromEntry(Cut{Edges: gd.e}, atSite(site)); pt != nil {
			c.Bad(inst, site.Pos(), "the 40-bit encoder is reachable when "+gd.name+" does not hold")
		} else {
			c.add(Result{Instance: inst, Verdict: Discharged, Sites: []string{site.Pos()}, Detail: "encoder unreachable unless " + gd.name, Witnesses: lit.WitEdges(gd.e)})
		}
	}
}

func allLits(f *Func) []*Func {
	var out []*Func
	for _, l := range f.Lits {
		out = append(out, l)
		out = append(out, allLits(l)...)
	}
	return out
}

func c10d(c *Ctx) {
	w := c.Fn("sunlight.addUint40")
	r := c.Fn("sunlight.readUint40")
	if w == nil || r == nil {
		return
	}
	wi, ri := w.Info(), r.Info()
	var wshifts []int64
	ok := true
	for _, s := range w.Find(func(n ast.Node) bool { _, is := n.(*ast.CompositeLit); return is }) {
		for _, el := range s.X.(*ast.CompositeLit).Elts {
			e := stripConv(wi, el)
			switch x := ast.Unparen(e).(type) {
			case *ast.BinaryExpr:
				if v, isC := constInt(wi, x.Y); isC && x.Op == token.SHR {
					wshifts = append(wshifts, v)
				} else {
					ok = false
				}
			case *ast.Ident:
				wshifts = append(wshifts, 0)
			default:
				ok = false
			}
		}
	}
	rshifts := map[int64]int64{}
	var nread int64 = -1
	for _, s := range r.Calls(Callee{pkgCrypto, "String", "ReadBytes"}) {
		nread, _ = constInt(ri, s.Call.Args[1])
	}
	ast.Inspect(r.Body, func(n ast.Node) bool {
		var ix *ast.IndexExpr
		var sh int64
		switch x := n.(type) {
		case *ast.BinaryExpr:
			if x.Op == token.SHL {
				if i, isIx := ast.Unparen(stripConv(ri, x.X)).(*ast.IndexExpr); isIx {
					if v, isC := constInt(ri, x.Y); isC {
						ix, sh = i, v
					}
				}
				if ix != nil {
					if k, isC := constInt(ri, ix.Index); isC {
						rshifts[k] = sh
					}
				}
				return false
			}
		case *ast.IndexExpr:
			if k, isC := constInt(ri, x.Index); isC {
				if _, seen := rshifts[k]; !seen {
					rshifts[k] = 0
				}
			}
		}
		return true
	})
	if !ok || len(wshifts) == 0 {
		c.Unk("uint40", "cannot extract addUint40's shift table")
		return
	}
	bad := ""
	if int64(len(wshifts)) != nread || len(rshifts) != len(wshifts) {
		bad = fmt.Sprintf("writer emits %d bytes, reader reads %d and combines %d", len(wshifts), nread, len(rshifts))
	}
	for i, sh := range wshifts {
		if rshifts[int64(i)] != sh {
			bad = fmt.Sprintf("byte %d: writer shift %d, reader shift %d", i, sh, rshifts[int64(i)])
		}
		if sh != int64(8*(len(wshifts)-1-i)) {
			bad = fmt.Sprintf("byte %d is not big-endian (shift %d)", i, sh)
		}
	}
	if bad != "" {
		c.Bad("uint40", r.Pos(r.Decl), bad)
		return
	}
	c.add(Result{Instance: "uint40", Verdict: Discharged, Evals: len(wshifts), Sites: []string{w.Pos(w.Decl), r.Pos(r.Decl)}, Detail: fmt.Sprintf("shifts %v on both sides, %d bytes", wshifts, nread)})
}

// strictness: every parsed substring ends with an end marker.
func unconsumed(ts []Tok) string {
	for _, t := range ts {
		if t.Kind == "pfx" && t.sub != nil {
			k := t.Kids
			if len(k) == 0 || k[len(k)-1].Kind != "end" {
				return "the " + t.sub.Name() + " field is parsed without checking that it was fully consumed"
			}
			if s := unconsumed(k); s != "" {
				return s
			}
		}
	}
	return ""
}

func c10e(c *Ctx) {
	rt := c.Fn("sunlight.readTileLeaf")
	if rt == nil {
		return
	}
	root := cryptoStringRoot(rt)
	rs, err := readerSchema(rt, root)
	if err != nil || root == nil {
		c.Unk("readTileLeaf", fmt.Sprintf("cannot extract reader schema: %v", err))
		return
	}
	for _, p := range livePaths(rs) {
		inst := "readTileLeaf[" + cleanConds(p.Conds) + "] strict"
		if msg := unconsumed(p.Toks); msg != "" {
			c.Bad(inst, rt.Pos(rt.Decl), msg+": trailing bytes would decode but not re-encode")
		} else {
			c.OK(inst, "every parsed substring consumed: "+toksString(p.Toks), nil)
		}
	}
	// timestamp guard
	info := rt.Info()
	g := rt.Graph()
	var tsObj types.Object
	for _, s := range rt.Find(func(n ast.Node) bool {
		call, ok := n.(*ast.CallExpr)
		return ok && isStringMethod(info, call, "ReadUint64")
	}) {
		if u, ok := ast.Unparen(s.X.(*ast.CallExpr).Args[0]).(*ast.UnaryExpr); ok {
			tsObj = objOf(info, u.X)
		}
	}
	if tsObj == nil {
		c.Unk("readTileLeaf timestamp", "no ReadUint64 target")
		return
	}
	convs := rt.Find(func(n ast.Node) bool {
		call, ok := n.(*ast.CallExpr)
		if !ok || len(call.Args) != 1 || objOf(info, call.Args[0]) != tsObj {
			return false
		}
		tv, ok := info.Types[call.Fun]
		return ok && tv.IsType()
	})
	isTs := func(e ast.Expr) bool { return objOf(info, e) == tsObj }
	isMax := func(e ast.Expr) bool { v, ok := constInt(info, e); return ok && v == 1<<63-1 }
	safe := g.EdgesImplying(func(a Atom) bool { rel, ok := cmpRel(a, isTs, isMax); return ok && rel&relGT == 0 })
	if len(convs) == 0 {
		c.Unk("readTileLeaf timestamp", "timestamp is never converted to int64")
	} else if len(safe) == 0 {
		c.Bad("readTileLeaf timestamp", convs[0].Pos(), "the 64-bit timestamp is converted to int64 without rejecting values above MaxInt64")
	} else if pt, _ := g.ReachableFromEntry(Cut{Edges: safe}, atAnySite(convs)); pt != nil {
		c.Bad("readTileLeaf timestamp", convs[0].Pos(), "the timestamp conversion is reachable for values above MaxInt64")
	} else {
		c.add(Result{Instance: "readTileLeaf timestamp", Verdict: Discharged, Sites: sitePositions(convs), Detail: "int64(timestamp) only when timestamp <= MaxInt64", Witnesses: rt.WitEdges(safe)})
	}
}

// calleesOf returns the module functions statically called from f (including
// from its nested literals).
func calleesOf(f *Func) []*Func {
	var out []*Func
	seen := map[*Func]bool{}
	var visit func(x *Func)
	visit = func(x *Func) {
		if x.Body == nil {
			return
		}
		ast.Inspect(x.Body, func(n ast.Node) bool {
			call, ok := n.(*ast.CallExpr)
			if !ok {
				return true
			}
			if fn, ok := calleeObj(x.Info(), call).(*types.Func); ok {
				if d := x.Prog.FuncOf(fn); d != nil && !seen[d] {
					seen[d] = true
					out = append(out, d)
				}
			}
			return true
		})
	}
	visit(f)
	return out
}

// reachableFuncs: transitive closure of calleesOf within the module.
func reachableFuncs(roots ...*Func) []*Func {
	seen := map[*Func]bool{}
	var order []*Func
	var walk func(f *Func)
	walk = func(f *Func) {
		if f == nil || seen[f] {
			return
		}
		seen[f] = true
		order = append(order, f)
		for _, c := range calleesOf(f) {
			walk(c)
		}
	}
	for _, r := range roots {
		walk(r)
	}
	return order
}

func c10f(c *Ctx) {
	rootNames := []string{"sunlight.ReadTileLeaf", "sunlight.ReadTileLeafMaybeArchival", "sunlight.ParseExtensions", "sunlight.ParseTilePath", "sunlight.RFC6962SignatureTimestamp"}
	for _, name := range rootNames {
		root := c.Fn(name)
		if root == nil {
			continue
		}
		bad := ""
		n := 0
		for _, f := range reachableFuncs(root) {
			c.touch(f)
			n++
			info := f.Info()
			ast.Inspect(f.Body, func(x ast.Node) bool {
				call, ok := x.(*ast.CallExpr)
				if !ok {
					return true
				}
				if isBuiltinCall(info, call, "panic") {
					bad = f.Pos(call) + ": panic"
				}
				if fn, ok := calleeObj(info, call).(*types.Func); ok && strings.HasSuffix(fn.Name(), "OrPanic") {
					bad = f.Pos(call) + ": " + fn.Name()
				}
				return true
			})
		}
		if bad != "" {
			c.Bad(name+" panic-free", bad, "a panic is reachable from decoder "+name)
		} else {
			c.add(Result{Instance: name + " panic-free", Verdict: Discharged, Evals: n, Detail: fmt.Sprintf("%d module function(s) reachable, none panics", n)})
		}
	}
	// constant indexes after fixed-length reads
	nIdx := 0
	for _, name := range []string{"sunlight.readUint40", "sunlight.readTileLeaf", "sunlight.ParseExtensions", "sunlight.RFC6962SignatureTimestamp"} {
		f := c.P.Fn(name)
		if f == nil {
			continue
		}
		info := f.Info()
		g := f.Graph()
		for _, s := range f.Find(func(n ast.Node) bool {
			ix, ok := n.(*ast.IndexExpr)
			if !ok {
				return false
			}
			tv, ok := info.Types[ix.X]
			if !ok {
				return false
			}
			_, isSlice := tv.Type.Underlying().(*types.Slice)
			return isSlice
		}) {
			nIdx++
			ix := s.X.(*ast.IndexExpr)
			inst := fmt.Sprintf("%s index %s", name, exprString(ix))
			k, isConst := constInt(info, ix.Index)
			vObj := objOf(info, ix.X)
			if !isConst || vObj == nil {
				c.Bad(inst, s.Pos(), "slice index in a decoder is not a constant into a fixed-length read")
				continue
			}
			var reads []Site
			var okLen bool
			for _, r := range f.Calls(Callee{pkgCrypto, "String", "ReadBytes"}) {
				if u, ok := ast.Unparen(r.Call.Args[0]).(*ast.UnaryExpr); ok && objOf(info, u.X) == vObj {
					if n, ok := constInt(info, r.Call.Args[1]); ok && n > k {
						okLen = true
						reads = append(reads, r)
					}
				}
			}
			if !okLen {
				c.Bad(inst, s.Pos(), "index is not covered by a ReadBytes of sufficient constant length")
				continue
			}
			safe := g.EdgesImplying(func(a Atom) bool {
				call, ok := ast.Unparen(a.E).(*ast.CallExpr)
				if !ok || !a.Val {
					return false
				}
				for _, r := range reads {
					if r.Call == call {
						return true
					}
				}
				return false
			})
			if pt, _ := g.ReachableFromEntry(Cut{Edges: safe}, atSite(s)); pt != nil || len(safe) == 0 {
				c.Bad(inst, s.Pos(), "the index is reachable without the fixed-length read having succeeded")
			} else {
				c.add(Result{Instance: inst, Verdict: Discharged, Sites: []string{s.Pos()}, Detail: "index < read length, after read success", Witnesses: f.WitEdges(safe)})
			}
		}
	}
	if nIdx == 0 {
		c.Unk("decoder indexes", "no slice index found in the decoders (expected readUint40's)")
	}
}

type tileRow struct {
	pub, tl string
	level   string
}

func c10g(c *Ctx) {
	tp := c.Fn("sunlight.TilePath")
	pp := c.Fn("sunlight.ParseTilePath")
	if tp == nil || pp == nil {
		return
	}
	ti, pi := tp.Info(), pp.Info()
	var wrows, rrows []tileRow
	// writer: return "pub" + strings.TrimPrefix(t.Path(), "tlogprefix") ; level from the guarding `t.L == k`
	g := tp.Graph()
	for _, r := range tp.Returns() {
		rs := r.X.(*ast.ReturnStmt).Results
		if len(rs) != 1 {
			continue
		}
		if live, _ := g.ReachableFromEntry(Cut{}, atSite(r)); live == nil {
			continue // a dead branch renders nothing
		}
		be, ok := ast.Unparen(rs[0]).(*ast.BinaryExpr)
		if !ok || be.Op != token.ADD {
			continue
		}
		pub, ok1 := constString(ti, be.X)
		call, ok2 := ast.Unparen(be.Y).(*ast.CallExpr)
		if !ok1 || !ok2 || !matchCallee(ti, call, Callee{"strings", "", "TrimPrefix"}) {
			continue
		}
		tl, _ := constString(ti, call.Args[1])
		level := "*"
		// which `t.L == k` true-edge dominates this return?
		for _, e := range g.CondEdges() {
			for _, a := range EdgeFacts(e) {
				be2, ok := ast.Unparen(a.E).(*ast.BinaryExpr)
				if !ok || be2.Op != token.EQL || !a.Val {
					continue
				}
				lhs, rhs := ast.Unparen(be2.X), ast.Unparen(be2.Y)
				if _, isConst := constInt(ti, lhs); isConst {
					lhs, rhs = rhs, lhs
				}
				if _, p, ok := fieldPath(ti, lhs); ok && len(p) == 1 && p[0] == "L" {
					if v, ok := constInt(ti, rhs); ok {
						if pt, _ := g.ReachableFromEntry(Cut{Edges: map[Edge]bool{e: true}}, atSite(r)); pt == nil {
							level = fmt.Sprint(v)
						}
					}
				}
			}
		}
		wrows = append(wrows, tileRow{pub, tl, level})
	}
	// reader: rest, ok := strings.CutPrefix(path, "pub"); tlog.ParseTilePath("tl" + rest); t.L = k
	var cutSites []Site
	for _, s := range pp.Calls(Callee{"strings", "", "CutPrefix"}) {
		pub, _ := constString(pi, s.Call.Args[1])
		var restObj types.Object
		if a, ok := s.Node.(*ast.AssignStmt); ok && len(a.Lhs) == 2 {
			restObj = objOf(pi, a.Lhs[0])
		}
		row := tileRow{pub: pub, level: "*"}
		for _, p := range pp.Calls(Callee{pkgTlog, "", "ParseTilePath"}) {
			be, ok := ast.Unparen(p.Call.Args[0]).(*ast.BinaryExpr)
			if live, _ := pp.Graph().ReachableFromEntry(Cut{}, atSite(p)); live == nil {
				continue // a dead branch parses nothing
			}
			if ok && be.Op == token.ADD && objOf(pi, be.Y) == restObj {
				row.tl, _ = constString(pi, be.X)
				// level override in the same branch: `t.L = k` between this call and the return
				if ifs := enclosingIf(pp.Body, p.Call); ifs != nil {
					ast.Inspect(ifs.Body, func(n ast.Node) bool {
						if a, ok := n.(*ast.AssignStmt); ok && len(a.Lhs) == 1 && len(a.Rhs) == 1 {
							if _, path, ok := fieldPath(pi, a.Lhs[0]); ok && len(path) == 1 && path[0] == "L" {
								if v, ok := constInt(pi, a.Rhs[0]); ok {
									row.level = fmt.Sprint(v)
								}
							}
						}
						return true
					})
				}
			}
		}
		rrows = append(rrows, row)
		cutSites = append(cutSites, s)
	}
	key := func(rows []tileRow) string {
		var s []string
		for _, r := range rows {
			s = append(s, fmt.Sprintf("%q->%q level %s", r.pub, r.tl, r.level))
		}
		sort.Strings(s)
		return strings.Join(s, "; ")
	}
	if len(wrows) == 0 || len(rrows) == 0 {
		c.Unk("tile path rows", fmt.Sprintf("writer rows %d, reader rows %d", len(wrows), len(rrows)))
		return
	}
	if key(wrows) == key(rrows) {
		c.add(Result{Instance: "tile path rows", Verdict: Discharged, Evals: len(wrows) + len(rrows), Sites: []string{tp.Pos(tp.Decl), pp.Pos(pp.Decl)}, Detail: key(wrows)})
	} else {
		c.Bad("tile path rows", pp.Pos(pp.Decl), "TilePath uses {"+key(wrows)+"} but ParseTilePath uses {"+key(rrows)+"}")
	}
	// the tlog prefix encodes TileHeight
	h := int64(-1)
	if o := c.P.Pkgs[pkgRoot].Types.Scope().Lookup("TileHeight"); o != nil {
		if cst, ok := o.(*types.Const); ok {
			h, _ = constantInt64(cst)
		}
	}
	okH := h > 0
	for _, r := range append(append([]tileRow{}, wrows...), rrows...) {
		if !strings.HasPrefix(r.tl, fmt.Sprintf("tile/%d/", h)) {
			okH = false
		}
	}
	if okH {
		c.OK("tile height in path", fmt.Sprintf("all tlog prefixes start with tile/%d/ = TileHeight", h), nil)
	} else {
		c.Bad("tile height in path", tp.Pos(tp.Decl), fmt.Sprintf("a tlog path prefix does not encode TileHeight (%d)", h))
	}
	// longer prefix first
	for i, a := range rrows {
		for j, b := range rrows {
			if i == j || a.pub == b.pub || !strings.HasPrefix(a.pub, b.pub) {
				continue
			}
			// a is longer and shares b as prefix: b's test must be reachable only when a's failed
			inst := fmt.Sprintf("prefix order %q before %q", a.pub, b.pub)
			tE, _, _, ok := BoolEdges(cutSites[i])
			if !ok {
				c.Bad(inst, cutSites[i].Pos(), "the result of the longer-prefix test is not used")
				continue
			}
			// cut the edges where the longer prefix did NOT match: the shorter test must become unreachable
			_, fE, _, _ := BoolEdges(cutSites[i])
			_ = tE
			if pt, _ := pp.Graph().ReachableFromEntry(Cut{Edges: fE}, atSite(cutSites[j])); pt != nil {
				c.Bad(inst, cutSites[j].Pos(), "the shorter prefix is tested before (or regardless of) the longer one, so names tiles would parse as hash tiles")
			} else {
				c.add(Result{Instance: inst, Verdict: Discharged, Sites: []string{cutSites[i].Pos(), cutSites[j].Pos()}, Detail: "generic prefix only tested when the longer one did not match", Witnesses: pp.WitEdges(fE)})
			}
		}
	}
}

func enclosingIf(body *ast.BlockStmt, target ast.Node) *ast.IfStmt {
	var out *ast.IfStmt
	ast.Inspect(body, func(n ast.Node) bool {
		if ifs, ok := n.(*ast.IfStmt); ok && ifs.Body.Pos() <= target.Pos() && target.End() <= ifs.Body.End() {
			out = ifs
		}
		return true
	})
	return out
}
