package main

// Loading of /repo and the function index. Everything the rules look at comes
// from here: parsed, type-checked packages of the module at /repo in one build
// configuration. No sunlight code is ever executed.

import (
	"fmt"
	"go/ast"
	"go/token"
	"go/types"
	"os"
	"sort"
	"strings"

	"golang.org/x/tools/go/cfg"
	"golang.org/x/tools/go/packages"
)

const modPath = "filippo.io/sunlight"

// Package paths used all over the rules.
const (
	pkgRoot     = modPath
	pkgCtlog    = modPath + "/internal/ctlog"
	pkgWitness  = modPath + "/internal/witness"
	pkgDurable  = modPath + "/internal/durable"
	pkgImmut    = modPath + "/internal/immutable"
	pkgSunlight = modPath + "/cmd/sunlight"
	pkgSkylight = modPath + "/cmd/skylight"
	pkgAftersun = modPath + "/cmd/partial-aftersun"
	pkgRecomp   = modPath + "/cmd/recompute-cache"
	pkgTlog     = "golang.org/x/mod/sumdb/tlog"
	pkgNote     = "golang.org/x/mod/sumdb/note"
	pkgTorch    = "filippo.io/torchwood"
	pkgCrypto   = "golang.org/x/crypto/cryptobyte"
	pkgSqlitex  = "crawshaw.io/sqlite/sqlitex"
	pkgSqlite   = "crawshaw.io/sqlite"
	pkgErrgroup = "golang.org/x/sync/errgroup"
)

// Program is one loaded build configuration of /repo.
type Program struct {
	Dir    string
	Config string // e.g. "linux/amd64"
	Fset   *token.FileSet
	Pkgs   map[string]*packages.Package // module packages by import path
	All    []*packages.Package          // module packages, sorted

	overlay map[string][]byte
	funcs   map[string]*Func   // by qualified name
	byBody  map[ast.Node]*Func // FuncDecl / FuncLit -> Func
	byObj   map[*types.Func]*Func
	allFunc []*Func
	// renamed: full name of a function that is new on this tree -> full name it had when the rules
	// were written (aliasRenamed); Notes collects what the loader inferred
	renamed map[string]string
	Notes   []string
}

// Func is a function declaration or a function literal with its own CFG.
type Func struct {
	Prog   *Program
	Pkg    *packages.Package
	Decl   *ast.FuncDecl // nil for a literal
	Lit    *ast.FuncLit  // nil for a declaration
	Body   *ast.BlockStmt
	Type   *ast.FuncType
	Name   string // "ctlog.(*Log).sequencePool", "ctlog.CreateLog", "ctlog.(*Log).sequencePool$1"
	Obj    *types.Func
	Parent *Func // enclosing function for a literal
	Lits   []*Func

	g    *Graph
	defs map[types.Object][]Def
	// rdCache: reaching-definition answers per use (flow.go)
	rdCache map[*ast.Ident]*Def
}

func (f *Func) Info() *types.Info { return f.Pkg.TypesInfo }

// Top returns the outermost enclosing declaration.
func (f *Func) Top() *Func {
	for f.Parent != nil {
		f = f.Parent
	}
	return f
}

func (f *Func) Pos(n ast.Node) string { return f.Prog.Pos(n.Pos()) }

// Pos renders a position relative to the repository root.
func (p *Program) Pos(pos token.Pos) string {
	if !pos.IsValid() {
		return "?"
	}
	po := p.Fset.Position(pos)
	name := strings.TrimPrefix(po.Filename, p.Dir+"/")
	return fmt.Sprintf("%s:%d", name, po.Line)
}

// LoadProgram loads ./... of dir in the given GOOS/GOARCH (empty = host default).
// Overlay maps absolute file names to replacement contents (used only by the
// rule self-test; never written to disk).
func LoadProgram(dir, goarch string, overlay map[string][]byte) (*Program, error) {
	env := os.Environ()
	cfgName := "linux/amd64"
	if goarch != "" {
		env = append(env, "GOARCH="+goarch)
		cfgName = "linux/" + goarch
	}
	fset := token.NewFileSet()
	conf := &packages.Config{
		Mode: packages.NeedName | packages.NeedFiles | packages.NeedCompiledGoFiles |
			packages.NeedImports | packages.NeedTypes | packages.NeedTypesSizes |
			packages.NeedSyntax | packages.NeedTypesInfo | packages.NeedModule,
		Dir:     dir,
		Env:     env,
		Fset:    fset,
		Tests:   false,
		Overlay: overlay,
	}
	pkgs, err := packages.Load(conf, "./...")
	if err != nil {
		return nil, fmt.Errorf("packages.Load: %w", err)
	}
	if len(pkgs) == 0 {
		return nil, fmt.Errorf("no packages loaded from %s", dir)
	}
	p := &Program{Dir: dir, Config: cfgName, Fset: fset, Pkgs: map[string]*packages.Package{}, overlay: overlay}
	for _, pk := range pkgs {
		if len(pk.Errors) > 0 {
			msg := ""
			for i, e := range pk.Errors {
				if i < 4 {
					msg += " | " + e.Error()
				}
			}
			return nil, fmt.Errorf("package %s has errors:%s", pk.PkgPath, msg)
		}
		if pk.Types == nil || pk.TypesInfo == nil {
			return nil, fmt.Errorf("package %s has no type information", pk.PkgPath)
		}
		p.Pkgs[pk.PkgPath] = pk
		p.All = append(p.All, pk)
	}
	sort.Slice(p.All, func(i, j int) bool { return p.All[i].PkgPath < p.All[j].PkgPath })
	p.index()
	return p, nil
}

func shortPkg(path string) string {
	if path == modPath {
		return "sunlight"
	}
	i := strings.LastIndex(path, "/")
	return path[i+1:]
}

func (p *Program) index() {
	p.funcs = map[string]*Func{}
	p.byBody = map[ast.Node]*Func{}
	p.byObj = map[*types.Func]*Func{}
	p.allFunc = nil
	defer p.aliasRenamed()
	for _, pk := range p.All {
		for _, file := range pk.Syntax {
			for _, d := range file.Decls {
				fd, ok := d.(*ast.FuncDecl)
				if !ok || fd.Body == nil {
					continue
				}
				obj, _ := pk.TypesInfo.Defs[fd.Name].(*types.Func)
				name := shortPkg(pk.PkgPath) + "."
				if fd.Recv != nil && len(fd.Recv.List) == 1 {
					name += "(" + types.ExprString(fd.Recv.List[0].Type) + ")."
				}
				name += fd.Name.Name
				f := &Func{Prog: p, Pkg: pk, Decl: fd, Body: fd.Body, Type: fd.Type, Name: name, Obj: obj}
				p.add(f)
				p.indexLits(f, fd.Body)
			}
			// package-level function literals (var x = func() ...)
			for _, d := range file.Decls {
				gd, ok := d.(*ast.GenDecl)
				if !ok {
					continue
				}
				for _, spec := range gd.Specs {
					vs, ok := spec.(*ast.ValueSpec)
					if !ok {
						continue
					}
					for i, v := range vs.Values {
						nm := "_"
						if i < len(vs.Names) {
							nm = vs.Names[i].Name
						}
						holder := &Func{Prog: p, Pkg: pk, Name: shortPkg(pk.PkgPath) + ".var:" + nm}
						p.indexLits(holder, v)
					}
				}
			}
		}
	}
}

func (p *Program) add(f *Func) {
	if _, dup := p.funcs[f.Name]; dup {
		// methods on distinct generic instantiations etc.: keep the first, suffix the rest
		f.Name = fmt.Sprintf("%s@%s", f.Name, p.Pos(f.Body.Pos()))
	}
	p.funcs[f.Name] = f
	if f.Decl != nil {
		p.byBody[f.Decl] = f
	} else {
		p.byBody[f.Lit] = f
	}
	if f.Obj != nil {
		p.byObj[f.Obj] = f
	}
	p.allFunc = append(p.allFunc, f)
}

// indexLits registers the function literals directly nested in n (not inside
// deeper literals, which are registered recursively with the right parent).
func (p *Program) indexLits(parent *Func, n ast.Node) {
	ast.Inspect(n, func(x ast.Node) bool {
		lit, ok := x.(*ast.FuncLit)
		if !ok {
			return true
		}
		f := &Func{Prog: parent.Prog, Pkg: parent.Pkg, Lit: lit, Body: lit.Body, Type: lit.Type, Parent: parent}
		if parent.Prog == nil {
			f.Prog = p
		}
		f.Name = fmt.Sprintf("%s$%d", parent.Name, len(parent.Lits)+1)
		if parent.Body == nil { // package-level holder
			f.Parent = nil
		}
		parent.Lits = append(parent.Lits, f)
		p.add(f)
		p.indexLits(f, lit.Body)
		return false
	})
}

// Fn returns the declared function with the given short qualified name, e.g.
// "ctlog.(*Log).sequencePool". Nil if absent.
func (p *Program) Fn(name string) *Func { return p.funcs[name] }

// FuncOf returns the Func for a types.Func declared in the module.
func (p *Program) FuncOf(obj *types.Func) *Func {
	if obj == nil {
		return nil
	}
	if f := p.byObj[obj]; f != nil {
		return f
	}
	// generic origin
	if o := obj.Origin(); o != obj {
		return p.byObj[o]
	}
	return nil
}

// FuncOfLit returns the Func for a function literal.
func (p *Program) FuncOfLit(l *ast.FuncLit) *Func { return p.byBody[l] }

// Funcs returns every function (declarations and literals) of the module,
// optionally restricted to one package path.
func (p *Program) Funcs(pkgPath string) []*Func {
	var out []*Func
	for _, f := range p.allFunc {
		if pkgPath == "" || f.Pkg.PkgPath == pkgPath {
			out = append(out, f)
		}
	}
	return out
}

// Decls returns only declared (named) functions of a package.
func (p *Program) Decls(pkgPath string) []*Func {
	var out []*Func
	for _, f := range p.Funcs(pkgPath) {
		if f.Decl != nil {
			out = append(out, f)
		}
	}
	return out
}

// ---------------------------------------------------------------------------
// CFG construction

// noReturnFuncs: callees after which control does not continue. Resolved by
// object identity where possible (fatalError is a per-command helper whose
// body ends in os.Exit; recognised structurally below).
func (f *Func) mayReturn(call *ast.CallExpr) bool {
	info := f.Info()
	switch fun := ast.Unparen(call.Fun).(type) {
	case *ast.Ident:
		if b, ok := info.Uses[fun].(*types.Builtin); ok && b.Name() == "panic" {
			return false
		}
	}
	obj := calleeObj(info, call)
	fn, ok := obj.(*types.Func)
	if !ok {
		return true
	}
	if fn.Pkg() != nil {
		switch fn.Pkg().Path() + "." + fn.Name() {
		case "os.Exit", "log.Fatal", "log.Fatalf", "log.Fatalln", "log.Panic", "log.Panicf", "runtime.Goexit":
			return false
		}
	}
	// module helper whose last statement is a no-return call (fatalError)
	if d := f.Prog.FuncOf(fn); d != nil && d != f && d.Decl != nil && d.Decl.Recv == nil {
		if n := len(d.Body.List); n > 0 {
			if es, ok := d.Body.List[n-1].(*ast.ExprStmt); ok {
				if c, ok := es.X.(*ast.CallExpr); ok {
					if o, ok := calleeObj(d.Info(), c).(*types.Func); ok && o.Pkg() != nil && o.Pkg().Path() == "os" && o.Name() == "Exit" {
						return false
					}
				}
			}
		}
	}
	return true
}

// Graph returns the (cached) control-flow graph of f.
func (f *Func) Graph() *Graph {
	if f.g == nil {
		g := cfg.New(f.Body, f.mayReturn)
		f.g = newGraph(f, g)
	}
	return f.g
}

// aliasRenamed recognises a function of the frozen table that was merely
// renamed: it is missing from the tree, and exactly one function that is new on
// the tree has the same package, the same receiver type and the same parameter
// names. The rules, which anchor some functions by name, then find it under its
// old name (reports still give its real position).
func (p *Program) aliasRenamed() {
	p.renamed = map[string]string{}
	cur := map[string]*Func{}
	for _, f := range p.allFunc {
		if f.Decl != nil && f.Obj != nil {
			cur[f.Obj.FullName()] = f
		}
	}
	split := func(full string) (prefix, name string) {
		i := strings.LastIndex(full, ".")
		return full[:i], full[i+1:]
	}
	sameNames := func(a []string, f *Func) bool {
		var b []string
		for _, fl := range f.Type.Params.List {
			for _, nm := range fl.Names {
				b = append(b, nm.Name)
			}
		}
		if len(a) != len(b) {
			return false
		}
		for i := range a {
			if a[i] != b[i] {
				return false
			}
		}
		return true
	}
	missing := map[string][]string{} // prefix -> old full names
	for full := range frozenParams {
		if _, ok := cur[full]; ok {
			continue
		}
		pre, _ := split(full)
		// only for packages that are loaded at all
		pkgPath := strings.TrimPrefix(strings.TrimPrefix(pre, "("), "*")
		if i := strings.LastIndex(pkgPath, "."); strings.HasPrefix(pre, "(") && i >= 0 {
			pkgPath = pkgPath[:i]
		}
		if p.Pkgs[pkgPath] == nil {
			continue
		}
		missing[pre] = append(missing[pre], full)
	}
	fresh := map[string][]*Func{}
	for full, f := range cur {
		if _, known := frozenParams[full]; !known {
			pre, _ := split(full)
			fresh[pre] = append(fresh[pre], f)
		}
	}
	for pre, olds := range missing {
		for _, old := range olds {
			var cands []*Func
			for _, f := range fresh[pre] {
				if sameNames(frozenParams[old], f) {
					cands = append(cands, f)
				}
			}
			// unambiguous both ways
			n := 0
			for _, o2 := range olds {
				if len(cands) == 1 && sameNames(frozenParams[o2], cands[0]) {
					n++
				}
			}
			if len(cands) != 1 || n != 1 {
				continue
			}
			f := cands[0]
			_, oldName := split(old)
			short := strings.TrimSuffix(f.Name, f.Decl.Name.Name) + oldName
			if _, taken := p.funcs[short]; taken {
				continue
			}
			p.renamed[f.Obj.FullName()] = old
			p.Notes = append(p.Notes, fmt.Sprintf("%s is taken to be the renamed %s (same package, receiver and parameters; the old name is gone)", f.Name, short))
			delete(p.funcs, f.Name)
			f.Name = short
			p.funcs[short] = f
			// literals nested in it are named after it
			var ren func(parent *Func)
			ren = func(parent *Func) {
				for i, l := range parent.Lits {
					delete(p.funcs, l.Name)
					l.Name = fmt.Sprintf("%s$%d", parent.Name, i+1)
					p.funcs[l.Name] = l
					ren(l)
				}
			}
			ren(f)
		}
	}
}

// FuncOfLitVar returns the full name of the top-level function in whose body
// the local variable v is declared ("" if none).
func (p *Program) FuncOfLitVar(v types.Object) string {
	for _, f := range p.allFunc {
		if f.Decl != nil && f.Obj != nil && f.Body != nil && f.Pkg.Types == v.Pkg() && f.Body.Pos() <= v.Pos() && v.Pos() <= f.Body.End() {
			return f.Obj.FullName()
		}
	}
	return ""
}
