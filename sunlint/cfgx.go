package main

// Control-flow utilities on top of golang.org/x/tools/go/cfg: program points,
// edges, cut-reachability, and the three-valued treatment of conditions.
//
// go/cfg keeps a whole condition (`a && b || !c`) as the last node of a block
// and does not split short-circuit operators; Succs[0] is the true edge and
// Succs[1] the false edge. implied() derives what each edge guarantees.

import (
	"fmt"
	"go/ast"
	"go/token"
	"go/types"
	"sort"
	"sync"

	"golang.org/x/tools/go/cfg"
)

type Graph struct {
	F      *Func
	G      *cfg.CFG
	Blocks []*cfg.Block // live blocks
	preds  map[*cfg.Block][]*cfg.Block
	// dead holds the edges that can never be taken because the condition
	// folds to a constant (`if false`, `c && false`, `c || true`); every
	// reachability query treats them as cut.
	dead map[Edge]bool
	// trackedVars: see pathsens.go
	trackedVars map[types.Object]bool
}

// Point is the program point *at* node I of block B (I == len(B.Nodes) is the
// end of the block, before taking an edge).
type Point struct {
	B *cfg.Block
	I int
}

// Edge is Succs[Idx] of From.
type Edge struct {
	From *cfg.Block
	Idx  int
}

func (e Edge) To() *cfg.Block { return e.From.Succs[e.Idx] }

func newGraph(f *Func, g *cfg.CFG) *Graph {
	gr := &Graph{F: f, G: g, preds: map[*cfg.Block][]*cfg.Block{}, dead: map[Edge]bool{}}
	if f.Body != nil {
		registerSwitchConds(f.Body)
	}
	for _, b := range g.Blocks {
		if !b.Live {
			continue
		}
		gr.Blocks = append(gr.Blocks, b)
		for _, s := range b.Succs {
			gr.preds[s] = append(gr.preds[s], b)
		}
	}
	info := f.Info()
	constEnv := func(e ast.Expr) Tri {
		if v, ok := constBool(info, e); ok {
			if v {
				return True
			}
			return False
		}
		return Unknown
	}
	for _, b := range gr.Blocks {
		if c := Cond(b); c != nil {
			switch evalCond(c, constEnv) {
			case True:
				gr.dead[Edge{b, 1}] = true
			case False:
				gr.dead[Edge{b, 0}] = true
			}
		}
	}
	if len(gr.dead) > 0 && len(g.Blocks) > 0 {
		// code behind a constant-false condition is not part of the program:
		// keep only the blocks reachable over feasible edges
		seen := map[*cfg.Block]bool{g.Blocks[0]: true}
		work := []*cfg.Block{g.Blocks[0]}
		for len(work) > 0 {
			b := work[0]
			work = work[1:]
			for k, s := range b.Succs {
				if gr.dead[Edge{b, k}] || seen[s] {
					continue
				}
				seen[s] = true
				work = append(work, s)
			}
		}
		var live []*cfg.Block
		for _, b := range gr.Blocks {
			if seen[b] {
				live = append(live, b)
			}
		}
		gr.Blocks = live
	}
	return gr
}

func (g *Graph) Entry() Point { return Point{g.G.Blocks[0], 0} }

// switchConds maps a case expression of a tagged switch to the comparison it
// stands for: go/cfg records only the case expression ("one half of the tag ==
// cond condition") as the branch condition; rules are written against
// comparisons, so `switch x { case A:` reads as `x == A` exactly like the
// equivalent `if x == A`.
var switchConds sync.Map // ast.Expr -> *ast.BinaryExpr

func registerSwitchConds(body ast.Node) {
	ast.Inspect(body, func(n ast.Node) bool {
		sw, ok := n.(*ast.SwitchStmt)
		if !ok || sw.Tag == nil {
			return true
		}
		for _, cl := range sw.Body.List {
			for _, e := range cl.(*ast.CaseClause).List {
				if _, done := switchConds.Load(e); !done {
					switchConds.Store(e, &ast.BinaryExpr{X: sw.Tag, OpPos: e.Pos(), Op: token.EQL, Y: e})
				}
			}
		}
		return true
	})
}

// Cond returns the condition expression ending block b, if b is a two-way branch.
func Cond(b *cfg.Block) ast.Expr {
	if len(b.Succs) != 2 || len(b.Nodes) == 0 {
		return nil
	}
	e, _ := b.Nodes[len(b.Nodes)-1].(ast.Expr)
	if e != nil {
		if be, ok := switchConds.Load(e); ok {
			return be.(*ast.BinaryExpr)
		}
	}
	return e
}

// Site is an AST node of interest located in the CFG.
type Site struct {
	F    *Func
	P    Point
	Node ast.Node      // the CFG node containing it
	Call *ast.CallExpr // when the site is a call (for a wrapper site: the virtual inlined call)
	X    ast.Node      // the precise inner node matched
	Real *ast.CallExpr // wrapper site: the call that is actually in F's body
	Via  *Func         // wrapper site: the helper that performs the call
}

// real returns the call expression that syntactically occurs in s.F.
func (s Site) real() *ast.CallExpr {
	if s.Real != nil {
		return s.Real
	}
	return s.Call
}

func (s Site) Pos() string { return s.F.Pos(s.X) }

// inspectNoLit walks n without descending into function literals.
func inspectNoLit(n ast.Node, fn func(ast.Node) bool) {
	ast.Inspect(n, func(x ast.Node) bool {
		if x == nil {
			return false
		}
		if _, ok := x.(*ast.FuncLit); ok {
			fn(x) // the literal itself is visible, its body is not
			return false
		}
		return fn(x)
	})
}

// Find locates every inner node of f's own body (not nested literals) for
// which match returns true.
func (f *Func) Find(match func(n ast.Node) bool) []Site {
	g := f.Graph()
	var out []Site
	for _, b := range g.Blocks {
		for i, n := range b.Nodes {
			// a RangeStmt/other compound node never appears whole; nodes are
			// simple statements and expressions.
			inspectNoLit(n, func(x ast.Node) bool {
				if match(x) {
					s := Site{F: f, P: Point{b, i}, Node: n, X: x}
					if c, ok := x.(*ast.CallExpr); ok {
						s.Call = c
					}
					out = append(out, s)
				}
				return true
			})
		}
	}
	sort.Slice(out, func(i, j int) bool { return out[i].X.Pos() < out[j].X.Pos() })
	return out
}

// Calls locates the call sites in f's own body matching the callee spec.
func (f *Func) Calls(spec ...Callee) []Site {
	return f.Find(func(n ast.Node) bool {
		c, ok := n.(*ast.CallExpr)
		return ok && matchCallee(f.Info(), c, spec...)
	})
}

// CallsDeep is Calls over f and all nested function literals.
func (f *Func) CallsDeep(spec ...Callee) []Site {
	out := f.Calls(spec...)
	for _, l := range f.Lits {
		out = append(out, l.CallsDeep(spec...)...)
	}
	return out
}

// Returns lists the return statements of f's own body.
func (f *Func) Returns() []Site {
	return f.Find(func(n ast.Node) bool { _, ok := n.(*ast.ReturnStmt); return ok })
}

// ---------------------------------------------------------------------------
// Reachability with cuts.

type Cut struct {
	Edges map[Edge]bool
	// Stop reports that traversal must not continue past this node (the node
	// itself is still reached).
	Stop func(p Point, n ast.Node) bool
	// Block reports that the node cannot even be entered.
	Block func(p Point, n ast.Node) bool
	// NoEnter reports that a block cannot be entered through an edge (used
	// for loop heads, which carry no nodes of their own).
	NoEnter func(b *cfg.Block) bool
}

// Reach explores forward from 'from' (exclusive of nodes before from.I) and
// returns the first point satisfying target, with the path of blocks taken.
// A nil result means unreachable under the cut.
func (g *Graph) Reach(from Point, cut Cut, target func(p Point, n ast.Node) bool) (*Point, []*cfg.Block) {
	return g.reachEnv(from, nil, cut, target)
}

// ReachAfter is Reach from the point after site s, knowing what the node at s
// itself assigned to the tracked variables.
func (g *Graph) ReachAfter(s Site, cut Cut, target func(p Point, n ast.Node) bool) (*Point, []*cfg.Block) {
	var env penv
	if s.P.I < len(s.P.B.Nodes) {
		env = g.step(nil, s.P.B.Nodes[s.P.I])
	}
	return g.reachEnv(s.After(), env, cut, target)
}

func (g *Graph) reachEnv(from Point, env0 penv, cut Cut, target func(p Point, n ast.Node) bool) (*Point, []*cfg.Block) {
	type item struct {
		b    *cfg.Block
		i    int
		env  penv
		prev *item
	}
	seen := map[string]bool{}
	queue := []*item{{from.B, from.I, env0, nil}}
	pathOf := func(it *item) []*cfg.Block {
		var p []*cfg.Block
		for x := it; x != nil; x = x.prev {
			p = append([]*cfg.Block{x.b}, p...)
		}
		return p
	}
	for len(queue) > 0 {
		it := queue[0]
		queue = queue[1:]
		stopped := false
		env := it.env
		for i := it.i; i < len(it.b.Nodes); i++ {
			n := it.b.Nodes[i]
			p := Point{it.b, i}
			if cut.Block != nil && cut.Block(p, n) {
				stopped = true
				break
			}
			if target != nil && target(p, n) {
				return &p, pathOf(it)
			}
			if cut.Stop != nil && cut.Stop(p, n) {
				stopped = true
				break
			}
			env = g.step(env, n)
		}
		if stopped {
			continue
		}
		// end-of-block pseudo target (function exit by falling off the end)
		if g.fallsOff(it.b) && target != nil {
			p := Point{it.b, len(it.b.Nodes)}
			if target(p, nil) {
				return &p, pathOf(it)
			}
		}
		for k, s := range it.b.Succs {
			e := Edge{it.b, k}
			if cut.Edges[e] || g.dead[e] {
				continue
			}
			if cut.NoEnter != nil && cut.NoEnter(s) {
				continue
			}
			if !g.feasible(e, env) {
				continue
			}
			nenv := g.refine(env, e)
			key := fmt.Sprintf("%d|%s", s.Index, nenv.key())
			if seen[key] {
				continue
			}
			seen[key] = true
			queue = append(queue, &item{s, 0, nenv, it})
		}
	}
	return nil, nil
}

// ReachableFromEntry is Reach from the function entry.
func (g *Graph) ReachableFromEntry(cut Cut, target func(p Point, n ast.Node) bool) (*Point, []*cfg.Block) {
	return g.Reach(g.Entry(), cut, target)
}

func atNode(x ast.Node) func(Point, ast.Node) bool {
	return func(_ Point, n ast.Node) bool { return n != nil && n == x }
}

func atSite(s Site) func(Point, ast.Node) bool {
	return func(p Point, n ast.Node) bool { return n != nil && p == s.P }
}

func atAnySite(ss []Site) func(Point, ast.Node) bool {
	return func(p Point, n ast.Node) bool {
		if n == nil {
			return false
		}
		for _, s := range ss {
			if p == s.P {
				return true
			}
		}
		return false
	}
}

// describePath renders a block path as the source lines of the branch
// conditions taken, for diagnostics.
func (g *Graph) describePath(path []*cfg.Block) string {
	s := ""
	for i, b := range path {
		if i > 0 {
			s += " -> "
		}
		if len(b.Nodes) > 0 {
			s += g.F.Pos(b.Nodes[0])
		} else {
			s += b.String()
		}
	}
	return s
}

// ---------------------------------------------------------------------------
// Conditions.

type Atom struct {
	E   ast.Expr
	Val bool
}

// implied returns the atomic facts guaranteed when cond evaluates to branch.
func implied(cond ast.Expr, branch bool) []Atom {
	switch c := cond.(type) {
	case *ast.ParenExpr:
		return implied(c.X, branch)
	case *ast.UnaryExpr:
		if c.Op == token.NOT {
			return implied(c.X, !branch)
		}
	case *ast.BinaryExpr:
		if c.Op == token.LAND {
			if branch {
				return append(implied(c.X, true), implied(c.Y, true)...)
			}
			return []Atom{{cond, false}}
		}
		if c.Op == token.LOR {
			if !branch {
				return append(implied(c.X, false), implied(c.Y, false)...)
			}
			return []Atom{{cond, true}}
		}
	}
	return []Atom{{cond, branch}}
}

// EdgeFacts returns the atoms implied by taking edge e (empty for
// unconditional edges).
func EdgeFacts(e Edge) []Atom {
	c := Cond(e.From)
	if c == nil {
		return nil
	}
	return implied(c, e.Idx == 0)
}

// CondEdges lists all conditional edges of the graph.
func (g *Graph) CondEdges() []Edge {
	var out []Edge
	for _, b := range g.Blocks {
		if Cond(b) != nil {
			out = append(out, Edge{b, 0}, Edge{b, 1})
		}
	}
	return out
}

// EdgesImplying returns the conditional edges one of whose implied atoms
// satisfies pred.
func (g *Graph) EdgesImplying(pred func(a Atom) bool) map[Edge]bool {
	out := map[Edge]bool{}
	for _, e := range g.CondEdges() {
		for _, a := range EdgeFacts(e) {
			if pred(a) {
				out[e] = true
				break
			}
		}
	}
	return out
}

// Tri is a three-valued truth value.
type Tri int

const (
	Unknown Tri = iota
	True
	False
	// Fresh is used by the path search only (pathsens.go): a non-nil error that was just built by
	// errors.New / fmt.Errorf, hence True and also not identical (==) to any sentinel variable.
	Fresh
)

func (t Tri) Not() Tri {
	switch t {
	case True, Fresh:
		return False
	case False:
		return True
	}
	return Unknown
}

// evalCond evaluates cond with atoms decided by env (Unknown if env does not
// know). Short-circuit operators are handled by Kleene logic.
func evalCond(cond ast.Expr, env func(e ast.Expr) Tri) Tri {
	switch c := cond.(type) {
	case *ast.ParenExpr:
		return evalCond(c.X, env)
	case *ast.UnaryExpr:
		if c.Op == token.NOT {
			return evalCond(c.X, env).Not()
		}
	case *ast.BinaryExpr:
		if c.Op == token.LAND {
			a, b := evalCond(c.X, env), evalCond(c.Y, env)
			if a == False || b == False {
				return False
			}
			if a == True && b == True {
				return True
			}
			return Unknown
		}
		if c.Op == token.LOR {
			a, b := evalCond(c.X, env), evalCond(c.Y, env)
			if a == True || b == True {
				return True
			}
			if a == False && b == False {
				return False
			}
			return Unknown
		}
	}
	return env(cond)
}

// FeasibleCut returns the set of conditional edges that are infeasible under
// env: for every two-way block whose condition evaluates to a definite value,
// the opposite edge is cut.
func (g *Graph) FeasibleCut(env func(e ast.Expr) Tri) map[Edge]bool {
	cut := map[Edge]bool{}
	for _, b := range g.Blocks {
		c := Cond(b)
		if c == nil {
			continue
		}
		switch evalCond(c, env) {
		case True:
			cut[Edge{b, 1}] = true
		case False:
			cut[Edge{b, 0}] = true
		}
	}
	return cut
}

// ---------------------------------------------------------------------------
// Comparison atoms.

const (
	relLT = 1 << iota
	relEQ
	relGT
	relAny = relLT | relEQ | relGT
)

// cmpRel interprets atom a as a constraint on the order of L relative to R,
// where isL/isR recognise the two operands (in either textual order). The
// result is the set of relations (relLT|relEQ|relGT) under which the atom
// holds. ok=false if the atom is not a comparison of L and R.
func cmpRel(a Atom, isL, isR func(ast.Expr) bool) (rel int, ok bool) {
	be, isBin := ast.Unparen(a.E).(*ast.BinaryExpr)
	if !isBin {
		return 0, false
	}
	var set int
	switch be.Op {
	case token.LSS:
		set = relLT
	case token.LEQ:
		set = relLT | relEQ
	case token.GTR:
		set = relGT
	case token.GEQ:
		set = relGT | relEQ
	case token.EQL:
		set = relEQ
	case token.NEQ:
		set = relLT | relGT
	default:
		return 0, false
	}
	switch {
	case isL(be.X) && isR(be.Y):
	case isL(be.Y) && isR(be.X):
		// swap: X op Y with X=R, Y=L  => L (flip op) R
		flipped := 0
		if set&relLT != 0 {
			flipped |= relGT
		}
		if set&relGT != 0 {
			flipped |= relLT
		}
		if set&relEQ != 0 {
			flipped |= relEQ
		}
		set = flipped
	default:
		return 0, false
	}
	if !a.Val {
		set = relAny &^ set
	}
	// domain knowledge: len(x) / cap(x) is never negative, so against the literal 0 the relation
	// "less than" is impossible (`len(p) > 0` false means len(p) == 0, as `len(p) != 0` false does)
	lx, rx := be.X, be.Y
	if !(isL(be.X) && isR(be.Y)) {
		lx, rx = be.Y, be.X
	}
	nonNeg := func(e ast.Expr) bool {
		c, ok := ast.Unparen(e).(*ast.CallExpr)
		if !ok || len(c.Args) != 1 {
			return false
		}
		id, ok := ast.Unparen(c.Fun).(*ast.Ident)
		return ok && (id.Name == "len" || id.Name == "cap")
	}
	zero := func(e ast.Expr) bool {
		l, ok := ast.Unparen(e).(*ast.BasicLit)
		return ok && l.Kind == token.INT && l.Value == "0"
	}
	if nonNeg(lx) && zero(rx) {
		set &^= relLT
	} else if zero(lx) && nonNeg(rx) {
		set &^= relGT
	}
	return set, true
}

// isNilCmp recognises `x == nil` / `x != nil` (either order) for an x
// accepted by isX; eq reports the polarity of the operator as written.
func isNilCmp(info *types.Info, e ast.Expr, isX func(ast.Expr) bool) (eq bool, ok bool) {
	be, isBin := ast.Unparen(e).(*ast.BinaryExpr)
	if !isBin || (be.Op != token.EQL && be.Op != token.NEQ) {
		return false, false
	}
	isNil := func(x ast.Expr) bool {
		id, ok := ast.Unparen(x).(*ast.Ident)
		if !ok {
			return false
		}
		_, isNilObj := info.Uses[id].(*types.Nil)
		return isNilObj
	}
	if (isX(be.X) && isNil(be.Y)) || (isX(be.Y) && isNil(be.X)) {
		return be.Op == token.EQL, true
	}
	return false, false
}

// ReachAll returns every point reachable from 'from' under the cut that
// satisfies pred (pred is called with n == nil for the end of an exit block).
func (g *Graph) ReachAll(from Point, cut Cut, pred func(p Point, n ast.Node) bool) []Point {
	var out []Point
	got := map[Point]bool{}
	seen := map[string]bool{}
	type item struct {
		b   *cfg.Block
		i   int
		env penv
	}
	queue := []item{{from.B, from.I, nil}}
	for len(queue) > 0 {
		it := queue[0]
		queue = queue[1:]
		stopped := false
		env := it.env
		for i := it.i; i < len(it.b.Nodes); i++ {
			n := it.b.Nodes[i]
			p := Point{it.b, i}
			if cut.Block != nil && cut.Block(p, n) {
				stopped = true
				break
			}
			if pred(p, n) && !got[p] {
				got[p] = true
				out = append(out, p)
			}
			if cut.Stop != nil && cut.Stop(p, n) {
				stopped = true
				break
			}
			env = g.step(env, n)
		}
		if stopped {
			continue
		}
		if g.fallsOff(it.b) {
			p := Point{it.b, len(it.b.Nodes)}
			if pred(p, nil) && !got[p] {
				got[p] = true
				out = append(out, p)
			}
		}
		for k, s := range it.b.Succs {
			e := Edge{it.b, k}
			if cut.Edges[e] || g.dead[e] {
				continue
			}
			if cut.NoEnter != nil && cut.NoEnter(s) {
				continue
			}
			if !g.feasible(e, env) {
				continue
			}
			nenv := g.refine(env, e)
			key := fmt.Sprintf("%d|%s", s.Index, nenv.key())
			if seen[key] {
				continue
			}
			seen[key] = true
			queue = append(queue, item{s, 0, nenv})
		}
	}
	return out
}

// ReturnsFrom lists the return statements reachable from 'from' under cut.
func (g *Graph) ReturnsFrom(from Point, cut Cut) []*ast.ReturnStmt {
	var out []*ast.ReturnStmt
	for _, p := range g.ReachAll(from, cut, func(_ Point, n ast.Node) bool { _, ok := n.(*ast.ReturnStmt); return ok }) {
		out = append(out, p.B.Nodes[p.I].(*ast.ReturnStmt))
	}
	return out
}

// After returns the point just after site s.
func (s Site) After() Point { return Point{s.P.B, s.P.I + 1} }

// EdgeStart is the entry point of the block an edge leads to.
func EdgeStart(e Edge) Point { return Point{e.To(), 0} }

func unionEdges(ms ...map[Edge]bool) map[Edge]bool {
	out := map[Edge]bool{}
	for _, m := range ms {
		for e := range m {
			out[e] = true
		}
	}
	return out
}

// EntersBlock reports whether block blk can be entered through an edge on a
// path starting at 'from' under the cut (Stop/Block node predicates apply).
func (g *Graph) EntersBlock(from Point, cut Cut, blk *cfg.Block) bool {
	hit := false
	inner := cut
	prev := cut.NoEnter
	inner.NoEnter = func(b *cfg.Block) bool {
		if prev != nil && prev(b) {
			return true
		}
		if b == blk {
			hit = true
			return true
		}
		return false
	}
	g.ReachAll(from, inner, func(Point, ast.Node) bool { return false })
	return hit
}

// fallsOff reports whether control leaves the function at the end of block b
// without a return statement or a call that does not return.
func (g *Graph) fallsOff(b *cfg.Block) bool {
	if len(b.Succs) != 0 {
		return false
	}
	if b.Kind == cfg.KindSelectAfterCase {
		return false // a select without default that matches no case blocks; it does not leave the function
	}
	if len(b.Nodes) == 0 {
		return true
	}
	switch n := b.Nodes[len(b.Nodes)-1].(type) {
	case *ast.ReturnStmt:
		return false
	case *ast.ExprStmt:
		if call, ok := n.X.(*ast.CallExpr); ok && !g.F.mayReturn(call) {
			return false
		}
	}
	return true
}
