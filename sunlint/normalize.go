package main

// Source normalisation before analysis (in memory, never written to disk,
// nothing executed). Two behaviour-preserving rewrites bring a refactored tree
// back to the shapes the rules were written against:
//
//	N1  a call to a same-package helper that did not exist when the rules were
//	    written (its name is not in the frozen function table, paramtable.go) is
//	    replaced by the helper's body: parameters bound to fresh variables, every
//	    `return` turned into an assignment to fresh result variables followed by
//	    a jump to a label after the body, top-level `defer`s run at each exit.
//	    "Extract function" - the most common refactor - is thereby undone, and a
//	    defect hidden in a new helper is analysed in its calling context.
//	N2  `return a && b` in a function returning one bool becomes
//	    `if !(a) { return false }; return b`.
//
// The rewritten files carry //line directives, so every position reported
// still names the original file and line. The result is re-type-checked by
// go/packages (Overlay); if that fails the normalisation is abandoned and the
// rules run on the tree as it is.

import (
	"bytes"
	"fmt"
	"go/ast"
	"go/token"
	"go/types"
	"os"
	"sort"
	"strings"
)

type srcEdit struct {
	start, end int
	text       string
}

func applySrcEdits(src []byte, edits []srcEdit) []byte {
	sort.Slice(edits, func(i, j int) bool { return edits[i].start < edits[j].start })
	var out bytes.Buffer
	pos := 0
	for _, e := range edits {
		if e.start < pos {
			continue // overlapping: dropped, a later round will see it
		}
		out.Write(src[pos:e.start])
		out.WriteString(e.text)
		pos = e.end
	}
	out.Write(src[pos:])
	return out.Bytes()
}

type normalizer struct {
	p       *Program
	counter int
	notes   []string
	inlined map[string]int
	dropped map[string]bool
	hoisted map[string]bool
	sra     []string
}

// normalizeProgram returns the program the rules are run on and notes for the
// evidence file.
func normalizeProgram(p0 *Program) (*Program, []string) {
	nz := &normalizer{p: p0, inlined: map[string]int{}}
	cur := p0
	overlay := map[string][]byte{}
	for k, v := range p0.overlay {
		overlay[k] = v
	}
	for round := 0; round < 10; round++ {
		nz.p = cur
		edits := nz.collect()
		if len(edits) == 0 && !noSRA {
			edits = nz.collectMethodValues()
		}
		if len(edits) == 0 && !noSRA {
			edits = nz.collectSRA()
		}
		if len(edits) == 0 {
			edits = nz.collectBoolHoists()
		}
		if len(edits) == 0 {
			edits = nz.dropInlinedHelpers()
			if len(edits) == 0 {
				break
			}
		}
		next := map[string][]byte{}
		for k, v := range overlay {
			next[k] = v
		}
		for name, es := range edits {
			src, err := cur.readFile(name)
			if err != nil {
				nz.notes = append(nz.notes, "normalisation abandoned: cannot read "+name)
				return cur, nz.notes
			}
			next[name] = applySrcEdits(src, es)
		}
		np, err := cur.withOverlay(next)
		if err != nil && normDebug {
			os.MkdirAll("/tmp/normfail", 0o755)
			for name, b := range next {
				os.WriteFile("/tmp/normfail/"+strings.ReplaceAll(strings.TrimPrefix(name, p0.Dir+"/"), "/", "__"), b, 0o644)
			}
		}
		if err != nil {
			nz.notes = append(nz.notes, fmt.Sprintf("normalisation round %d abandoned (the rewritten tree does not type-check: %v); rules run on the previous form", round+1, err))
			return cur, nz.notes
		}
		overlay = next
		cur = np
	}
	if len(nz.inlined) > 0 {
		var ks []string
		for k, n := range nz.inlined {
			ks = append(ks, fmt.Sprintf("%s x%d", k, n))
		}
		sort.Strings(ks)
		nz.notes = append(nz.notes, "helpers not in the frozen function table inlined before analysis: "+strings.Join(ks, ", "))
	}
	if len(nz.sra) > 0 {
		sort.Strings(nz.sra)
		nz.notes = append(nz.notes, "local aggregates replaced by one variable per field before analysis: "+strings.Join(nz.sra, ", "))
	}
	return cur, nz.notes
}

var noSRA = os.Getenv("SUNLINT_NOSRA") != ""

func (nz *normalizer) fresh(kind string) string {
	nz.counter++
	return fmt.Sprintf("_inl%d%s", nz.counter, kind)
}

// ---------------------------------------------------------------------------

type fileCtx struct {
	nz   *normalizer
	pk   *pkgT
	file *ast.File
	name string
	src  []byte
	tf   *token.File
}

type pkgT = struct {
	Info  *types.Info
	Types *types.Package
}

func (fc *fileCtx) off(pos token.Pos) int { return fc.tf.Offset(pos) }
func (fc *fileCtx) text(a, b token.Pos) string {
	return string(fc.src[fc.off(a):fc.off(b)])
}

// lineDir renders a //line directive making the text that follows count as
// (the rest of) the given original line.
func (nz *normalizer) lineDir(pos token.Pos) string {
	po := nz.p.Fset.Position(pos)
	return fmt.Sprintf("\n//line %s:%d\n", po.Filename, po.Line)
}

func (nz *normalizer) collect() map[string][]srcEdit {
	out := map[string][]srcEdit{}
	p := nz.p
	for _, pk := range p.All {
		for _, file := range pk.Syntax {
			tf := p.Fset.File(file.Pos())
			if tf == nil {
				continue
			}
			name := tf.Name()
			if strings.HasSuffix(name, "_test.go") {
				continue
			}
			src, err := p.readFile(name)
			if err != nil {
				continue
			}
			fc := &fileCtx{nz: nz, pk: &pkgT{pk.TypesInfo, pk.Types}, file: file, name: name, src: src, tf: tf}
			var edits []srcEdit
			busyUntil := token.NoPos
			for _, d := range file.Decls {
				fd, ok := d.(*ast.FuncDecl)
				if !ok || fd.Body == nil {
					continue
				}
				fc.walkBody(fd, fd.Type, fd.Body, &edits, &busyUntil)
			}
			if len(edits) > 0 {
				out[name] = edits
			}
		}
	}
	return out
}

// walkBody visits the statements of one function body (and of nested literals)
// and records at most one rewrite per outermost statement.
func (fc *fileCtx) walkBody(decl *ast.FuncDecl, ftype *ast.FuncType, body *ast.BlockStmt, edits *[]srcEdit, busyUntil *token.Pos) {
	var visitStmts func(list []ast.Stmt, ftype *ast.FuncType)
	var visitStmt func(s ast.Stmt, ftype *ast.FuncType)
	visitLits := func(n ast.Node) {
		ast.Inspect(n, func(x ast.Node) bool {
			if lit, ok := x.(*ast.FuncLit); ok {
				visitStmts(lit.Body.List, lit.Type)
				return false
			}
			return true
		})
	}
	visitStmt = func(s ast.Stmt, ftype *ast.FuncType) {
		if s == nil || s.Pos() < *busyUntil {
			return
		}
		if es := fc.rewriteStmt(s, ftype); len(es) > 0 {
			*edits = append(*edits, es...)
			*busyUntil = s.End()
			return
		}
		switch x := s.(type) {
		case *ast.BlockStmt:
			visitStmts(x.List, ftype)
		case *ast.IfStmt:
			visitLits(x.Cond)
			visitStmt(x.Body, ftype)
			visitStmt(x.Else, ftype)
		case *ast.ForStmt:
			visitStmt(x.Body, ftype)
		case *ast.RangeStmt:
			visitStmt(x.Body, ftype)
		case *ast.SwitchStmt:
			visitStmt(x.Body, ftype)
		case *ast.TypeSwitchStmt:
			visitStmt(x.Body, ftype)
		case *ast.SelectStmt:
			visitStmt(x.Body, ftype)
		case *ast.CaseClause:
			visitStmts(x.Body, ftype)
		case *ast.CommClause:
			visitStmts(x.Body, ftype)
		case *ast.LabeledStmt:
			visitStmt(x.Stmt, ftype)
		default:
			visitLits(s)
		}
	}
	visitStmts = func(list []ast.Stmt, ftype *ast.FuncType) {
		for i, s := range list {
			if i+1 < len(list) && s.Pos() >= *busyUntil {
				if es := fc.rewritePair(s, list[i+1]); len(es) > 0 {
					*edits = append(*edits, es...)
					*busyUntil = list[i+1].End()
					continue
				}
			}
			visitStmt(s, ftype)
		}
	}
	visitStmts(body.List, ftype)
}

// ---------------------------------------------------------------------------
// candidate helpers

type helper struct {
	fn      *types.Func // nil for a local closure
	sig     *types.Signature
	cvar    types.Object // the variable a local closure is bound to
	f       *Func
	defers  []*ast.DeferStmt
	results int
	// complexDefer: the helper has a defer that is conditional, takes arguments or defers a closure
	complexDefer bool
}

func isPureExpr(info *types.Info, e ast.Expr) bool {
	switch x := e.(type) {
	case nil:
		return true
	case *ast.Ident, *ast.BasicLit:
		return true
	case *ast.ParenExpr:
		return isPureExpr(info, x.X)
	case *ast.SelectorExpr:
		return isPureExpr(info, x.X)
	case *ast.StarExpr:
		return isPureExpr(info, x.X)
	case *ast.UnaryExpr:
		return x.Op != token.ARROW && isPureExpr(info, x.X)
	case *ast.BinaryExpr:
		return isPureExpr(info, x.X) && isPureExpr(info, x.Y)
	case *ast.IndexExpr:
		return isPureExpr(info, x.X) && isPureExpr(info, x.Index)
	case *ast.SliceExpr:
		return isPureExpr(info, x.X) && isPureExpr(info, x.Low) && isPureExpr(info, x.High) && isPureExpr(info, x.Max)
	case *ast.CompositeLit:
		for _, el := range x.Elts {
			if kv, ok := el.(*ast.KeyValueExpr); ok {
				el = kv.Value
			}
			if !isPureExpr(info, el) {
				return false
			}
		}
		return true
	case *ast.CallExpr:
		if tv, ok := info.Types[x.Fun]; ok && tv.IsType() && len(x.Args) == 1 {
			return isPureExpr(info, x.Args[0])
		}
		if id, ok := ast.Unparen(x.Fun).(*ast.Ident); ok {
			if _, isB := info.Uses[id].(*types.Builtin); isB && (id.Name == "len" || id.Name == "cap") && len(x.Args) == 1 {
				return isPureExpr(info, x.Args[0])
			}
		}
	}
	return false
}

var normDebug = os.Getenv("SUNLINT_DEBUG_NORM") != ""

func dbg(format string, a ...any) {
	if normDebug {
		fmt.Fprintf(os.Stderr, "norm: "+format+"\n", a...)
	}
}

func (nz *normalizer) candidate(fn *types.Func) (res *helper) {
	if fn == nil || fn.Pkg() == nil {
		return nil
	}
	defer func() {
		if res == nil {
			if _, known := frozenParams[fn.Origin().FullName()]; !known && nz.p.Pkgs[fn.Pkg().Path()] != nil {
				dbg("not a candidate: %s", fn.FullName())
			}
		}
	}()
	fn = fn.Origin()
	if _, known := frozenParams[fn.FullName()]; known {
		return nil
	}
	if _, renamed := nz.p.renamed[fn.FullName()]; renamed {
		return nil // an anchored function under a new name, not a new helper
	}
	f := nz.p.FuncOf(fn)
	if f == nil || f.Decl == nil || f.Body == nil {
		return nil
	}
	if strings.HasSuffix(nz.p.Fset.Position(f.Decl.Pos()).Filename, "_test.go") {
		return nil
	}
	sig := fn.Type().(*types.Signature)
	if sig.TypeParams() != nil || sig.RecvTypeParams() != nil || sig.Variadic() {
		return nil
	}
	// two kinds of helper are left in place because dedicated rules validate the helper itself and
	// its call sites (and say more that way than the inlined form would let them say): a helper that
	// evicts from pool.lowPriority (evict.go: C17.a/b, C02.d) and a helper that parses tile leaves for
	// the client (C12.b/f)
	if lowPriorityLoop(f) != nil || (usesReader(f) && sig.Results().Len() == 2 && fn.Pkg().Path() == modPath) {
		return nil
	}
	if f.Decl.Recv != nil && (len(f.Decl.Recv.List) != 1 || len(f.Decl.Recv.List[0].Names) > 1) {
		return nil
	}
	h := &helper{fn: fn, sig: sig, f: f, results: sig.Results().Len()}
	info := f.Info()
	named := false
	if f.Decl.Type.Results != nil {
		for _, fl := range f.Decl.Type.Results.List {
			if len(fl.Names) > 0 {
				named = true
			}
		}
	}
	ok := true
	top := map[ast.Stmt]bool{}
	for _, s := range f.Body.List {
		top[s] = true
	}
	ast.Inspect(f.Body, func(n ast.Node) bool {
		switch x := n.(type) {
		case *ast.FuncLit:
			// a literal's own returns and defers are its own business, but it must not be recursive
			ast.Inspect(x, func(m ast.Node) bool {
				if id, isId := m.(*ast.Ident); isId && info.Uses[id] == fn {
					ok = false
				}
				return true
			})
			return false
		case *ast.LabeledStmt:
			ok = false
		case *ast.BranchStmt:
			if x.Tok == token.GOTO || x.Label != nil {
				ok = false
			}
		case *ast.DeferStmt:
			call := x.Call
			sel, isSel := ast.Unparen(call.Fun).(*ast.SelectorExpr)
			_, isIdent := ast.Unparen(call.Fun).(*ast.Ident) // defer cancel()
			if !top[x] || len(call.Args) != 0 || !(isIdent || (isSel && isPureExpr(info, sel.X))) {
				// only a tail call (`return H(..)`) can take this helper: there the defers stay defers
				h.complexDefer = true
			} else {
				h.defers = append(h.defers, x)
			}
		case *ast.ReturnStmt:
			if len(x.Results) == 0 && h.results > 0 && !named {
				ok = false
			}
		case *ast.Ident:
			if info.Uses[x] == fn {
				ok = false // recursive
			}
			if b, isB := info.Uses[x].(*types.Builtin); isB && b.Name() == "recover" {
				ok = false
			}
		}
		return ok
	})
	if !ok {
		return nil
	}
	return h
}

// candidateCall reports the helper a call expression invokes statically.
func (fc *fileCtx) candidateCall(call *ast.CallExpr) *helper {
	if call == nil || call.Ellipsis != token.NoPos {
		return nil
	}
	fn, ok := calleeObj(fc.pk.Info, call).(*types.Func)
	if !ok {
		return fc.closureCandidate(call)
	}
	if fn.Pkg() != fc.pk.Types {
		return nil
	}
	// a method called through an interface is not a static call
	if sel, isSel := ast.Unparen(call.Fun).(*ast.SelectorExpr); isSel {
		if s := fc.pk.Info.Selections[sel]; s != nil {
			if s.Kind() != types.MethodVal {
				return nil
			}
			if types.IsInterface(s.Recv()) {
				return nil
			}
			if len(s.Index()) != 1 {
				return nil // promoted through embedding: receiver expression would need a path
			}
		}
	}
	return fc.nz.candidate(fn)
}

// ---------------------------------------------------------------------------
// statement rewriting

func (fc *fileCtx) rewriteStmt(s ast.Stmt, ftype *ast.FuncType) []srcEdit {
	info := fc.pk.Info
	switch x := s.(type) {
	case *ast.ExprStmt:
		if call, ok := ast.Unparen(x.X).(*ast.CallExpr); ok {
			if h := fc.candidateCall(call); h != nil {
				if txt, ok := fc.inlineSite(&callSite{h: h, call: call, at: x.Pos(), errIdx: -1}); ok {
					return []srcEdit{{fc.off(x.Pos()), fc.off(x.End()), txt + fc.nz.lineDir(x.End())}}
				}
			}
		}
	case *ast.AssignStmt:
		if len(x.Rhs) == 1 && (x.Tok == token.DEFINE || x.Tok == token.ASSIGN) {
			if call, ok := ast.Unparen(x.Rhs[0]).(*ast.CallExpr); ok {
				if h := fc.candidateCall(call); h != nil && h.results == len(x.Lhs) {
					if txt, ok := fc.inlineSite(&callSite{h: h, call: call, at: x.Pos(), lhs: x.Lhs, tok: x.Tok, errIdx: -1}); ok {
						return []srcEdit{{fc.off(x.Pos()), fc.off(x.End()), txt + fc.nz.lineDir(x.End())}}
					}
				}
			}
			// a helper call inside the right-hand side
			if es := fc.hoistFrom(s, x.Rhs, s.Pos(), s.End()); es != nil {
				return es
			}
		}
	case *ast.ReturnStmt:
		if len(x.Results) == 1 {
			if call, ok := ast.Unparen(x.Results[0]).(*ast.CallExpr); ok {
				if h := fc.candidateCall(call); h != nil && len(h.defers) == 0 || (h != nil && true) {
					if txt, ok := fc.inlineTail(h, call, ftype); ok {
						return []srcEdit{{fc.off(x.Pos()), fc.off(x.End()), txt + fc.nz.lineDir(x.End())}}
					}
				}
			}
			// N2: return a && b
			if be, ok := ast.Unparen(x.Results[0]).(*ast.BinaryExpr); ok && be.Op == token.LAND && ftype.Results != nil && ftype.Results.NumFields() == 1 {
				if tv, has := info.Types[x.Results[0]]; has && isBoolType(tv.Type) {
					txt := "if !(" + fc.text(be.X.Pos(), be.X.End()) + ") {\n\treturn false\n}" + fc.nz.lineDir(be.Y.Pos()) + "return " + fc.text(be.Y.Pos(), be.Y.End())
					return []srcEdit{{fc.off(x.Pos()), fc.off(x.End()), fc.nz.lineDir(x.Pos()) + txt + fc.nz.lineDir(x.End())}}
				}
			}
		}
		// return a, b, H(..): the helper (one result) is in tail position among otherwise pure results;
		// each of its returns becomes the caller's return with that value in place
		if len(x.Results) > 1 {
			idx := -1
			var call *ast.CallExpr
			for i, r := range x.Results {
				if c, ok := ast.Unparen(r).(*ast.CallExpr); ok && fc.candidateCall(c) != nil {
					if idx >= 0 {
						idx = -2
						break
					}
					idx, call = i, c
				} else if !isPureExpr(info, r) {
					idx = -2
					break
				}
			}
			if idx >= 0 {
				if h := fc.candidateCall(call); h != nil && h.results == 1 {
					var pre, post []string
					for i, r := range x.Results {
						t := fc.text(r.Pos(), r.End())
						if i < idx {
							pre = append(pre, t)
						} else if i > idx {
							post = append(post, t)
						}
					}
					if txt, ok := fc.inlineTailWith(h, call, pre, post); ok {
						return []srcEdit{{fc.off(x.Pos()), fc.off(x.End()), txt + fc.nz.lineDir(x.End())}}
					}
				}
			}
		}
		if es := fc.hoistFrom(s, x.Results, s.Pos(), s.End()); es != nil {
			return es
		}
	case *ast.DeferStmt:
		if h := fc.candidateCall(x.Call); h != nil && h.results == 0 && len(h.defers) == 0 {
			if txt, ok := fc.inlineDefer(h, x.Call); ok {
				return []srcEdit{{fc.off(x.Pos()), fc.off(x.End()), txt + fc.nz.lineDir(x.End())}}
			}
		}
	case *ast.IfStmt:
		// if <init>; cond {  with the helper call as the whole init
		if x.Init != nil {
			var call *ast.CallExpr
			cs := &callSite{at: x.Init.Pos(), errIdx: -1}
			switch in := x.Init.(type) {
			case *ast.AssignStmt:
				if len(in.Rhs) == 1 && (in.Tok == token.DEFINE || in.Tok == token.ASSIGN) {
					call, _ = ast.Unparen(in.Rhs[0]).(*ast.CallExpr)
					cs.lhs, cs.tok = in.Lhs, in.Tok
				}
			case *ast.ExprStmt:
				call, _ = ast.Unparen(in.X).(*ast.CallExpr)
			}
			h := fc.candidateCall(call)
			if h == nil || (cs.lhs != nil && h.results != len(cs.lhs)) {
				return nil
			}
			cs.h, cs.call = h, call
			// `if ..., err := H(); err != nil { terminating }` without else: the failing returns of the
			// helper continue straight into (a copy of) the error branch
			if x.Else == nil && isTerminating(x.Body) && cs.lhs != nil {
				if idx := fc.errTestIndex(x.Cond, cs.lhs); idx >= 0 {
					cs.cont, cs.errIdx, cs.ifPos = x.Body, idx, x.Pos()
					if txt, ok := fc.inlineSite(cs); ok {
						return []srcEdit{{fc.off(x.Pos()), fc.off(x.End()), "{\n" + txt + "\n}" + fc.nz.lineDir(x.End())}}
					}
					cs.cont, cs.errIdx = nil, -1
				}
			}
			if txt, ok := fc.inlineSite(cs); ok {
				return []srcEdit{
					{fc.off(x.Pos()), fc.off(x.Cond.Pos()), "{\n" + txt + fc.nz.lineDir(x.Cond.Pos()) + "if "},
					{fc.off(x.End()), fc.off(x.End()), "\n}" + fc.nz.lineDir(x.End())},
				}
			}
			return nil
		}
		// a helper call inside the condition (evaluated first)
		if call, h := fc.firstEvaluatedCall([]ast.Expr{x.Cond}); call != nil && h.results == 1 {
			tmp := fc.nz.fresh("v")
			if txt, ok := fc.inlineStmt(h, call, x.Pos(), tmp+" := ", nil, false); ok {
				return []srcEdit{
					{fc.off(x.Pos()), fc.off(x.Pos()), "{\n" + txt + fc.nz.lineDir(x.Pos())},
					{fc.off(call.Pos()), fc.off(call.End()), tmp},
					{fc.off(x.End()), fc.off(x.End()), "\n}" + fc.nz.lineDir(x.End())},
				}
			}
		}
	}
	return nil
}

// firstEvaluatedCall finds a helper call that is evaluated before anything
// impure in the given expressions (so that computing it first, in a statement
// of its own, changes nothing), and unconditionally.
func (fc *fileCtx) firstEvaluatedCall(exprs []ast.Expr) (*ast.CallExpr, *helper) {
	info := fc.pk.Info
	var found *ast.CallExpr
	var fh *helper
	blocked := false
	var walk func(e ast.Expr, conditional bool)
	walk = func(e ast.Expr, conditional bool) {
		if e == nil || found != nil || blocked {
			return
		}
		switch x := e.(type) {
		case *ast.ParenExpr:
			walk(x.X, conditional)
		case *ast.UnaryExpr:
			if x.Op == token.ARROW {
				blocked = true
				return
			}
			walk(x.X, conditional)
		case *ast.BinaryExpr:
			walk(x.X, conditional)
			walk(x.Y, conditional || x.Op == token.LAND || x.Op == token.LOR)
		case *ast.CallExpr:
			if h := fc.candidateCall(x); h != nil && !conditional {
				found, fh = x, h
				return
			}
			if isPureExpr(info, x) {
				return
			}
			// an impure call: its operands are evaluated first
			if sel, ok := ast.Unparen(x.Fun).(*ast.SelectorExpr); ok {
				walk(sel.X, conditional)
			}
			for _, a := range x.Args {
				walk(a, conditional)
			}
			if found == nil {
				blocked = true
			}
		case *ast.SelectorExpr:
			walk(x.X, conditional)
		case *ast.IndexExpr:
			walk(x.X, conditional)
			walk(x.Index, conditional)
		case *ast.StarExpr:
			walk(x.X, conditional)
		case *ast.Ident, *ast.BasicLit:
		case *ast.FuncLit:
		default:
			if !isPureExpr(info, e) {
				blocked = true
			}
		}
	}
	for _, e := range exprs {
		walk(e, false)
	}
	if blocked && found == nil {
		return nil, nil
	}
	return found, fh
}

// hoistFrom rewrites statement s (an assignment or a return) whose expressions
// contain a helper call that is evaluated first: the call is inlined before the
// statement and replaced by a fresh variable.
func (fc *fileCtx) hoistFrom(s ast.Stmt, exprs []ast.Expr, start, end token.Pos) []srcEdit {
	call, h := fc.firstEvaluatedCall(exprs)
	if call == nil || h.results != 1 {
		return nil
	}
	for _, e := range exprs {
		if ast.Unparen(e) == ast.Expr(call) {
			return nil // handled by the whole-expression forms
		}
	}
	tmp := fc.nz.fresh("v")
	txt, ok := fc.inlineStmt(h, call, start, tmp+" := ", nil, false)
	if !ok {
		return nil
	}
	// no enclosing block: the statement may declare variables the following statements use
	return []srcEdit{
		{fc.off(start), fc.off(start), txt + fc.nz.lineDir(start)},
		{fc.off(call.Pos()), fc.off(call.End()), tmp},
	}
}

// ---------------------------------------------------------------------------
// the inlined body

type inlPlan struct {
	h      *helper
	hfc    *fileCtx // file of the helper
	rename map[types.Object]string
	// renameSel: replacement when the identifier is the operand of a selector (p.f with p = &x is x.f)
	renameSel map[types.Object]string
	params    []string // fresh names in signature order (receiver first), "" when unused
	ptypes    []string
	rvars     []string
	rtypes    []string
	bindArgs  []string
}

// typeString prints t as it can be written in the caller's file, or "" when a
// package it mentions is not imported there.
func (fc *fileCtx) typeString(t types.Type) string {
	okAll := true
	s := types.TypeString(t, func(p *types.Package) string {
		if p == fc.pk.Types {
			return ""
		}
		for _, imp := range fc.file.Imports {
			path := strings.Trim(imp.Path.Value, `"`)
			if path != p.Path() {
				continue
			}
			if imp.Name != nil {
				if imp.Name.Name == "." || imp.Name.Name == "_" {
					continue
				}
				return imp.Name.Name
			}
			return p.Name()
		}
		okAll = false
		return p.Name()
	})
	if !okAll {
		return ""
	}
	return s
}

// sameBinding: every package-level name and imported package the helper's body
// mentions resolves to the same thing at the call site.
func (fc *fileCtx) sameBinding(h *helper, at token.Pos) bool {
	hinfo := h.f.Info()
	scope := fc.pk.Types.Scope().Innermost(at)
	if scope == nil {
		return false
	}
	ok := true
	ast.Inspect(h.f.Body, func(n ast.Node) bool {
		id, isId := n.(*ast.Ident)
		if !isId || !ok {
			return ok
		}
		o := hinfo.Uses[id]
		if o == nil {
			return true
		}
		switch x := o.(type) {
		case *types.PkgName:
			_, got := scope.LookupParent(id.Name, at)
			pn, isPn := got.(*types.PkgName)
			if !isPn || pn.Imported() != x.Imported() {
				ok = false
			}
		default:
			pkgLevel := o.Pkg() != nil && o.Pkg() == h.f.Pkg.Types && o.Parent() == o.Pkg().Scope()
			universe := o.Pkg() == nil && o.Parent() == types.Universe
			// a closure's free variables: locals of the enclosing function, which must be the same
			// variables at the call site (not shadowed in between)
			free := h.f.Lit != nil && isLocal(o) && (o.Pos() < h.f.Lit.Pos() || o.Pos() > h.f.Lit.End())
			if pkgLevel || universe || free {
				if _, got := scope.LookupParent(id.Name, at); got != o {
					ok = false
				}
			}
		}
		return ok
	})
	return ok
}

// substitutable: the argument can stand textually for the parameter at every
// use - it is an identifier, a selector chain over one, or a literal; the helper
// never assigns to the parameter or takes its address; and no variable declared
// in the helper carries the name of an identifier the argument mentions.
func (fc *fileCtx) substitutable(h *helper, param types.Object, arg ast.Expr) bool {
	var roots []string
	var simple func(e ast.Expr) bool
	simple = func(e ast.Expr) bool {
		switch x := e.(type) {
		case *ast.Ident:
			roots = append(roots, x.Name)
			return true
		case *ast.BasicLit:
			return true
		case *ast.SelectorExpr:
			return simple(x.X)
		case *ast.ParenExpr:
			return simple(x.X)
		case *ast.IndexExpr:
			// m[const]: the helper has no way to change the caller's map or slice except through a
			// parameter, which the checks below exclude
			if tv, ok := fc.pk.Info.Types[x.Index]; ok && tv.Value != nil {
				return simple(x.X)
			}
		case *ast.SliceExpr:
			// x[:], x[:16]: constant bounds only
			for _, b := range []ast.Expr{x.Low, x.High, x.Max} {
				if b == nil {
					continue
				}
				if tv, ok := fc.pk.Info.Types[b]; !ok || tv.Value == nil {
					return false
				}
			}
			return simple(x.X)
		}
		return false
	}
	if u, isAddr := ast.Unparen(arg).(*ast.UnaryExpr); isAddr && u.Op == token.AND {
		arg = u.X // &x: `p.f` becomes `x.f`, a bare `p` becomes `(&x)` (see plan)
	}
	if !simple(arg) {
		return false
	}
	// an untyped nil has no type of its own once it stands where the parameter stood (`<-nil`)
	if id, isId := ast.Unparen(arg).(*ast.Ident); isId {
		if _, isNil := fc.pk.Info.Uses[id].(*types.Nil); isNil {
			return false
		}
	}
	hinfo := h.f.Info()
	ok := true
	// a parameter holding a struct or array is the helper's own copy: anything that writes into it
	// (a field assignment, &p.f, a pointer-receiver method called on it) would, after substitution,
	// write into the caller's variable instead
	valueCopy := false
	if param != nil {
		switch param.Type().Underlying().(type) {
		case *types.Struct, *types.Array:
			valueCopy = true
		}
	}
	writes := func(e ast.Expr) bool {
		if o := objOf(hinfo, e); o == param && param != nil {
			return true
		}
		return valueCopy && param != nil && rootObj(hinfo, e) == param
	}
	ast.Inspect(h.node(), func(n ast.Node) bool {
		switch x := n.(type) {
		case *ast.AssignStmt:
			for _, l := range x.Lhs {
				if writes(l) {
					ok = false
				}
			}
		case *ast.IncDecStmt:
			if writes(x.X) {
				ok = false
			}
		case *ast.UnaryExpr:
			if x.Op == token.AND && writes(x.X) {
				ok = false
			}
		case *ast.SelectorExpr:
			if valueCopy && rootObj(hinfo, x.X) == param && param != nil {
				if sel := hinfo.Selections[x]; sel != nil && sel.Kind() == types.MethodVal {
					if fn, isFn := sel.Obj().(*types.Func); isFn {
						if sig, isSig := fn.Type().(*types.Signature); isSig && sig.Recv() != nil {
							if _, ptrRecv := sig.Recv().Type().(*types.Pointer); ptrRecv {
								// implicit &(operand), unless the operand already is a pointer
								if tv, has := hinfo.Types[x.X]; !has || tv.Type == nil {
									ok = false
								} else if _, opPtr := tv.Type.Underlying().(*types.Pointer); !opPtr {
									ok = false
								}
							}
						}
					}
				}
			}
		case *ast.RangeStmt:
			for _, e := range []ast.Expr{x.Key, x.Value} {
				if e != nil && objOf(hinfo, e) == param && param != nil {
					ok = false
				}
			}
		case *ast.Ident:
			if d := hinfo.Defs[x]; d != nil && d != param {
				for _, r := range roots {
					if r == x.Name && x.Pos() >= h.f.Body.Pos() {
						ok = false
					}
				}
			}
		}
		return ok
	})
	return ok
}

func (fc *fileCtx) plan(h *helper, call *ast.CallExpr, at token.Pos) *inlPlan {
	nz := fc.nz
	p := nz.p
	hf := h.f
	htf := p.Fset.File(h.node().Pos())
	if htf == nil {
		return nil
	}
	hsrc, err := p.readFile(htf.Name())
	if err != nil {
		return nil
	}
	var hfile *ast.File
	for _, f := range hf.Pkg.Syntax {
		if p.Fset.File(f.Pos()) == htf {
			hfile = f
		}
	}
	if hfile == nil || !fc.sameBinding(h, at) {
		dbg("plan refused for %s: helper file missing or a name it uses is bound differently at the call site", h.f.Name)
		return nil
	}
	pl := &inlPlan{h: h, hfc: &fileCtx{nz: nz, pk: &pkgT{hf.Pkg.TypesInfo, hf.Pkg.Types}, file: hfile, name: htf.Name(), src: hsrc, tf: htf}, rename: map[types.Object]string{}}
	hinfo := hf.Info()
	used := map[types.Object]bool{}
	ast.Inspect(hf.Body, func(n ast.Node) bool {
		if id, ok := n.(*ast.Ident); ok {
			if o := hinfo.Uses[id]; o != nil {
				used[o] = true
			}
		}
		return true
	})
	sig := h.sig
	// receiver
	var args []ast.Expr
	if h.recv() != nil {
		sel, ok := ast.Unparen(call.Fun).(*ast.SelectorExpr)
		if !ok {
			return nil
		}
		rt := sig.Recv().Type()
		at, has := fc.pk.Info.Types[sel.X]
		if !has {
			return nil
		}
		recvText := fc.text(sel.X.Pos(), sel.X.End())
		_, wantPtr := rt.(*types.Pointer)
		_, havePtr := at.Type.Underlying().(*types.Pointer)
		if _, isNamedPtr := at.Type.(*types.Pointer); isNamedPtr {
			havePtr = true
		}
		switch {
		case wantPtr && !havePtr:
			recvText = "&(" + recvText + ")"
		case !wantPtr && havePtr:
			recvText = "*(" + recvText + ")"
		}
		ts := fc.typeString(rt)
		if ts == "" {
			return nil
		}
		var ro types.Object
		if len(h.recv().List[0].Names) == 1 {
			ro = hinfo.Defs[h.recv().List[0].Names[0]]
		}
		name := ""
		if ro != nil && used[ro] {
			if wantPtr == havePtr && fc.substitutable(h, ro, sel.X) {
				pl.rename[ro] = recvText
				name = "-"
			} else {
				name = nz.fresh("r")
				pl.rename[ro] = name
			}
		} else if isPureExpr(fc.pk.Info, sel.X) {
			name = "-"
		}
		pl.params = append(pl.params, name)
		pl.ptypes = append(pl.ptypes, ts)
		pl.bindArgs = append(pl.bindArgs, recvText)
	}
	args = call.Args
	i := 0
	for _, fl := range hf.Type.Params.List {
		names := fl.Names
		if len(names) == 0 {
			names = []*ast.Ident{nil}
		}
		for _, nm := range names {
			if i >= len(args) {
				return nil
			}
			ts := fc.typeString(sig.Params().At(i).Type())
			if ts == "" {
				return nil
			}
			name := ""
			if nm != nil {
				if o := hinfo.Defs[nm]; o != nil && used[o] {
					if fc.substitutable(h, o, args[i]) {
						pl.rename[o] = fc.text(args[i].Pos(), args[i].End())
						if tv, has := fc.pk.Info.Types[args[i]]; has && tv.Value != nil {
							// a constant keeps the parameter's type where it is substituted (`x := n`)
							pl.rename[o] = ts + "(" + pl.rename[o] + ")"
						}
						if _, isSlice := ast.Unparen(args[i]).(*ast.SliceExpr); isSlice {
							pl.rename[o] = "(" + pl.rename[o] + ")"
						}
						if u, isAddr := ast.Unparen(args[i]).(*ast.UnaryExpr); isAddr && u.Op == token.AND {
							pl.rename[o] = "(" + pl.rename[o] + ")"
							if pl.renameSel == nil {
								pl.renameSel = map[types.Object]string{}
							}
							pl.renameSel[o] = fc.text(u.X.Pos(), u.X.End())
						}
						name = "-"
					} else {
						name = nz.fresh("p")
						pl.rename[o] = name
					}
				}
			}
			if name == "" && isPureExpr(fc.pk.Info, args[i]) {
				name = "-" // unused parameter, nothing to evaluate
			}
			pl.params = append(pl.params, name)
			pl.ptypes = append(pl.ptypes, ts)
			pl.bindArgs = append(pl.bindArgs, fc.text(args[i].Pos(), args[i].End()))
			i++
		}
	}
	if i != len(args) {
		return nil
	}
	// every variable the helper declares itself gets a fresh name: nothing it declares can then
	// capture a name of the calling context (the caller's assignment targets, the copied error branch)
	ast.Inspect(hf.Body, func(n ast.Node) bool {
		id, ok := n.(*ast.Ident)
		if !ok || id.Name == "_" {
			return true
		}
		o := hinfo.Defs[id]
		v, isVar := o.(*types.Var)
		if o == nil || !isVar || v.IsField() {
			return true
		}
		if _, done := pl.rename[o]; !done {
			pl.rename[o] = nz.fresh("_" + id.Name)
		}
		return true
	})
	// results
	for k := 0; k < sig.Results().Len(); k++ {
		ts := fc.typeString(sig.Results().At(k).Type())
		if ts == "" {
			return nil
		}
		pl.rvars = append(pl.rvars, nz.fresh("x"))
		pl.rtypes = append(pl.rtypes, ts)
	}
	return pl
}

// namedResults: declarations for the helper's named results, renamed.
func (pl *inlPlan) namedResultDecls(fc *fileCtx) (decls string, names []string, ok bool) {
	hf := pl.h.f
	hinfo := hf.Info()
	if hf.Type.Results == nil {
		return "", nil, true
	}
	k := 0
	for _, fl := range hf.Type.Results.List {
		if len(fl.Names) == 0 {
			k++
			continue
		}
		for _, nm := range fl.Names {
			o := hinfo.Defs[nm]
			name := fc.nz.fresh("n")
			if o != nil {
				pl.rename[o] = name
			}
			decls += "var " + name + " " + pl.rtypes[k] + "\n_ = " + name + "\n"
			names = append(names, name)
			k++
		}
	}
	return decls, names, true
}

// render returns the helper's source between a and b with the renames applied
// and (unless keepReturns) every return / top-level defer rewritten.
func (pl *inlPlan) render(a, b token.Pos, label string, named []string, keepReturns bool) string {
	return pl.renderWith(a, b, named, keepReturns, func(x *ast.ReturnStmt, vals string, _ []string, defers string, sub func(x, y token.Pos) string) string {
		txt := "{ "
		if vals != "" {
			txt += strings.Join(pl.rvars, ", ") + " = " + vals + "; "
		}
		return txt + defers + "goto " + label + " }"
	})
}

// renderWith is render with the replacement of each return statement computed
// by ret (vals: the rendered result expressions, "" for a helper without
// results; defers: the calls of the top-level defers that precede the return).
func (pl *inlPlan) renderWith(a, b token.Pos, named []string, keepReturns bool, ret func(x *ast.ReturnStmt, vals string, parts []string, defers string, sub func(x, y token.Pos) string) string) string {
	hfc := pl.hfc
	hinfo := pl.h.f.Info()
	var renames []srcEdit
	selBase := map[*ast.Ident]bool{}
	starOf := map[*ast.Ident]*ast.StarExpr{}
	ast.Inspect(pl.h.node(), func(n ast.Node) bool {
		switch x := n.(type) {
		case *ast.SelectorExpr:
			if id, isId := x.X.(*ast.Ident); isId {
				selBase[id] = true
			}
		case *ast.StarExpr:
			if id, isId := ast.Unparen(x.X).(*ast.Ident); isId {
				starOf[id] = x
			}
		}
		return true
	})
	ast.Inspect(pl.h.node(), func(n ast.Node) bool {
		id, ok := n.(*ast.Ident)
		if !ok || id.Pos() < a || id.End() > b {
			return true
		}
		o := hinfo.Uses[id]
		if o == nil {
			o = hinfo.Defs[id]
		}
		if nn, has := pl.rename[o]; has && o != nil {
			if alt, hasAlt := pl.renameSel[o]; hasAlt {
				if selBase[id] {
					nn = alt
				} else if st := starOf[id]; st != nil && st.Pos() >= a && st.End() <= b {
					// *p with p = &x is x
					renames = append(renames, srcEdit{hfc.off(st.Pos()), hfc.off(st.End()), alt})
					return true
				}
			}
			renames = append(renames, srcEdit{hfc.off(id.Pos()), hfc.off(id.End()), nn})
		}
		return true
	})
	sub := func(x, y token.Pos) string {
		var es []srcEdit
		for _, r := range renames {
			if r.start >= hfc.off(x) && r.end <= hfc.off(y) {
				es = append(es, srcEdit{r.start - hfc.off(x), r.end - hfc.off(x), r.text})
			}
		}
		return string(applySrcEdits([]byte(hfc.text(x, y)), es))
	}
	if keepReturns {
		return sub(a, b)
	}
	deferCalls := func(before token.Pos) string {
		s := ""
		for i := len(pl.h.defers) - 1; i >= 0; i-- {
			d := pl.h.defers[i]
			if d.End() <= before {
				s += sub(d.Call.Pos(), d.Call.End()) + "; "
			}
		}
		return s
	}
	var stmts []srcEdit
	var visit func(n ast.Node) bool
	visit = func(n ast.Node) bool {
		switch x := n.(type) {
		case *ast.FuncLit:
			return false
		case *ast.DeferStmt:
			stmts = append(stmts, srcEdit{hfc.off(x.Pos()), hfc.off(x.End()), "_ = 0"})
			return false
		case *ast.ReturnStmt:
			vals := ""
			var parts []string
			switch {
			case len(pl.rvars) == 0:
			case len(x.Results) == 0:
				vals = strings.Join(named, ", ")
				parts = named
			default:
				for _, r := range x.Results {
					parts = append(parts, sub(r.Pos(), r.End()))
				}
				vals = strings.Join(parts, ", ")
			}
			stmts = append(stmts, srcEdit{hfc.off(x.Pos()), hfc.off(x.End()), ret(x, vals, parts, deferCalls(x.Pos()), sub)})
			return false
		}
		return true
	}
	ast.Inspect(pl.h.f.Body, visit)
	all := append([]srcEdit{}, stmts...)
	for _, r := range renames {
		inside := false
		for _, s := range stmts {
			if r.start >= s.start && r.end <= s.end {
				inside = true
			}
		}
		if !inside {
			all = append(all, r)
		}
	}
	var es []srcEdit
	for _, e := range all {
		if e.start >= hfc.off(a) && e.end <= hfc.off(b) {
			es = append(es, srcEdit{e.start - hfc.off(a), e.end - hfc.off(a), e.text})
		}
	}
	out := string(applySrcEdits([]byte(hfc.text(a, b)), es))
	// falling off the end of a helper without results (a helper with results always leaves through a
	// return, and so does one whose last statement is a return)
	lastIsReturn := false
	if n := len(pl.h.f.Body.List); n > 0 {
		_, lastIsReturn = pl.h.f.Body.List[n-1].(*ast.ReturnStmt)
	}
	if tail := deferCalls(b); tail != "" && len(pl.rvars) == 0 && !lastIsReturn && b == pl.h.f.Body.Rbrace {
		out += "\n" + tail + "\n"
	}
	return out
}

func (pl *inlPlan) bindings() string {
	s := ""
	for i, name := range pl.params {
		if name == "-" {
			continue // substituted textually (or pure and unused)
		}
		if name == "" {
			s += "_ = " + pl.bindArgs[i] + "\n"
		} else {
			s += "var " + name + " " + pl.ptypes[i] + " = " + pl.bindArgs[i] + "\n"
		}
	}
	return s
}

// callSite describes a statement-level call of a helper.
type callSite struct {
	h    *helper
	call *ast.CallExpr
	at   token.Pos
	// assignment targets (nil for a bare call); tok is token.DEFINE or token.ASSIGN
	lhs     []ast.Expr
	lhsText []string // used instead of lhs for generated targets (all new)
	tok     token.Token
	// error continuation: the statement is (followed by) `if <err> != nil { cont }` with a terminating
	// body and no else; errIdx is the position of that error among the targets
	cont   *ast.BlockStmt
	errIdx int
	ifPos  token.Pos
}

func isTerminating(b *ast.BlockStmt) bool {
	if b == nil || len(b.List) == 0 || len(b.List) > 8 {
		return false
	}
	ok := true
	ast.Inspect(b, func(n ast.Node) bool {
		if _, isL := n.(*ast.LabeledStmt); isL {
			ok = false
		}
		return ok
	})
	if !ok {
		return false
	}
	switch x := b.List[len(b.List)-1].(type) {
	case *ast.ReturnStmt:
		return true
	case *ast.BranchStmt:
		return x.Tok == token.CONTINUE || x.Tok == token.BREAK || x.Tok == token.GOTO
	case *ast.ExprStmt:
		if c, isC := x.X.(*ast.CallExpr); isC {
			if id, isId := c.Fun.(*ast.Ident); isId && id.Name == "panic" {
				return true
			}
		}
	}
	return false
}

// inlineSite builds the replacement text for the statement(s) of cs.
func (fc *fileCtx) inlineSite(cs *callSite) (string, bool) {
	h := cs.h
	if h.complexDefer {
		return "", false
	}
	pl := fc.plan(h, cs.call, cs.at)
	if pl == nil {
		return "", false
	}
	nz := fc.nz
	info := fc.pk.Info
	// targets the helper's returns assign to
	var targets []string
	var decls string
	direct := true
	switch {
	case cs.lhsText != nil:
		for i, t := range cs.lhsText {
			targets = append(targets, t)
			decls += "var " + t + " " + pl.rtypes[i] + "\n"
		}
	case cs.lhs != nil:
		for i, l := range cs.lhs {
			id, isId := l.(*ast.Ident)
			if !isId {
				// `x.f, err = H(..)`: any assignable, side-effect-free target can be assigned at the returns
				if cs.tok == token.ASSIGN && isPureExpr(info, l) {
					targets = append(targets, fc.text(l.Pos(), l.End()))
					continue
				}
				direct = false
				break
			}
			targets = append(targets, id.Name)
			if cs.tok == token.DEFINE && id.Name != "_" && info.Defs[id] != nil {
				decls += "var " + id.Name + " " + pl.rtypes[i] + "\n"
			}
		}
	default:
		for range pl.rvars {
			targets = append(targets, "_")
		}
	}
	// a newly declared target must not capture a package-level name the helper's body uses (the caller
	// may name its variable after the function the helper calls: stagingPath := stagingPath(tree))
	if direct && cs.lhs != nil && cs.tok == token.DEFINE {
		hinfo0 := h.f.Info()
		globals := map[string]bool{}
		ast.Inspect(h.f.Body, func(n ast.Node) bool {
			if id, ok := n.(*ast.Ident); ok {
				if o := hinfo0.Uses[id]; o != nil {
					if _, isPkg := o.(*types.PkgName); isPkg || (o.Pkg() != nil && o.Parent() == o.Pkg().Scope()) || o.Parent() == types.Universe {
						globals[id.Name] = true
					}
				}
			}
			return true
		})
		for _, l := range cs.lhs {
			if id, isId := l.(*ast.Ident); isId && info.Defs[id] != nil && globals[id.Name] {
				direct = false
			}
		}
	}
	after := ""
	if !direct {
		// assignment to something other than plain variables: go through fresh result variables
		targets, decls = nil, ""
		for i, rv := range pl.rvars {
			targets = append(targets, rv)
			decls += "var " + rv + " " + pl.rtypes[i] + "\n"
		}
		after = fc.text(cs.lhs[0].Pos(), cs.lhs[len(cs.lhs)-1].End()) + " " + cs.tok.String() + " " + strings.Join(pl.rvars, ", ")
	}
	allBlank := true
	for _, t := range targets {
		if t != "_" {
			allBlank = false
		}
	}
	assign := func(vals string) string {
		if vals == "" {
			return ""
		}
		if allBlank && len(targets) > 0 {
			return strings.Join(targets, ", ") + " = " + vals + "; "
		}
		return strings.Join(targets, ", ") + " = " + vals + "; "
	}
	lEnd, lTest, lOK := nz.fresh("end"), nz.fresh("test"), nz.fresh("ok")
	usedEnd, usedTest, usedOK := false, false, false
	ndecls, named, _ := pl.namedResultDecls(fc)
	cont := cs.cont
	if cont != nil && (!direct || cs.errIdx < 0 || cs.errIdx >= len(targets) || targets[cs.errIdx] == "_") {
		cont = nil
	}
	contText := ""
	if cont != nil {
		contText = fc.text(cont.Lbrace, cont.Rbrace+1)
	}
	hinfo := h.f.Info()
	// straight-line mode: the helper's only return is its last statement (or it has none). The body is
	// spliced into the caller's block as it is - its own variables carry fresh names - and the return
	// becomes the caller's assignment.
	if direct {
		nret := 0
		var last ast.Stmt
		if n := len(h.f.Body.List); n > 0 {
			last = h.f.Body.List[n-1]
		}
		var only *ast.ReturnStmt
		ast.Inspect(h.f.Body, func(n ast.Node) bool {
			switch x := n.(type) {
			case *ast.FuncLit:
				return false
			case *ast.ReturnStmt:
				nret++
				only = x
			}
			return true
		})
		straight := nret == 0 && len(pl.rvars) == 0
		if nret == 1 && ast.Stmt(only) == last && (len(only.Results) == len(pl.rvars) || len(pl.rvars) == 0) {
			straight = true
		}
		if straight {
			body := pl.renderWith(h.f.Body.Lbrace+1, h.f.Body.Rbrace, named, false, func(x *ast.ReturnStmt, vals string, parts []string, defers string, sub func(x, y token.Pos) string) string {
				if len(pl.rvars) == 0 {
					return "_ = 0; " + defers
				}
				typed := make([]string, len(parts))
				for i, pt := range parts {
					typed[i] = pt
					if i < len(x.Results) {
						if tv, has := hinfo.Types[x.Results[i]]; has && (tv.IsNil() || tv.Value != nil) {
							typed[i] = "(" + pl.rtypes[i] + ")(" + pt + ")"
						}
					}
				}
				switch {
				case cs.lhsText != nil:
					return strings.Join(cs.lhsText, ", ") + " := " + strings.Join(typed, ", ") + "; " + defers
				case cs.lhs != nil:
					return fc.text(cs.lhs[0].Pos(), cs.lhs[len(cs.lhs)-1].End()) + " " + cs.tok.String() + " " + strings.Join(typed, ", ") + "; " + defers
				}
				return strings.Join(targets, ", ") + " = " + strings.Join(typed, ", ") + "; " + defers
			})
			var b strings.Builder
			b.WriteString(nz.lineDir(cs.at))
			b.WriteString(keepClosure(h))
			b.WriteString(pl.bindings())
			b.WriteString(ndecls)
			b.WriteString(nz.lineDir(h.f.Body.Lbrace))
			b.WriteString(body)
			b.WriteString(nz.lineDir(cs.at))
			if cs.cont != nil {
				// the caller's own error test follows unchanged
				b.WriteString(nz.lineDir(cs.ifPos) + "if " + fc.text(cs.lhs[cs.errIdx].Pos(), cs.lhs[cs.errIdx].End()) + " != nil " + fc.text(cs.cont.Lbrace, cs.cont.Rbrace+1) + "\n")
			}
			b.WriteString("_ = 0")
			nz.inlined[h.f.Name]++
			return b.String(), true
		}
	}
	// flat mode: every return of the helper is either a certain failure (which continues into a copy of
	// the caller's error branch) or the final statement with a nil error. Then no jump is needed, the
	// body is spliced into the caller's block and the last return becomes the caller's own assignment:
	// exactly the code as it was before the helper was extracted.
	if cont != nil && direct && cs.lhs != nil {
		flat := true
		var last ast.Stmt
		if n := len(h.f.Body.List); n > 0 {
			last = h.f.Body.List[n-1]
		}
		ast.Inspect(h.f.Body, func(n ast.Node) bool {
			switch x := n.(type) {
			case *ast.FuncLit:
				return false
			case *ast.ReturnStmt:
				if len(x.Results) != len(targets) {
					flat = false
					return false
				}
				e := x.Results[cs.errIdx]
				if ast.Stmt(x) == last && isNilIdent(hinfo, e) {
					return false
				}
				if isNilIdent(hinfo, e) || h.f.mayBeNilError(e) {
					flat = false
				}
				return false
			}
			return flat
		})
		if _, isRet := last.(*ast.ReturnStmt); !isRet {
			flat = false
		}
		if flat {
			var newDecl, useNew []string
			for i, l := range cs.lhs {
				id, isId := l.(*ast.Ident)
				if !isId {
					continue
				}
				if cs.tok == token.DEFINE && id.Name != "_" && info.Defs[id] != nil {
					newDecl = append(newDecl, "var "+id.Name+" "+pl.rtypes[i])
					useNew = append(useNew, id.Name)
				}
			}
			lhsText := fc.text(cs.lhs[0].Pos(), cs.lhs[len(cs.lhs)-1].End())
			body := pl.renderWith(h.f.Body.Lbrace+1, h.f.Body.Rbrace, named, false, func(x *ast.ReturnStmt, vals string, parts []string, defers string, sub func(x, y token.Pos) string) string {
				if ast.Stmt(x) == last {
					// `x, err := v, nil`: a short declaration infers types from the values, so constants and
					// nil are given the helper's result types explicitly
					typed := make([]string, len(parts))
					for i, pt := range parts {
						typed[i] = pt
						if tv, has := hinfo.Types[x.Results[i]]; has && (tv.IsNil() || tv.Value != nil) {
							typed[i] = "(" + pl.rtypes[i] + ")(" + pt + ")"
						}
					}
					return lhsText + " " + cs.tok.String() + " " + strings.Join(typed, ", ") + "; " + defers
				}
				t := "{ "
				for _, d := range newDecl {
					t += d + "; "
				}
				t += strings.Join(targets, ", ") + " = " + vals + "; "
				for _, u := range useNew {
					t += "_ = " + u + "; "
				}
				return t + defers + nz.lineDir(cont.Lbrace) + contText + nz.lineDir(x.End()) + "}"
			})
			var b strings.Builder
			b.WriteString(nz.lineDir(cs.at))
			b.WriteString(keepClosure(h))
			b.WriteString(pl.bindings())
			b.WriteString(ndecls)
			b.WriteString(nz.lineDir(h.f.Body.Lbrace))
			b.WriteString(body)
			b.WriteString(nz.lineDir(cs.at))
			for _, u := range useNew {
				b.WriteString("_ = " + u + "\n")
			}
			b.WriteString("_ = 0")
			nz.inlined[h.f.Name]++
			return b.String(), true
		}
	}
	body := pl.renderWith(h.f.Body.Lbrace+1, h.f.Body.Rbrace, named, false, func(x *ast.ReturnStmt, vals string, parts []string, defers string, sub func(x, y token.Pos) string) string {
		if cont != nil && len(x.Results) == len(targets) {
			e := x.Results[cs.errIdx]
			switch {
			case isNilIdent(hinfo, e):
				usedOK = true
				return "{ " + assign(vals) + defers + "goto " + lOK + " }"
			case !h.f.mayBeNilError(e):
				// a certain failure: what the caller does on failure happens right here
				return "{ " + assign(vals) + defers + nz.lineDir(cont.Lbrace) + contText + nz.lineDir(x.End()) + "}"
			}
			usedTest = true
			return "{ " + assign(vals) + defers + "goto " + lTest + " }"
		}
		if cont != nil {
			usedTest = true
			return "{ " + assign(vals) + defers + "goto " + lTest + " }"
		}
		usedEnd = true
		return "{ " + assign(vals) + defers + "goto " + lEnd + " }"
	})
	var b strings.Builder
	b.WriteString(nz.lineDir(cs.at))
	if h.cvar != nil {
		b.WriteString("_ = " + h.cvar.Name() + "\n")
	}
	b.WriteString(decls)
	b.WriteString("{\n")
	b.WriteString(pl.bindings())
	b.WriteString(ndecls)
	b.WriteString(nz.lineDir(h.f.Body.Lbrace))
	b.WriteString(body)
	b.WriteString(nz.lineDir(cs.at))
	if len(pl.rvars) == 0 {
		// a helper without results can fall off its end
		usedEnd = true
		b.WriteString("goto " + lEnd + "\n")
	}
	b.WriteString("}\n")
	if cont != nil {
		if usedTest {
			b.WriteString(lTest + ":" + nz.lineDir(cs.ifPos) + "if " + targets[cs.errIdx] + " != nil " + contText + "\n")
		}
		if usedOK {
			b.WriteString(lOK + ":\n")
		}
	} else if usedEnd {
		b.WriteString(lEnd + ":\n")
	}
	if after != "" {
		b.WriteString(after + "\n")
	}
	if cs.cont != nil && cont == nil {
		// the error branch was not specialised: the caller's own test follows, unchanged
		b.WriteString(nz.lineDir(cs.ifPos) + "if " + fc.text(cs.lhs[cs.errIdx].Pos(), cs.lhs[cs.errIdx].End()) + " != nil " + fc.text(cs.cont.Lbrace, cs.cont.Rbrace+1) + "\n")
	}
	b.WriteString("_ = 0")
	nz.inlined[h.f.Name]++
	return b.String(), true
}

// inlineStmt: compatibility wrapper for generated single-target sites (`tmp := H(args)`).
func (fc *fileCtx) inlineStmt(h *helper, call *ast.CallExpr, at token.Pos, prefix string, _ []string, _ bool) (string, bool) {
	cs := &callSite{h: h, call: call, at: at, errIdx: -1}
	if prefix != "" {
		name := strings.TrimSpace(strings.TrimSuffix(strings.TrimSpace(prefix), ":="))
		cs.lhsText = []string{name}
		cs.tok = token.DEFINE
	}
	return fc.inlineSite(cs)
}

// inlineTail: `return H(args)`; the helper's returns are the caller's returns.
func (fc *fileCtx) inlineTail(h *helper, call *ast.CallExpr, ftype *ast.FuncType) (string, bool) {
	if h == nil {
		return "", false
	}
	// the result lists must agree in number (they agree in type, the original compiled)
	n := 0
	if ftype.Results != nil {
		n = ftype.Results.NumFields()
	}
	if n != h.results || h.results == 0 {
		return "", false
	}
	// a bare return in the helper would refer to the helper's named results
	bare := false
	ast.Inspect(h.f.Body, func(x ast.Node) bool {
		if _, isLit := x.(*ast.FuncLit); isLit {
			return false
		}
		if r, ok := x.(*ast.ReturnStmt); ok && len(r.Results) == 0 {
			bare = true
		}
		return true
	})
	if bare {
		return "", false
	}
	pl := fc.plan(h, call, call.Pos())
	if pl == nil {
		return "", false
	}
	decls, _, _ := pl.namedResultDecls(fc)
	body := pl.render(h.f.Body.Lbrace+1, h.f.Body.Rbrace, "", nil, true)
	var b strings.Builder
	b.WriteString(fc.nz.lineDir(call.Pos()))
	b.WriteString("{\n" + keepClosure(h) + pl.bindings() + decls)
	b.WriteString(fc.nz.lineDir(h.f.Body.Lbrace))
	b.WriteString(body)
	b.WriteString(fc.nz.lineDir(call.Pos()))
	b.WriteString("}")
	fc.nz.inlined[h.f.Name]++
	return b.String(), true
}

// inlineDefer: `defer H(args)`; arguments are evaluated now, the body runs at exit.
func (fc *fileCtx) inlineDefer(h *helper, call *ast.CallExpr) (string, bool) {
	// (a deferred literal may itself defer: its defers run when it returns, as the helper's did)
	pl := fc.plan(h, call, call.Pos())
	if pl == nil {
		return "", false
	}
	body := pl.render(h.f.Body.Lbrace+1, h.f.Body.Rbrace, "", nil, true)
	var b strings.Builder
	b.WriteString(fc.nz.lineDir(call.Pos()))
	b.WriteString("{\n" + keepClosure(h) + pl.bindings())
	b.WriteString("defer func() {")
	b.WriteString(fc.nz.lineDir(h.f.Body.Lbrace))
	b.WriteString(body)
	b.WriteString(fc.nz.lineDir(call.Pos()))
	b.WriteString("}()\n}")
	fc.nz.inlined[h.f.Name]++
	return b.String(), true
}

// dropInlinedHelpers removes the declaration of every helper that was inlined
// and is no longer referenced anywhere in the module: what it did is now part
// of its callers, and inventories (who-may-call, who-may-write) must not count
// it twice.
func (nz *normalizer) dropInlinedHelpers() map[string][]srcEdit {
	out := map[string][]srcEdit{}
	p := nz.p
	if nz.dropped == nil {
		nz.dropped = map[string]bool{}
	}
	for name := range nz.inlined {
		f := p.Fn(name)
		if f == nil || f.Decl == nil || f.Obj == nil || nz.dropped[name] {
			continue
		}
		refs := 0
		for _, pk := range p.All {
			for _, o := range pk.TypesInfo.Uses {
				if fn, ok := o.(*types.Func); ok && fn.Origin() == f.Obj {
					refs++
				}
			}
		}
		if refs > 0 {
			continue
		}
		// an interface may require the method
		if f.Decl.Recv != nil && f.Obj.Exported() {
			continue
		}
		tf := p.Fset.File(f.Decl.Pos())
		if tf == nil {
			continue
		}
		start := f.Decl.Pos()
		if f.Decl.Doc != nil {
			start = f.Decl.Doc.Pos()
		}
		nz.dropped[name] = true
		out[tf.Name()] = append(out[tf.Name()], srcEdit{tf.Offset(start), tf.Offset(f.Decl.End()), nz.lineDir(f.Decl.End())})
	}
	return out
}

// errTestIndex: cond is exactly `<v> != nil` for a target v of error type;
// returns v's position among the targets, or -1.
func (fc *fileCtx) errTestIndex(cond ast.Expr, lhs []ast.Expr) int {
	info := fc.pk.Info
	be, ok := ast.Unparen(cond).(*ast.BinaryExpr)
	if !ok || be.Op != token.NEQ {
		return -1
	}
	v := be.X
	if isNilIdent(info, be.X) {
		v = be.Y
	} else if !isNilIdent(info, be.Y) {
		return -1
	}
	vo := objOf(info, v)
	if vo == nil || !isErrorType(vo.Type()) {
		return -1
	}
	for i, l := range lhs {
		if id, isId := l.(*ast.Ident); isId && id.Name != "_" && objOf(info, id) == vo {
			return i
		}
	}
	return -1
}

// rewritePair: `targets := H(args)` immediately followed by `if err != nil { terminating }`.
func (fc *fileCtx) rewritePair(a, b ast.Stmt) []srcEdit {
	as, ok := a.(*ast.AssignStmt)
	if !ok || len(as.Rhs) != 1 || (as.Tok != token.DEFINE && as.Tok != token.ASSIGN) {
		return nil
	}
	ifs, ok := b.(*ast.IfStmt)
	if !ok || ifs.Init != nil || ifs.Else != nil || !isTerminating(ifs.Body) {
		return nil
	}
	call, _ := ast.Unparen(as.Rhs[0]).(*ast.CallExpr)
	h := fc.candidateCall(call)
	if h == nil || h.results != len(as.Lhs) {
		return nil
	}
	idx := fc.errTestIndex(ifs.Cond, as.Lhs)
	if idx < 0 {
		return nil
	}
	cs := &callSite{h: h, call: call, at: as.Pos(), lhs: as.Lhs, tok: as.Tok, cont: ifs.Body, errIdx: idx, ifPos: ifs.Pos()}
	txt, ok := fc.inlineSite(cs)
	if !ok {
		return nil
	}
	return []srcEdit{{fc.off(as.Pos()), fc.off(ifs.End()), txt + fc.nz.lineDir(ifs.End())}}
}

// collectBoolHoists (N3): a condition that was given a name -
//
//	full := n >= limit
//	if full { ... }
//
// is put back where it is tested. Only for a bool variable with one definition
// (a short declaration with a pure right-hand side) that no closure mentions, and
// whose operands are not written anywhere after the definition; only uses inside
// conditions are replaced.
func (nz *normalizer) collectBoolHoists() map[string][]srcEdit {
	out := map[string][]srcEdit{}
	p := nz.p
	if nz.hoisted == nil {
		nz.hoisted = map[string]bool{}
	}
	for _, f := range p.Funcs("") {
		if f.Body == nil || f.Decl == nil {
			continue
		}
		tf := p.Fset.File(f.Decl.Pos())
		if tf == nil || strings.HasSuffix(tf.Name(), "_test.go") {
			continue
		}
		info := f.Info()
		src, err := p.readFile(tf.Name())
		if err != nil {
			continue
		}
		// candidate definitions
		type cand struct {
			obj  types.Object
			def  *ast.AssignStmt
			expr ast.Expr
		}
		var cands []cand
		ast.Inspect(f.Body, func(n ast.Node) bool {
			a, ok := n.(*ast.AssignStmt)
			if !ok || a.Tok != token.DEFINE || len(a.Lhs) != 1 || len(a.Rhs) != 1 {
				return true
			}
			o := objOf(info, a.Lhs[0])
			if o == nil || !isBoolType(o.Type()) || !isPureExpr(info, a.Rhs[0]) || nz.hoisted[hoistKey(p, a)] {
				return true
			}
			switch ast.Unparen(a.Rhs[0]).(type) {
			case *ast.BinaryExpr, *ast.UnaryExpr:
				cands = append(cands, cand{o, a, a.Rhs[0]})
			}
			return true
		})
		for _, c := range cands {
			ok := true
			operands := map[types.Object]bool{}
			ast.Inspect(c.expr, func(n ast.Node) bool {
				if id, isId := n.(*ast.Ident); isId {
					if o := info.Uses[id]; o != nil {
						if _, isVar := o.(*types.Var); isVar {
							operands[o] = true
						}
					}
				}
				return true
			})
			var uses []*ast.Ident
			var writes []ast.Node
			inCond := map[*ast.Ident]bool{}
			var markCond func(e ast.Expr)
			markCond = func(e ast.Expr) {
				switch x := e.(type) {
				case *ast.ParenExpr:
					markCond(x.X)
				case *ast.UnaryExpr:
					if x.Op == token.NOT {
						markCond(x.X)
					}
				case *ast.BinaryExpr:
					if x.Op == token.LAND || x.Op == token.LOR {
						markCond(x.X)
						markCond(x.Y)
					}
				case *ast.Ident:
					inCond[x] = true
				}
			}
			ast.Inspect(f.Body, func(n ast.Node) bool {
				switch x := n.(type) {
				case *ast.FuncLit:
					// a closure may run at any time: it must not write the variable or an operand
					ast.Inspect(x, func(m ast.Node) bool {
						switch y := m.(type) {
						case *ast.AssignStmt:
							for _, l := range y.Lhs {
								if r := rootObj(info, l); r != nil && (operands[r] || r == c.obj) {
									ok = false
								}
							}
						case *ast.IncDecStmt:
							if r := rootObj(info, y.X); r != nil && (operands[r] || r == c.obj) {
								ok = false
							}
						case *ast.UnaryExpr:
							if y.Op == token.AND {
								if r := rootObj(info, y.X); r != nil && (operands[r] || r == c.obj) {
									ok = false
								}
							}
						case *ast.Ident:
							if info.Uses[y] == c.obj {
								ok = false // read by a closure: keep the variable as it is
							}
						}
						return true
					})
					return false
				case *ast.IfStmt:
					markCond(x.Cond)
				case *ast.ForStmt:
					if x.Cond != nil {
						markCond(x.Cond)
					}
				case *ast.CaseClause:
					for _, e := range x.List {
						markCond(e)
					}
				case *ast.AssignStmt:
					for _, l := range x.Lhs {
						lo := objOf(info, l)
						if lo == c.obj && x != c.def {
							ok = false
						}
						if r := rootObj(info, l); r != nil && operands[r] && x != c.def {
							writes = append(writes, x)
						}
					}
				case *ast.IncDecStmt:
					if r := rootObj(info, x.X); r != nil && operands[r] {
						writes = append(writes, x)
					}
				case *ast.RangeStmt:
					for _, e := range []ast.Expr{x.Key, x.Value} {
						if e != nil {
							if r := rootObj(info, e); r != nil && operands[r] {
								ok = false
							}
						}
					}
				case *ast.UnaryExpr:
					if x.Op == token.AND {
						if r := rootObj(info, x.X); r != nil && (operands[r] || r == c.obj) {
							ok = false
						}
					}
				case *ast.Ident:
					if info.Uses[x] == c.obj {
						uses = append(uses, x)
					}
				}
				return true
			})
			if !ok || len(uses) == 0 {
				continue
			}
			// a loop would let a later iteration's writes precede the definition: require that none
			// of the operands is written at all when the definition sits in a loop
			exprText := "(" + string(src[tf.Offset(c.expr.Pos()):tf.Offset(c.expr.End())]) + ")"
			// a use can be replaced when no write of an operand lies on a path from the definition to it
			g := f.Graph()
			defSite := f.Find(func(n ast.Node) bool { return n == ast.Node(c.def) })
			var writeSites []Site
			for _, w := range writes {
				writeSites = append(writeSites, f.Find(func(n ast.Node) bool { return n == w })...)
			}
			if len(defSite) != 1 || len(writeSites) != len(writes) {
				continue
			}
			safeUse := func(u *ast.Ident) bool {
				us := f.Find(func(n ast.Node) bool { return n == ast.Node(u) })
				if len(us) != 1 {
					return false
				}
				for _, w := range writeSites {
					if pt, _ := g.Reach(w.After(), Cut{Stop: func(p Point, _ ast.Node) bool { return p == defSite[0].P }}, atSite(us[0])); pt != nil {
						return false
					}
				}
				return true
			}
			n := 0
			for _, u := range uses {
				if inCond[u] && u.Pos() > c.def.End() && safeUse(u) {
					out[tf.Name()] = append(out[tf.Name()], srcEdit{tf.Offset(u.Pos()), tf.Offset(u.End()), exprText})
					n++
				}
			}
			if n > 0 {
				nz.hoisted[hoistKey(p, c.def)] = true
				if n == len(uses) {
					// nothing reads the variable any more
					out[tf.Name()] = append(out[tf.Name()], srcEdit{tf.Offset(c.def.End()), tf.Offset(c.def.End()), "; _ = " + c.obj.Name()})
				}
			}
		}
	}
	return out
}

func hoistKey(p *Program, a *ast.AssignStmt) string {
	po := p.Fset.Position(a.Pos())
	return fmt.Sprintf("%s:%d:%s", po.Filename, po.Line, exprString(a.Lhs[0]))
}

// inlineTailWith: `return pre..., H(args), post...` with pure pre/post: the
// helper's body is spliced in and each `return e` of it becomes
// `return pre..., e, post...`.
func (fc *fileCtx) inlineTailWith(h *helper, call *ast.CallExpr, pre, post []string) (string, bool) {
	bare := false
	ast.Inspect(h.f.Body, func(x ast.Node) bool {
		if _, isLit := x.(*ast.FuncLit); isLit {
			return false
		}
		if r, ok := x.(*ast.ReturnStmt); ok && len(r.Results) != 1 {
			bare = true
		}
		return true
	})
	if bare {
		return "", false
	}
	// the pure results must not mention a name the helper's parameters substitute... they are caller text,
	// and the helper's own variables carry fresh names, so no capture is possible
	pl := fc.plan(h, call, call.Pos())
	if pl == nil {
		return "", false
	}
	decls, named, _ := pl.namedResultDecls(fc)
	hinfo := h.f.Info()
	body := pl.renderWith(h.f.Body.Lbrace+1, h.f.Body.Rbrace, named, false, func(x *ast.ReturnStmt, vals string, parts []string, defers string, sub func(x, y token.Pos) string) string {
		v := vals
		if len(x.Results) == 1 {
			if tv, has := hinfo.Types[x.Results[0]]; has && tv.Value != nil {
				v = "(" + pl.rtypes[0] + ")(" + vals + ")"
			}
		}
		all := append(append(append([]string{}, pre...), v), post...)
		if defers != "" {
			// evaluate the result, run the helper's deferred calls, then return
			tmp := fc.nz.fresh("t")
			return "{ var " + tmp + " " + pl.rtypes[0] + " = " + v + "; " + defers + "return " + strings.Join(append(append(append([]string{}, pre...), tmp), post...), ", ") + " }"
		}
		return "return " + strings.Join(all, ", ")
	})
	var b strings.Builder
	b.WriteString(fc.nz.lineDir(call.Pos()))
	b.WriteString("{\n" + keepClosure(h) + pl.bindings() + decls)
	b.WriteString(fc.nz.lineDir(h.f.Body.Lbrace))
	b.WriteString(body)
	b.WriteString(fc.nz.lineDir(call.Pos()))
	b.WriteString("}")
	fc.nz.inlined[h.f.Name]++
	return b.String(), true
}

// node is the declaration or literal of the helper; recv its receiver list.
func (h *helper) node() ast.Node {
	if h.f.Decl != nil {
		return h.f.Decl
	}
	return h.f.Lit
}

func (h *helper) recv() *ast.FieldList {
	if h.f.Decl != nil {
		return h.f.Decl.Recv
	}
	return nil
}

// closureCandidate: the call's callee is a local variable with one definition, a
// function literal (`report := func(..) {..}`), that is only ever called.
func (fc *fileCtx) closureCandidate(call *ast.CallExpr) *helper {
	info := fc.pk.Info
	id, ok := ast.Unparen(call.Fun).(*ast.Ident)
	if !ok || call.Ellipsis != token.NoPos {
		return nil
	}
	v, ok := info.Uses[id].(*types.Var)
	if !ok || !isLocal(v) {
		return nil
	}
	nz := fc.nz
	// a closure that existed when the rules were written is a shape the rules know
	if tf := nz.p.FuncOfLitVar(v); tf != "" {
		old := tf
		if o, renamed := nz.p.renamed[tf]; renamed {
			old = o
		}
		for _, name := range frozenClosures[old] {
			if name == v.Name() {
				return nil
			}
		}
	}
	// find the defining literal
	var lit *ast.FuncLit
	ndef := 0
	uses, calls := 0, 0
	for _, file := range []*ast.File{fc.file} {
		callee := map[*ast.Ident]bool{}
		ast.Inspect(file, func(n ast.Node) bool {
			switch x := n.(type) {
			case *ast.CallExpr:
				if cid, isId := ast.Unparen(x.Fun).(*ast.Ident); isId {
					callee[cid] = true
				}
			case *ast.AssignStmt:
				for i, l := range x.Lhs {
					if objOf(info, l) == v {
						ndef++
						if len(x.Lhs) == len(x.Rhs) {
							lit, _ = ast.Unparen(x.Rhs[i]).(*ast.FuncLit)
						}
					}
				}
			case *ast.ValueSpec:
				for i, nm := range x.Names {
					if info.Defs[nm] == v {
						ndef++
						if i < len(x.Values) {
							lit, _ = ast.Unparen(x.Values[i]).(*ast.FuncLit)
						}
					}
				}
			case *ast.UnaryExpr:
				if x.Op == token.AND && objOf(info, x.X) == v {
					ndef += 2
				}
			}
			return true
		})
		ast.Inspect(file, func(n ast.Node) bool {
			if uid, isId := n.(*ast.Ident); isId && info.Uses[uid] == v {
				uses++
				if callee[uid] {
					calls++
				}
			}
			return true
		})
	}
	if lit == nil || ndef != 1 || uses != calls {
		return nil
	}
	// the call must come after the literal and outside it
	if call.Pos() < lit.End() {
		return nil
	}
	f := nz.p.FuncOfLit(lit)
	if f == nil {
		return nil
	}
	sig, _ := info.Types[lit].Type.(*types.Signature)
	if sig == nil || sig.Variadic() {
		return nil
	}
	h := &helper{f: f, sig: sig, cvar: v, results: sig.Results().Len()}
	ok = true
	top := map[ast.Stmt]bool{}
	for _, s := range lit.Body.List {
		top[s] = true
	}
	named := false
	if lit.Type.Results != nil {
		for _, fl := range lit.Type.Results.List {
			if len(fl.Names) > 0 {
				named = true
			}
		}
	}
	ast.Inspect(lit.Body, func(n ast.Node) bool {
		switch x := n.(type) {
		case *ast.FuncLit:
			return false
		case *ast.LabeledStmt:
			ok = false
		case *ast.BranchStmt:
			if x.Tok == token.GOTO || x.Label != nil {
				ok = false
			}
		case *ast.DeferStmt:
			ok = false // a deferred call inside the closure: not inlined
		case *ast.ReturnStmt:
			if len(x.Results) == 0 && h.results > 0 && !named {
				ok = false
			}
		case *ast.Ident:
			if info.Uses[x] == v {
				ok = false // recursive
			}
			if b, isB := info.Uses[x].(*types.Builtin); isB && b.Name() == "recover" {
				ok = false
			}
		}
		return ok
	})
	if !ok {
		return nil
	}
	return h
}

// keepClosure: a local closure all of whose calls are inlined would be an unused variable.
func keepClosure(h *helper) string {
	if h != nil && h.cvar != nil {
		return "_ = " + h.cvar.Name() + "\n"
	}
	return ""
}

// closureBindings lists, per top-level function, the local variables that are
// bound to a function literal.
func closureBindings(p *Program) map[string][]string {
	out := map[string][]string{}
	for _, f := range p.Funcs("") {
		if f.Decl == nil || f.Obj == nil || f.Body == nil {
			continue
		}
		info := f.Info()
		seen := map[string]bool{}
		ast.Inspect(f.Body, func(n ast.Node) bool {
			switch x := n.(type) {
			case *ast.AssignStmt:
				if len(x.Lhs) == len(x.Rhs) {
					for i, l := range x.Lhs {
						if _, isLit := ast.Unparen(x.Rhs[i]).(*ast.FuncLit); isLit {
							if o := objOf(info, l); o != nil && isLocal(o) && !seen[o.Name()] {
								seen[o.Name()] = true
								out[f.Obj.FullName()] = append(out[f.Obj.FullName()], o.Name())
							}
						}
					}
				}
			case *ast.ValueSpec:
				for i, nm := range x.Names {
					if i < len(x.Values) {
						if _, isLit := ast.Unparen(x.Values[i]).(*ast.FuncLit); isLit && !seen[nm.Name] {
							seen[nm.Name] = true
							out[f.Obj.FullName()] = append(out[f.Obj.FullName()], nm.Name)
						}
					}
				}
			}
			return true
		})
	}
	return out
}

func dumpClosures(p *Program) {
	m := closureBindings(p)
	var ks []string
	for k := range m {
		ks = append(ks, k)
	}
	sort.Strings(ks)
	fmt.Println("package main\n\n// Code generated by `sunlint -dumpclosures`; local variables bound to function literals on the tree the rules were written against.\n\nvar frozenClosures = map[string][]string{")
	for _, k := range ks {
		sort.Strings(m[k])
		fmt.Printf("\t%q: {", k)
		for i, v := range m[k] {
			if i > 0 {
				fmt.Print(", ")
			}
			fmt.Printf("%q", v)
		}
		fmt.Println("},")
	}
	fmt.Println("}")
}
