package main

// Integer constant folding over the AST with a finite binding for selected
// operands. It is the ordinary constant propagation a compiler does, extended
// with an environment that binds one enumerated variable (a tile level): no
// function body of the analysed program is executed; same-module helpers made
// of a single return expression are inlined (depth <= 3).

import (
	"go/ast"
	"go/constant"
	"go/token"
	"go/types"
)

type foldEnv func(e ast.Expr) (int64, bool)

func foldInt(f *Func, e ast.Expr, env foldEnv, depth int) (int64, bool) {
	info := f.Info()
	e = ast.Unparen(e)
	if env != nil {
		if v, ok := env(e); ok {
			return v, true
		}
	}
	if tv, ok := info.Types[e]; ok && tv.Value != nil && tv.Value.Kind() == constant.Int {
		return constant.Int64Val(tv.Value)
	}
	switch x := e.(type) {
	case *ast.Ident:
		// a local with a single definition
		if o := info.Uses[x]; o != nil {
			if v, ok := o.(*types.Var); ok && isLocal(v) {
				ds := f.Defs(o)
				if len(ds) == 1 && ds[0].Rhs != nil && ds[0].Idx < 0 {
					return foldInt(f, ds[0].Rhs, env, depth)
				}
			}
		}
	case *ast.UnaryExpr:
		v, ok := foldInt(f, x.X, env, depth)
		if !ok {
			return 0, false
		}
		switch x.Op {
		case token.SUB:
			return -v, true
		case token.ADD:
			return v, true
		}
	case *ast.BinaryExpr:
		a, ok1 := foldInt(f, x.X, env, depth)
		b, ok2 := foldInt(f, x.Y, env, depth)
		if !ok1 || !ok2 {
			return 0, false
		}
		switch x.Op {
		case token.ADD:
			return a + b, true
		case token.SUB:
			return a - b, true
		case token.MUL:
			return a * b, true
		case token.QUO:
			if b == 0 {
				return 0, false
			}
			return a / b, true
		case token.REM:
			if b == 0 {
				return 0, false
			}
			return a % b, true
		case token.SHL:
			if b < 0 || b > 62 {
				return 0, false
			}
			if a != 0 && (a<<uint(b))>>uint(b) != a {
				return 0, false
			}
			return a << uint(b), true
		case token.SHR:
			if b < 0 || b > 63 {
				return 0, false
			}
			return a >> uint(b), true
		}
	case *ast.CallExpr:
		// conversion to an integer type
		if tv, ok := info.Types[x.Fun]; ok && tv.IsType() && len(x.Args) == 1 {
			if b, isB := tv.Type.Underlying().(*types.Basic); isB && b.Info()&types.IsInteger != 0 {
				return foldInt(f, x.Args[0], env, depth)
			}
			return 0, false
		}
		if isBuiltinCall(info, x, "max") || isBuiltinCall(info, x, "min") {
			isMax := isBuiltinCall(info, x, "max")
			var acc int64
			for i, a := range x.Args {
				v, ok := foldInt(f, a, env, depth)
				if !ok {
					return 0, false
				}
				if i == 0 || (isMax && v > acc) || (!isMax && v < acc) {
					acc = v
				}
			}
			return acc, len(x.Args) > 0
		}
		// a same-module helper consisting of `return <expr>`
		if fn, ok := calleeObj(info, x).(*types.Func); ok && depth < 3 {
			if h := f.Prog.FuncOf(fn); h != nil && h.Body != nil && len(h.Body.List) == 1 {
				if ret, isRet := h.Body.List[0].(*ast.ReturnStmt); isRet && len(ret.Results) == 1 {
					sig := fn.Type().(*types.Signature)
					if sig.Params().Len() != len(x.Args) {
						return 0, false
					}
					vals := map[types.Object]int64{}
					exprs := map[types.Object]ast.Expr{}
					for i := 0; i < sig.Params().Len(); i++ {
						if v, ok := foldInt(f, x.Args[i], env, depth); ok {
							vals[sig.Params().At(i)] = v
						} else {
							exprs[sig.Params().At(i)] = x.Args[i]
						}
					}
					hinfo := h.Info()
					return foldInt(h, ret.Results[0], func(e ast.Expr) (int64, bool) {
						if o := objOf(hinfo, e); o != nil {
							if v, ok := vals[o]; ok {
								return v, true
							}
						}
						// a field of a parameter bound to a caller expression: t.L with t := caller's t
						if sel, isSel := ast.Unparen(e).(*ast.SelectorExpr); isSel && env != nil {
							if o := objOf(hinfo, sel.X); o != nil {
								if ce, ok := exprs[o]; ok {
									return env(&ast.SelectorExpr{X: ce, Sel: sel.Sel})
								}
							}
						}
						return 0, false
					}, depth+1)
				}
			}
		}
	}
	return 0, false
}
