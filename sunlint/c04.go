package main

// C04 - object storage is always a complete, exact rendering of the leaf sequence.

import (
	"fmt"
	"go/ast"
	"go/token"
	"go/types"
	"strings"

	"golang.org/x/tools/go/cfg"
)

func init() {
	register(&Property{
		ID:    "C04",
		Title: "Object storage is always a complete, exact rendering of the leaf sequence",
		Explanation: "Ordering, who-may-call/who-may-write inventories, option-table agreement and value-flow obligations on the sequencing function, addLeafToPool, uploadIssuer and the upload option variables. " +
			"Decided: every tile upload is awaited before the checkpoint upload is issued; an entry enters a pool only after every one of its issuers was uploaded or verified; an issuer is recorded as present only after a successful upload or a byte-equal existing object; every upload site passes the option set of its object class (tile level <-> option variable by reaching constants on the tile's level), the option variables are immutable-flagged exactly for tiles, issuers and staging bundles and are never reassigned; the only Discard in the module targets the staging bundle of the current round; each leaf is built with the running index and the tree-head timestamp; tile geometry constants agree with the tlog library. " +
			"NOT decided: byte-exact tile contents, tile-boundary arithmetic, names-tile JSON, gzip output, observability on an eventually consistent store (runtime values).",
		Assumptions: []string{"tlog.NewTiles/ReadTileData generate the hash tiles of the overlay correctly", "Backend implementations honour UploadOptions"},
		Obligations: []*Obligation{
			{ID: "C04.a", Title: "TILES-BEFORE-CHECKPOINT", Template: "T1", MinInst: 1,
				Rule: "the checkpoint upload is unreachable once the success edge of applyStagedUploads is cut (and applyStagedUploads awaits every upload, C03.e)", Run: c04a},
			{ID: "C04.b", Title: "ISSUERS-BEFORE-POOL", Template: "T1+T4", MinInst: 2,
				Rule: "pool.pendingLeaves is written only in addLeafToPool, after a loop that calls uploadIssuer for every element of leaf.Issuers and returns on its error", Run: c04b},
			{ID: "C04.c", Title: "ISSUER-VERIFIED", Template: "T2", MinInst: 3,
				Rule: "uploadIssuer records the issuer as present only after Upload succeeded or (Fetch succeeded and bytes.Equal(existing, issuer)); fetch and upload use issuer/<sha256(issuer)>", Run: c04c},
			{ID: "C04.d", Title: "OPTS-TABLE", Template: "T5+T4", MinInst: 12,
				Rule: "every upload site and uploadAction literal passes the option variable of its object class; option variables have the prescribed fields and are never reassigned", Run: c04d},
			{ID: "C04.e", Title: "DISCARD-ONLY-STAGING", Template: "T4+T6", MinInst: 1,
				Rule: "the only Backend.Discard call site in the module is in the sequencing function and passes this round's staging key", Run: c04e},
			{ID: "C04.f", Title: "LEAF-COORDINATES", Template: "T6", MinInst: 1,
				Rule: "asLogEntry(n, timestamp) receives the running index and the tree-head timestamp (as C02.c)", Run: func(c *Ctx) {
					c02c(c)
					// keep only the leaf-coordinate instances
					var keep []Result
					for _, r := range c.Results {
						if strings.Contains(r.Instance, "leaf coordinates") || r.Verdict != Discharged {
							keep = append(keep, r)
						}
					}
					c.Results = keep
				}},
			{ID: "C04.g", Title: "CONSTANTS", Template: "T5", MinInst: 1,
				Rule: "TileHeight = 8 = torchwood.TileHeight, TileWidth = 1 << TileHeight", Run: c04g},
		},
	})
}

func c04a(c *Ctx) {
	for _, f := range sequencers(c.P) {
		c.requireGate(f.Name, f, f.CallsW(specApply), OutNil, checkpointUploads(f), "checkpoint upload after all tiles were applied")
	}
}

// rangeHead finds the RangeLoop block of rs in g.
func rangeHead(g *Graph, rs *ast.RangeStmt) *cfg.Block {
	for _, b := range g.Blocks {
		if b.Kind == cfg.KindRangeLoop && b.Stmt == ast.Stmt(rs) {
			return b
		}
	}
	return nil
}

func c04b(c *Ctx) {
	pl := c.P.fieldVar(pkgCtlog, "pool", "pendingLeaves")
	if pl == nil {
		c.Unk("pool.pendingLeaves", "field not found")
		return
	}
	stores := c.P.AllStoresTo(pl)
	if len(stores) == 0 {
		c.Unk("pool.pendingLeaves", "no store found")
		return
	}
	byFunc := map[*Func][]Store{}
	for _, st := range stores {
		byFunc[st.F] = append(byFunc[st.F], st)
	}
	for f, sts := range byFunc {
		c.touch(f)
		inst := "pendingLeaves stores in " + f.Name
		info := f.Info()
		g := f.Graph()
		leaf := f.paramObj("leaf")
		if f.Decl == nil || leaf == nil {
			c.Bad(inst, sts[0].Pos(), "pool.pendingLeaves is written outside the admission function")
			continue
		}
		// the issuer loop
		var loop *ast.RangeStmt
		var up []Site
		ast.Inspect(f.Body, func(n ast.Node) bool {
			if _, isLit := n.(*ast.FuncLit); isLit {
				return false
			}
			rs, ok := n.(*ast.RangeStmt)
			if !ok {
				return true
			}
			r, p, ok := fieldPath(info, rs.X)
			if ok && r == leaf && len(p) == 1 && p[0] == "Issuers" {
				loop = rs
			}
			return true
		})
		if loop == nil {
			c.Bad(inst, sts[0].Pos(), "entries are added to the pool without iterating over their issuers")
			continue
		}
		for _, s := range f.Calls(Callee{pkgCtlog, "Log", "uploadIssuer"}) {
			if loop.Body.Pos() <= s.Call.Pos() && s.Call.End() <= loop.Body.End() && objOf(info, argByName(info, s.Call, "issuer")) == objOf(info, loop.Value) {
				up = append(up, s)
			}
		}
		if len(up) == 0 {
			c.Bad(inst, f.Pos(loop), "the issuer loop does not upload each issuer")
			continue
		}
		head := rangeHead(g, loop)
		var targets []Site
		for _, st := range sts {
			targets = append(targets, st.Site)
		}
		bad := false
		// every store is after the loop
		if head != nil {
			if pt, _ := g.ReachableFromEntry(Cut{NoEnter: func(b *cfg.Block) bool { return b == head }}, atAnySite(targets)); pt != nil {
				c.Bad(inst, targets[0].Pos(), "a leaf can be added to the pool on a path that skips the issuer uploads")
				bad = true
			}
		}
		// the loop body: the upload is unconditional per element, its error leaves the function
		_, nonNil, _, ok := OutcomeEdges(up[0])
		if !ok || len(nonNil) == 0 {
			c.Bad(inst, up[0].Pos(), "the error of uploadIssuer is not tested")
			bad = true
		} else {
			for e := range nonNil {
				if pt, _ := g.Reach(EdgeStart(e), Cut{}, atAnySite(targets)); pt != nil {
					c.Bad(inst, up[0].Pos(), "after a failed issuer upload the leaf can still be added to the pool")
					bad = true
				}
			}
		}
		// from the loop head's body edge, reaching the head again requires passing the upload call
		if head != nil {
			if g.EntersBlock(Point{head.Succs[0], 0}, Cut{Stop: func(p Point, _ ast.Node) bool { return p == up[0].P }}, head) {
				c.Bad(inst, up[0].Pos(), "an issuer can be skipped by the loop")
				bad = true
			}
		}
		if !bad {
			c.add(Result{Instance: inst, Verdict: Discharged, Evals: 3, Sites: append(sitePositions(up), sitePositions(targets)...),
				Detail: "all pendingLeaves stores after `for issuer := range leaf.Issuers { uploadIssuer }` with error exit", Witnesses: f.WitEdges(nonNil)})
		}
	}
	// who else adds? (stores outside addLeafToPool flagged above); count instance for MinInst
	c.OK("pendingLeaves writers", fmt.Sprintf("%d function(s) write pool.pendingLeaves", len(byFunc)), nil)
}

func c04c(c *Ctx) {
	f := c.Fn("ctlog.(*Log).uploadIssuer")
	if f == nil {
		return
	}
	info := f.Info()
	g := f.Graph()
	im := c.P.fieldVar(pkgCtlog, "Log", "issuers")
	var marks []Site
	for _, st := range f.StoresTo(im) {
		marks = append(marks, st.Site)
	}
	fetch, up := f.Calls(specFetch), f.Calls(specUpload)
	eqs := f.Find(func(n ast.Node) bool {
		call, ok := n.(*ast.CallExpr)
		return ok && matchCallee(info, call, Callee{"bytes", "", "Equal"})
	})
	if len(marks) == 0 || len(fetch) == 0 || len(up) == 0 || len(eqs) == 0 {
		c.Unk(f.Name, fmt.Sprintf("anchors not found: marks=%d fetch=%d upload=%d equal=%d", len(marks), len(fetch), len(up), len(eqs)))
		return
	}
	upOK, _ := gateEdges(up, OutNil)
	feOK, _ := gateEdges(fetch, OutNil)
	eqOK := g.EdgesImplying(func(a Atom) bool {
		call, ok := ast.Unparen(a.E).(*ast.CallExpr)
		return ok && a.Val && call == eqs[0].Call
	})
	inst := f.Name + " recorded only when verified"
	switch {
	case len(upOK) == 0:
		c.Bad(inst, up[0].Pos(), "the error of the issuer upload is not tested")
	case len(eqOK) == 0:
		c.Bad(inst, eqs[0].Pos(), "the result of comparing the existing issuer is not used")
	default:
		bad := false
		if pt, _ := g.ReachableFromEntry(Cut{Edges: unionEdges(upOK, eqOK)}, atAnySite(marks)); pt != nil {
			c.Bad(inst, marks[0].Pos(), "an issuer can be recorded as present without a successful upload or a byte-equal existing object")
			bad = true
		}
		if pt, _ := g.ReachableFromEntry(Cut{Edges: unionEdges(upOK, feOK)}, atAnySite(marks)); pt != nil {
			c.Bad(inst, marks[0].Pos(), "an issuer can be recorded as present although neither the upload nor the fetch succeeded")
			bad = true
		}
		// success return only after the mark (or the cache hits)
		if !bad {
			c.add(Result{Instance: inst, Verdict: Discharged, Evals: 2, Sites: sitePositions(marks), Detail: "issuers[fp] = true only via Upload ok or (Fetch ok and bytes.Equal)", Witnesses: append(f.WitEdges(upOK), f.WitEdges(eqOK)...)})
		}
	}
	// nil returns: cache hit or after the mark
	isCached := func(e ast.Expr) bool {
		v := f.ResolveDeep(e)
		ix, ok := ast.Unparen(v.E).(*ast.IndexExpr)
		if !ok {
			return false
		}
		_, ok = fieldSel(info, ix.X, pkgCtlog, "Log", "issuers")
		return ok
	}
	hit := g.EdgesImplying(func(a Atom) bool { return a.Val && isCached(a.E) })
	stop := func(p Point, _ ast.Node) bool {
		for _, m := range marks {
			if m.P == p {
				return true
			}
		}
		return false
	}
	if pt, _ := g.ReachableFromEntry(Cut{Edges: hit, Stop: stop}, atAnySite(successReturns(f))); pt != nil {
		c.Bad(f.Name+" success", successReturns(f)[0].Pos(), "uploadIssuer can return success without the issuer being cached as verified or verified now")
	} else {
		c.OK(f.Name+" success", "nil only on a cache hit or after recording the verified issuer", sitePositions(successReturns(f)))
	}
	// operands
	issuerP := f.paramObj("issuer")
	var p []string
	pathOK := func(e ast.Expr) bool {
		call, ok := f.IsCallResult(e, -1, Callee{"fmt", "", "Sprintf"})
		if !ok || len(call.Args) != 2 {
			return false
		}
		if s, _ := constString(info, call.Args[0]); s != "issuer/%x" {
			return false
		}
		h, ok := f.IsCallResult(call.Args[1], -1, Callee{"crypto/sha256", "", "Sum256"})
		return ok && len(h.Args) == 1 && objOf(info, h.Args[0]) == issuerP
	}
	if !pathOK(argByName(info, fetch[0].Call, "key")) || !pathOK(argByName(info, up[0].Call, "key")) {
		p = append(p, "fetch/upload key is not issuer/<sha256(issuer)>")
	}
	if objOf(info, argByName(info, up[0].Call, "data")) != issuerP {
		p = append(p, "the uploaded bytes are not the issuer")
	}
	a0, a1 := eqs[0].Call.Args[0], eqs[0].Call.Args[1]
	_, fetched := f.IsCallResult(a0, 0, specFetch)
	if !(fetched && objOf(info, a1) == issuerP) {
		if _, f2 := f.IsCallResult(a1, 0, specFetch); !(f2 && objOf(info, a0) == issuerP) {
			p = append(p, "bytes.Equal does not compare the fetched object with the issuer")
		}
	}
	if len(p) > 0 {
		c.Bad(f.Name+" operands", f.Pos(f.Decl), strings.Join(p, "; "))
	} else {
		c.add(Result{Instance: f.Name + " operands", Verdict: Discharged, Evals: 3, Detail: "key issuer/%x of sha256(issuer) for fetch and upload; Equal(fetched, issuer)"})
	}
	// other writers of Log.issuers
	for _, st := range c.P.AllStoresTo(im) {
		if st.F != f {
			c.Bad("Log.issuers store in "+st.F.Name, st.Pos(), "the verified-issuer cache is written outside uploadIssuer")
		}
	}
}

// optsVarOf returns the name of the package-level option variable e denotes.
func optsVarOf(f *Func, e ast.Expr) string {
	info := f.Info()
	id := identOf(e)
	if id == nil {
		if se, ok := ast.Unparen(e).(*ast.SelectorExpr); ok {
			id = se.Sel
		}
	}
	if id == nil {
		return ""
	}
	v, ok := info.Uses[id].(*types.Var)
	if !ok || v.Pkg() == nil || v.Parent() != v.Pkg().Scope() {
		return ""
	}
	return v.Name()
}

// tileLevelAt determines the constant level of tile object t at site s by
// reaching definitions of t.L ("hash" when t comes from tlog.NewTiles, "?" if
// unknown).
func tileLevelAt(f *Func, tile types.Object, s Site) string {
	info := f.Info()
	g := f.Graph()
	type lst struct {
		site Site
		val  string
	}
	var stores []lst
	for _, a := range f.Find(func(n ast.Node) bool { _, ok := n.(*ast.AssignStmt); return ok }) {
		as := a.X.(*ast.AssignStmt)
		for i, l := range as.Lhs {
			r, p, ok := fieldPath(info, l)
			if ok && r == tile && len(p) == 1 && p[0] == "L" && i < len(as.Rhs) {
				v := "?"
				if c, ok := constInt(info, as.Rhs[i]); ok {
					v = fmt.Sprint(c)
				}
				stores = append(stores, lst{a, v})
			}
			if objOf(info, l) == tile {
				stores = append(stores, lst{a, "def"})
			}
		}
	}
	isStore := func(p Point, _ ast.Node) bool {
		for _, st := range stores {
			if st.site.P == p {
				return true
			}
		}
		return false
	}
	vals := map[string]bool{}
	for _, st := range stores {
		if pt, _ := g.Reach(st.site.After(), Cut{Stop: isStore}, atSite(s)); pt != nil {
			vals[st.val] = true
		}
	}
	// definitions through range
	for _, d := range f.Defs(tile) {
		if d.Kind == DefRange {
			if _, ok := f.IsCallResult(d.Rhs, -1, Callee{pkgTlog, "", "NewTiles"}); ok {
				// reaches s without an intervening .L store?
				if rs, ok := d.Node.(*ast.RangeStmt); ok {
					if head := rangeHead(g, rs); head != nil {
						if pt, _ := g.Reach(Point{head.Succs[0], 0}, Cut{Stop: isStore}, atSite(s)); pt != nil {
							vals["hash"] = true
						}
					}
				}
			}
		}
	}
	delete(vals, "def")
	if len(vals) == 1 {
		for v := range vals {
			return v
		}
	}
	if len(vals) == 0 {
		return "?"
	}
	var ks []string
	for v := range vals {
		ks = append(ks, v)
	}
	return "ambiguous:" + strings.Join(ks, "|")
}

func c04d(c *Ctx) {
	// 1. the option variables
	want := map[string]struct {
		ct         string
		comp, immu bool
	}{
		"optsHashTile":   {"", false, true},
		"optsDataTile":   {"", true, true},
		"optsNamesTile":  {"application/jsonl; charset=utf-8", true, true},
		"optsStaging":    {"", true, true},
		"optsIssuer":     {"application/pkix-cert", false, true},
		"optsCheckpoint": {"text/plain; charset=utf-8", false, false},
		"optsRoots":      {"application/x-pem-file", false, false},
	}
	pk := c.P.Pkgs[pkgCtlog]
	found := map[string]bool{}
	for _, file := range pk.Syntax {
		for _, d := range file.Decls {
			gd, ok := d.(*ast.GenDecl)
			if !ok || gd.Tok != token.VAR {
				continue
			}
			for _, sp := range gd.Specs {
				vs := sp.(*ast.ValueSpec)
				for i, nm := range vs.Names {
					w, ok := want[nm.Name]
					if !ok || i >= len(vs.Values) {
						continue
					}
					found[nm.Name] = true
					inst := "var " + nm.Name
					e := vs.Values[i]
					if u, ok := ast.Unparen(e).(*ast.UnaryExpr); ok {
						e = u.X
					}
					cl, ok := ast.Unparen(e).(*ast.CompositeLit)
					if !ok {
						c.Bad(inst, c.P.Pos(nm.Pos()), "option variable is not a literal")
						continue
					}
					ct, _ := constString(pk.TypesInfo, orEmpty(compositeField(pk.TypesInfo, cl, "ContentType", -1)))
					comp, _ := constBool(pk.TypesInfo, orEmpty(compositeField(pk.TypesInfo, cl, "Compressed", -1)))
					immu, _ := constBool(pk.TypesInfo, orEmpty(compositeField(pk.TypesInfo, cl, "Immutable", -1)))
					if ct == w.ct && comp == w.comp && immu == w.immu {
						c.OK(inst, fmt.Sprintf("ContentType=%q Compressed=%v Immutable=%v", ct, comp, immu), []string{c.P.Pos(nm.Pos())})
					} else {
						c.Bad(inst, c.P.Pos(nm.Pos()), fmt.Sprintf("%s is {ContentType=%q Compressed=%v Immutable=%v}, the layout prescribes {%q %v %v}", nm.Name, ct, comp, immu, w.ct, w.comp, w.immu))
					}
				}
			}
		}
	}
	for n := range want {
		if !found[n] {
			c.Unk("var "+n, "option variable not found")
		}
	}
	// never reassigned / mutated
	for _, f := range c.P.Funcs(pkgCtlog) {
		if f.Body == nil {
			continue
		}
		ast.Inspect(f.Body, func(n ast.Node) bool {
			as, ok := n.(*ast.AssignStmt)
			if !ok {
				return true
			}
			for _, l := range as.Lhs {
				if r := rootObj(f.Info(), l); r != nil {
					if _, isOpt := want[r.Name()]; isOpt && !isLocal(r) && r.Pkg() != nil && r.Pkg().Path() == pkgCtlog {
						c.Bad("var "+r.Name()+" mutated", f.Pos(as), "an upload option variable is modified at run time")
					}
				}
			}
			return true
		})
	}
	// 2. direct upload sites in ctlog
	expectFor := func(shape string) string {
		switch {
		case shape == "const:checkpoint":
			return "optsCheckpoint"
		case shape == "const:_roots.pem":
			return "optsRoots"
		case shape == "sprintf:issuer/%x":
			return "optsIssuer"
		case shape == "staging":
			return "optsStaging"
		}
		return ""
	}
	for _, f := range c.P.Funcs(pkgCtlog) {
		if f.Body == nil {
			continue
		}
		if c.P.isWrapperOf(f, specUpload) {
			continue // classified at its call sites
		}
		for _, s := range f.CallsW(specUpload) {
			c.touch(f)
			shape := keyShape(f, argByName(f.Info(), s.Call, "key"))
			inst := fmt.Sprintf("%s upload %s", f.Name, shape)
			got := optsVarOf(f, argByName(f.Info(), s.Call, "opts"))
			if shape == "tar-header-name" {
				c.OK(inst, "options decoded from the bundle (written from the uploadAction literals below)", []string{s.Pos()})
				continue
			}
			exp := expectFor(shape)
			if exp == "" {
				c.Unk(inst, "no option class known for this key at "+s.Pos())
				continue
			}
			if got == exp {
				c.OK(inst, "passes "+exp, []string{s.Pos()})
			} else {
				c.Bad(inst, s.Pos(), fmt.Sprintf("object class %s is uploaded with %s instead of %s", shape, orStr(got, exprString(argByName(f.Info(), s.Call, "opts"))), exp))
			}
		}
		// 3. uploadAction literals
		for _, s := range f.Find(func(n ast.Node) bool {
			cl, ok := n.(*ast.CompositeLit)
			if !ok {
				return false
			}
			tv, ok := f.Info().Types[cl]
			return ok && namedIs(tv.Type, pkgCtlog, "uploadAction")
		}) {
			cl := s.X.(*ast.CompositeLit)
			info := f.Info()
			key := compositeField(info, cl, "key", 0)
			opts := compositeField(info, cl, "opts", 2)
			inst := f.Name + " staged upload at " + s.Pos()
			call, ok := f.IsCallResult(key, -1, Callee{pkgRoot, "", "TilePath"})
			if !ok || len(call.Args) != 1 {
				c.Bad(inst, s.Pos(), "staged upload key is not a TilePath")
				continue
			}
			tile := objOf(info, call.Args[0])
			level := "?"
			if tile != nil {
				level = tileLevelAt(f, tile, s)
			}
			exp := map[string]string{"-1": "optsDataTile", "-2": "optsNamesTile", "hash": "optsHashTile"}[level]
			got := optsVarOf(f, opts)
			switch {
			case exp == "":
				c.Unk(inst, "cannot determine the tile level (got "+level+")")
			case got == exp:
				c.add(Result{Instance: inst, Verdict: Discharged, Sites: []string{s.Pos()}, Detail: "level " + level + " tile staged with " + exp})
			default:
				c.Bad(inst, s.Pos(), fmt.Sprintf("a level %s tile is staged with %s instead of %s", level, orStr(got, "?"), exp))
			}
		}
	}
}

func orEmpty(e ast.Expr) ast.Expr {
	if e == nil {
		return &ast.BadExpr{}
	}
	return e
}

func orStr(a, b string) string {
	if a != "" {
		return a
	}
	return b
}

func c04e(c *Ctx) {
	seqSet := map[*Func]bool{}
	for _, f := range sequencers(c.P) {
		seqSet[f] = true
	}
	n := 0
	for _, f := range c.P.Funcs("") {
		if f.Body == nil {
			continue
		}
		for _, s := range f.CallsW(specDiscard) {
			n++
			c.touch(f)
			inst := "Discard in " + f.Name
			if !seqSet[f] {
				c.Bad(inst, s.Pos(), "objects are discarded outside the sequencing function")
				continue
			}
			k := argByName(f.Info(), s.Call, "key")
			if _, ok := f.IsCallResult(k, -1, specStagingPath); !ok {
				c.Bad(inst, s.Pos(), "an object other than a staging bundle is discarded: "+exprString(k))
				continue
			}
			same := false
			for _, u := range stagingUploads(f) {
				if f.SameValue(k, argByName(f.Info(), u.Call, "key")) {
					same = true
				}
			}
			if same {
				c.OK(inst, "discards this round's staging bundle", []string{s.Pos()})
			} else {
				c.Bad(inst, s.Pos(), "the staging key discarded is not the one uploaded in this round")
			}
		}
	}
	// any other implementation-level deleter reachable from Log? (LocalBackend.Discard is the sink)
	if n == 0 {
		c.OK("Discard inventory", "no Backend.Discard call in the module", nil)
	}
}

func c04g(c *Ctx) {
	get := func(pkg, name string) (int64, bool) {
		pk := c.P.Pkgs[pkg]
		var sc *types.Scope
		if pk != nil {
			sc = pk.Types.Scope()
		} else {
			for _, p := range c.P.All {
				for _, imp := range p.Types.Imports() {
					if imp.Path() == pkg {
						sc = imp.Scope()
					}
				}
			}
		}
		if sc == nil {
			return 0, false
		}
		cst, ok := sc.Lookup(name).(*types.Const)
		if !ok {
			return 0, false
		}
		return constantInt64(cst)
	}
	h, ok1 := get(pkgRoot, "TileHeight")
	w, ok2 := get(pkgRoot, "TileWidth")
	th, ok3 := get(pkgTorch, "TileHeight")
	if !ok1 || !ok2 || !ok3 {
		c.Unk("tile constants", "TileHeight/TileWidth/torchwood.TileHeight not found")
		return
	}
	if h == 8 && w == 1<<uint(h) && th == h {
		c.add(Result{Instance: "tile constants", Verdict: Discharged, Evals: 3, Detail: fmt.Sprintf("TileHeight=%d TileWidth=%d torchwood.TileHeight=%d", h, w, th)})
	} else {
		c.Bad("tile constants", "tile.go", fmt.Sprintf("TileHeight=%d TileWidth=%d torchwood.TileHeight=%d: the Static CT layout requires height 8, width 256, and agreement with the tile library", h, w, th))
	}
}
