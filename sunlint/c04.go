package main

// C04 - object storage is always a complete, exact rendering of the leaf sequence.

import (
	"fmt"
	"go/ast"
	"go/token"
	"go/types"
	"strconv"
	"strings"

	"golang.org/x/tools/go/cfg"
)

func init() {
	register(&Property{
		ID:    "C04",
		Title: "Object storage is always a complete, exact rendering of the leaf sequence",
		Explanation: "Ordering, who-may-call/who-may-write inventories, option-table agreement and value-flow obligations on the sequencing function, addLeafToPool, uploadIssuer and the upload option variables. " +
			"Decided: every tile upload is awaited before the checkpoint upload is issued; an entry enters a pool only after every one of its issuers was uploaded or verified; an issuer is recorded as present only after a successful upload or a byte-equal existing object; every upload site passes the option set of its object class (tile level <-> option variable by reaching constants on the tile's level), the option variables are immutable-flagged exactly for tiles, issuers and staging bundles and are never reassigned; the only Discard in the module targets the staging bundle of the current round; each leaf is built with the running index and the tree-head timestamp; tile geometry constants agree with the tlog library. " +
			"NOT decided: byte-exact tile contents, tile-boundary arithmetic, names-tile JSON, gzip output, observability on an eventually consistent store (runtime values).",
		Assumptions: []string{"tlog.NewTiles/ReadTileData generate the hash tiles of the overlay correctly", "Backend implementations honour UploadOptions"},
		Obligations: []*Obligation{
			{ID: "C04.a", Title: "TILES-BEFORE-CHECKPOINT", Template: "T1", MinInst: 1,
				Rule: "the checkpoint upload is unreachable once the success edge of applyStagedUploads is cut (and applyStagedUploads awaits every upload, C03.e)", Run: c04a},
			{ID: "C04.b", Title: "ISSUERS-BEFORE-POOL", Template: "T1+T4", MinInst: 2,
				Rule: "pool.pendingLeaves is written only in addLeafToPool, after a loop that calls uploadIssuer for every element of leaf.Issuers and returns on its error", Run: c04b},
			{ID: "C04.c", Title: "ISSUER-VERIFIED", Template: "T2", MinInst: 3,
				Rule: "uploadIssuer records the issuer as present only after Upload succeeded or (Fetch succeeded and bytes.Equal(existing, issuer)); fetch and upload use issuer/<sha256(issuer)>", Run: c04c},
			{ID: "C04.d", Title: "OPTS-TABLE", Template: "T5+T4", MinInst: 12,
				Rule: "every upload site and uploadAction literal passes the option variable of its object class; option variables have the prescribed fields and are never reassigned", Run: c04d},
			{ID: "C04.e", Title: "DISCARD-ONLY-STAGING", Template: "T4+T6", MinInst: 1,
				Rule: "the only Backend.Discard call site in the module is in the sequencing function and passes this round's staging key", Run: c04e},
			{ID: "C04.f", Title: "LEAF-COORDINATES", Template: "T6", MinInst: 1,
				Rule: "asLogEntry(n, timestamp) receives the running index and the tree-head timestamp (as C02.c)", Run: func(c *Ctx) {
					c02c(c)
					// keep only the leaf-coordinate instances
					var keep []Result
					for _, r := range c.Results {
						if strings.Contains(r.Instance, "leaf coordinates") || r.Verdict != Discharged {
							keep = append(keep, r)
						}
					}
					c.Results = keep
				}},
			{ID: "C04.h", Title: "TILE-STAGING", Template: "T1+T2+T6", MinInst: 6,
				Rule: "each sequenced entry is appended to the data tile exactly once per leaf before the index advances; a full data/names tile is staged only on the edge n % TileWidth == 0 (after the increment), for the tile of leaf n-1, with the accumulated bytes, which are then reset; the trailing partial tile is staged only when the round added leaves and n % TileWidth != 0; the accumulator starts from the in-memory partial edge tile",
				Run:  c04h},
			{ID: "C04.i", Title: "EDGE-TILES", Template: "T1+T6+T7", MinInst: 8,
				Rule: "every staged data/names tile is recorded as edge[level] = {tile, accumulator} on all paths from the level assignment to the staging site; staged hash tiles replace the edge tile of their level exactly under the right-most guard (all 18 orderings of presence, N and W); both accumulators start from the partial edge tile of their own level; LoadLog's saved edge tiles obey the same guard",
				Run:  c04i},
			{ID: "C04.j", Title: "STAGED-COMPLETE", Template: "T4+T6", MinInst: 7,
				Rule: "every uploadAction built by the sequencer is appended to the slice serialised by marshalStagedUploads, and the only direct Backend.Upload calls of the sequencer are the staging bundle and the checkpoint",
				Run:  c04j},
			{ID: "C04.l", Title: "S3-PUT", Template: "T6+T2", MinInst: 1,
				Rule: "the S3 backend's PutObject carries the configured bucket, keyPrefix + key, the data given and its length, and Content-Encoding gzip exactly on the opts.Compressed edge; the error that gates Upload's nil return is defined only by PutObject results (directly or through the hedge goroutine's channel)", Run: func(c *Ctx) { c04l(c); c04lOutcome(c) }},
			{ID: "C04.g", Title: "CONSTANTS", Template: "T5", MinInst: 1,
				Rule: "TileHeight = 8 = torchwood.TileHeight, TileWidth = 1 << TileHeight", Run: c04g},
		},
	})
}

func c04a(c *Ctx) {
	for _, f := range sequencers(c.P) {
		c.requireGate(f.Name, f, f.CallsW(specApply), OutNil, checkpointUploads(f), "checkpoint upload after all tiles were applied")
	}
}

// rangeHead finds the RangeLoop block of rs in g.
func rangeHead(g *Graph, rs *ast.RangeStmt) *cfg.Block {
	for _, b := range g.Blocks {
		if b.Kind == cfg.KindRangeLoop && b.Stmt == ast.Stmt(rs) {
			return b
		}
	}
	return nil
}

func c04b(c *Ctx) {
	pl := c.P.fieldVar(pkgCtlog, "pool", "pendingLeaves")
	if pl == nil {
		c.Unk("pool.pendingLeaves", "field not found")
		return
	}
	stores := c.P.AllStoresTo(pl)
	if len(stores) == 0 {
		c.Unk("pool.pendingLeaves", "no store found")
		return
	}
	byFunc := map[*Func][]Store{}
	for _, st := range stores {
		byFunc[st.F] = append(byFunc[st.F], st)
	}
	for f, sts := range byFunc {
		c.touch(f)
		inst := "pendingLeaves stores in " + f.Name
		info := f.Info()
		g := f.Graph()
		leaf := f.paramObj("leaf")
		if f.Decl == nil || leaf == nil {
			c.Bad(inst, sts[0].Pos(), "pool.pendingLeaves is written outside the admission function")
			continue
		}
		// the issuer loop
		var loop *ast.RangeStmt
		var up []Site
		ast.Inspect(f.Body, func(n ast.Node) bool {
			if _, isLit := n.(*ast.FuncLit); isLit {
				return false
			}
			rs, ok := n.(*ast.RangeStmt)
			if !ok {
				return true
			}
			r, p, ok := fieldPath(info, rs.X)
			if ok && r == leaf && len(p) == 1 && p[0] == "Issuers" {
				loop = rs
			}
			return true
		})
		if loop == nil {
			c.Bad(inst, sts[0].Pos(), "entries are added to the pool without iterating over their issuers")
			continue
		}
		for _, s := range f.Calls(Callee{pkgCtlog, "Log", "uploadIssuer"}) {
			if loop.Body.Pos() <= s.Call.Pos() && s.Call.End() <= loop.Body.End() && objOf(info, argByName(info, s.Call, "issuer")) == objOf(info, loop.Value) {
				up = append(up, s)
			}
		}
		if len(up) == 0 {
			c.Bad(inst, f.Pos(loop), "the issuer loop does not upload each issuer")
			continue
		}
		head := rangeHead(g, loop)
		var targets []Site
		for _, st := range sts {
			targets = append(targets, st.Site)
		}
		bad := false
		// every store is after the loop
		if head != nil {
			if pt, _ := g.ReachableFromEntry(Cut{NoEnter: func(b *cfg.Block) bool { return b == head }}, atAnySite(targets)); pt != nil {
				c.Bad(inst, targets[0].Pos(), "a leaf can be added to the pool on a path that skips the issuer uploads")
				bad = true
			}
		}
		// the loop body: the upload is unconditional per element, its error leaves the function
		_, nonNil, _, ok := OutcomeEdges(up[0])
		if !ok || len(nonNil) == 0 {
			c.Bad(inst, up[0].Pos(), "the error of uploadIssuer is not tested")
			bad = true
		} else {
			for e := range nonNil {
				if pt, _ := g.Reach(EdgeStart(e), Cut{}, atAnySite(targets)); pt != nil {
					c.Bad(inst, up[0].Pos(), "after a failed issuer upload the leaf can still be added to the pool")
					bad = true
				}
			}
		}
		// from the loop head's body edge, reaching the head again requires passing the upload call
		if head != nil {
			if g.EntersBlock(Point{head.Succs[0], 0}, Cut{Stop: func(p Point, _ ast.Node) bool { return p == up[0].P }}, head) {
				c.Bad(inst, up[0].Pos(), "an issuer can be skipped by the loop")
				bad = true
			}
		}
		if !bad {
			c.add(Result{Instance: inst, Verdict: Discharged, Evals: 3, Sites: append(sitePositions(up), sitePositions(targets)...),
				Detail: "all pendingLeaves stores after `for issuer := range leaf.Issuers { uploadIssuer }` with error exit", Witnesses: f.WitEdges(nonNil)})
		}
	}
	// who else adds? (stores outside addLeafToPool flagged above); count instance for MinInst
	c.OK("pendingLeaves writers", fmt.Sprintf("%d function(s) write pool.pendingLeaves", len(byFunc)), nil)
}

// issuerVerifier returns the function that performs the issuer's storage
// verification (Fetch / bytes.Equal / Upload): uploadIssuer itself, or the one
// same-package helper it delegates to (with the delegating call sites).
func issuerVerifier(p *Program) (f, v *Func, vcalls []Site) {
	f = p.Fn("ctlog.(*Log).uploadIssuer")
	if f == nil {
		return nil, nil, nil
	}
	if len(f.Calls(specUpload)) > 0 {
		return f, f, nil
	}
	info := f.Info()
	for _, s := range f.Find(func(n ast.Node) bool { _, ok := n.(*ast.CallExpr); return ok }) {
		fn, ok := calleeObj(info, s.X.(*ast.CallExpr)).(*types.Func)
		if !ok {
			continue
		}
		g := p.FuncOf(fn.Origin())
		if g == nil || g == f || g.Body == nil || g.Pkg != f.Pkg || len(g.Calls(specUpload)) == 0 {
			continue
		}
		if v != nil && v != g {
			return f, nil, nil // more than one candidate: not a plain delegation
		}
		v = g
		s.Call = s.X.(*ast.CallExpr)
		vcalls = append(vcalls, s)
	}
	return f, v, vcalls
}

func c04c(c *Ctx) {
	f, v, vcalls := issuerVerifier(c.P)
	if f == nil {
		c.Unk("ctlog.(*Log).uploadIssuer", "function not found")
		return
	}
	if v == nil {
		c.Unk(f.Name, "the issuer's Backend.Upload is neither in uploadIssuer nor in a single same-package helper it calls")
		return
	}
	c.touch(v)
	info := f.Info()
	g := f.Graph()
	im := c.P.fieldVar(pkgCtlog, "Log", "issuers")
	var marks []Site
	for _, st := range f.StoresTo(im) {
		if ix, ok := ast.Unparen(st.Lhs).(*ast.IndexExpr); ok && st.Rhs != nil {
			_ = ix
			if b, isConst := constBool(info, st.Rhs); isConst && !b {
				continue // issuers[fp] = false un-records; it never makes an issuer trusted
			}
		}
		marks = append(marks, st.Site)
	}
	// a mark made by a deferred literal runs on every exit of the function, also after a failed fetch,
	// comparison or upload - unless the literal itself tests the function's named error result
	for _, dl := range deferredLits(f) {
		for _, st := range dl.StoresTo(im) {
			if st.Rhs != nil {
				if b, isConst := constBool(info, st.Rhs); isConst && !b {
					continue
				}
			}
			guarded := false
			if ne := f.namedErrResult(); ne != nil {
				dg := dl.Graph()
				okE := dg.EdgesImplying(func(a Atom) bool {
					eq, isCmp := isNilCmp(info, a.E, func(e ast.Expr) bool { return objOf(info, e) == ne })
					return isCmp && eq == a.Val
				})
				if len(okE) > 0 {
					if pt, _ := dg.ReachableFromEntry(Cut{Edges: okE}, atSite(st.Site)); pt == nil {
						guarded = true
					}
				}
			}
			if !guarded {
				c.Bad(f.Name+" deferred mark", st.Pos(), "the issuer is recorded as stored by a deferred statement, which also runs when the fetch, the comparison or the upload failed: later chains with this issuer skip the upload and are sequenced although issuer/<hash> may be missing")
				return
			}
			// (a guarded deferred mark is not modelled further: with no other mark the obligation stays undecided)
		}
	}
	vinfo := v.Info()
	vg := v.Graph()
	fetch, up := v.Calls(specFetch), v.Calls(specUpload)
	eqs := v.Find(func(n ast.Node) bool {
		call, ok := n.(*ast.CallExpr)
		return ok && matchCallee(vinfo, call, Callee{"bytes", "", "Equal"})
	})
	if len(marks) == 0 || len(fetch) == 0 || len(up) == 0 || len(eqs) == 0 {
		c.Unk(f.Name, fmt.Sprintf("anchors not found: marks=%d fetch=%d upload=%d equal=%d", len(marks), len(fetch), len(up), len(eqs)))
		return
	}
	upOK, _ := gateEdges(up, OutNil)
	feOK, _ := gateEdges(fetch, OutNil)
	eqOK := vg.EdgesImplying(func(a Atom) bool {
		call, ok := ast.Unparen(a.E).(*ast.CallExpr)
		return ok && a.Val && call == eqs[0].Call
	})
	inst := f.Name + " recorded only when verified"
	switch {
	case len(upOK) == 0:
		c.Bad(inst, up[0].Pos(), "the error of the issuer upload is not tested")
	case len(eqOK) == 0:
		c.Bad(inst, eqs[0].Pos(), "the result of comparing the existing issuer is not used")
	default:
		bad := false
		// "verified" = the points of v reached through Upload ok or (Fetch ok and Equal)
		var verified []Site // where, in v, the verification outcome is consumed
		if v == f {
			verified = marks
		} else {
			for _, r := range v.Returns() {
				if e := v.errResultExpr(r.X.(*ast.ReturnStmt)); e != nil && v.mayBeNilError(e) {
					verified = append(verified, r)
				}
			}
			if len(verified) == 0 {
				c.Unk(inst, v.Name+" has no successful return")
				bad = true
			}
		}
		what := "an issuer can be recorded as present"
		if v != f {
			what = v.Name + " can report success"
		}
		if pt, _ := vg.ReachableFromEntry(Cut{Edges: unionEdges(upOK, eqOK)}, atAnySite(verified)); pt != nil {
			c.Bad(inst, verified[0].Pos(), what+" without a successful upload or a byte-equal existing object")
			bad = true
		}
		if pt, _ := vg.ReachableFromEntry(Cut{Edges: unionEdges(upOK, feOK)}, atAnySite(verified)); pt != nil {
			c.Bad(inst, verified[0].Pos(), what+" although neither the upload nor the fetch succeeded")
			bad = true
		}
		wit := append(v.WitEdges(upOK), v.WitEdges(eqOK)...)
		if v != f {
			// the record is made only after the helper reported success
			vOK, untested := gateEdges(vcalls, OutNil)
			if len(untested) > 0 || len(vOK) == 0 {
				c.Bad(inst, vcalls[0].Pos(), "the result of "+v.Name+" is not tested")
				bad = true
			} else if pt, _ := g.ReachableFromEntry(Cut{Edges: vOK}, atAnySite(marks)); pt != nil {
				c.Bad(inst, marks[0].Pos(), "the issuer is recorded as present (and later submissions skip the upload) before "+v.Name+" has verified or uploaded it: a concurrent submission of another certificate with the same issuer enters the pool while the issuer is not in storage")
				bad = true
			}
			wit = append(wit, f.WitEdges(vOK)...)
		}
		if !bad {
			c.add(Result{Instance: inst, Verdict: Discharged, Evals: 2, Sites: sitePositions(marks), Detail: "issuers[fp] = true only via Upload ok or (Fetch ok and bytes.Equal)", Witnesses: wit})
		}
	}
	// nil returns: cache hit or after the mark
	isCached := func(e ast.Expr) bool {
		v := f.ResolveDeep(e)
		ix, ok := ast.Unparen(v.E).(*ast.IndexExpr)
		if !ok {
			return false
		}
		_, ok = fieldSel(info, ix.X, pkgCtlog, "Log", "issuers")
		return ok
	}
	hit := g.EdgesImplying(func(a Atom) bool { return a.Val && isCached(a.E) })
	stop := func(p Point, _ ast.Node) bool {
		for _, m := range marks {
			if m.P == p {
				return true
			}
		}
		return false
	}
	if pt, _ := g.ReachableFromEntry(Cut{Edges: hit, Stop: stop}, atAnySite(successReturns(f))); pt != nil {
		c.Bad(f.Name+" success", successReturns(f)[0].Pos(), "uploadIssuer can return success without the issuer being cached as verified or verified now")
	} else {
		c.OK(f.Name+" success", "nil only on a cache hit or after recording the verified issuer", sitePositions(successReturns(f)))
	}
	// operands (through the delegation, if any: a parameter of the helper stands for the
	// argument uploadIssuer passes for it)
	issuerP := f.paramObj("issuer")
	isIssuer := func(e ast.Expr) bool { return objOf(vinfo, e) == issuerP && issuerP != nil }
	isFingerprint := func(fn *Func, e ast.Expr, isIss func(ast.Expr) bool) bool {
		h, ok := fn.IsCallResult(e, -1, Callee{"crypto/sha256", "", "Sum256"})
		return ok && len(h.Args) == 1 && isIss(h.Args[0])
	}
	isFp := func(e ast.Expr) bool { return isFingerprint(v, e, isIssuer) }
	if v != f {
		argOf := func(e ast.Expr) ast.Expr { // the caller's expression for a parameter of v
			o := objOf(vinfo, e)
			if o == nil || len(vcalls) != 1 {
				return nil
			}
			return argForParam(v, vcalls[0].Call, o)
		}
		isIssuer = func(e ast.Expr) bool {
			a := argOf(e)
			return a != nil && objOf(info, a) == issuerP && issuerP != nil
		}
		isFp = func(e ast.Expr) bool {
			if isFingerprint(v, e, isIssuer) {
				return true
			}
			a := argOf(e)
			return a != nil && isFingerprint(f, a, func(x ast.Expr) bool { return objOf(info, x) == issuerP && issuerP != nil })
		}
	}
	var p []string
	pathOK := func(e ast.Expr) bool {
		call, ok := v.IsCallResult(e, -1, Callee{"fmt", "", "Sprintf"})
		if !ok || len(call.Args) != 2 {
			return false
		}
		if s, _ := constString(vinfo, call.Args[0]); s != "issuer/%x" {
			return false
		}
		return isFp(call.Args[1])
	}
	if !pathOK(argByName(vinfo, fetch[0].Call, "key")) || !pathOK(argByName(vinfo, up[0].Call, "key")) {
		p = append(p, "fetch/upload key is not issuer/<sha256(issuer)>")
	}
	if !isIssuer(argByName(vinfo, up[0].Call, "data")) {
		p = append(p, "the uploaded bytes are not the issuer")
	}
	a0, a1 := eqs[0].Call.Args[0], eqs[0].Call.Args[1]
	_, fetched := v.IsCallResult(a0, 0, specFetch)
	if !(fetched && isIssuer(a1)) {
		if _, f2 := v.IsCallResult(a1, 0, specFetch); !(f2 && isIssuer(a0)) {
			p = append(p, "bytes.Equal does not compare the fetched object with the issuer")
		}
	}
	if len(p) > 0 {
		c.Bad(f.Name+" operands", v.Pos(v.Decl), strings.Join(p, "; "))
	} else {
		c.add(Result{Instance: f.Name + " operands", Verdict: Discharged, Evals: 3, Detail: "key issuer/%x of sha256(issuer) for fetch and upload; Equal(fetched, issuer)"})
	}
	// other writers of Log.issuers
	for _, st := range c.P.AllStoresTo(im) {
		if st.F != f {
			c.Bad("Log.issuers store in "+st.F.Name, st.Pos(), "the verified-issuer cache is written outside uploadIssuer")
		}
	}
}

// optsVarOf returns the name of the package-level option variable e denotes.
func optsVarOf(f *Func, e ast.Expr) string {
	info := f.Info()
	id := identOf(e)
	if id == nil {
		if se, ok := ast.Unparen(e).(*ast.SelectorExpr); ok {
			id = se.Sel
		}
	}
	if id == nil {
		return ""
	}
	v, ok := info.Uses[id].(*types.Var)
	if !ok || v.Pkg() == nil || v.Parent() != v.Pkg().Scope() {
		return ""
	}
	return v.Name()
}

// tileLevelAt determines the constant level of tile object t at site s by
// reaching definitions of t.L ("hash" when t comes from tlog.NewTiles, "?" if
// unknown).
func tileLevelAt(f *Func, tile types.Object, s Site) string {
	info := f.Info()
	g := f.Graph()
	type lst struct {
		site Site
		val  string
	}
	var stores []lst
	for _, a := range f.Find(func(n ast.Node) bool { _, ok := n.(*ast.AssignStmt); return ok }) {
		as := a.X.(*ast.AssignStmt)
		for i, l := range as.Lhs {
			r, p, ok := fieldPath(info, l)
			if ok && r == tile && len(p) == 1 && p[0] == "L" && i < len(as.Rhs) {
				v := "?"
				if c, ok := constInt(info, as.Rhs[i]); ok {
					v = fmt.Sprint(c)
				}
				stores = append(stores, lst{a, v})
			}
			if objOf(info, l) == tile {
				stores = append(stores, lst{a, "def"})
			}
		}
	}
	isStore := func(p Point, _ ast.Node) bool {
		for _, st := range stores {
			if st.site.P == p {
				return true
			}
		}
		return false
	}
	vals := map[string]bool{}
	for _, st := range stores {
		if pt, _ := g.Reach(st.site.After(), Cut{Stop: isStore}, atSite(s)); pt != nil {
			vals[st.val] = true
		}
	}
	// definitions through range
	for _, d := range f.Defs(tile) {
		if d.Kind == DefRange {
			if _, ok := f.IsCallResult(d.Rhs, -1, Callee{pkgTlog, "", "NewTiles"}); ok {
				// reaches s without an intervening .L store?
				if rs, ok := d.Node.(*ast.RangeStmt); ok {
					if head := rangeHead(g, rs); head != nil {
						if pt, _ := g.Reach(Point{head.Succs[0], 0}, Cut{Stop: isStore}, atSite(s)); pt != nil {
							vals["hash"] = true
						}
					}
				}
			}
		}
	}
	delete(vals, "def")
	if len(vals) == 1 {
		for v := range vals {
			return v
		}
	}
	if len(vals) == 0 {
		return "?"
	}
	var ks []string
	for v := range vals {
		ks = append(ks, v)
	}
	return "ambiguous:" + strings.Join(ks, "|")
}

func c04d(c *Ctx) {
	// 1. the option variables
	want := map[string]struct {
		ct         string
		comp, immu bool
	}{
		"optsHashTile":   {"", false, true},
		"optsDataTile":   {"", true, true},
		"optsNamesTile":  {"application/jsonl; charset=utf-8", true, true},
		"optsStaging":    {"", true, true},
		"optsIssuer":     {"application/pkix-cert", false, true},
		"optsCheckpoint": {"text/plain; charset=utf-8", false, false},
		"optsRoots":      {"application/x-pem-file", false, false},
	}
	pk := c.P.Pkgs[pkgCtlog]
	found := map[string]bool{}
	for _, file := range pk.Syntax {
		for _, d := range file.Decls {
			gd, ok := d.(*ast.GenDecl)
			if !ok || gd.Tok != token.VAR {
				continue
			}
			for _, sp := range gd.Specs {
				vs := sp.(*ast.ValueSpec)
				for i, nm := range vs.Names {
					w, ok := want[nm.Name]
					if !ok || i >= len(vs.Values) {
						continue
					}
					found[nm.Name] = true
					inst := "var " + nm.Name
					e := vs.Values[i]
					if u, ok := ast.Unparen(e).(*ast.UnaryExpr); ok {
						e = u.X
					}
					cl, ok := ast.Unparen(e).(*ast.CompositeLit)
					if !ok {
						c.Bad(inst, c.P.Pos(nm.Pos()), "option variable is not a literal")
						continue
					}
					ct, _ := constString(pk.TypesInfo, orEmpty(compositeField(pk.TypesInfo, cl, "ContentType", -1)))
					comp, _ := constBool(pk.TypesInfo, orEmpty(compositeField(pk.TypesInfo, cl, "Compressed", -1)))
					immu, _ := constBool(pk.TypesInfo, orEmpty(compositeField(pk.TypesInfo, cl, "Immutable", -1)))
					if ct == w.ct && comp == w.comp && immu == w.immu {
						c.OK(inst, fmt.Sprintf("ContentType=%q Compressed=%v Immutable=%v", ct, comp, immu), []string{c.P.Pos(nm.Pos())})
					} else {
						c.Bad(inst, c.P.Pos(nm.Pos()), fmt.Sprintf("%s is {ContentType=%q Compressed=%v Immutable=%v}, the layout prescribes {%q %v %v}", nm.Name, ct, comp, immu, w.ct, w.comp, w.immu))
					}
				}
			}
		}
	}
	for n := range want {
		if !found[n] {
			c.Unk("var "+n, "option variable not found")
		}
	}
	// never reassigned / mutated
	for _, f := range c.P.Funcs(pkgCtlog) {
		if f.Body == nil {
			continue
		}
		ast.Inspect(f.Body, func(n ast.Node) bool {
			as, ok := n.(*ast.AssignStmt)
			if !ok {
				return true
			}
			for _, l := range as.Lhs {
				if r := rootObj(f.Info(), l); r != nil {
					if _, isOpt := want[r.Name()]; isOpt && !isLocal(r) && r.Pkg() != nil && r.Pkg().Path() == pkgCtlog {
						c.Bad("var "+r.Name()+" mutated", f.Pos(as), "an upload option variable is modified at run time")
					}
				}
			}
			return true
		})
	}
	// 2. direct upload sites in ctlog
	expectFor := func(shape string) string {
		switch {
		case shape == "const:checkpoint":
			return "optsCheckpoint"
		case shape == "const:_roots.pem":
			return "optsRoots"
		case shape == "sprintf:issuer/%x":
			return "optsIssuer"
		case shape == "staging":
			return "optsStaging"
		}
		return ""
	}
	for _, f := range c.P.Funcs(pkgCtlog) {
		if f.Body == nil {
			continue
		}
		if c.P.isWrapperOf(f, specUpload) {
			continue // classified at its call sites
		}
		for _, s := range f.CallsW(specUpload) {
			c.touch(f)
			shape := keyShape(f, argByName(f.Info(), s.Call, "key"))
			inst := fmt.Sprintf("%s upload %s", f.Name, shape)
			got := optsVarOf(f, argByName(f.Info(), s.Call, "opts"))
			if shape == "tar-header-name" {
				c.OK(inst, "options decoded from the bundle (written from the uploadAction literals below)", []string{s.Pos()})
				continue
			}
			exp := expectFor(shape)
			if exp == "" {
				c.Unk(inst, "no option class known for this key at "+s.Pos())
				continue
			}
			if got == exp {
				c.OK(inst, "passes "+exp, []string{s.Pos()})
			} else {
				c.Bad(inst, s.Pos(), fmt.Sprintf("object class %s is uploaded with %s instead of %s", shape, orStr(got, exprString(argByName(f.Info(), s.Call, "opts"))), exp))
			}
		}
		// 3. uploadAction literals
		for _, s := range f.Find(func(n ast.Node) bool {
			cl, ok := n.(*ast.CompositeLit)
			if !ok {
				return false
			}
			tv, ok := f.Info().Types[cl]
			return ok && namedIs(tv.Type, pkgCtlog, "uploadAction")
		}) {
			cl := s.X.(*ast.CompositeLit)
			info := f.Info()
			key := compositeField(info, cl, "key", 0)
			opts := compositeField(info, cl, "opts", 2)
			inst := f.Name + " staged upload at " + s.Pos()
			call, ok := f.IsCallResult(key, -1, Callee{pkgRoot, "", "TilePath"})
			if !ok || len(call.Args) != 1 {
				c.Bad(inst, s.Pos(), "staged upload key is not a TilePath")
				continue
			}
			tile := objOf(info, call.Args[0])
			level := "?"
			if tile != nil {
				level = tileLevelAt(f, tile, s)
			}
			exp := map[string]string{"-1": "optsDataTile", "-2": "optsNamesTile", "hash": "optsHashTile"}[level]
			got := optsVarOf(f, opts)
			switch {
			case exp == "":
				c.Unk(inst, "cannot determine the tile level (got "+level+")")
			case got == exp:
				c.add(Result{Instance: inst, Verdict: Discharged, Sites: []string{s.Pos()}, Detail: "level " + level + " tile staged with " + exp})
			default:
				c.Bad(inst, s.Pos(), fmt.Sprintf("a level %s tile is staged with %s instead of %s", level, orStr(got, "?"), exp))
			}
		}
	}
}

func orEmpty(e ast.Expr) ast.Expr {
	if e == nil {
		return &ast.BadExpr{}
	}
	return e
}

func orStr(a, b string) string {
	if a != "" {
		return a
	}
	return b
}

func c04e(c *Ctx) {
	seqSet := map[*Func]bool{}
	for _, f := range sequencers(c.P) {
		seqSet[f] = true
	}
	n := 0
	for _, f := range c.P.Funcs("") {
		if f.Body == nil {
			continue
		}
		for _, s := range f.CallsW(specDiscard) {
			n++
			c.touch(f)
			inst := "Discard in " + f.Name
			if !seqSet[f] {
				c.Bad(inst, s.Pos(), "objects are discarded outside the sequencing function")
				continue
			}
			k := argByName(f.Info(), s.Call, "key")
			if _, ok := f.IsCallResult(k, -1, specStagingPath); !ok {
				c.Bad(inst, s.Pos(), "an object other than a staging bundle is discarded: "+exprString(k))
				continue
			}
			same := false
			for _, u := range stagingUploads(f) {
				if f.SameValue(k, argByName(f.Info(), u.Call, "key")) {
					same = true
				}
			}
			if same {
				c.OK(inst, "discards this round's staging bundle", []string{s.Pos()})
			} else {
				c.Bad(inst, s.Pos(), "the staging key discarded is not the one uploaded in this round")
			}
		}
	}
	// any other implementation-level deleter reachable from Log? (LocalBackend.Discard is the sink)
	if n == 0 {
		c.OK("Discard inventory", "no Backend.Discard call in the module", nil)
	}
}

func c04g(c *Ctx) {
	get := func(pkg, name string) (int64, bool) {
		pk := c.P.Pkgs[pkg]
		var sc *types.Scope
		if pk != nil {
			sc = pk.Types.Scope()
		} else {
			for _, p := range c.P.All {
				for _, imp := range p.Types.Imports() {
					if imp.Path() == pkg {
						sc = imp.Scope()
					}
				}
			}
		}
		if sc == nil {
			return 0, false
		}
		cst, ok := sc.Lookup(name).(*types.Const)
		if !ok {
			return 0, false
		}
		return constantInt64(cst)
	}
	h, ok1 := get(pkgRoot, "TileHeight")
	w, ok2 := get(pkgRoot, "TileWidth")
	th, ok3 := get(pkgTorch, "TileHeight")
	if !ok1 || !ok2 || !ok3 {
		c.Unk("tile constants", "TileHeight/TileWidth/torchwood.TileHeight not found")
		return
	}
	if h == 8 && w == 1<<uint(h) && th == h {
		c.add(Result{Instance: "tile constants", Verdict: Discharged, Evals: 3, Detail: fmt.Sprintf("TileHeight=%d TileWidth=%d torchwood.TileHeight=%d", h, w, th)})
	} else {
		c.Bad("tile constants", "tile.go", fmt.Sprintf("TileHeight=%d TileWidth=%d torchwood.TileHeight=%d: the Static CT layout requires height 8, width 256, and agreement with the tile library", h, w, th))
	}
}

func c04h(c *Ctx) {
	for _, f := range sequencers(c.P) {
		c.touch(f)
		info := f.Info()
		g := f.Graph()
		recv := f.recvObj()
		// the running index
		var nObj types.Object
		for _, h := range f.Calls(specHashTreeHead) {
			nObj = objOf(info, argByName(info, h.Call, "n"))
		}
		ale := f.Calls(Callee{pkgCtlog, "PendingLogEntry", "asLogEntry"})
		app := f.Calls(Callee{pkgRoot, "", "AppendTileLeaf"})
		if nObj == nil || len(ale) != 1 || len(app) != 1 {
			c.Unk(f.Name+" data tile", fmt.Sprintf("anchors: index=%v asLogEntry=%d AppendTileLeaf=%d", nObj != nil, len(ale), len(app)))
			continue
		}
		var inc []Site
		for _, d := range f.Defs(nObj) {
			if x, ok := d.Node.(*ast.IncDecStmt); ok {
				inc = append(inc, f.Find(func(n ast.Node) bool { return n == ast.Node(x) })...)
			}
		}
		if len(inc) != 1 {
			c.Unk(f.Name+" data tile", "running index increment not found")
			continue
		}
		// 1. accumulate
		a := app[0]
		var accObj, entryObj types.Object
		if as, ok := a.Node.(*ast.AssignStmt); ok && len(as.Lhs) == 1 {
			accObj = objOf(info, as.Lhs[0])
		}
		if as, ok := ale[0].Node.(*ast.AssignStmt); ok && len(as.Lhs) == 1 {
			entryObj = objOf(info, as.Lhs[0])
		}
		inst := f.Name + " entries accumulated"
		switch {
		case accObj == nil || objOf(info, a.Call.Args[0]) != accObj:
			c.Bad(inst, a.Pos(), "the data tile is not extended in place (dataTile = AppendTileLeaf(dataTile, entry))")
		case entryObj == nil || objOf(info, a.Call.Args[1]) != entryObj:
			c.Bad(inst, a.Pos(), "the entry appended to the data tile is not the entry built for this leaf (the one that is hashed into the tree)")
		default:
			stopA := func(p Point, _ ast.Node) bool { return p == a.P }
			if pt, _ := g.Reach(ale[0].After(), Cut{Stop: stopA}, atSite(inc[0])); pt != nil {
				c.Bad(inst, a.Pos(), "the index can advance for a leaf that was not appended to the data tile")
			} else if pt, _ := g.Reach(a.After(), Cut{Stop: func(p Point, _ ast.Node) bool { return p == inc[0].P }}, atSite(a)); pt != nil {
				c.Bad(inst, a.Pos(), "a leaf can be appended to the data tile twice")
			} else {
				c.add(Result{Instance: inst, Verdict: Discharged, Evals: 2, Sites: []string{a.Pos()}, Detail: "dataTile = AppendTileLeaf(dataTile, entry) exactly once per leaf, before n++", Witnesses: []Witness{f.WitDelete(a.Node)}})
			}
		}
		// the names accumulator: the other []byte variable reset to nil together with the data accumulator
		isMod := func(e ast.Expr) bool {
			be, ok := ast.Unparen(e).(*ast.BinaryExpr)
			if !ok || be.Op != token.REM || objOf(info, be.X) != nObj {
				return false
			}
			v, isC := constInt(info, be.Y)
			return isC && v == 256
		}
		isZero := func(e ast.Expr) bool { v, ok := constInt(info, e); return ok && v == 0 }
		full := g.EdgesImplying(func(at Atom) bool { rel, ok := cmpRel(at, isMod, isZero); return ok && rel == relEQ })
		notFull := g.EdgesImplying(func(at Atom) bool { rel, ok := cmpRel(at, isMod, isZero); return ok && rel&relEQ == 0 })
		isTreeN := func(e ast.Expr) bool {
			return f.IsFieldPathOf(e, func(o types.Object) bool { return o == recv }, "tree", "N")
		}
		isN := func(e ast.Expr) bool { return objOf(info, e) == nObj }
		grew := g.EdgesImplying(func(at Atom) bool { rel, ok := cmpRel(at, isN, isTreeN); return ok && rel&relEQ == 0 })
		// the leaf loop
		var loop *ast.RangeStmt
		ast.Inspect(f.Body, func(n ast.Node) bool {
			if rs, ok := n.(*ast.RangeStmt); ok {
				if _, isPL := fieldSel(info, rs.X, pkgCtlog, "pool", "pendingLeaves"); isPL {
					loop = rs
				}
			}
			return true
		})
		if loop == nil {
			c.Unk(f.Name+" tile staging", "leaf loop not found")
			continue
		}
		inLoop := func(n ast.Node) bool { return loop.Body.Pos() <= n.Pos() && n.End() <= loop.Body.End() }
		// staged data / names tiles
		type staged struct {
			site  Site
			level string
			data  ast.Expr
			in    bool
		}
		var st []staged
		for _, s := range f.Find(func(n ast.Node) bool {
			cl, ok := n.(*ast.CompositeLit)
			if !ok {
				return false
			}
			tv, ok := info.Types[cl]
			return ok && namedIs(tv.Type, pkgCtlog, "uploadAction")
		}) {
			cl := s.X.(*ast.CompositeLit)
			key := compositeField(info, cl, "key", 0)
			call, ok := f.IsCallResult(key, -1, Callee{pkgRoot, "", "TilePath"})
			if !ok {
				continue
			}
			lvl := tileLevelAt(f, objOf(info, call.Args[0]), s)
			if lvl == "-1" || lvl == "-2" {
				st = append(st, staged{s, lvl, compositeField(info, cl, "data", 1), inLoop(cl)})
			}
		}
		nFull, nPart := 0, 0
		for _, x := range st {
			x := x
			name := map[string]string{"-1": "data", "-2": "names"}[x.level]
			if x.in {
				nFull++
				inst := fmt.Sprintf("%s full %s tile", f.Name, name)
				bad := false
				if len(full) == 0 {
					c.Bad(inst, x.site.Pos(), "tiles are staged inside the leaf loop without testing n % TileWidth == 0")
					continue
				}
				if pt, _ := g.ReachableFromEntry(Cut{Edges: full}, atSite(x.site)); pt != nil {
					c.Bad(inst, x.site.Pos(), "a "+name+" tile can be staged as full when the tree size is not a multiple of the tile width")
					bad = true
				}
				// the test happens after the increment
				for e := range full {
					cond := Cond(e.From)
					if pt, _ := g.Reach(Point{rangeHead(g, loop).Succs[0], 0}, Cut{Stop: func(p Point, _ ast.Node) bool { return p == inc[0].P }}, func(_ Point, n ast.Node) bool { return n != nil && n == ast.Node(cond) }); pt != nil {
						c.Bad(inst, x.site.Pos(), "the full-tile test can be evaluated before the index was advanced for this leaf")
						bad = true
					}
				}
				// the bytes staged are compress(accumulator); the accumulator is reset before the next leaf
				acc := accumulatorOf(f, x.data)
				if acc == nil {
					c.Bad(inst, x.site.Pos(), "the bytes staged are not compress(<accumulated tile bytes>)")
					continue
				}
				if x.level == "-1" && acc != accObj {
					c.Bad(inst, x.site.Pos(), "the data tile staged is not the accumulator the entries were appended to")
					bad = true
				}
				var resets []Site
				for _, d := range f.Defs(acc) {
					if d.Kind == DefAssign && d.Rhs != nil && isNilIdent(info, d.Rhs) && inLoop(d.Node) {
						resets = append(resets, f.Find(func(n ast.Node) bool { return n == d.Node })...)
					}
				}
				head := rangeHead(g, loop)
				if len(resets) == 0 {
					c.Bad(inst, x.site.Pos(), "the accumulated bytes are not reset after staging a full tile: the next tile would repeat this tile's entries")
					bad = true
				} else if g.EntersBlock(x.site.After(), Cut{Stop: func(p Point, _ ast.Node) bool {
					for _, r := range resets {
						if r.P == p {
							return true
						}
					}
					return false
				}}, head) {
					c.Bad(inst, x.site.Pos(), "the next leaf can be processed without resetting the accumulated bytes of the tile just staged")
					bad = true
				}
				if !bad {
					c.add(Result{Instance: inst, Verdict: Discharged, Evals: 4, Sites: []string{x.site.Pos()}, Detail: "staged only when n % 256 == 0 (after n++), bytes = compress(accumulator), accumulator reset before the next leaf", Witnesses: f.WitEdges(necessaryEdges(g, g.Entry(), full, []Site{x.site}, Cut{}))})
				}
			} else {
				nPart++
				inst := fmt.Sprintf("%s partial %s tile", f.Name, name)
				p1, _ := g.ReachableFromEntry(Cut{Edges: notFull}, atSite(x.site))
				p2, _ := g.ReachableFromEntry(Cut{Edges: grew}, atSite(x.site))
				switch {
				case len(notFull) == 0 || p1 != nil:
					c.Bad(inst, x.site.Pos(), "a trailing partial "+name+" tile can be staged although the tree size is tile-aligned (it would duplicate or shadow the full tile)")
				case len(grew) == 0 || p2 != nil:
					c.Bad(inst, x.site.Pos(), "a trailing partial "+name+" tile can be staged in a round that added no leaf")
				case accumulatorOf(f, x.data) == nil:
					c.Bad(inst, x.site.Pos(), "the bytes staged are not compress(<accumulated tile bytes>)")
				default:
					c.add(Result{Instance: inst, Verdict: Discharged, Evals: 3, Sites: []string{x.site.Pos()}, Detail: "staged only when n != old size and n % 256 != 0, bytes = compress(accumulator)"})
				}
			}
		}
		if nFull < 2 || nPart < 2 {
			c.Unk(f.Name+" tile staging", fmt.Sprintf("expected full and partial data+names staging sites, found %d/%d", nFull, nPart))
		}
		// completeness: staging MUST happen on the full edge of every leaf, and on the trailing-partial edge
		{
			head := rangeHead(g, loop)
			live := func(es map[Edge]bool) []Edge {
				var out []Edge
				for e := range es {
					if !g.dead[e] {
						out = append(out, e)
					}
				}
				return out
			}
			for _, x := range st {
				x := x
				name := map[string]string{"-1": "data", "-2": "names"}[x.level]
				stop := func(p Point, _ ast.Node) bool { return p == x.site.P }
				if x.in {
					inst := fmt.Sprintf("%s full %s tile is always staged", f.Name, name)
					lf := live(full)
					bad := len(lf) == 0
					for _, e := range lf {
						if g.EntersBlock(EdgeStart(e), Cut{Stop: stop}, head) {
							bad = true
						}
						// ... or reach the lock commit without staging it
						if pt, _ := g.Reach(EdgeStart(e), Cut{Stop: stop}, atAnySite(f.CallsW(specLockRepl))); pt != nil {
							bad = true
						}
					}
					// every leaf evaluates the test: from the increment the next leaf is not reached around it
					both := map[Edge]bool{}
					for e := range full {
						both[Edge{e.From, 0}] = true
						both[Edge{e.From, 1}] = true
					}
					if g.EntersBlock(inc[0].After(), Cut{Edges: both}, head) {
						bad = true
					}
					if bad {
						c.Bad(inst, x.site.Pos(), "when the tree size reaches a multiple of the tile width the full "+name+" tile is not staged on every path before the next leaf is processed: the tile would be missing from storage")
					} else {
						c.add(Result{Instance: inst, Verdict: Discharged, Evals: len(lf) + 1, Sites: []string{x.site.Pos()}, Detail: "from the n % 256 == 0 edge neither the next leaf nor the lock commit is reached without staging the tile; every leaf passes the test"})
					}
				} else {
					inst := fmt.Sprintf("%s trailing partial %s tile is always staged", f.Name, name)
					// the edges on which both "grew" and "not aligned" hold
					var lf []Edge
					for e := range notFull {
						if grew[e] && !g.dead[e] {
							lf = append(lf, e)
						}
					}
					bad := len(lf) == 0
					var repl []Site
					repl = append(repl, f.CallsW(specLockRepl)...)
					for _, e := range lf {
						if pt, _ := g.Reach(EdgeStart(e), Cut{Stop: stop}, atAnySite(repl)); pt != nil {
							bad = true
						}
					}
					if len(repl) == 0 {
						bad = true
					}
					if bad {
						c.Bad(inst, x.site.Pos(), "a round that leaves the tree size unaligned can commit without staging the trailing partial "+name+" tile")
					} else {
						c.add(Result{Instance: inst, Verdict: Discharged, Evals: len(lf), Sites: []string{x.site.Pos()}, Detail: "from the (grew && n % 256 != 0) edge the lock commit is not reached without staging the tile"})
					}
				}
			}
		}
		// the tile coordinate: TileForIndex(TileHeight, StoredHashIndex(0, n-1))
		okCoord := 0
		for _, s := range f.Calls(Callee{pkgTlog, "", "TileForIndex"}) {
			if len(s.Call.Args) != 2 {
				continue
			}
			sh, ok := ast.Unparen(s.Call.Args[1]).(*ast.CallExpr)
			if !ok || !matchCallee(info, sh, Callee{pkgTlog, "", "StoredHashIndex"}) || len(sh.Args) != 2 {
				continue
			}
			lv, isC := constInt(info, sh.Args[0])
			be, isB := ast.Unparen(sh.Args[1]).(*ast.BinaryExpr)
			if isC && lv == 0 && isB && be.Op == token.SUB && objOf(info, be.X) == nObj {
				if one, isOne := constInt(info, be.Y); isOne && one == 1 {
					if h, isH := constInt(info, s.Call.Args[0]); isH && h == 8 {
						okCoord++
						continue
					}
				}
			}
			c.Bad(f.Name+" tile coordinate", s.Pos(), "a data/names tile is not addressed as the tile containing leaf n-1 (TileForIndex(TileHeight, StoredHashIndex(0, n-1)))")
		}
		if okCoord >= 2 {
			c.OK(f.Name+" tile coordinate", fmt.Sprintf("%d staging sites address the tile of leaf n-1", okCoord), nil)
		}
		// initial accumulator from the partial edge tile
		initOK := false
		for _, d := range f.Defs(accObj) {
			if d.Kind != DefAssign {
				continue
			}
			call, ok := ast.Unparen(d.Rhs).(*ast.CallExpr)
			if !ok || !matchCallee(info, call, Callee{"bytes", "", "Clone"}) {
				continue
			}
			r, p, okp := fieldPath(info, call.Args[0])
			if !okp || len(p) != 1 || p[0] != "B" {
				continue
			}
			// r := edgeTiles[-1] guarded by ok && r.W < TileWidth
			for _, rd := range f.Defs(r) {
				if ix, isIx := ast.Unparen(rd.Rhs).(*ast.IndexExpr); isIx && rd.Kind == DefAssign {
					if v, isC := constInt(info, ix.Index); isC && v == -1 {
						ds := f.Find(func(n ast.Node) bool { return n == d.Node })
						isW := func(e ast.Expr) bool {
							rr, pp, okk := fieldPath(info, e)
							return okk && rr == r && len(pp) == 1 && pp[0] == "W"
						}
						isTW := func(e ast.Expr) bool { x, isK := constInt(info, e); return isK && x == 256 }
						part := g.EdgesImplying(func(at Atom) bool { rel, okc := cmpRel(at, isW, isTW); return okc && rel == relLT })
						if len(ds) == 1 && len(part) > 0 {
							if pt, _ := g.ReachableFromEntry(Cut{Edges: part}, atSite(ds[0])); pt == nil {
								initOK = true
							}
						}
					}
				}
			}
		}
		if initOK {
			c.OK(f.Name+" accumulator start", "dataTile starts as a copy of the in-memory partial data tile (only if it is partial)", nil)
		} else {
			c.Bad(f.Name+" accumulator start", f.Pos(f.Decl), "the data-tile accumulator does not start from the current partial right-edge data tile: the staged tile would drop the entries already in it")
		}
	}
}

// accumulatorOf returns the variable x when e is compress(x)'s first result.
func accumulatorOf(f *Func, e ast.Expr) types.Object {
	if e == nil {
		return nil
	}
	call, ok := f.IsCallResult(e, 0, specCompress)
	if !ok || len(call.Args) != 1 {
		return nil
	}
	return objOf(f.Info(), call.Args[0])
}

// ---------------------------------------------------------------------------
// C04.i EDGE-TILES: the in-memory right edge tracks what is staged.

// rightmostGuard evaluates the condition guarding an edge-tile replacement
// `if old, ok := E[T.L]; COND { E[T.L] = {T, ..} }` over every ordering of
// (ok, old.N ? T.N, old.W ? T.W) and reports whether it equals the right-most
// predicate !ok || old.N < T.N || (old.N == T.N && old.W < T.W).
func rightmostGuard(f *Func, store ast.Node, tile types.Object) (ok bool, why string) {
	info := f.Info()
	var ifs *ast.IfStmt
	ast.Inspect(f.Top().Body, func(n ast.Node) bool {
		if is, isIf := n.(*ast.IfStmt); isIf && is.Body.Pos() <= store.Pos() && store.End() <= is.Body.End() {
			ifs = is // innermost wins: Inspect visits outer first
		}
		return true
	})
	if ifs == nil {
		return false, "the replacement is unconditional"
	}
	as, isAs := ifs.Init.(*ast.AssignStmt)
	if !isAs || len(as.Lhs) != 2 || len(as.Rhs) != 1 {
		return false, "the guard does not look up the current edge tile (old, ok := edge[level])"
	}
	oldObj, okObj := objOf(info, as.Lhs[0]), objOf(info, as.Lhs[1])
	if oldObj == nil || okObj == nil {
		return false, "the guard does not bind the current edge tile and its presence"
	}
	fieldOf := func(root types.Object, name string) func(ast.Expr) bool {
		return func(e ast.Expr) bool {
			r, p, okp := fieldPath(info, e)
			if !okp || r != root || len(p) == 0 || p[len(p)-1] != name {
				return false
			}
			return len(p) <= 2
		}
	}
	rels := []int{relLT, relEQ, relGT}
	for _, present := range []bool{false, true} {
		for _, rn := range rels {
			for _, rw := range rels {
				env := func(e ast.Expr) Tri {
					if objOf(info, e) == okObj {
						if present {
							return True
						}
						return False
					}
					at := Atom{E: e, Val: true}
					if set, isCmp := cmpRel(at, fieldOf(oldObj, "N"), fieldOf(tile, "N")); isCmp {
						if set&rn != 0 {
							return True
						}
						return False
					}
					if set, isCmp := cmpRel(at, fieldOf(oldObj, "W"), fieldOf(tile, "W")); isCmp {
						if set&rw != 0 {
							return True
						}
						return False
					}
					return Unknown
				}
				want := !present || rn == relLT || (rn == relEQ && rw == relLT)
				if !present {
					// with no current tile the zero value's fields are not meaningful:
					// only the outcome matters, whatever the comparisons say
				}
				got := evalCond(ifs.Cond, env)
				if (want && got != True) || (!want && got != False) {
					return false, fmt.Sprintf("with present=%v, N %s, W %s the guard is %v, the right-most rule says %v", present, relName(rn), relName(rw), triName(got), want)
				}
			}
		}
	}
	return true, ""
}

func relName(r int) string {
	return map[int]string{relLT: "older<new", relEQ: "older==new", relGT: "older>new"}[r]
}

func triName(t Tri) string {
	return map[Tri]string{True: "true", False: "false", Unknown: "undetermined"}[t]
}

// edgeStore describes an assignment E[idx] = tileWithBytes{tile, bytes}.
type edgeStore struct {
	site  Site
	index ast.Expr
	tile  types.Object
	bytes ast.Expr
}

func edgeStores(f *Func, isEdge func(ast.Expr) bool) []edgeStore {
	info := f.Info()
	var out []edgeStore
	for _, s := range f.Find(func(n ast.Node) bool { _, ok := n.(*ast.AssignStmt); return ok }) {
		as := s.X.(*ast.AssignStmt)
		if len(as.Lhs) != 1 || len(as.Rhs) != 1 {
			continue
		}
		ix, ok := ast.Unparen(as.Lhs[0]).(*ast.IndexExpr)
		if !ok || !isEdge(ix.X) {
			continue
		}
		es := edgeStore{site: s, index: ix.Index}
		if cl, isCl := ast.Unparen(as.Rhs[0]).(*ast.CompositeLit); isCl {
			if t := compositeField(info, cl, "Tile", 0); t != nil {
				es.tile = objOf(info, t)
			}
			es.bytes = compositeField(info, cl, "B", 1)
		}
		out = append(out, es)
	}
	return out
}

func c04i(c *Ctx) {
	for _, f := range sequencers(c.P) {
		c.touch(f)
		info := f.Info()
		g := f.Graph()
		// the working edge map: the value stored to l.edgeTiles
		var edge types.Object
		fv := c.P.fieldVar(pkgCtlog, "Log", "edgeTiles")
		for _, st := range f.StoresTo(fv) {
			if st.Direct && st.Rhs != nil {
				edge = objOf(info, st.Rhs)
			}
		}
		if edge == nil {
			c.Unk(f.Name+" edge map", "the value committed to the Log's edge tiles was not found")
			continue
		}
		isEdge := func(e ast.Expr) bool { return objOf(info, e) == edge }
		stores := edgeStores(f, isEdge)
		// staged tiles
		for _, s := range f.Find(func(n ast.Node) bool {
			cl, ok := n.(*ast.CompositeLit)
			if !ok {
				return false
			}
			tv, ok := info.Types[cl]
			return ok && namedIs(tv.Type, pkgCtlog, "uploadAction")
		}) {
			cl := s.X.(*ast.CompositeLit)
			key := compositeField(info, cl, "key", 0)
			call, ok := f.IsCallResult(key, -1, Callee{pkgRoot, "", "TilePath"})
			if !ok {
				continue
			}
			tile := objOf(info, call.Args[0])
			lvl := tileLevelAt(f, tile, s)
			data := compositeField(info, cl, "data", 1)
			switch lvl {
			case "-1", "-2":
				name := map[string]string{"-1": "data", "-2": "names"}[lvl]
				inst := fmt.Sprintf("%s %s tile staged in loop=%v tracked by edge", f.Name, name, insideLoop(f, cl))
				acc := accumulatorOf(f, data)
				want, _ := strconv.Atoi(lvl)
				var match []Site
				for _, es := range stores {
					if v, isC := constInt(info, es.index); isC && int(v) == want && es.tile == tile && acc != nil && es.bytes != nil && objOf(info, es.bytes) == acc {
						match = append(match, es.site)
					}
				}
				if insideLoop(f, cl) {
					// a full tile is never extended: forgetting it is as good as recording it
					for _, d := range f.Find(func(n ast.Node) bool {
						call, ok := n.(*ast.CallExpr)
						return ok && isBuiltinCall(info, call, "delete") && len(call.Args) == 2
					}) {
						if v, isC := constInt(info, d.Call.Args[1]); isC && int(v) == want && isEdge(d.Call.Args[0]) {
							match = append(match, d)
						}
					}
				}
				// level-setting stores of the tile that reach the staging site
				var from []Site
				for _, a := range f.Find(func(n ast.Node) bool { _, ok := n.(*ast.AssignStmt); return ok }) {
					as := a.X.(*ast.AssignStmt)
					for i, l := range as.Lhs {
						r, p, okp := fieldPath(info, l)
						if okp && r == tile && len(p) == 1 && p[0] == "L" && i < len(as.Rhs) {
							if v, isC := constInt(info, as.Rhs[i]); isC && int(v) == want {
								from = append(from, a)
							}
						}
					}
				}
				if len(match) == 0 {
					c.Bad(inst, s.Pos(), fmt.Sprintf("no edge[%s] = {tile, %s bytes} store (or, for a full tile, delete) accompanies this staged %s tile: the next round would extend a stale right-edge %s tile", lvl, name, name, name))
					continue
				}
				if len(from) == 0 {
					c.Unk(inst, "the level assignment of the staged tile was not found")
					continue
				}
				stop := func(p Point, _ ast.Node) bool {
					for _, m := range match {
						if m.P == p {
							return true
						}
					}
					return false
				}
				bad := false
				for _, a := range from {
					if pt, path := g.Reach(a.After(), Cut{Stop: stop}, atSite(s)); pt != nil {
						c.Bad(inst, s.Pos(), fmt.Sprintf("the %s tile can be staged without recording it as the in-memory right-edge %s tile (path %s)", name, name, g.describePath(path)))
						bad = true
						break
					}
				}
				if !bad {
					var w []Witness
					for _, m := range match {
						w = append(w, f.WitDelete(m.Node))
					}
					c.add(Result{Instance: inst, Verdict: Discharged, Evals: len(from), Sites: []string{s.Pos()}, Detail: fmt.Sprintf("every path from tile.L = %s to the staging site passes edge[%s] = {tile, accumulator}", lvl, lvl), Witnesses: w})
				}
			case "hash":
				inst := f.Name + " hash tile tracked by edge"
				var match *edgeStore
				for i, es := range stores {
					r, p, okp := fieldPath(info, es.index)
					if okp && r == tile && len(p) == 1 && p[0] == "L" && es.tile == tile && es.bytes != nil && data != nil && f.SameValue(es.bytes, data) {
						match = &stores[i]
					}
				}
				if match == nil {
					c.Bad(inst, s.Pos(), "no edge[tile.L] = {tile, data} store accompanies the staged hash tile: later rounds and proofs would read stale right-edge hashes")
					continue
				}
				if ok, why := rightmostGuard(f, match.site.Node, tile); !ok {
					c.Bad(inst, match.site.Pos(), "the right-edge hash tile is not replaced exactly when the new tile is further right: "+why)
					continue
				}
				c.add(Result{Instance: inst, Verdict: Discharged, Evals: 18, Sites: []string{match.site.Pos()}, Detail: "edge[tile.L] = {tile, data} under !ok || old.N < tile.N || (old.N == tile.N && old.W < tile.W), evaluated over all 18 orderings"})
			}
		}
		// the accumulators start from the partial edge tile of their own level
		for _, lvl := range []int{-1, -2} {
			name := map[int]string{-1: "data", -2: "names"}[lvl]
			inst := fmt.Sprintf("%s %s accumulator start", f.Name, name)
			found := false
			for _, a := range f.Find(func(n ast.Node) bool { _, ok := n.(*ast.AssignStmt); return ok }) {
				as := a.X.(*ast.AssignStmt)
				if len(as.Lhs) != 1 || len(as.Rhs) != 1 {
					continue
				}
				call, ok := ast.Unparen(as.Rhs[0]).(*ast.CallExpr)
				if !ok || !matchCallee(info, call, Callee{"bytes", "", "Clone"}) || len(call.Args) != 1 {
					continue
				}
				r, p, okp := fieldPath(info, call.Args[0])
				if !okp || len(p) != 1 || p[0] != "B" {
					continue
				}
				for _, rd := range f.Defs(r) {
					ix, isIx := ast.Unparen(rd.Rhs).(*ast.IndexExpr)
					if !isIx || !isEdge(ix.X) {
						continue
					}
					if v, isC := constInt(info, ix.Index); !isC || int(v) != lvl {
						continue
					}
					// the accumulator assigned must be the one staged at this level
					accObj := objOf(info, as.Lhs[0])
					stagedAcc := false
					for _, es := range stores {
						if v, isC := constInt(info, es.index); isC && int(v) == lvl && es.bytes != nil && objOf(info, es.bytes) == accObj {
							stagedAcc = true
						}
					}
					if !stagedAcc {
						continue
					}
					isW := func(e ast.Expr) bool {
						rr, pp, okk := fieldPath(info, e)
						return okk && rr == r && len(pp) >= 1 && pp[len(pp)-1] == "W"
					}
					isTW := func(e ast.Expr) bool { x, isK := constInt(info, e); return isK && x == 256 }
					part := g.EdgesImplying(func(at Atom) bool { rel, okc := cmpRel(at, isW, isTW); return okc && rel == relLT })
					if len(part) == 0 {
						continue
					}
					if live, _ := g.ReachableFromEntry(Cut{}, atSite(a)); live == nil {
						continue // dead code does not initialise anything
					}
					if pt, _ := g.ReachableFromEntry(Cut{Edges: part}, atSite(a)); pt == nil {
						found = true
						c.add(Result{Instance: inst, Verdict: Discharged, Evals: 1, Sites: []string{a.Pos()}, Detail: fmt.Sprintf("the %s accumulator starts as a copy of edge[%d].B, only when that tile is partial", name, lvl), Witnesses: f.WitEdges(part)})
					}
				}
			}
			if !found {
				c.Bad(inst, f.Pos(f.Decl), fmt.Sprintf("the %s-tile accumulator does not start from the partial right-edge tile of level %d (guarded by W < TileWidth): the staged tile would drop or repeat entries", name, lvl))
			}
		}
	}
	// LoadLog: the edge tiles saved while reading the right edge are the right-most ones
	if f := c.Fn("ctlog.LoadLog"); f != nil {
		info := f.Info()
		var edge types.Object
		for _, lit := range f.Find(func(n ast.Node) bool {
			cl, ok := n.(*ast.CompositeLit)
			if !ok {
				return false
			}
			tv, ok := info.Types[cl]
			return ok && namedIs(tv.Type, pkgCtlog, "Log")
		}) {
			if e := compositeField(info, lit.X.(*ast.CompositeLit), "edgeTiles", -1); e != nil {
				edge = objOf(info, e)
			}
		}
		inst := "ctlog.LoadLog saved edge tiles are right-most"
		if edge == nil {
			c.Unk(inst, "the edge map handed to the Log was not found")
			return
		}
		n := 0
		for _, lf := range f.Lits {
			for _, es := range edgeStores(lf, func(e ast.Expr) bool { return objOf(info, e) == edge }) {
				r, p, okp := fieldPath(info, es.index)
				if !okp || es.tile == nil || r != es.tile || len(p) != 1 || p[0] != "L" {
					c.Bad(inst, es.site.Pos(), "an edge tile is saved under a level other than its own")
					n++
					continue
				}
				n++
				if ok, why := rightmostGuard(lf, es.site.Node, es.tile); !ok {
					c.Bad(inst, es.site.Pos(), "the saved edge tile is not replaced exactly when the new tile is further right: "+why)
				} else {
					c.add(Result{Instance: inst, Verdict: Discharged, Evals: 18, Sites: []string{es.site.Pos()}, Detail: "edge[tile.L] = {tile, data} under the right-most guard, evaluated over all 18 orderings"})
				}
			}
		}
		if n == 0 {
			c.Unk(inst, "no edge-tile store found in LoadLog's tile reader callbacks")
		}
	}
}

func insideLoop(f *Func, n ast.Node) bool {
	in := false
	ast.Inspect(f.Body, func(x ast.Node) bool {
		switch l := x.(type) {
		case *ast.RangeStmt:
			if l.Body.Pos() <= n.Pos() && n.End() <= l.Body.End() {
				in = true
			}
		case *ast.ForStmt:
			if l.Body.Pos() <= n.Pos() && n.End() <= l.Body.End() {
				in = true
			}
		}
		return true
	})
	return in
}

// ---------------------------------------------------------------------------
// C04.j STAGED-COMPLETE: every object a round writes is in the staging bundle.

func c04j(c *Ctx) {
	for _, f := range sequencers(c.P) {
		c.touch(f)
		info := f.Info()
		var bundle types.Object
		for _, m := range f.Calls(specMarshalStaged) {
			if len(m.Call.Args) == 1 {
				bundle = objOf(info, m.Call.Args[0])
			}
		}
		if bundle == nil {
			c.Unk(f.Name+" bundle", "the slice given to marshalStagedUploads was not found")
			continue
		}
		// slices whose elements end up in the bundle: the bundle itself, and any slice spliced into one
		// of them with append(dst, src...)
		feeds := map[types.Object]bool{bundle: true}
		for changed := true; changed; {
			changed = false
			ast.Inspect(f.Body, func(n ast.Node) bool {
				as, ok := n.(*ast.AssignStmt)
				if ok && len(as.Lhs) == len(as.Rhs) {
					// a plain copy dst = src of a local slice into a feeding slice
					for i := range as.Lhs {
						if !feeds[objOf(info, as.Lhs[i])] {
							continue
						}
						if id, isId := ast.Unparen(as.Rhs[i]).(*ast.Ident); isId {
							if src := objOf(info, id); src != nil && isLocal(src) && !feeds[src] {
								feeds[src] = true
								changed = true
							}
						}
					}
				}
				if !ok || len(as.Lhs) != 1 || len(as.Rhs) != 1 || !feeds[objOf(info, as.Lhs[0])] {
					return true
				}
				call, isCall := ast.Unparen(as.Rhs[0]).(*ast.CallExpr)
				if !isCall || !isBuiltinCall(info, call, "append") || len(call.Args) != 2 || !call.Ellipsis.IsValid() || !feeds[objOf(info, call.Args[0])] {
					return true
				}
				if src := objOf(info, f.copyRoot(call.Args[1])); src != nil && isLocal(src) && !feeds[src] {
					feeds[src] = true
					changed = true
				}
				return true
			})
		}
		// every uploadAction built by the round is appended to the bundle slice
		nLit := 0
		for _, s := range f.Find(func(n ast.Node) bool {
			cl, ok := n.(*ast.CompositeLit)
			if !ok {
				return false
			}
			tv, ok := info.Types[cl]
			return ok && namedIs(tv.Type, pkgCtlog, "uploadAction")
		}) {
			nLit++
			inst := fmt.Sprintf("%s upload action #%d in the bundle", f.Name, nLit)
			okApp := false
			if as, isAs := s.Node.(*ast.AssignStmt); isAs && len(as.Lhs) == 1 && len(as.Rhs) == 1 && feeds[objOf(info, as.Lhs[0])] {
				if call, isCall := ast.Unparen(as.Rhs[0]).(*ast.CallExpr); isCall && isBuiltinCall(info, call, "append") && len(call.Args) >= 2 && objOf(info, call.Args[0]) == objOf(info, as.Lhs[0]) {
					for _, a := range call.Args[1:] {
						x := ast.Unparen(a)
						if u, isU := x.(*ast.UnaryExpr); isU && u.Op == token.AND {
							x = ast.Unparen(u.X)
						}
						if x == s.X {
							okApp = true
						}
					}
				}
			}
			if !okApp {
				// the action is first held in a variable, which is then appended to, or listed in the literal
				// of, a slice that feeds the bundle
				var holder types.Object
				if as, isAs := s.Node.(*ast.AssignStmt); isAs && len(as.Lhs) == 1 && len(as.Rhs) == 1 {
					r := ast.Unparen(as.Rhs[0])
					if u, isU := r.(*ast.UnaryExpr); isU && u.Op == token.AND {
						r = ast.Unparen(u.X)
					}
					if r == s.X {
						if o := objOf(info, as.Lhs[0]); o != nil && isLocal(o) && len(f.Defs(o)) == 1 {
							holder = o
						}
					}
				}
				if holder != nil {
					isHolder := func(e ast.Expr) bool { return objOf(info, f.copyRoot(e)) == holder }
					ast.Inspect(f.Body, func(n ast.Node) bool {
						as, ok := n.(*ast.AssignStmt)
						if !ok || len(as.Lhs) != len(as.Rhs) {
							return true
						}
						for i := range as.Lhs {
							if !feeds[objOf(info, as.Lhs[i])] {
								continue
							}
							switch r := ast.Unparen(as.Rhs[i]).(type) {
							case *ast.CallExpr:
								if isBuiltinCall(info, r, "append") && len(r.Args) >= 2 && !r.Ellipsis.IsValid() && objOf(info, r.Args[0]) == objOf(info, as.Lhs[i]) {
									for _, a := range r.Args[1:] {
										if isHolder(a) {
											okApp = true
										}
									}
								}
							case *ast.CompositeLit:
								for _, el := range r.Elts {
									if isHolder(el) {
										okApp = true
									}
								}
							}
						}
						return true
					})
				}
			}
			if okApp {
				c.OK(inst, "appended to the slice that marshalStagedUploads serialises", []string{s.Pos()})
			} else {
				c.Bad(inst, s.Pos(), "a tile built by the round is not appended to the slice serialised into the staging bundle: after a crash between the lock commit and its upload nothing can recreate it")
			}
		}
		if nLit == 0 {
			c.Unk(f.Name+" bundle", "no uploadAction literal found in the sequencer")
		}
		// the only direct uploads of the round are the staging bundle and the checkpoint
		for _, s := range f.CallsWDeep(specUpload) {
			k := argByName(s.F.Info(), s.Call, "key")
			inst := fmt.Sprintf("%s direct upload %s", f.Name, exprString(orEmpty(k)))
			if k == nil {
				c.Unk(inst, "upload key not found at "+s.Pos())
				continue
			}
			if v, isC := constString(s.F.Info(), k); isC && v == "checkpoint" {
				c.OK(inst, "the checkpoint publication", []string{s.Pos()})
				continue
			}
			if _, isSt := s.F.IsCallResult(k, -1, specStagingPath); isSt {
				c.OK(inst, "the staging bundle", []string{s.Pos()})
				continue
			}
			c.Bad(inst, s.Pos(), "the round writes an object directly instead of through the staging bundle (applyStagedUploads): a crash after the lock commit loses it, and LoadLog cannot recreate it")
		}
	}
}

// ---------------------------------------------------------------------------
// C04.l S3-PUT: the S3 backend stores the given bytes under the given key with
// the encoding the options prescribe.

func c04l(c *Ctx) {
	f := c.Fn("ctlog.(*S3Backend).Upload")
	if f == nil {
		return
	}
	c.touch(f)
	info := f.Info()
	recv := f.recvObj()
	keyP, dataP, optsP := f.paramObj("key"), f.paramObj("data"), f.paramObj("opts")
	var lits []*ast.CompositeLit
	ast.Inspect(f.Body, func(n ast.Node) bool {
		if cl, ok := n.(*ast.CompositeLit); ok {
			if tv, ok := info.Types[cl]; ok && namedIs(tv.Type, "github.com/aws/aws-sdk-go-v2/service/s3", "PutObjectInput") {
				lits = append(lits, cl)
			}
		}
		return true
	})
	if len(lits) == 0 || keyP == nil || dataP == nil || optsP == nil {
		c.Unk(f.Name, "PutObjectInput literal / parameters not found")
		return
	}
	// unwrap aws.String(x) / aws.Int64(x) / bytes.NewReader(x)
	unwrap := func(e ast.Expr) ast.Expr {
		for {
			call, ok := ast.Unparen(e).(*ast.CallExpr)
			if !ok || len(call.Args) != 1 {
				return ast.Unparen(e)
			}
			if tv, ok := info.Types[call.Fun]; ok && tv.IsType() {
				e = call.Args[0]
				continue
			}
			fn, ok := calleeObj(info, call).(*types.Func)
			if !ok || fn.Pkg() == nil {
				return ast.Unparen(e)
			}
			switch fn.Pkg().Path() + "." + fn.Name() {
			case "github.com/aws/aws-sdk-go-v2/aws.String", "github.com/aws/aws-sdk-go-v2/aws.Int64", "bytes.NewReader":
				e = call.Args[0]
			default:
				return ast.Unparen(e)
			}
		}
	}
	isRecvField := func(e ast.Expr, name string) bool {
		r, p, ok := fieldPath(info, e)
		return ok && r == recv && len(p) == 1 && p[0] == name
	}
	g := f.Graph()
	optEdge := func(field string) map[Edge]bool {
		return g.EdgesImplying(func(a Atom) bool {
			r, p, ok := fieldPath(info, a.E)
			return ok && a.Val && r == optsP && len(p) == 1 && p[0] == field
		})
	}
	for i, cl := range lits {
		inst := fmt.Sprintf("%s PutObject #%d", f.Name, i+1)
		var p []string
		if k, ok := unwrap(compositeField(info, cl, "Key", -1)).(*ast.BinaryExpr); !ok || k.Op != token.ADD || !isRecvField(k.X, "keyPrefix") || objOf(info, k.Y) != keyP {
			p = append(p, "Key is not the configured prefix followed by the key given")
		}
		if b := unwrap(compositeField(info, cl, "Body", -1)); objOf(info, b) != dataP {
			p = append(p, "Body is not the data given")
		}
		if l, ok := unwrap(compositeField(info, cl, "ContentLength", -1)).(*ast.CallExpr); !ok || !isBuiltinCall(info, l, "len") || objOf(info, l.Args[0]) != dataP {
			p = append(p, "ContentLength is not len(data)")
		}
		if !isRecvField(unwrap(compositeField(info, cl, "Bucket", -1)), "bucket") {
			p = append(p, "Bucket is not the configured bucket")
		}
		// Content-Encoding: a variable that is "gzip" exactly under opts.Compressed
		ce := objOf(info, compositeField(info, cl, "ContentEncoding", -1))
		okCE := false
		if ce != nil {
			for _, d := range f.SourceDefs(ce) {
				if d.Kind == DefZero {
					continue
				}
				if d.Kind != DefAssign || d.Rhs == nil || d.Idx >= 0 {
					okCE = false
					p = append(p, "Content-Encoding can be something other than gzip")
					continue
				}
				if s, isS := constString(info, unwrap(d.Rhs)); isS && s == "gzip" {
					site := f.Find(func(n ast.Node) bool { return n == d.Node })
					comp := optEdge("Compressed")
					if len(site) == 1 && len(liveEdges(g, comp)) > 0 {
						if pt, _ := g.ReachableFromEntry(Cut{Edges: comp}, atSite(site[0])); pt == nil {
							okCE = true
						}
					}
				} else if !isNilIdent(info, d.Rhs) {
					okCE = false
					p = append(p, "Content-Encoding can be something other than gzip")
				}
			}
		}
		if !okCE {
			p = append(p, "Content-Encoding is not gzip exactly when the options say the bytes are compressed")
		}
		if len(p) > 0 {
			c.Bad(inst, f.Pos(cl), strings.Join(p, "; "))
		} else {
			c.add(Result{Instance: inst, Verdict: Discharged, Evals: 5, Sites: []string{f.Pos(cl)}, Detail: "Bucket/Key/Body/ContentLength are the configured bucket, prefix+key, data, len(data); Content-Encoding gzip iff opts.Compressed", Witnesses: f.WitEdges(optEdge("Compressed"))})
		}
	}
}

// c04lOutcome: S3Backend.Upload reports success only when one of its PutObject
// requests did: the error that gates the nil return is defined only by the
// result of the PutObject closure, directly or received from the channel the
// hedge goroutine sends its own PutObject result on.
func c04lOutcome(c *Ctx) {
	f := c.Fn("ctlog.(*S3Backend).Upload")
	if f == nil {
		return
	}
	info := f.Info()
	inst := f.Name + " success means a PUT succeeded"
	okRets := successReturns(f)
	if len(okRets) == 0 {
		c.Unk(inst, "no successful return")
		return
	}
	// the closure that issues the request
	var put types.Object
	for _, lf := range allLits(f) {
		if len(lf.Calls(Callee{"github.com/aws/aws-sdk-go-v2/service/s3", "Client", "PutObject"})) > 0 {
			// the variable the literal is assigned to
			ast.Inspect(f.Body, func(n ast.Node) bool {
				if as, ok := n.(*ast.AssignStmt); ok && len(as.Lhs) == 1 && len(as.Rhs) == 1 && ast.Unparen(as.Rhs[0]) == ast.Expr(lf.Lit) {
					put = objOf(info, as.Lhs[0])
				}
				return true
			})
		}
	}
	if put == nil {
		c.Unk(inst, "the closure issuing PutObject was not found")
		return
	}
	isPutCall := func(e ast.Expr) bool {
		call, ok := ast.Unparen(e).(*ast.CallExpr)
		return ok && objOf(info, call.Fun) == put
	}
	// the error variable tested before the successful return
	g := f.Graph()
	var errObj types.Object
	for _, e := range g.CondEdges() {
		for _, a := range EdgeFacts(e) {
			if eq, ok := isNilCmp(info, a.E, func(x ast.Expr) bool { o := objOf(info, x); return o != nil && isErrorType(o.Type()) }); ok && eq == a.Val {
				if be, isB := ast.Unparen(a.E).(*ast.BinaryExpr); isB {
					for _, side := range []ast.Expr{be.X, be.Y} {
						if o := objOf(info, side); o != nil && isErrorType(o.Type()) {
							if pt, _ := g.ReachableFromEntry(Cut{Edges: map[Edge]bool{e: true}}, atAnySite(okRets)); pt == nil {
								errObj = o
							}
						}
					}
				}
			}
		}
	}
	if errObj == nil {
		c.Bad(inst, okRets[0].Pos(), "the successful return is not guarded by the request's error being nil")
		return
	}
	var bad []string
	n := 0
	chanOK := func(ch types.Object) bool {
		// every send on ch, anywhere in the function and its closures, sends the error of a PutObject closure call
		ok := true
		sends := 0
		for _, fx := range append([]*Func{f}, allLits(f)...) {
			ast.Inspect(fx.Body, func(x ast.Node) bool {
				if _, isLit := x.(*ast.FuncLit); isLit && x != ast.Node(fx.Lit) {
					return false
				}
				ss, isSend := x.(*ast.SendStmt)
				if !isSend || objOf(info, ss.Chan) != ch {
					return true
				}
				sends++
				vo := objOf(info, ss.Value)
				good := false
				if vo != nil {
					for _, d := range fx.Defs(vo) {
						if d.Rhs != nil && isPutCall(d.Rhs) {
							good = true
						} else {
							good = false
							break
						}
					}
				}
				if !good {
					ok = false
				}
				return true
			})
		}
		return ok && sends > 0
	}
	for _, d := range f.Defs(errObj) {
		n++
		switch {
		case d.Rhs != nil && isPutCall(d.Rhs):
		case d.Rhs != nil:
			if u, ok := ast.Unparen(d.Rhs).(*ast.UnaryExpr); ok && u.Op == token.ARROW && objOf(info, u.X) != nil && chanOK(objOf(info, u.X)) {
				continue
			}
			bad = append(bad, fmt.Sprintf("%s (%s)", exprString(d.Rhs), f.Pos(d.Node)))
		default:
			// `case err = <-ch` in a select
			if cc, ok := d.Node.(*ast.AssignStmt); ok && len(cc.Rhs) == 1 {
				if u, ok := ast.Unparen(cc.Rhs[0]).(*ast.UnaryExpr); ok && u.Op == token.ARROW && chanOK(objOf(info, u.X)) {
					continue
				}
			}
			bad = append(bad, f.Pos(d.Node))
		}
	}
	if len(bad) > 0 {
		c.Bad(inst, okRets[0].Pos(), "the error that decides the upload's outcome can be set to something other than the result of a PutObject request: "+strings.Join(bad, ", ")+" - Upload could report success although no request stored the object")
		return
	}
	c.add(Result{Instance: inst, Verdict: Discharged, Evals: n, Sites: []string{okRets[0].Pos()}, Detail: fmt.Sprintf("the %d definitions of the deciding error are PutObject results (direct or through the hedge channel)", n)})
}
