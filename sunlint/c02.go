package main

// C02 - an SCT is returned only for an entry already in the published tree.

import (
	"fmt"
	"go/ast"
	"go/token"
	"go/types"
	"sort"
	"strings"

	"golang.org/x/tools/go/cfg"
)

func init() {
	register(&Property{
		ID:    "C02",
		Title: "An SCT is returned only for an entry already in the published tree",
		Explanation: "Return-discipline, ordering, guard and value-flow obligations on the sequencing function and its deferred closure, RunSequencer's deferred closure, the wait closure built in addLeafToPool, cachePut's callers and addChainOrPreChain (go/cfg + go/types). " +
			"Decided on every path: the sequencing function can return a possibly-nil error only through the success edge of the checkpoint upload; the pool's error is stored before its done channel is closed and whenever the round's error is non-nil; pool results (first index = pre-round size, timestamp = the round's signed timestamp) are written only there; a waiter yields an entry only after done, not evicted, pool error nil, with index firstLeafIndex + its own slot; the dedup cache is written only after publication; the SCT's timestamp, index and signature all derive from the one sequenced entry, the log ID and key from the log. " +
			"NOT decided: what object storage contains at the instant of acknowledgement, ECDSA validity, survival across a real crash (follows from C01/C03 orderings plus durable backends).",
		Assumptions: []string{"Backend.Upload returning nil means the checkpoint is durably published", "closing a channel happens-before a receive that observes the close (Go memory model)"},
		Obligations: []*Obligation{
			{ID: "C02.a", Title: "ACK-AFTER-PUBLISH", Template: "T8", MinInst: 1,
				Rule: "in the sequencing function, with the success edges of Upload(\"checkpoint\") cut, every reachable return carries a certainly non-nil error",
				Run:  c02a},
			{ID: "C02.b", Title: "RESULT-BEFORE-RELEASE", Template: "T1+T4", MinInst: 4,
				Rule: "close(pool.done) occurs only in the deferred closures of the sequencing function and of RunSequencer; the store to pool.err precedes the close whenever the function's error is non-nil; the non-fatal reset of err comes after the store; pool.err has no other writer",
				Run:  c02b},
			{ID: "C02.c", Title: "RESULT-VALUES", Template: "T6+T1", MinInst: 3,
				Rule: "pool.firstLeafIndex is the receiver's tree.N read before any store to Log.tree; pool.timestamp is the round's signed timestamp; entries are built with asLogEntry(running index, that timestamp) and the index advances exactly once per pending leaf; both fields are written only by the sequencing function",
				Run:  c02c},
			{ID: "C02.d", Title: "WAITER-GUARD", Template: "T2", MinInst: 4,
				Rule: "the wait closure returns a non-nil entry only after <-pool.done, after the eviction test, with pool.err == nil, built from the submitted leaf with index firstLeafIndex + the slot the leaf was stored at",
				Run:  c02d},
			{ID: "C02.e", Title: "CACHE-AFTER-PUBLISH", Template: "T1+T4", MinInst: 2,
				Rule: "functions that INSERT into the dedup cache are called only from the sequencing function, after the success edge of Upload(\"checkpoint\")",
				Run:  c02e},
			{ID: "C02.g", Title: "LEAF-FROM-CHAIN", Template: "T7+T6", MinInst: 5,
				Rule: "the entry that is sequenced and signed is built from the validated chain: issuer key hash from chain[2] iff a precertificate signing certificate is present, TBS defanged with it, certificate/precertificate/issuers from the chain (as C09.d, C09.e)",
				Run:  func(c *Ctx) { c09d(c); c09e(c) }},
			{ID: "C02.i", Title: "UPLOAD-OUTCOME", Template: "T6", MinInst: 1,
				Rule: "(= the outcome half of C04.l) the S3 backend reports an upload as successful only when one of its PutObject requests returned a nil error: the checkpoint upload's success edge, on which the acknowledgement rests, means the object was stored",
				Run:  c04lOutcome},
			{ID: "C02.f", Title: "SCT-FROM-SEQUENCED", Template: "T2+T6", MinInst: 5,
				Rule: "in addChainOrPreChain the success return is guarded by the wait function's nil error; Timestamp, leaf-index extension and signed message derive from the one returned entry; ID is the log's ID and the key the log's key",
				Run:  c02f},
		},
	})
}

// deferredLits returns the function literals invoked by defer statements of f.
func deferredLits(f *Func) []*Func {
	var out []*Func
	for _, s := range f.Find(func(n ast.Node) bool { _, ok := n.(*ast.DeferStmt); return ok }) {
		d := s.X.(*ast.DeferStmt)
		if lit, ok := ast.Unparen(d.Call.Fun).(*ast.FuncLit); ok {
			if lf := f.Prog.FuncOfLit(lit); lf != nil {
				out = append(out, lf)
			}
		}
	}
	return out
}

func c02a(c *Ctx) {
	for _, f := range sequencers(c.P) {
		c.touch(f)
		g := f.Graph()
		pub := checkpointUploads(f)
		if len(pub) == 0 {
			c.Bad(f.Name, f.Pos(f.Body), "the sequencing function does not publish the checkpoint")
			continue
		}
		succ, _ := gateEdges(pub, OutNil)
		if len(succ) == 0 {
			c.Bad(f.Name, pub[0].Pos(), "the error of the checkpoint upload is not tested, so the round is acknowledged whether or not the checkpoint was published")
			continue
		}
		rets := g.ReturnsFrom(g.Entry(), Cut{Edges: succ})
		bad := false
		for _, r := range rets {
			e := f.errResultExpr(r)
			if e == nil || f.mayBeNilError(e) {
				c.Bad(f.Name, f.Pos(r), "a return with a possibly nil error is reachable without the checkpoint upload having succeeded: waiters would be acknowledged for an unpublished tree")
				bad = true
				break
			}
		}
		// falling off the end without return would also be a nil result
		if !bad {
			c.add(Result{Instance: f.Name, Verdict: Discharged, Sites: sitePositions(pub), Evals: len(rets),
				Detail: fmt.Sprintf("%d return(s) reachable without publish success, all certainly non-nil", len(rets)), Witnesses: f.WitEdges(succ)})
		}
	}
}

// isCloseOfField recognises close(x.<field>) for the struct field pkg.typ.field.
func isCloseOfField(info *types.Info, n ast.Node, pkg, typ, field string) bool {
	c, ok := n.(*ast.CallExpr)
	if !ok || !isBuiltinCall(info, c, "close") || len(c.Args) != 1 {
		return false
	}
	_, ok = fieldSel(info, c.Args[0], pkg, typ, field)
	return ok
}

func c02b(c *Ctx) {
	errField := c.P.fieldVar(pkgCtlog, "pool", "err")
	if errField == nil {
		c.Unk("pool.err", "field not found")
		return
	}
	// allowed closers: deferred literals of sequencers and of RunSequencer
	allowed := map[*Func]*Func{} // literal -> owner
	for _, f := range sequencers(c.P) {
		for _, l := range deferredLits(f) {
			allowed[l] = f
		}
	}
	if rs := c.P.Fn("ctlog.(*Log).RunSequencer"); rs != nil {
		for _, l := range deferredLits(rs) {
			allowed[l] = rs
		}
	}
	nClose := 0
	for _, f := range c.P.Funcs(pkgCtlog) {
		if f.Body == nil {
			continue
		}
		closes := f.Find(func(n ast.Node) bool { return isCloseOfField(f.Info(), n, pkgCtlog, "pool", "done") })
		if len(closes) == 0 {
			continue
		}
		c.touch(f)
		owner, ok := allowed[f]
		for _, cl := range closes {
			nClose++
			inst := "close(done) in " + f.Name
			if !ok {
				c.Bad(inst, cl.Pos(), "a pool's done channel is closed outside the deferred closures of the sequencing function / RunSequencer")
				continue
			}
			// the owner's error result
			errObj := owner.namedErrResult()
			if errObj == nil {
				c.Unk(inst, "owner function has no named error result")
				continue
			}
			info := f.Info()
			g := f.Graph()
			stores := f.StoresTo(errField)
			var goodStores []Store
			for _, st := range stores {
				if st.Direct && st.Rhs != nil && objOf(info, st.Rhs) == errObj {
					goodStores = append(goodStores, st)
				}
			}
			if len(goodStores) == 0 {
				c.Bad(inst, cl.Pos(), "the deferred closure closes done without storing the function's error in pool.err")
				continue
			}
			isStore := func(p Point, n ast.Node) bool {
				for _, st := range goodStores {
					if st.P == p {
						return true
					}
				}
				return false
			}
			// edges on which err is known nil are exempt
			isErr := func(e ast.Expr) bool { return objOf(info, e) == errObj }
			nilEdges := g.EdgesImplying(func(a Atom) bool {
				eq, ok := isNilCmp(info, a.E, isErr)
				return ok && eq == a.Val
			})
			// any assignment to err before the store would lose the error
			clobber := func(p Point, n ast.Node) bool {
				if isStore(p, n) {
					return false
				}
				return assignsTo(info, n, errObj)
			}
			if pt, path := g.ReachableFromEntry(Cut{Edges: nilEdges, Stop: isStore}, atSite(cl)); pt != nil {
				c.Bad(inst, cl.Pos(), "done can be closed while the function's error is possibly non-nil and pool.err has not been stored (path "+g.describePath(path)+")")
				continue
			}
			if pt, _ := g.ReachableFromEntry(Cut{Stop: isStore}, clobber); pt != nil {
				c.Bad(inst, f.Pos(pt.B.Nodes[pt.I]), "the function's error is overwritten before it is stored in pool.err")
				continue
			}
			var ws []Witness
			for _, st := range goodStores {
				ws = append(ws, f.WitDelete(st.Node))
			}
			c.add(Result{Instance: inst, Verdict: Discharged, Sites: []string{cl.Pos()}, Evals: 2,
				Detail: "pool.err = err precedes close(done) on every path where err may be non-nil; err not overwritten before the store", Witnesses: ws})
		}
	}
	if nClose < 2 {
		c.Unk("close(done) inventory", fmt.Sprintf("found %d close(pool.done) sites, expected the sequencing closure and the sequencer-stop closure", nClose))
	}
	// pool.err writers
	for _, st := range c.P.AllStoresTo(errField) {
		c.touch(st.F)
		inst := "pool.err store in " + st.F.Name
		if _, ok := allowed[st.F]; ok {
			c.OK(inst, "written by a pool-finishing deferred closure", []string{st.Pos()})
		} else {
			c.Bad(inst, st.Pos(), "pool.err is written outside the deferred closures that finish a pool")
		}
	}
}

func c02c(c *Ctx) {
	fli := c.P.fieldVar(pkgCtlog, "pool", "firstLeafIndex")
	fts := c.P.fieldVar(pkgCtlog, "pool", "timestamp")
	ftree := c.P.fieldVar(pkgCtlog, "Log", "tree")
	if fli == nil || fts == nil || ftree == nil {
		c.Unk("pool fields", "pool.firstLeafIndex / pool.timestamp / Log.tree not found")
		return
	}
	seqSet := map[*Func]bool{}
	for _, f := range sequencers(c.P) {
		seqSet[f] = true
	}
	for _, fv := range []*types.Var{fli, fts} {
		stores := c.P.AllStoresTo(fv)
		if len(stores) == 0 {
			c.Bad("pool."+fv.Name(), "internal/ctlog", "pool."+fv.Name()+" is never written")
		}
		for _, st := range stores {
			f := st.F
			c.touch(f)
			inst := fmt.Sprintf("pool.%s store in %s", fv.Name(), f.Name)
			if !seqSet[f] {
				c.Bad(inst, st.Pos(), "pool result written outside the sequencing function")
				continue
			}
			info := f.Info()
			recv := f.recvObj()
			g := f.Graph()
			if fv == fli {
				if st.Rhs == nil || !f.IsFieldPathOf(st.Rhs, func(o types.Object) bool { return o == recv }, "tree", "N") {
					c.Bad(inst, st.Pos(), "firstLeafIndex is not the receiver's tree size: "+exprStringOrNil(st.Rhs))
					continue
				}
				// evaluated before any store to l.tree: locate the evaluation site of the resolved expression
				evalNode := f.ResolveDeep(st.Rhs).E
				evalSites := f.Find(func(n ast.Node) bool { return n == evalNode })
				if len(evalSites) == 0 {
					evalSites = []Site{st.Site}
				}
				bad := false
				for _, ts := range f.StoresTo(ftree) {
					if pt, _ := g.Reach(ts.After(), Cut{}, atSite(evalSites[0])); pt != nil {
						c.Bad(inst, st.Pos(), "the tree size is read after Log.tree was advanced ("+ts.Pos()+"): waiters would get post-round indexes")
						bad = true
					}
				}
				if !bad {
					c.OK(inst, "pre-round tree size (read before any store to Log.tree)", []string{st.Pos()})
				}
			} else {
				if st.Rhs == nil || !isClockCall(info, f.ResolveDeep(st.Rhs).E) {
					c.Bad(inst, st.Pos(), "pool.timestamp is not the round's clock reading: "+exprStringOrNil(st.Rhs))
					continue
				}
				c.OK(inst, "the round's single clock reading (also the signed tree-head time, C01.c)", []string{st.Pos()})
			}
		}
	}
	// leaf coordinates
	for _, f := range sequencers(c.P) {
		info := f.Info()
		g := f.Graph()
		inst := f.Name + " leaf coordinates"
		calls := f.Calls(Callee{pkgCtlog, "PendingLogEntry", "asLogEntry"})
		if len(calls) != 1 {
			c.Unk(inst, fmt.Sprintf("expected one asLogEntry call, found %d", len(calls)))
			continue
		}
		s := calls[0]
		idx, ts := argByName(info, s.Call, "idx"), argByName(info, s.Call, "timestamp")
		var sizeObj types.Object
		for _, h := range f.Calls(specHashTreeHead) {
			sizeObj = objOf(info, argByName(info, h.Call, "n"))
		}
		if sizeObj == nil || objOf(info, idx) != sizeObj {
			c.Bad(inst, s.Pos(), "the leaf index given to asLogEntry is not the running tree size that is later hashed")
			continue
		}
		if !isClockCall(info, f.ResolveDeep(ts).E) {
			c.Bad(inst, s.Pos(), "the leaf timestamp is not the round's timestamp")
			continue
		}
		// receiver ranges over p.pendingLeaves
		okRange := false
		if sel, ok := ast.Unparen(s.Call.Fun).(*ast.SelectorExpr); ok {
			if o := objOf(info, sel.X); o != nil {
				for _, d := range f.Defs(o) {
					// `leaf := leaf.asLogEntry` shadows: walk to the range def
					_ = d
				}
			}
			// find the enclosing range statement over pool.pendingLeaves
			ast.Inspect(f.Body, func(n ast.Node) bool {
				rs, ok := n.(*ast.RangeStmt)
				if !ok {
					return true
				}
				if _, isPL := fieldSel(info, rs.X, pkgCtlog, "pool", "pendingLeaves"); isPL && rs.Body.Pos() <= s.Call.Pos() && s.Call.End() <= rs.Body.End() {
					if rs.Value != nil && objOf(info, sel.X) == objOf(info, rs.Value) {
						okRange = true
					}
				}
				return true
			})
		}
		if !okRange {
			c.Bad(inst, s.Pos(), "asLogEntry is not applied to each element of pool.pendingLeaves in order")
			continue
		}
		// exactly one increment, after the call, passed on every path back to the loop head
		var incs []Site
		for _, d := range f.Defs(sizeObj) {
			if inc, ok := d.Node.(*ast.IncDecStmt); ok && inc.Tok == token.INC {
				incs = append(incs, f.Find(func(n ast.Node) bool { return n == ast.Node(inc) })...)
			}
		}
		if len(incs) != 1 {
			c.Bad(inst, s.Pos(), fmt.Sprintf("the running index has %d increments; exactly one per leaf is required", len(incs)))
			continue
		}
		// from after the asLogEntry call, reaching the call again without passing the increment => index reused
		if pt, _ := g.Reach(s.After(), Cut{Stop: func(p Point, n ast.Node) bool { return p == incs[0].P }}, atSite(s)); pt != nil {
			c.Bad(inst, incs[0].Pos(), "a loop iteration can complete without advancing the running index")
			continue
		}
		// from after the increment, reaching the increment again without a new asLogEntry => index skipped
		if pt, _ := g.Reach(incs[0].After(), Cut{Stop: func(p Point, n ast.Node) bool { return p == s.P }}, atSite(incs[0])); pt != nil {
			c.Bad(inst, incs[0].Pos(), "the running index can advance twice for one leaf")
			continue
		}
		c.add(Result{Instance: inst, Verdict: Discharged, Sites: []string{s.Pos(), incs[0].Pos()}, Evals: 2,
			Detail: "asLogEntry(n, ts) for each pending leaf in order; n++ exactly once per leaf", Witnesses: []Witness{f.WitDelete(incs[0].Node)}})
	}
}

func exprStringOrNil(e ast.Expr) string {
	if e == nil {
		return "<none>"
	}
	return exprString(e)
}

// waitClosure finds, in addLeafToPool, the literal that receives from pool.done.
func waitClosures(p *Program) []*Func {
	var out []*Func
	for _, f := range p.Funcs(pkgCtlog) {
		if f.Lit == nil || f.Body == nil {
			continue
		}
		info := f.Info()
		if len(f.Find(func(n ast.Node) bool {
			u, ok := n.(*ast.UnaryExpr)
			if !ok || u.Op != token.ARROW {
				return false
			}
			_, isDone := fieldSel(info, u.X, pkgCtlog, "pool", "done")
			return isDone
		})) > 0 {
			out = append(out, f)
		}
	}
	return out
}

func c02d(c *Ctx) {
	ws := waitClosures(c.P)
	if len(ws) == 0 {
		c.Unk("wait closure", "no function literal of internal/ctlog receives from pool.done")
		return
	}
	for _, f := range ws {
		c.touch(f)
		info := f.Info()
		g := f.Graph()
		owner := f.Top()
		// success returns: first result not nil literal, error nil
		var succ []Site
		for _, r := range f.Returns() {
			rs := r.X.(*ast.ReturnStmt).Results
			if len(rs) == 2 && isNilIdent(info, rs[1]) && !isNilIdent(info, rs[0]) {
				succ = append(succ, r)
			}
		}
		if len(succ) == 0 {
			c.Unk(f.Name, "wait closure has no successful return")
			continue
		}
		isDoneRecv := func(_ Point, n ast.Node) bool {
			found := false
			if n == nil {
				return false
			}
			inspectNoLit(n, func(x ast.Node) bool {
				if u, ok := x.(*ast.UnaryExpr); ok && u.Op == token.ARROW {
					if _, isDone := fieldSel(info, u.X, pkgCtlog, "pool", "done"); isDone {
						found = true
					}
				}
				return true
			})
			return found
		}
		// (i) after <-done
		if pt, _ := g.ReachableFromEntry(Cut{Stop: isDoneRecv}, atAnySite(succ)); pt != nil {
			c.Bad(f.Name+" after-done", succ[0].Pos(), "an entry can be returned without waiting for the pool's done channel")
		} else {
			c.OK(f.Name+" after-done", "success only after <-pool.done", sitePositions(succ))
		}
		// (ii) pool.err == nil
		isPoolErr := func(e ast.Expr) bool { _, ok := fieldSel(info, e, pkgCtlog, "pool", "err"); return ok }
		safe := g.EdgesImplying(func(a Atom) bool {
			eq, ok := isNilCmp(info, a.E, isPoolErr)
			return ok && eq == a.Val
		})
		if len(safe) == 0 {
			c.Bad(f.Name+" err-guard", succ[0].Pos(), "the wait closure never tests pool.err")
		} else if pt, path := g.ReachableFromEntry(Cut{Edges: safe}, atAnySite(succ)); pt != nil {
			c.Bad(f.Name+" err-guard", succ[0].Pos(), "an entry can be returned although pool.err is non-nil (path "+g.describePath(path)+")")
		} else {
			c.add(Result{Instance: f.Name + " err-guard", Verdict: Discharged, Sites: sitePositions(succ), Detail: "success unreachable unless pool.err == nil", Witnesses: f.WitEdges(safe)})
		}
		// (iii) eviction test between done and success: a select with a case
		// receiving from the cancel channel (closed by the lowPriority cancel func)
		cancelObj := cancelChanObj(owner)
		evOK := false
		if cancelObj != nil {
			var doneClause *ast.CommClause
			ast.Inspect(f.Body, func(n ast.Node) bool {
				cc, ok := n.(*ast.CommClause)
				if ok && cc.Comm != nil && isDoneRecv(Point{}, cc.Comm) {
					doneClause = cc
				}
				return true
			})
			if doneClause != nil {
				selIdx, retIdx := -1, -1
				for i, st := range doneClause.Body {
					if sel, ok := st.(*ast.SelectStmt); ok && selIdx < 0 {
						for _, cl := range sel.Body.List {
							cc := cl.(*ast.CommClause)
							if cc.Comm == nil {
								continue
							}
							recvFrom := false
							ast.Inspect(cc.Comm, func(x ast.Node) bool {
								if u, ok := x.(*ast.UnaryExpr); ok && u.Op == token.ARROW && objOf(info, f.copyRoot(u.X)) == cancelObj {
									recvFrom = true
								}
								return true
							})
							// its body returns a non-nil error
							retErr := false
							for _, b := range cc.Body {
								if r, ok := b.(*ast.ReturnStmt); ok && len(r.Results) == 2 && !f.mayBeNilError(r.Results[1]) {
									retErr = true
								}
							}
							if recvFrom && retErr {
								selIdx = i
							}
						}
					}
					for _, s := range succ {
						if st.Pos() <= s.X.Pos() && s.X.End() <= st.End() && retIdx < 0 {
							retIdx = i
						}
					}
				}
				evOK = selIdx >= 0 && retIdx > selIdx
			}
		}
		if evOK {
			c.OK(f.Name+" eviction-test", "after done, the cancel channel is polled (returning an error) before the entry is built", nil)
		} else {
			c.Bad(f.Name+" eviction-test", succ[0].Pos(), "after the pool is done the waiter does not re-check that its leaf was not evicted before returning an entry")
		}
		// (iv) value: leaf.asLogEntry(firstLeafIndex + int64(slot), pool.timestamp)
		for _, s := range succ {
			inst := f.Name + " value"
			rs := s.X.(*ast.ReturnStmt).Results
			call, ok := f.IsCallResult(rs[0], -1, Callee{pkgCtlog, "PendingLogEntry", "asLogEntry"})
			if !ok {
				c.Bad(inst, s.Pos(), "the entry returned is not built with asLogEntry from the submitted leaf")
				continue
			}
			sel, _ := ast.Unparen(call.Fun).(*ast.SelectorExpr)
			if sel == nil || !owner.isOwnParam(objOf(info, f.copyRoot(sel.X)), "leaf") {
				c.Bad(inst, s.Pos(), "the entry returned is not derived from the leaf that was submitted")
				continue
			}
			idx, ts := argByName(info, call, "idx"), argByName(info, call, "timestamp")
			if _, isTs := fieldSel(info, f.ResolveDeep(ts).E, pkgCtlog, "pool", "timestamp"); !isTs {
				c.Bad(inst, s.Pos(), "the timestamp returned is not pool.timestamp")
				continue
			}
			be, isBin := ast.Unparen(f.ResolveDeep(idx).E).(*ast.BinaryExpr)
			if !isBin || be.Op != token.ADD {
				c.Bad(inst, s.Pos(), "the index returned is not firstLeafIndex + slot")
				continue
			}
			var slot ast.Expr
			if _, ok := fieldSel(info, be.X, pkgCtlog, "pool", "firstLeafIndex"); ok {
				slot = be.Y
			} else if _, ok := fieldSel(info, be.Y, pkgCtlog, "pool", "firstLeafIndex"); ok {
				slot = be.X
			}
			if slot == nil {
				c.Bad(inst, s.Pos(), "the index returned does not add pool.firstLeafIndex")
				continue
			}
			slotObj := objOf(info, f.copyRoot(stripConv(info, slot)))
			if slotObj == nil {
				c.Bad(inst, s.Pos(), "the slot added to firstLeafIndex is not a variable: "+exprString(slot))
				continue
			}
			if msg := checkSlot(owner, f, slotObj); msg != "" {
				c.Bad(inst, s.Pos(), msg)
				continue
			}
			c.add(Result{Instance: inst, Verdict: Discharged, Sites: []string{s.Pos()}, Evals: 3, Detail: "leaf.asLogEntry(pool.firstLeafIndex + slot, pool.timestamp), slot = position the leaf was stored at"})
		}
	}
}

func (f *Func) isOwnParam(o types.Object, name string) bool {
	return o != nil && f.paramObj(name) == o
}

// cancelChanObj: the local channel closed by the func stored in pool.lowPriority.
func cancelChanObj(owner *Func) types.Object {
	info := owner.Info()
	var out types.Object
	ast.Inspect(owner.Body, func(n ast.Node) bool {
		a, ok := n.(*ast.AssignStmt)
		if !ok || len(a.Lhs) != 1 || len(a.Rhs) != 1 {
			return true
		}
		ix, ok := ast.Unparen(a.Lhs[0]).(*ast.IndexExpr)
		if !ok {
			return true
		}
		if _, isLP := fieldSel(info, ix.X, pkgCtlog, "pool", "lowPriority"); !isLP {
			return true
		}
		if lit, ok := ast.Unparen(a.Rhs[0]).(*ast.FuncLit); ok {
			ast.Inspect(lit.Body, func(x ast.Node) bool {
				if c, ok := x.(*ast.CallExpr); ok && isBuiltinCall(info, c, "close") && len(c.Args) == 1 {
					out = objOf(info, c.Args[0])
				}
				return true
			})
		}
		return true
	})
	return out
}

// checkSlot verifies that slotObj is the position at which the submitted leaf
// is stored in pool.pendingLeaves on every path that reaches the creation of
// the wait closure lit.
func checkSlot(owner, lit *Func, slotObj types.Object) string {
	info := owner.Info()
	g := owner.Graph()
	pl := owner.Prog.fieldVar(pkgCtlog, "pool", "pendingLeaves")
	leaf := owner.paramObj("leaf")
	if pl == nil || leaf == nil {
		return "cannot resolve pool.pendingLeaves / the leaf parameter"
	}
	litSites := owner.Find(func(n ast.Node) bool { return n == ast.Node(lit.Lit) })
	if len(litSites) == 0 {
		return "cannot locate the creation of the wait closure"
	}
	stores := owner.StoresTo(pl)
	isAppendStore := func(st Store) bool {
		if !st.Direct || st.Rhs == nil {
			return false
		}
		c, ok := ast.Unparen(st.Rhs).(*ast.CallExpr)
		if !ok || !isBuiltinCall(info, c, "append") || len(c.Args) != 2 {
			return false
		}
		_, same := fieldSel(info, c.Args[0], pkgCtlog, "pool", "pendingLeaves")
		return same && objOf(info, c.Args[1]) == leaf
	}
	isIndexStore := func(st Store) bool {
		ix, ok := ast.Unparen(st.Lhs).(*ast.IndexExpr)
		return ok && objOf(info, ix.Index) == slotObj && st.Rhs != nil && objOf(info, st.Rhs) == leaf
	}
	for _, st := range stores {
		if ix, ok := ast.Unparen(st.Lhs).(*ast.IndexExpr); ok && !isIndexStore(st) && st.Rhs != nil && objOf(info, st.Rhs) == leaf {
			if o := objOf(info, ix.Index); o != nil && o != slotObj {
				return "the leaf is stored at pendingLeaves[" + exprString(ix.Index) + "] (" + st.Pos() + ", variable declared at " + owner.Prog.Pos(o.Pos()) + ") but the waiter reports the slot held by a different variable (declared at " + owner.Prog.Pos(slotObj.Pos()) + "): the acknowledged index is not the one the leaf is sequenced at"
			}
		}
		if !isAppendStore(st) && !isIndexStore(st) {
			return "pool.pendingLeaves is modified at " + st.Pos() + " other than by appending the leaf or replacing slot[n]"
		}
	}
	infeasible := nonEmptyRangeExits(owner, "lowPriority")
	defs := owner.Defs(slotObj)
	if len(defs) == 0 {
		return "the slot variable has no definition"
	}
	for _, d := range defs {
		defSites := owner.Find(func(n ast.Node) bool { return n == d.Node })
		if len(defSites) == 0 {
			return "cannot locate a definition of the slot variable"
		}
		ds := defSites[0]
		redefined := func(p Point, n ast.Node) bool { return p != ds.P && assignsTo(info, n, slotObj) }
		// a definition that never reaches the creation of the wait closure (the "nothing to evict"
		// result of an eviction helper is followed by the refusal) says nothing about the slot
		if pt, _ := g.Reach(ds.After(), Cut{Stop: redefined, Edges: infeasible}, atSite(litSites[0])); pt == nil {
			continue
		}
		switch {
		case d.Kind == DefAssign && d.Idx < 0 && isLenOfField(info, d.Rhs, "pendingLeaves"):
			// n := len(p.pendingLeaves): must be followed by append (or redefinition) before the closure
			stop := func(p Point, n ast.Node) bool {
				if redefined(p, n) {
					return true
				}
				for _, st := range stores {
					if st.P == p && isAppendStore(st) {
						return true
					}
				}
				return false
			}
			if pt, _ := g.Reach(ds.After(), Cut{Stop: stop, Edges: infeasible}, atSite(litSites[0])); pt != nil {
				return "the slot is len(pendingLeaves) but the leaf is not appended on every path to the wait closure"
			}
			// and no other append between def and the append (would shift the slot): appends only of this leaf => fine
		case d.Kind == DefAssign && d.Idx >= 0:
			// n, ok = p.evict(): the slot freed by the eviction helper (its body is validated by C17.b):
			// must be followed by pendingLeaves[n] = leaf on every path to the closure
			eh := findEvictHelper(owner)
			if eh == nil || d.Node != eh.Call.Node || d.Idx != eh.SlotIdx {
				return "the slot is assigned from " + exprString(d.Rhs) + ", which is not a pending low-priority slot"
			}
			if ps, _ := eh.validate(); len(ps) > 0 {
				return "the eviction helper " + eh.H.Name + " is not a single-slot eviction: " + ps[0]
			}
			stop := func(p Point, n ast.Node) bool {
				if redefined(p, n) {
					return true
				}
				for _, st := range stores {
					if st.P == p && isIndexStore(st) {
						return true
					}
				}
				return false
			}
			if pt, _ := g.Reach(ds.After(), Cut{Stop: stop}, atSite(litSites[0])); pt != nil {
				return "an evicted slot is taken but the leaf is not stored at that slot on every path to the wait closure"
			}
		case d.Kind == DefAssign && d.Idx < 0:
			// n = nn where nn ranges over pool.lowPriority keys: must be followed by pendingLeaves[n] = leaf
			src := objOf(info, d.Rhs)
			okSrc := false
			if src != nil {
				for _, sd := range owner.Defs(src) {
					if sd.Kind == DefRange && sd.Idx == 0 {
						if _, isLP := fieldSel(info, sd.Rhs, pkgCtlog, "pool", "lowPriority"); isLP {
							okSrc = true
						}
					}
				}
			}
			if !okSrc {
				return "the slot is assigned from " + exprString(d.Rhs) + ", which is not a pending low-priority slot"
			}
			stop := func(p Point, n ast.Node) bool {
				if redefined(p, n) {
					return true
				}
				for _, st := range stores {
					if st.P == p && isIndexStore(st) {
						return true
					}
				}
				return false
			}
			if pt, _ := g.Reach(ds.After(), Cut{Stop: stop}, atSite(litSites[0])); pt != nil {
				return "an evicted slot is taken but the leaf is not stored at that slot on every path to the wait closure"
			}
		default:
			return "unrecognised definition of the slot variable at " + owner.Pos(d.Node)
		}
	}
	return ""
}

func isLenOfField(info *types.Info, e ast.Expr, field string) bool {
	c, ok := ast.Unparen(e).(*ast.CallExpr)
	if !ok || !isBuiltinCall(info, c, "len") || len(c.Args) != 1 {
		return false
	}
	_, ok = fieldSel(info, c.Args[0], pkgCtlog, "pool", field)
	return ok
}

// sqlKind returns the upper-cased first keyword of a constant SQL string
// argument and whether the statement mentions table.
func sqlInfo(q string) (kind string, tokens []string) {
	q = strings.TrimSpace(q)
	cur := ""
	for _, r := range q {
		switch {
		case r == ' ' || r == '\n' || r == '\t' || r == '(' || r == ')' || r == ',' || r == ';' || r == '=':
			if cur != "" {
				tokens = append(tokens, strings.ToUpper(cur))
				cur = ""
			}
			if r == '(' || r == ')' || r == ',' || r == '=' {
				tokens = append(tokens, string(r))
			}
		default:
			cur += string(r)
		}
	}
	if cur != "" {
		tokens = append(tokens, strings.ToUpper(cur))
	}
	if len(tokens) > 0 {
		kind = tokens[0]
	}
	return
}

var specSqlExec = []Callee{{pkgSqlitex, "", "Exec"}, {pkgSqlitex, "", "ExecTransient"}, {pkgSqlitex, "", "ExecScript"}}

// sqlExecWrapper recognises a same-package helper that only forwards a statement
// to sqlitex.Exec: exactly one Exec call whose query, result callback and bound
// arguments are the helper's own parameters (the last one variadic). It returns
// the parameter positions of (query, callback, first bound argument) and the
// inner call.
func sqlExecWrapper(w *Func) (qi, fi, vi int, inner *ast.CallExpr, ok bool) {
	if w == nil || w.Decl == nil || w.Body == nil || w.Type.Params == nil {
		return
	}
	calls := w.Calls(specSqlExec...)
	if len(calls) != 1 || len(calls[0].Call.Args) != 4 || calls[0].Call.Ellipsis == 0 {
		return
	}
	for _, l := range allLits(w) {
		if len(l.Calls(specSqlExec...)) > 0 {
			return
		}
	}
	info := w.Info()
	var params []types.Object
	for _, fl := range w.Type.Params.List {
		for _, nm := range fl.Names {
			params = append(params, info.Defs[nm])
		}
	}
	idx := func(e ast.Expr) int {
		o := objOf(info, e)
		for i, p := range params {
			if p == o && o != nil && len(w.Defs(o)) == 0 {
				return i
			}
		}
		return -1
	}
	inner = calls[0].Call
	qi, fi, vi = idx(inner.Args[1]), idx(inner.Args[2]), idx(inner.Args[3])
	if qi < 0 || fi < 0 || vi != len(params)-1 {
		return 0, 0, 0, nil, false
	}
	// every possibly-nil error return is the Exec's own result
	for _, r := range w.Returns() {
		e := w.errResultExpr(r.X.(*ast.ReturnStmt))
		if e == nil {
			return 0, 0, 0, nil, false
		}
		if !w.mayBeNilError(e) {
			continue
		}
		if c, isC := ast.Unparen(w.ResolveDeep(e).E).(*ast.CallExpr); !isC || c != inner {
			return 0, 0, 0, nil, false
		}
	}
	return qi, fi, vi, inner, true
}

// sqlCalls lists sqlitex Exec sites with their constant query. A call to a
// forwarding helper (sqlExecWrapper) counts as the Exec it forwards to: the
// site's Call is a virtual sqlitex.Exec call with the caller's query, callback
// and bound arguments (Site.Real is the call in f's body).
func sqlCalls(f *Func) (sites []Site, queries []string) {
	info := f.Info()
	all := f.Calls(specSqlExec...)
	for _, s := range f.Find(func(n ast.Node) bool { _, ok := n.(*ast.CallExpr); return ok }) {
		call := s.X.(*ast.CallExpr)
		fn, ok := calleeObj(info, call).(*types.Func)
		if !ok || fn.Pkg() == nil || fn.Pkg().Path() != f.Pkg.PkgPath {
			continue
		}
		w := f.Prog.FuncOf(fn.Origin())
		if w == nil || w == f {
			continue
		}
		qi, fi, vi, inner, ok := sqlExecWrapper(w)
		if !ok || len(call.Args) <= fi || len(call.Args) <= qi || call.Ellipsis != 0 {
			continue
		}
		virt := &ast.CallExpr{Fun: inner.Fun, Lparen: call.Lparen, Rparen: call.Rparen}
		virt.Args = append(virt.Args, reroot(info, w, call, inner.Args[0]), call.Args[qi], call.Args[fi])
		if vi < len(call.Args) {
			virt.Args = append(virt.Args, call.Args[vi:]...)
		}
		ws := s
		ws.Real, ws.Call, ws.Via = call, virt, w
		all = append(all, ws)
	}
	sort.Slice(all, func(i, j int) bool { return all[i].X.Pos() < all[j].X.Pos() })
	for _, s := range all {
		if len(s.Call.Args) < 2 {
			continue
		}
		if s.Via == nil {
			// the forwarding helper's own Exec is accounted for at its call sites
			if _, _, _, _, isW := sqlExecWrapper(f); isW {
				continue
			}
		}
		q, ok := constString(f.Info(), f.ResolveDeep(s.Call.Args[1]).E)
		if !ok {
			q = "?"
		}
		sites = append(sites, s)
		queries = append(queries, q)
	}
	return
}

func hasToken(toks []string, t string) bool {
	for _, x := range toks {
		if x == t {
			return true
		}
	}
	return false
}

func c02e(c *Ctx) {
	seqSet := map[*Func]bool{}
	for _, f := range sequencers(c.P) {
		seqSet[f] = true
	}
	var writers []*Func
	for _, f := range c.P.Funcs(pkgCtlog) {
		if f.Body == nil {
			continue
		}
		sites, qs := sqlCalls(f)
		for i, q := range qs {
			kind, toks := sqlInfo(q)
			if q == "?" {
				c.Unk(f.Name+" sql", "non-constant SQL at "+sites[i].Pos())
				continue
			}
			if (kind == "INSERT" || kind == "REPLACE" || kind == "UPDATE" || kind == "DELETE") && (hasToken(toks, "CACHE256") || hasToken(toks, "CACHE")) {
				writers = append(writers, f.Top())
			}
		}
	}
	if len(writers) == 0 {
		c.Unk("cache writers", "no function writes the dedup cache")
		return
	}
	seen := map[*Func]bool{}
	for _, w := range writers {
		if seen[w] {
			continue
		}
		seen[w] = true
		c.touch(w)
		if w.Obj == nil {
			c.Unk(w.Name, "cache writer is not a declared function")
			continue
		}
		// all callers in the module
		nCall := 0
		for _, f := range c.P.Funcs("") {
			if f.Body == nil {
				continue
			}
			sites := f.Find(func(n ast.Node) bool {
				call, ok := n.(*ast.CallExpr)
				if !ok {
					return false
				}
				fn, ok := calleeObj(f.Info(), call).(*types.Func)
				return ok && fn.Origin() == w.Obj
			})
			if len(sites) == 0 {
				continue
			}
			nCall += len(sites)
			inst := fmt.Sprintf("%s called from %s", w.Name, f.Name)
			if !seqSet[f] {
				c.Bad(inst, sites[0].Pos(), "the dedup cache is written from outside the sequencing function")
				continue
			}
			c.requireGate(inst, f, checkpointUploads(f), OutNil, sites, "cache write after checkpoint publication")
		}
		// also: not used as a function value
		if nCall == 0 {
			c.Unk(w.Name, "cache writer has no caller")
		}
		c.OK(w.Name+" is the cache writer", "INSERT into the dedup cache", []string{w.Pos(w.Body)})
	}
}

func c02f(c *Ctx) {
	f := c.Fn("ctlog.(*Log).addChainOrPreChain")
	if f == nil {
		return
	}
	info := f.Info()
	g := f.Graph()
	recv := f.recvObj()
	// the wait call: callee is a variable assigned from addLeafToPool result 0
	var wait []Site
	for _, s := range f.Find(func(n ast.Node) bool {
		call, ok := n.(*ast.CallExpr)
		if !ok {
			return false
		}
		_, ok = f.IsCallResult(call.Fun, 0, Callee{pkgCtlog, "Log", "addLeafToPool"})
		return ok
	}) {
		wait = append(wait, s)
	}
	if len(wait) != 1 {
		c.Unk(f.Name, fmt.Sprintf("expected one call of the wait function returned by addLeafToPool, found %d", len(wait)))
		return
	}
	var seqObj types.Object
	if a, ok := wait[0].Node.(*ast.AssignStmt); ok && len(a.Lhs) == 2 {
		seqObj = objOf(info, a.Lhs[0])
	}
	okRets := successReturns(f)
	if len(okRets) == 0 || seqObj == nil {
		c.Unk(f.Name, "no successful return / sequenced entry variable")
		return
	}
	c.requireGate(f.Name+" 200 after wait", f, wait, OutNil, okRets, "SCT response after the wait function returned no error")
	// the success return carries StatusOK
	for _, r := range okRets {
		rs := r.X.(*ast.ReturnStmt).Results
		if v, ok := constInt(info, rs[1]); !ok || v != 200 {
			c.Bad(f.Name+" status", r.Pos(), "the successful return does not use status 200")
		}
	}
	isSeqField := func(e ast.Expr, field string) bool {
		root, path, ok := fieldPath(info, f.ResolveDeep(stripConv(info, e)).E)
		return ok && root == seqObj && len(path) == 1 && path[0] == field
	}
	// response literal
	var rsp *ast.CompositeLit
	for _, s := range f.Find(func(n ast.Node) bool {
		cl, ok := n.(*ast.CompositeLit)
		if !ok {
			return false
		}
		tv, ok := info.Types[cl]
		return ok && namedIs(tv.Type, "github.com/google/certificate-transparency-go", "AddChainResponse")
	}) {
		rsp = s.X.(*ast.CompositeLit)
	}
	if rsp == nil {
		c.Unk(f.Name+" response", "no AddChainResponse literal")
		return
	}
	pos := f.Pos(rsp)
	// Timestamp
	if ts := compositeField(info, rsp, "Timestamp", -1); ts != nil && isSeqField(ts, "Timestamp") {
		c.OK(f.Name+" Timestamp", "SCT timestamp = sequenced entry's Timestamp", []string{pos})
	} else {
		c.Bad(f.Name+" Timestamp", pos, "the SCT timestamp is not the sequenced entry's timestamp: "+exprStringOrNil(ts))
	}
	// Extensions
	extOK := false
	if ex := compositeField(info, rsp, "Extensions", -1); ex != nil {
		v := f.ResolveDeep(ex)
		if call, ok := ast.Unparen(v.E).(*ast.CallExpr); ok && len(call.Args) == 1 { // base64 EncodeToString(ext)
			if m, ok := f.IsCallResult(call.Args[0], 0, Callee{pkgRoot, "", "MarshalExtensions"}); ok && len(m.Args) == 1 {
				if cl, ok := ast.Unparen(m.Args[0]).(*ast.CompositeLit); ok {
					if li := compositeField(info, cl, "LeafIndex", 0); li != nil && isSeqField(li, "LeafIndex") {
						extOK = true
					}
				}
			}
		}
	}
	if extOK {
		c.OK(f.Name+" Extensions", "leaf-index extension = sequenced entry's LeafIndex", []string{pos})
	} else {
		c.Bad(f.Name+" Extensions", pos, "the SCT extension does not encode the sequenced entry's leaf index")
	}
	// Signature
	sigOK := false
	if sg := compositeField(info, rsp, "Signature", -1); sg != nil {
		if ds, ok := f.IsCallResult(sg, 0, Callee{pkgCtlog, "", "digitallySign"}); ok && argByName(info, ds, "k") != nil && argByName(info, ds, "msg") != nil {
			keyOK := f.IsFieldPathOf(argByName(info, ds, "k"), func(o types.Object) bool { return o == recv }, "c", "Key")
			msgOK := false
			if mc, ok := ast.Unparen(f.ResolveDeep(argByName(info, ds, "msg")).E).(*ast.CallExpr); ok && matchCallee(info, mc, Callee{pkgRoot, "LogEntry", "MerkleTreeLeaf"}) {
				if sel, ok := ast.Unparen(mc.Fun).(*ast.SelectorExpr); ok && objOf(info, sel.X) == seqObj {
					msgOK = true
				}
			}
			sigOK = keyOK && msgOK
		}
	}
	if sigOK {
		c.OK(f.Name+" Signature", "digitallySign(log key, sequenced entry's MerkleTreeLeaf)", []string{pos})
	} else {
		c.Bad(f.Name+" Signature", pos, "the SCT signature is not digitallySign(l.c.Key, seq.MerkleTreeLeaf())")
	}
	// ID
	if id := compositeField(info, rsp, "ID", -1); id != nil && f.IsFieldPathOf(stripConv(info, id), func(o types.Object) bool { return o == recv }, "logID") {
		c.OK(f.Name+" ID", "SCT log ID = the log's ID", []string{pos})
	} else {
		c.Bad(f.Name+" ID", pos, "the SCT log ID is not l.logID")
	}
	_ = g
}

// nonEmptyRangeExits returns the exit edges of `for .. range pool.<field>`
// loops that cannot be taken: the loop is dominated by a guard implying
// len(pool.<field>) != 0 and its body never returns to the loop head (it ends
// in break/return), so the head's exit edge would mean "zero iterations",
// which the guard excludes.
func nonEmptyRangeExits(f *Func, field string) map[Edge]bool {
	info := f.Info()
	g := f.Graph()
	out := map[Edge]bool{}
	isLen := func(e ast.Expr) bool { return isLenOfField(info, e, field) }
	isZero := func(e ast.Expr) bool { v, ok := constInt(info, e); return ok && v == 0 }
	nonEmpty := g.EdgesImplying(func(a Atom) bool {
		rel, ok := cmpRel(a, isLen, isZero)
		return ok && rel&relEQ == 0
	})
	if len(nonEmpty) == 0 {
		return out
	}
	for _, b := range g.Blocks {
		rs, ok := b.Stmt.(*ast.RangeStmt)
		if !ok || b.Kind != cfg.KindRangeLoop || len(b.Succs) != 2 {
			continue
		}
		if _, isF := fieldSel(info, rs.X, pkgCtlog, "pool", field); !isF {
			continue
		}
		if g.EntersBlock(g.Entry(), Cut{Edges: nonEmpty}, b) {
			continue // not dominated by the non-empty guard
		}
		if g.EntersBlock(Point{b.Succs[0], 0}, Cut{}, b) {
			continue // the body can iterate again
		}
		out[Edge{b, 1}] = true
	}
	return out
}
