package main

// C17 - admission control is bounded, priority-respecting and never strands a submitter.

import (
	"fmt"
	"go/ast"
	"go/token"
	"go/types"
	"strings"
)

func init() {
	register(&Property{
		ID:    "C17",
		Title: "Admission control is bounded, priority-respecting and never strands a submitter",
		Explanation: "Finite-ordering evaluation of the admission decision, loop-shape, guard, defer-placement, return-discipline, who-may-call and status-table obligations on addLeafToPool, the sequencing function, sequence, RunSequencer, AcceptingSubmissions and addChainOrPreChain. " +
			"Decided: for every combination of (pool size vs limit, limit enabled, submission priority, pending low-priority entries) the only reachable outcome is the prescribed one (append / evict-and-replace / reject), in particular a pool at exactly the limit is full; eviction cancels, forgets and replaces exactly one entry; a stopped pool refuses before anything else; the closure that releases waiters is registered before any exit of a round and of the sequencer loop; the sequencer never returns a nil error; checkpoints are signed only on the chain RunSequencer -> rotation -> sequencing function (and CreateLog); each round is gated by the read-only switch; rate-limit and sunset outcomes map to 503 and 410; test hooks are never assigned in production code. " +
			"NOT decided: latency ('promptly'), fairness, real schedules.",
		Assumptions: []string{"deferred functions run on every exit including panics", "time.Since is monotone enough for the read-only switch (operational)"},
		Obligations: []*Obligation{
			{ID: "C17.a", Title: "ADMISSION-TABLE", Template: "T7", MinInst: 24,
				Rule: "over (n ? PoolSize) x (PoolSize > 0) x lowPriority x (len(lowPriority) == 0): full and (low or none) => reject only; full and high and some => evict-and-replace only; otherwise append only", Run: c17a},
			{ID: "C17.b", Title: "EVICT-ONE", Template: "T1", MinInst: 1,
				Rule: "the eviction loop body never returns to the loop head and on its way out calls the entry's cancel function, deletes it from the low-priority map and stores the leaf at that slot", Run: c17b},
			{ID: "C17.c", Title: "CLOSED-FIRST", Template: "T2", MinInst: 1,
				Rule: "in addLeafToPool every pool mutation is unreachable unless the current pool's error was read as nil, and without that edge the only wait functions handed out are literals that never yield an entry (no deduplicated or cached answer from a stopped log)", Run: c17c},
			{ID: "C17.d", Title: "DONE-ON-ALL-EXITS", Template: "T9", MinInst: 2,
				Rule: "in the sequencing function and in RunSequencer no return is reachable from the entry without passing the defer that closes the pool's done channel", Run: c17d},
			{ID: "C17.e", Title: "STOP-IS-ERROR", Template: "T8", MinInst: 1,
				Rule: "every return of RunSequencer carries a certainly non-nil error", Run: c17e},
			{ID: "C17.f", Title: "ROTATE-BEFORE-SEQUENCE", Template: "T1", MinInst: 1,
				Rule: "the sequencing function is called only after the current pool was replaced by a fresh one", Run: c17f},
			{ID: "C17.g", Title: "SIGN-REACH", Template: "T4", MinInst: 3,
				Rule: "signTreeHead is called only from CreateLog and the sequencing function; the sequencing function only from the rotation function; that only from RunSequencer; none is used as a function value", Run: c17g},
			{ID: "C17.h", Title: "READ-ONLY-GATE", Template: "T2", MinInst: 2,
				Rule: "each round started by RunSequencer is unreachable unless AcceptingSubmissions() returned true; AcceptingSubmissions compares the time since NotAfterLimit with ReadOnlyAfter (one week)", Run: c17h},
			{ID: "C17.i", Title: "STATUS", Template: "T5", MinInst: 2,
				Rule: "pool-full and evicted outcomes return 503, a sunset log returns 410, and nothing else does", Run: c17i},
			{ID: "C17.l", Title: "NO-RESTART", Template: "T1+T6", MinInst: 2,
				Rule: "a stopped sequencer stays stopped: no call of RunSequencer lies on a cycle of its function, and the Log it runs on is a fresh LoadLog result for every start (the start site cannot be reached again without passing the LoadLog that defines its receiver)", Run: c17l},
			{ID: "C17.j", Title: "TEST-HOOKS", Template: "T4", MinInst: 3,
				Rule: "package-level testingOnly* hooks and the clock hook are never assigned outside their declaration in non-test code", Run: c17j},
		},
	})
}

func c17a(c *Ctx) {
	f := c.Fn("ctlog.(*Log).addLeafToPool")
	if f == nil {
		return
	}
	info := f.Info()
	g := f.Graph()
	recv := f.recvObj()
	pl := c.P.fieldVar(pkgCtlog, "pool", "pendingLeaves")
	// n := len(p.pendingLeaves)
	var nObj types.Object
	var nDef Site
	for _, s := range f.Find(func(n ast.Node) bool {
		a, ok := n.(*ast.AssignStmt)
		return ok && len(a.Lhs) == 1 && len(a.Rhs) == 1 && a.Tok == token.DEFINE && isLenOfField(info, a.Rhs[0], "pendingLeaves")
	}) {
		nObj = objOf(info, s.X.(*ast.AssignStmt).Lhs[0])
		nDef = s
	}
	if nObj == nil {
		c.Unk(f.Name, "pool occupancy `n := len(pool.pendingLeaves)` not found")
		return
	}
	var appendSt, indexSt []Site
	for _, st := range f.StoresTo(pl) {
		if _, isIx := ast.Unparen(st.Lhs).(*ast.IndexExpr); isIx {
			indexSt = append(indexSt, st.Site)
		} else {
			appendSt = append(appendSt, st.Site)
		}
	}
	// reject returns: literal returning (nil, errPoolFull)
	var rejects []Site
	for _, r := range f.Returns() {
		rs := r.X.(*ast.ReturnStmt).Results
		if len(rs) < 1 {
			continue
		}
		lit, ok := ast.Unparen(f.Resolve(rs[0]).E).(*ast.FuncLit)
		if !ok {
			continue
		}
		isReject := false
		ast.Inspect(lit.Body, func(n ast.Node) bool {
			if rr, ok := n.(*ast.ReturnStmt); ok && len(rr.Results) == 2 && isPkgVar(info, rr.Results[1], pkgCtlog, "errPoolFull") {
				isReject = true
			}
			return true
		})
		if isReject {
			rejects = append(rejects, r)
		}
	}
	if len(appendSt) == 0 || len(indexSt) == 0 || len(rejects) == 0 {
		c.Unk(f.Name, fmt.Sprintf("admission outcomes not all found: append=%d replace=%d reject=%d", len(appendSt), len(indexSt), len(rejects)))
		return
	}
	isN := func(e ast.Expr) bool { return objOf(info, e) == nObj }
	isPS := func(e ast.Expr) bool {
		return f.IsFieldPathOf(e, func(o types.Object) bool { return o == recv }, "c", "PoolSize")
	}
	isZero := func(e ast.Expr) bool { v, ok := constInt(info, e); return ok && v == 0 }
	isLenLP := func(e ast.Expr) bool { return isLenOfField(info, e, "lowPriority") }
	lowP := f.paramObj("lowPriority")
	infeasible := nonEmptyRangeExits(f, "lowPriority")
	// eviction delegated to a helper (validated by C17.b): its flag is "some low-priority entry was pending"
	eh := findEvictHelper(f)
	for _, psPos := range []bool{true, false} {
		for _, nrel := range []int{relLT, relEQ, relGT} {
			for _, low := range []bool{true, false} {
				for _, lpEmpty := range []bool{true, false} {
					env := func(e ast.Expr) Tri {
						if rel, ok := cmpRel(Atom{e, true}, isPS, isZero); ok {
							holds := relGT
							if !psPos {
								holds = relEQ // PoolSize == 0 (negative sizes are treated like disabled by the same comparison)
							}
							if rel&holds != 0 {
								return True
							}
							return False
						}
						if rel, ok := cmpRel(Atom{e, true}, isN, isPS); ok {
							if rel&nrel != 0 {
								return True
							}
							return False
						}
						if rel, ok := cmpRel(Atom{e, true}, isLenLP, isZero); ok {
							holds := relGT
							if lpEmpty {
								holds = relEQ
							}
							if rel&holds != 0 {
								return True
							}
							return False
						}
						if objOf(info, e) == lowP && lowP != nil {
							if low {
								return True
							}
							return False
						}
						if eh != nil && objOf(info, e) == eh.OkObj && eh.OkObj != nil {
							if lpEmpty {
								return False
							}
							return True
						}
						return Unknown
					}
					cut := Cut{Edges: unionEdges(g.FeasibleCut(env), infeasible)}
					// the eviction loop itself: it has an element to visit exactly when one is pending
					if loop := lowPriorityLoop(f); loop != nil {
						if head := rangeHead(g, loop); head != nil && len(head.Succs) == 2 {
							if lpEmpty {
								cut.Edges[Edge{head, 0}] = true
							} else {
								cut.Edges[Edge{head, 1}] = true
							}
						}
					}
					reach := func(ss []Site) bool {
						pt, _ := g.Reach(nDef.After(), cut, atAnySite(ss))
						return pt != nil
					}
					full := psPos && nrel != relLT
					want := "append"
					if full && (low || lpEmpty) {
						want = "reject"
					} else if full {
						want = "evict"
					}
					got := []string{}
					if reach(appendSt) {
						got = append(got, "append")
					}
					if reach(indexSt) {
						got = append(got, "evict")
					}
					if reach(rejects) {
						got = append(got, "reject")
					}
					rn := map[int]string{relLT: "<", relEQ: "==", relGT: ">"}[nrel]
					inst := fmt.Sprintf("%s [PoolSize>0=%v n%sPoolSize low=%v noLowPending=%v]", f.Name, psPos, rn, low, lpEmpty)
					if len(got) == 1 && got[0] == want {
						c.add(Result{Instance: inst, Verdict: Discharged, Evals: 3, Detail: "only outcome: " + want})
					} else {
						c.Bad(inst, nDef.Pos(), fmt.Sprintf("admission outcome should be %q only, but reachable outcomes are %v", want, got))
					}
				}
			}
		}
	}
}

func c17b(c *Ctx) {
	f := c.Fn("ctlog.(*Log).addLeafToPool")
	if f == nil {
		return
	}
	info := f.Info()
	g := f.Graph()
	var loop *ast.RangeStmt
	ast.Inspect(f.Body, func(n ast.Node) bool {
		if _, isLit := n.(*ast.FuncLit); isLit {
			return false
		}
		if rs, ok := n.(*ast.RangeStmt); ok {
			if _, isLP := fieldSel(info, rs.X, pkgCtlog, "pool", "lowPriority"); isLP {
				loop = rs
			}
		}
		return true
	})
	inst := f.Name + " eviction loop"
	if loop == nil {
		if eh := findEvictHelper(f); eh != nil {
			c17bHelper(c, f, eh, inst)
			return
		}
		c.Bad(inst, f.Pos(f.Decl), "no loop over the pending low-priority entries: a high-priority submission cannot evict")
		return
	}
	head := rangeHead(g, loop)
	if head == nil {
		c.Unk(inst, "loop head not found in the CFG")
		return
	}
	if g.EntersBlock(Point{head.Succs[0], 0}, Cut{}, head) {
		c.Bad(inst, f.Pos(loop), "the eviction loop can iterate more than once: several low-priority entries would be evicted for one submission")
		return
	}
	key, val := objOf(info, loop.Key), objOf(info, loop.Value)
	leaf := f.paramObj("leaf")
	var cancel, del, store []Site
	inBody := func(n ast.Node) bool { return loop.Body.Pos() <= n.Pos() && n.End() <= loop.Body.End() }
	for _, s := range f.Find(func(n ast.Node) bool {
		call, ok := n.(*ast.CallExpr)
		return ok && inBody(call) && objOf(info, call.Fun) == val && val != nil
	}) {
		cancel = append(cancel, s)
	}
	for _, s := range f.Find(func(n ast.Node) bool {
		call, ok := n.(*ast.CallExpr)
		if !ok || !inBody(call) || !isBuiltinCall(info, call, "delete") || len(call.Args) != 2 {
			return false
		}
		_, isLP := fieldSel(info, call.Args[0], pkgCtlog, "pool", "lowPriority")
		return isLP && objOf(info, call.Args[1]) == key
	}) {
		del = append(del, s)
	}
	for _, st := range f.StoresTo(c.P.fieldVar(pkgCtlog, "pool", "pendingLeaves")) {
		ix, ok := ast.Unparen(st.Lhs).(*ast.IndexExpr)
		if !ok || !inBody(st.X) || st.Rhs == nil || objOf(info, st.Rhs) != leaf {
			continue
		}
		// index is key or a variable assigned from key in the body
		io := objOf(info, ix.Index)
		okIdx := io == key
		for _, d := range f.Defs(io) {
			if d.Kind == DefAssign && objOf(info, d.Rhs) == key && inBody(d.Node) {
				okIdx = true
			}
		}
		if okIdx {
			store = append(store, st.Site)
		}
	}
	var missing []string
	for _, step := range []struct {
		name string
		s    []Site
	}{{"cancel the evicted entry", cancel}, {"delete it from the low-priority map", del}, {"store the new leaf at its slot", store}} {
		if len(step.s) == 0 {
			missing = append(missing, step.name)
			continue
		}
		// every path from the body start out of the loop passes the step
		done := head.Succs[1]
		if g.EntersBlock(Point{head.Succs[0], 0}, Cut{Stop: func(p Point, _ ast.Node) bool { return p == step.s[0].P }}, done) {
			missing = append(missing, step.name+" (skippable)")
		}
	}
	if len(missing) > 0 {
		c.Bad(inst, f.Pos(loop), "eviction does not always: "+strings.Join(missing, "; "))
		return
	}
	c.add(Result{Instance: inst, Verdict: Discharged, Evals: 4, Sites: []string{cancel[0].Pos(), del[0].Pos(), store[0].Pos()},
		Detail: "single iteration: cancel(); delete(lowPriority, nn); pendingLeaves[nn] = leaf", Witnesses: []Witness{f.WitDelete(cancel[0].Node), f.WitDelete(del[0].Node)}})
}

func c17c(c *Ctx) {
	f := c.Fn("ctlog.(*Log).addLeafToPool")
	if f == nil {
		return
	}
	info := f.Info()
	g := f.Graph()
	// err := p.err
	var errObj types.Object
	for _, s := range f.Find(func(n ast.Node) bool {
		a, ok := n.(*ast.AssignStmt)
		if !ok || len(a.Lhs) != 1 || len(a.Rhs) != 1 {
			return false
		}
		_, ok = fieldSel(info, a.Rhs[0], pkgCtlog, "pool", "err")
		return ok
	}) {
		errObj = objOf(info, s.X.(*ast.AssignStmt).Lhs[0])
	}
	isErr := func(e ast.Expr) bool {
		if errObj != nil && objOf(info, e) == errObj {
			return true
		}
		_, ok := fieldSel(info, e, pkgCtlog, "pool", "err")
		return ok
	}
	safe := g.EdgesImplying(func(a Atom) bool { eq, ok := isNilCmp(info, a.E, isErr); return ok && eq == a.Val })
	var muts []Site
	for _, fld := range []string{"pendingLeaves", "byHash", "lowPriority"} {
		for _, st := range f.StoresTo(c.P.fieldVar(pkgCtlog, "pool", fld)) {
			muts = append(muts, st.Site)
		}
	}
	inst := f.Name + " stopped pool refuses"
	if len(safe) == 0 {
		c.Bad(inst, f.Pos(f.Decl), "the current pool's error is not checked: submissions after a sequencer stop would wait forever")
	} else if pt, _ := g.ReachableFromEntry(Cut{Edges: safe}, atAnySite(muts)); pt != nil {
		c.Bad(inst, f.Pos(pt.B.Nodes[pt.I]), "a submission can be added to a pool whose error is set (sequencer stopped)")
	} else {
		c.add(Result{Instance: inst, Verdict: Discharged, Sites: sitePositions(muts), Evals: len(muts), Detail: "all pool mutations unreachable unless pool.err == nil", Witnesses: f.WitEdges(safe)})
	}
	// after a stop every future submission fails: without the pool.err == nil edge
	// the only wait functions handed out are literals that never yield an entry
	inst = f.Name + " stopped pool yields no entry"
	if len(safe) == 0 {
		return
	}
	bad := false
	rets := g.ReturnsFrom(g.Entry(), Cut{Edges: safe})
	for _, r := range rets {
		if len(r.Results) == 0 {
			c.Bad(inst, f.Pos(r), "a wait function assigned earlier is returned without the stopped-pool check")
			bad = true
			continue
		}
		lit, ok := ast.Unparen(r.Results[0]).(*ast.FuncLit)
		if !ok {
			c.Bad(inst, f.Pos(r), "a submission to a stopped pool can be answered with a previously registered wait function (deduplication) instead of the stop error")
			bad = true
			continue
		}
		ast.Inspect(lit.Body, func(n ast.Node) bool {
			if _, isLit := n.(*ast.FuncLit); isLit {
				return false
			}
			if rr, isRet := n.(*ast.ReturnStmt); isRet && len(rr.Results) == 2 && !isNilIdent(info, rr.Results[0]) {
				c.Bad(inst, f.Pos(rr), "a submission to a stopped pool can be answered with an entry (from the deduplication cache) instead of the stop error")
				bad = true
			}
			return true
		})
	}
	if !bad {
		c.add(Result{Instance: inst, Verdict: Discharged, Evals: len(rets), Sites: []string{f.Pos(f.Decl)}, Detail: fmt.Sprintf("with the pool.err == nil edges cut, the %d reachable returns hand out literals that only return (nil, error)", len(rets)), Witnesses: f.WitEdges(safe)})
	}
}

func c17d(c *Ctx) {
	fs := sequencers(c.P)
	if rs := c.P.Fn("ctlog.(*Log).RunSequencer"); rs != nil {
		fs = append(fs, rs)
	}
	for _, f := range fs {
		c.touch(f)
		g := f.Graph()
		inst := f.Name + " closing defer first"
		var closer *Site
		for _, s := range deferSites(f) {
			s := s
			d := s.X.(*ast.DeferStmt)
			lit, ok := ast.Unparen(d.Call.Fun).(*ast.FuncLit)
			if !ok {
				continue
			}
			lf := c.P.FuncOfLit(lit)
			if len(lf.Find(func(n ast.Node) bool { return isCloseOfField(lf.Info(), n, pkgCtlog, "pool", "done") })) > 0 {
				closer = &s
			}
		}
		if closer == nil {
			c.Bad(inst, f.Pos(f.Decl), "no deferred closure closes the pool's done channel: waiters could block forever")
			continue
		}
		stop := func(p Point, _ ast.Node) bool { return p == closer.P }
		isExit := func(p Point, n ast.Node) bool {
			if n == nil {
				return true
			}
			_, ok := n.(*ast.ReturnStmt)
			return ok
		}
		if pt, _ := g.ReachableFromEntry(Cut{Stop: stop}, isExit); pt != nil {
			c.Bad(inst, closer.Pos(), "the function can exit before the defer that releases the waiters is registered")
			continue
		}
		// nothing that can block or fail precedes it except pure reads: no call before the defer may return early => covered by the reachability above
		c.add(Result{Instance: inst, Verdict: Discharged, Sites: []string{closer.Pos()}, Detail: "no exit reachable before the closing defer is registered", Witnesses: []Witness{f.WitDelete(closer.Node)}})
	}
}

// nonNilReturn decides that the error returned by r is certainly non-nil.
func nonNilReturn(f *Func, r *ast.ReturnStmt) (bool, string) {
	info := f.Info()
	g := f.Graph()
	e := f.errResultExpr(r)
	if e == nil {
		return false, "bare return"
	}
	if !f.mayBeNilError(e) {
		return true, "constructor / sentinel"
	}
	// ctx.Err() in the clause of `case <-ctx.Done()`
	if call, ok := ast.Unparen(e).(*ast.CallExpr); ok {
		if sel, ok := ast.Unparen(call.Fun).(*ast.SelectorExpr); ok && sel.Sel.Name == "Err" {
			ctxObj := objOf(info, sel.X)
			found := false
			ast.Inspect(f.Body, func(n ast.Node) bool {
				cc, ok := n.(*ast.CommClause)
				if !ok || cc.Comm == nil || !(cc.Pos() <= r.Pos() && r.End() <= cc.End()) {
					return true
				}
				ast.Inspect(cc.Comm, func(x ast.Node) bool {
					if u, ok := x.(*ast.UnaryExpr); ok && u.Op == token.ARROW {
						if dc, ok := ast.Unparen(u.X).(*ast.CallExpr); ok {
							if ds, ok := ast.Unparen(dc.Fun).(*ast.SelectorExpr); ok && ds.Sel.Name == "Done" && objOf(info, ds.X) == ctxObj {
								found = true
							}
						}
					}
					return true
				})
				return true
			})
			if found {
				return true, "ctx.Err() after <-ctx.Done()"
			}
		}
	}
	// variable returned inside its own != nil guard
	if o := objOf(info, e); o != nil && isLocal(o) {
		for _, d := range f.Defs(o) {
			if d.Kind != DefAssign {
				return false, "variable with unrecognised definitions"
			}
		}
		isO := func(x ast.Expr) bool { return objOf(info, x) == o }
		nonNil := g.EdgesImplying(func(a Atom) bool { eq, ok := isNilCmp(info, a.E, isO); return ok && eq != a.Val })
		rs := f.Find(func(n ast.Node) bool { return n == ast.Node(r) })
		if len(nonNil) > 0 && len(rs) == 1 {
			if pt, _ := g.ReachableFromEntry(Cut{Edges: nonNil}, atSite(rs[0])); pt == nil {
				return true, "returned inside its != nil guard"
			}
		}
	}
	return false, "possibly nil: " + exprString(e)
}

func c17e(c *Ctx) {
	f := c.Fn("ctlog.(*Log).RunSequencer")
	if f == nil {
		return
	}
	rets := f.Returns()
	if len(rets) == 0 {
		c.Unk(f.Name, "no return")
		return
	}
	bad := false
	var how []string
	for _, r := range rets {
		ok, why := nonNilReturn(f, r.X.(*ast.ReturnStmt))
		if !ok {
			c.Bad(f.Name, r.Pos(), "the sequencer can stop with a nil error ("+why+"): pending and future submissions would see no error and wait or be acknowledged wrongly")
			bad = true
		}
		how = append(how, why)
	}
	// falling off the end
	g := f.Graph()
	if pt, _ := g.ReachableFromEntry(Cut{}, func(p Point, n ast.Node) bool { return n == nil }); pt != nil {
		c.Bad(f.Name, f.Pos(f.Decl), "the sequencer can fall off the end of the function (nil error)")
		bad = true
	}
	if !bad {
		c.add(Result{Instance: f.Name, Verdict: Discharged, Evals: len(rets), Sites: sitePositions(rets), Detail: strings.Join(how, "; ")})
	}
}

// rotationFuncs: declared ctlog functions that store to Log.currentPool.
func rotationFuncs(p *Program) []*Func {
	cur := p.fieldVar(pkgCtlog, "Log", "currentPool")
	var out []*Func
	for _, f := range p.Decls(pkgCtlog) {
		if len(f.StoresTo(cur)) > 0 {
			out = append(out, f)
		}
	}
	return out
}

func callsTo(f *Func, targets map[*types.Func]bool) []Site {
	return f.Find(func(n ast.Node) bool {
		call, ok := n.(*ast.CallExpr)
		if !ok {
			return false
		}
		fn, ok := calleeObj(f.Info(), call).(*types.Func)
		return ok && targets[fn.Origin()]
	})
}

func c17f(c *Ctx) {
	seqSet := map[*types.Func]bool{}
	for _, f := range sequencers(c.P) {
		seqSet[f.Obj] = true
	}
	cur := c.P.fieldVar(pkgCtlog, "Log", "currentPool")
	rf := rotationFuncs(c.P)
	if len(rf) == 0 {
		c.Unk("rotation", "no function replaces Log.currentPool")
	}
	for _, f := range rf {
		c.touch(f)
		g := f.Graph()
		calls := callsTo(f, seqSet)
		stores := f.StoresTo(cur)
		inst := f.Name + " rotate before sequencing"
		if len(calls) == 0 {
			c.Bad(inst, f.Pos(f.Decl), "the pool is rotated without being sequenced")
			continue
		}
		stop := func(p Point, _ ast.Node) bool {
			for _, st := range stores {
				if st.P == p {
					return true
				}
			}
			return false
		}
		if pt, _ := g.ReachableFromEntry(Cut{Stop: stop}, atAnySite(calls)); pt != nil {
			c.Bad(inst, calls[0].Pos(), "sequencing can start while submissions are still being added to the same pool")
		} else {
			c.add(Result{Instance: inst, Verdict: Discharged, Sites: sitePositions(calls), Detail: "sequencing call only after currentPool = newPool()", Witnesses: []Witness{f.WitDelete(stores[0].Node)}})
		}
		// once a pool has been rotated out, nobody but the sequencing function will ever fail or close it:
		// every way out of the rotation function has to go through the sequencing call (seed C17-r1 put a
		// fatal time check between the two: the waiters of the rotated pool were stranded)
		inst2 := f.Name + " rotated pool is always handed to the sequencer"
		isCall := func(p Point, _ ast.Node) bool {
			for _, cl := range calls {
				if cl.P == p {
					return true
				}
			}
			return false
		}
		bad := ""
		for _, st := range stores {
			exits := g.ReachAll(st.After(), Cut{Stop: isCall}, func(p Point, n ast.Node) bool {
				if n == nil {
					return true // falls off the end
				}
				_, isRet := n.(*ast.ReturnStmt)
				return isRet && !isCall(p, n)
			})
			for _, e := range exits {
				if e.I < len(e.B.Nodes) {
					bad = f.Pos(e.B.Nodes[e.I])
				} else {
					bad = f.Pos(f.Body) + " (end of function)"
				}
			}
		}
		if bad != "" {
			c.Bad(inst2, bad, "the rotation function can return after taking the current pool out of service without passing it to the sequencing function: its done channel is never closed and its waiters never get an outcome")
		} else {
			c.add(Result{Instance: inst2, Verdict: Discharged, Evals: len(stores), Sites: sitePositions(calls), Detail: "no exit between currentPool = newPool() and the sequencing call"})
		}
	}
}

// funcValueUses lists references to fn that are not in call position.
func funcValueUses(p *Program, fn *types.Func) []string {
	var out []string
	for _, f := range p.Funcs("") {
		if f.Body == nil || f.Parent != nil {
			continue
		}
		info := f.Info()
		callFuns := map[*ast.Ident]bool{}
		ast.Inspect(f.Body, func(n ast.Node) bool {
			if call, ok := n.(*ast.CallExpr); ok {
				switch x := ast.Unparen(call.Fun).(type) {
				case *ast.Ident:
					callFuns[x] = true
				case *ast.SelectorExpr:
					callFuns[x.Sel] = true
				}
			}
			return true
		})
		ast.Inspect(f.Body, func(n ast.Node) bool {
			if id, ok := n.(*ast.Ident); ok && info.Uses[id] == fn && !callFuns[id] {
				out = append(out, f.Pos(id))
			}
			return true
		})
	}
	return out
}

func c17g(c *Ctx) {
	sign := c.Fn("ctlog.signTreeHead")
	if sign == nil {
		return
	}
	seqs := sequencers(c.P)
	rots := rotationFuncs(c.P)
	layer := func(name string, targets []*Func, allowed map[string]bool) {
		tset := map[*types.Func]bool{}
		for _, t := range targets {
			tset[t.Obj] = true
		}
		callers := map[string]bool{}
		for _, f := range c.P.Funcs("") {
			if f.Body == nil {
				continue
			}
			if s := callsTo(f, tset); len(s) > 0 {
				callers[f.Top().Name] = true
				c.touch(f)
				if !allowed[f.Top().Name] {
					c.Bad(name+" called from "+f.Name, s[0].Pos(), name+" is reachable from outside the sequencer chain: a checkpoint could be signed after the sequencer stopped or without the round's checks")
				}
			}
		}
		for _, t := range targets {
			if uses := funcValueUses(c.P, t.Obj); len(uses) > 0 {
				c.Bad(name+" used as a value", uses[0], name+" escapes as a function value, its callers cannot be enumerated")
			}
		}
		var cl []string
		for k := range callers {
			cl = append(cl, k)
		}
		ok := true
		for k := range callers {
			if !allowed[k] {
				ok = false
			}
		}
		if ok {
			c.OK(name+" callers", strings.Join(keysSorted(callers), ", "), nil)
		}
		_ = cl
	}
	allowSign := map[string]bool{"ctlog.CreateLog": true}
	for _, s := range seqs {
		allowSign[s.Name] = true
	}
	layer("signTreeHead", []*Func{sign}, allowSign)
	allowSeq := map[string]bool{}
	for _, r := range rots {
		allowSeq[r.Name] = true
	}
	layer("the sequencing function", seqs, allowSeq)
	layer("the rotation function", rots, map[string]bool{"ctlog.(*Log).RunSequencer": true})
}

func keysSorted(m map[string]bool) []string { return keys(m) }

func c17h(c *Ctx) {
	f := c.Fn("ctlog.(*Log).RunSequencer")
	if f == nil {
		return
	}
	info := f.Info()
	g := f.Graph()
	rset := map[*types.Func]bool{}
	for _, r := range rotationFuncs(c.P) {
		rset[r.Obj] = true
	}
	rounds := callsTo(f, rset)
	isGate := func(e ast.Expr) bool {
		call, ok := ast.Unparen(e).(*ast.CallExpr)
		return ok && matchCallee(info, call, Callee{pkgCtlog, "Log", "AcceptingSubmissions"})
	}
	safe := g.EdgesImplying(func(a Atom) bool { return isGate(a.E) && a.Val })
	inst := f.Name + " rounds gated by the read-only switch"
	switch {
	case len(rounds) == 0:
		c.Unk(inst, "no round is started by RunSequencer")
	case len(safe) == 0:
		c.Bad(inst, rounds[0].Pos(), "rounds are started without consulting AcceptingSubmissions: a log past its read-only date would keep signing checkpoints")
	default:
		if pt, _ := g.ReachableFromEntry(Cut{Edges: safe}, atAnySite(rounds)); pt != nil {
			c.Bad(inst, rounds[0].Pos(), "a round can start although AcceptingSubmissions() returned false")
		} else {
			c.add(Result{Instance: inst, Verdict: Discharged, Sites: sitePositions(rounds), Detail: "round unreachable unless AcceptingSubmissions()", Witnesses: f.WitEdges(safe)})
		}
	}
	// the gate's failing edge returns a SunsetLogError with the current tree
	as := c.Fn("ctlog.(*Log).AcceptingSubmissions")
	if as != nil {
		ai := as.Info()
		ok := false
		recv := as.recvObj()
		isSince := func(e ast.Expr) bool {
			call, isC := ast.Unparen(e).(*ast.CallExpr)
			return isC && matchCallee(ai, call, Callee{"time", "", "Since"}) && as.IsFieldPathOf(call.Args[0], func(o types.Object) bool { return o == recv }, "c", "NotAfterLimit")
		}
		isWeek := func(e ast.Expr) bool {
			id := identOf(e)
			if id == nil {
				if se, isS := ast.Unparen(e).(*ast.SelectorExpr); isS {
					id = se.Sel
				}
			}
			if id == nil {
				return false
			}
			cst, isConst := ai.Uses[id].(*types.Const)
			if !isConst || cst.Name() != "ReadOnlyAfter" {
				return false
			}
			v, okv := constantInt64(cst)
			return okv && v == int64(7*24*3600*1e9)
		}
		for _, r := range as.Returns() {
			res := r.X.(*ast.ReturnStmt).Results
			if len(res) != 1 {
				continue
			}
			if rel, isCmp := cmpRel(Atom{res[0], true}, isSince, isWeek); isCmp && rel == relLT {
				ok = true
			}
		}
		if ok {
			c.OK(as.Name, "time.Since(NotAfterLimit) < ReadOnlyAfter (= 7*24h)", []string{as.Pos(as.Decl)})
		} else {
			c.Bad(as.Name, as.Pos(as.Decl), "the read-only switch is not `time.Since(NotAfterLimit) < one week`")
		}
	}
}

func c17i(c *Ctx) {
	f := c.Fn("ctlog.(*Log).addChainOrPreChain")
	if f == nil {
		return
	}
	info := f.Info()
	g := f.Graph()
	var errObj types.Object
	for _, s := range f.Find(func(n ast.Node) bool {
		call, ok := n.(*ast.CallExpr)
		if !ok {
			return false
		}
		_, ok = f.IsCallResult(call.Fun, 0, Callee{pkgCtlog, "Log", "addLeafToPool"})
		return ok
	}) {
		if a, ok := s.Node.(*ast.AssignStmt); ok && len(a.Lhs) == 2 {
			errObj = objOf(info, a.Lhs[1])
		}
	}
	if errObj == nil {
		c.Unk(f.Name, "wait error variable not found")
		return
	}
	isErr := func(e ast.Expr) bool { return objOf(info, e) == errObj }
	isVar := func(name string) func(ast.Expr) bool {
		return func(e ast.Expr) bool { return isPkgVar(info, e, pkgCtlog, name) }
	}
	retsWith := func(code int64) []Site {
		var out []Site
		for _, r := range f.Returns() {
			rs := r.X.(*ast.ReturnStmt).Results
			if len(rs) == 3 {
				if v, ok := constInt(info, rs[1]); ok && v == code {
					out = append(out, r)
				}
			}
		}
		return out
	}
	// 503: evaluate the outcome for err == errPoolFull and for err == errEvicted
	var waitSite *Site
	for _, s := range f.Find(func(n ast.Node) bool {
		call, ok := n.(*ast.CallExpr)
		if !ok {
			return false
		}
		_, ok = f.IsCallResult(call.Fun, 0, Callee{pkgCtlog, "Log", "addLeafToPool"})
		return ok
	}) {
		s := s
		waitSite = &s
	}
	r503 := retsWith(503)
	for _, sentinel := range []string{"errPoolFull", "errEvicted"} {
		sentinel := sentinel
		inst := f.Name + " 503 for " + sentinel
		env := func(e ast.Expr) Tri {
			if be, ok := ast.Unparen(e).(*ast.BinaryExpr); ok && (be.Op == token.EQL || be.Op == token.NEQ) {
				var other ast.Expr
				if isErr(be.X) {
					other = be.Y
				} else if isErr(be.Y) {
					other = be.X
				}
				if other != nil {
					eq := Unknown
					switch {
					case isVar(sentinel)(other):
						eq = True
					case isNilIdent(info, other), isVar("errPoolFull")(other), isVar("errEvicted")(other):
						eq = False
					}
					if be.Op == token.NEQ {
						return eq.Not()
					}
					return eq
				}
			}
			return Unknown
		}
		if waitSite == nil || len(r503) == 0 {
			c.Bad(inst, f.Pos(f.Decl), "rate-limited / evicted submissions are not answered with 503")
			continue
		}
		cut := Cut{Edges: g.FeasibleCut(env)}
		rets := g.ReturnsFrom(waitSite.After(), cut)
		bad := len(rets) == 0
		for _, r := range rets {
			if v, ok := constInt(info, r.Results[1]); !ok || v != 503 {
				c.Bad(inst, f.Pos(r), "when the wait function returns "+sentinel+" the response is not 503 (retry later)")
				bad = true
			}
		}
		if !bad {
			c.add(Result{Instance: inst, Verdict: Discharged, Evals: len(rets), Sites: sitePositions(r503), Detail: "only a 503 return is reachable when err == " + sentinel})
		}
	}
	// nothing else gets 503: with err equal to neither sentinel, no 503 return is reachable
	{
		env := func(e ast.Expr) Tri {
			if be, ok := ast.Unparen(e).(*ast.BinaryExpr); ok && (be.Op == token.EQL || be.Op == token.NEQ) {
				var other ast.Expr
				if isErr(be.X) {
					other = be.Y
				} else if isErr(be.Y) {
					other = be.X
				}
				if other != nil && (isVar("errPoolFull")(other) || isVar("errEvicted")(other)) {
					if be.Op == token.NEQ {
						return True
					}
					return False
				}
			}
			return Unknown
		}
		inst := f.Name + " 503 only for busy outcomes"
		if waitSite != nil {
			if pt, _ := g.Reach(waitSite.After(), Cut{Edges: g.FeasibleCut(env)}, atAnySite(r503)); pt != nil {
				c.Bad(inst, r503[0].Pos(), "503 is returned for outcomes other than pool-full / evicted")
			} else {
				c.OK(inst, "no 503 return reachable when err is neither sentinel", sitePositions(r503))
			}
		}
	}
	// 410
	sunset := g.EdgesImplying(func(a Atom) bool {
		call, ok := ast.Unparen(a.E).(*ast.CallExpr)
		if !ok || !a.Val || !matchCallee(info, call, Callee{"errors", "", "As"}) || len(call.Args) != 2 || !isErr(call.Args[0]) {
			return false
		}
		tv, ok := info.Types[call.Args[1]]
		return ok && strings.Contains(tv.Type.String(), "SunsetLogError")
	})
	r410 := retsWith(410)
	inst := f.Name + " 410"
	switch {
	case len(r410) == 0 || len(sunset) == 0:
		c.Bad(inst, f.Pos(f.Decl), "a read-only (sunset) log does not answer 410")
	default:
		if pt, _ := g.ReachableFromEntry(Cut{Edges: sunset}, atAnySite(r410)); pt != nil {
			c.Bad(inst, r410[0].Pos(), "410 is returned for an error that is not SunsetLogError")
		} else {
			c.add(Result{Instance: inst, Verdict: Discharged, Sites: sitePositions(r410), Detail: "410 iff errors.As(err, SunsetLogError)", Witnesses: f.WitEdges(sunset)})
		}
	}
	// SunsetLogError is what RunSequencer returns on the gate's false edge (pool.err -> waiters)
	if rs := c.P.Fn("ctlog.(*Log).RunSequencer"); rs != nil {
		ok := false
		for _, r := range rs.Returns() {
			e := rs.errResultExpr(r.X.(*ast.ReturnStmt))
			if cl, isCl := ast.Unparen(e).(*ast.CompositeLit); isCl {
				if tv, has := rs.Info().Types[cl]; has && namedIs(tv.Type, pkgCtlog, "SunsetLogError") {
					ok = true
				}
			}
		}
		if ok {
			c.OK(rs.Name+" sunset error", "the read-only stop returns SunsetLogError, which waiters receive through pool.err", nil)
		} else {
			c.Bad(rs.Name+" sunset error", rs.Pos(rs.Decl), "the read-only stop does not return SunsetLogError, so submissions would not get 410")
		}
	}
}

func c17j(c *Ctx) {
	n := 0
	for _, pk := range c.P.All {
		sc := pk.Types.Scope()
		for _, nm := range sc.Names() {
			v, ok := sc.Lookup(nm).(*types.Var)
			if !ok {
				continue
			}
			hook := strings.HasPrefix(nm, "testingOnly") || (pk.PkgPath == pkgCtlog && nm == "timeNowUnixMilli")
			if !hook {
				continue
			}
			n++
			inst := shortPkg(pk.PkgPath) + "." + nm
			bad := ""
			for _, f := range c.P.Funcs(pk.PkgPath) {
				if f.Body == nil || f.Parent != nil {
					continue
				}
				ast.Inspect(f.Body, func(x ast.Node) bool {
					switch a := x.(type) {
					case *ast.AssignStmt:
						for _, l := range a.Lhs {
							if objOf(f.Info(), l) == v {
								bad = f.Pos(a)
							}
						}
					case *ast.UnaryExpr:
						if a.Op == token.AND && objOf(f.Info(), a.X) == v {
							bad = f.Pos(a)
						}
					}
					return true
				})
			}
			if bad != "" {
				c.Bad(inst, bad, "a test-only hook is assigned in production code")
			} else {
				c.OK(inst, "never assigned outside its declaration in non-test code", []string{c.P.Pos(v.Pos())})
			}
		}
	}
	if n == 0 {
		c.Unk("hooks", "no test hook variables found")
	}
}

// c17bHelper: EVICT-ONE when the loop lives in a helper: the helper's body is
// validated, and in the owner the new leaf is stored at the slot the helper
// returned, only on the edge where the helper reported an eviction.
func c17bHelper(c *Ctx, f *Func, eh *evictHelper, inst string) {
	c.touch(eh.H)
	info := f.Info()
	g := f.Graph()
	problems, sites := eh.validate()
	leaf := f.paramObj("leaf")
	var store []Site
	for _, st := range f.StoresTo(c.P.fieldVar(pkgCtlog, "pool", "pendingLeaves")) {
		ix, ok := ast.Unparen(st.Lhs).(*ast.IndexExpr)
		if ok && st.Rhs != nil && objOf(info, st.Rhs) == leaf && objOf(info, ix.Index) == eh.SlotObj && eh.SlotObj != nil {
			store = append(store, st.Site)
		}
	}
	okT, _ := eh.okEdges(f)
	switch {
	case len(store) == 0:
		problems = append(problems, "the new leaf is not stored at the slot the eviction helper returned")
	case len(okT) == 0:
		problems = append(problems, "the helper's eviction flag is not tested")
	default:
		if pt, _ := g.Reach(eh.Call.After(), Cut{Edges: okT}, atAnySite(store)); pt != nil {
			problems = append(problems, "the slot is overwritten although nothing was evicted")
		}
		// between the helper's result and the store the slot variable is not reassigned
		for _, d := range f.Defs(eh.SlotObj) {
			if d.Node != eh.Call.Node {
				if ds := f.Find(func(n ast.Node) bool { return n == d.Node }); len(ds) == 1 {
					if pt, _ := g.Reach(eh.Call.After(), Cut{Stop: func(p Point, _ ast.Node) bool { return p == ds[0].P }}, atAnySite(store)); pt == nil {
						problems = append(problems, "the slot variable is reassigned between the eviction and the store")
					}
				}
			}
		}
		sites = append(sites, store[0].Pos())
	}
	if len(problems) > 0 {
		c.Bad(inst, eh.Call.Pos(), "eviction through "+eh.H.Name+": "+strings.Join(problems, "; "))
		return
	}
	c.add(Result{Instance: inst, Verdict: Discharged, Evals: 6, Sites: sites,
		Detail: "helper " + eh.H.Name + ": single iteration, cancel(), delete(lowPriority, k), return k, true; owner: pendingLeaves[slot] = leaf on the ok edge", Witnesses: f.WitEdges(okT)})
}

// c17l: RunSequencer is never restarted on the same Log.
func c17l(c *Ctx) {
	spec := Callee{pkgCtlog, "Log", "RunSequencer"}
	n := 0
	for _, f := range c.P.Funcs("") {
		if f.Body == nil || strings.HasSuffix(f.Pkg.PkgPath, "_test") {
			continue
		}
		for _, s := range f.Calls(spec) {
			n++
			c.touch(f)
			info := f.Info()
			g := f.Graph()
			inst := "RunSequencer call in " + f.Name
			// (1) not on a cycle of its own function (a cycle that reloads the Log first is handled by (2))
			if f != f.Top() {
				if pt, _ := g.Reach(s.After(), Cut{}, atSite(s)); pt != nil {
					c.Bad(inst, s.Pos(), "the sequencer can be started again after it returned (the call lies in a loop): after a fatal error the in-memory tree is stale, and a restarted sequencer would sign from it")
					continue
				}
			}
			// (2) the Log is a fresh LoadLog result for every start
			sel, ok := ast.Unparen(s.Call.Fun).(*ast.SelectorExpr)
			recv := types.Object(nil)
			if ok {
				recv = objOf(info, sel.X)
			}
			top := f.Top()
			var def *Site
			if recv != nil {
				for _, d := range top.Defs(recv) {
					if d.Kind == DefAssign && d.Idx == 0 {
						if call, isC := ast.Unparen(d.Rhs).(*ast.CallExpr); isC && matchCallee(top.Info(), call, Callee{pkgCtlog, "", "LoadLog"}) {
							if ds := top.Find(func(n ast.Node) bool { return n == d.Node }); len(ds) == 1 && len(top.Defs(recv)) == 1 {
								def = &ds[0]
							}
						}
					}
				}
			}
			if def == nil {
				if recv != nil && isParamOrRecv(top, recv) {
					// a method or helper running the sequencer of the Log it was given: decided at its callers
					c.OK(inst, "runs the sequencer of its own receiver / parameter once", []string{s.Pos()})
					continue
				}
				c.Unk(inst, "the Log the sequencer runs on is not a single LoadLog result at "+s.Pos())
				continue
			}
			// the start site in the top function: the statement that contains the call, or that creates the literal containing it
			start := s
			if f != top {
				lit := f
				for lit.Parent != nil && lit.Parent != top {
					lit = lit.Parent
				}
				ss := top.Find(func(n ast.Node) bool { return n == ast.Node(lit.Lit) })
				if len(ss) != 1 {
					c.Unk(inst, "cannot locate the creation of the goroutine body in "+top.Name)
					continue
				}
				start = ss[0]
			}
			tg := top.Graph()
			if pt, _ := tg.Reach(start.After(), Cut{Stop: func(p Point, _ ast.Node) bool { return p == def.P }}, atSite(start)); pt != nil {
				c.Bad(inst, start.Pos(), "the sequencer can be started again on the same Log without reloading it from the lock store")
				continue
			}
			c.add(Result{Instance: inst, Verdict: Discharged, Evals: 2, Sites: []string{s.Pos(), def.Pos()}, Detail: "not in a loop; every start follows its own LoadLog"})
		}
	}
	if n == 0 {
		c.Unk("RunSequencer callers", "no call of RunSequencer in non-test code")
	}
}
