package main

// C01 - checkpoint history append-only. See DESIGN.md section 3, C01.

import (
	"fmt"
	"go/ast"
	"go/token"
	"go/types"
	"strings"
)

func init() {
	register(&Property{
		ID:    "C01",
		Title: "Checkpoint history of a log is append-only",
		Explanation: "Static must-pass-through / guard / value-flow obligations over go/cfg + go/types on the functions of internal/ctlog that commit or publish a checkpoint. " +
			"Decided for every control-flow path (hence every crash point and fault placement, which only truncate a path or select an error edge): a checkpoint is uploaded to object storage only after the lock-store CAS/Create succeeded and with the same bytes; " +
			"nothing else publishes the key \"checkpoint\"; the tree-head time is the round's single clock reading and a non-increasing reading can only end in a fatal return; in-memory tree state advances only with the CAS; the CAS operand is the lock checkpoint held in memory; the new size is old size plus increments; checkpoints from the future are refused; a CAS failure is fatal. " +
			"NOT decided: that the new root extends the old tree (Merkle arithmetic in tlog/torchwood over runtime hashes), correctness of the lock store as a CAS register (C05), clock behaviour beyond the comparison.",
		Assumptions: []string{
			"tlog/torchwood compute correct Merkle hashes; LockBackend implementations are correct CAS registers (C05)",
			"go/cfg models Go control flow faithfully; callbacks passed to library code are analysed as separate functions",
		},
		Obligations: []*Obligation{
			{ID: "C01.a", Title: "PUB-AFTER-LOCK", Template: "T1+T6", MinInst: 2,
				Rule: "in every ctlog function that uploads the constant key \"checkpoint\", the upload is unreachable once the success edges of LockBackend.Replace/Create are cut, and the uploaded bytes are the value given to the lock call",
				Run:  c01a},
			{ID: "C01.b", Title: "WHO-PUBLISHES", Template: "T4", MinInst: 4,
				Rule: "every Backend.Upload site of the module is classified by key shape; constant key \"checkpoint\" only in functions satisfying C01.a; uploadAction literals carry TilePath keys",
				Run:  c01b},
			{ID: "C01.c", Title: "TIME-GUARD", Template: "T7", MinInst: 1,
				Rule: "for ts < tree.Time and ts == tree.Time the only reachable outcomes of the sequencing function are fatal returns (no sign, no CAS); ts is the single clock reading of the round and is the time signed",
				Run:  c01c},
			{ID: "C01.d", Title: "STATE-AFTER-CAS", Template: "T4+T1", MinInst: 6,
				Rule: "stores to Log.tree / lockCheckpoint / edgeTiles occur only in the sequencing function and no non-fatal return is reachable from such a store without crossing the success edge of Replace",
				Run:  c01d},
			{ID: "C01.e", Title: "CAS-OPERAND", Template: "T6+T4", MinInst: 3,
				Rule: "Replace's old operand is the receiver's lockCheckpoint field, which is only ever set from LockBackend.Fetch (load) or the result of a successful Replace",
				Run:  c01e},
			{ID: "C01.f", Title: "SIZE-MONOTONE", Template: "T6", MinInst: 1,
				Rule: "the size passed to hashTreeHead in the sequencing function is a variable initialised from tree.N and otherwise only incremented",
				Run:  c01f},
			{ID: "C01.g", Title: "FUTURE-GUARD", Template: "T2", MinInst: 1,
				Rule: "openCheckpoint's successful return is unreachable once the edges implying not(now < timestamp) are cut, for the timestamp extracted from the RFC 6962 signature",
				Run:  c01g},
			{ID: "C01.h", Title: "CAS-FAIL-FATAL", Template: "T2", MinInst: 1,
				Rule: "every return reachable from the error edge of Replace wraps errFatal",
				Run:  c01h},
			{ID: "C01.m", Title: "HEAD-HELPERS", Template: "T6+T1", MinInst: 2,
				Rule: "hashTreeHead(n, r, t) returns {Tree{N: n, Hash: tlog.TreeHash(n, r)}, Time: t} only when TreeHash succeeded; the edge-tile hash reader returns, per requested index, HashFromTile of the stored edge tile of that index's level, or an error",
				Run:  func(c *Ctx) { hHashTreeHead(c); hEdgeReader(c) }},
			{ID: "C01.k", Title: "LOCK-CAS", Template: "T5+T8", MinInst: 10,
				Rule: "every lock backend's Replace/Create carries its precondition and never turns a failed conditional write into success (as C05.b, C05.g): the history in the lock store can only be extended by the holder of the current checkpoint",
				Run:  func(c *Ctx) { c05b(c); c05g(c); c05d(c) }},
			{ID: "C01.j", Title: "LOADED-STATE", Template: "T6", MinInst: 3,
				Rule: "the tree, tree-head time and edge tiles a loaded Log starts from are the lock checkpoint's (as C08.a): the next round's time guard compares against the lock store's last time",
				Run:  c08a},
			{ID: "C01.i", Title: "TREE-CONSTRUCTION", Template: "T6+T1", MinInst: 4,
				Rule: "the new tree head is computed from a hash-reader overlay based at the old size over the verified edge tiles, to which the record hash of every sequenced leaf's MerkleTreeLeaf is appended (error checked); new hash tiles are generated from that overlay for [old size, new size)",
				Run:  c01i},
		},
	})
}

func isCheckpointUpload(f *Func, c *ast.CallExpr) bool { return uploadKeyIs("checkpoint")(f, c) }

// checkpointPublishers: ctlog functions that upload the constant key
// "checkpoint" (today: sequencePool, CreateLog).
func checkpointPublishers(p *Program) []*Func {
	return p.funcsCalling(pkgCtlog, isCheckpointUpload, specUpload)
}

func checkpointUploads(f *Func) []Site {
	var out []Site
	for _, s := range f.CallsW(specUpload) {
		if isCheckpointUpload(f, s.Call) {
			out = append(out, s)
		}
	}
	return out
}

func c01a(c *Ctx) {
	pubs := checkpointPublishers(c.P)
	if len(pubs) == 0 {
		c.Unk("publishers", "no function of internal/ctlog uploads the key \"checkpoint\"")
		return
	}
	for _, f := range pubs {
		ups := checkpointUploads(f)
		locks := f.CallsW(specLockRepl, specLockCrea)
		if len(locks) == 0 && len(ups) > 0 {
			c.Bad(f.Name, ups[0].Pos(), f.Name+" writes the \"checkpoint\" object without committing anything to the lock store in the same function: a publication outside the compare-and-swap, which a stale or concurrently starting instance can use to overwrite a newer published checkpoint")
			continue
		}
		if !c.requireGate(f.Name, f, locks, OutNil, ups, "checkpoint upload after lock commit") {
			continue
		}
		// same bytes
		for _, u := range ups {
			data := argByName(f.Info(), u.Call, "data")
			same := false
			for _, l := range locks {
				if nw := argByName(f.Info(), l.Call, "new"); nw != nil && data != nil && f.SameValue(data, nw) {
					same = true
				}
			}
			inst := f.Name + " bytes"
			if same {
				c.OK(inst, "uploaded bytes are the value passed to the lock call", []string{u.Pos()})
			} else {
				c.Bad(inst, u.Pos(), "the bytes uploaded under \"checkpoint\" are not the value committed to the lock store: "+exprString(data))
			}
		}
	}
}

// keyShape classifies the key argument of an upload.
func keyShape(f *Func, e ast.Expr) string {
	info := f.Info()
	v := f.ResolveDeep(e)
	if s, ok := constString(info, v.E); ok {
		return "const:" + s
	}
	switch x := ast.Unparen(v.E).(type) {
	case *ast.CallExpr:
		if matchCallee(info, x, Callee{pkgRoot, "", "TilePath"}, Callee{pkgTorch, "", "TilePath"}) {
			return "tilepath"
		}
		if matchCallee(info, x, Callee{pkgCtlog, "", "stagingPath"}) {
			return "staging"
		}
		if matchCallee(info, x, Callee{"fmt", "", "Sprintf"}) && len(x.Args) > 0 {
			if s, ok := constString(info, x.Args[0]); ok {
				return "sprintf:" + s
			}
		}
	case *ast.BinaryExpr:
		if x.Op == token.ADD {
			// leftmost operand constant prefix
			l := ast.Expr(x)
			for depth := 0; depth < 8; depth++ {
				b, ok := ast.Unparen(l).(*ast.BinaryExpr)
				if ok && b.Op == token.ADD {
					l = b.X
					continue
				}
				// a prefix held in a variable first
				if r := f.ResolveDeep(l).E; r != l {
					l = r
					continue
				}
				break
			}
			if s, ok := constString(info, l); ok {
				return "concat-prefix:" + s
			}
			if c, ok := ast.Unparen(l).(*ast.CallExpr); ok && matchCallee(info, c, Callee{pkgWitness, "", "OriginHash"}) {
				return "concat-originhash"
			}
		}
	case *ast.SelectorExpr:
		if sel, ok := info.Uses[x.Sel].(*types.Var); ok && sel.IsField() && sel.Pkg() != nil && sel.Pkg().Path() == "archive/tar" && sel.Name() == "Name" {
			return "tar-header-name"
		}
	}
	if o := objOf(info, v.E); o != nil && v.Idx < 0 {
		for x := f; x != nil; x = x.Parent {
			for _, fld := range x.Type.Params.List {
				for _, nm := range fld.Names {
					if info.Defs[nm] == o {
						return "param"
					}
				}
			}
		}
	}
	return "other:" + exprString(v.E)
}

func c01b(c *Ctx) {
	okPub := map[*Func]bool{}
	for _, f := range checkpointPublishers(c.P) {
		okPub[f] = true
	}
	n := 0
	for _, f := range c.P.Funcs("") {
		if f.Body == nil {
			continue
		}
		if c.P.isWrapperOf(f, specUpload) {
			continue // classified at its call sites
		}
		for _, s := range f.CallsW(specUpload) {
			n++
			c.touch(f)
			key := argByName(f.Info(), s.Call, "key")
			shape := keyShape(f, key)
			if s.Via != nil && strings.HasPrefix(shape, "other:") {
				// a wrapper site keeps the helper's own expression for what is not a parameter: classify it there
				shape = keyShape(s.Via, key)
			}
			inst := fmt.Sprintf("%s key=%s", f.Name, shape)
			switch {
			case shape == "const:checkpoint":
				if f.Pkg.PkgPath == pkgCtlog && okPub[f] {
					c.OK(inst, "publisher covered by C01.a", []string{s.Pos()})
				} else {
					c.Bad(inst, s.Pos(), "uploads the key \"checkpoint\" outside the functions that commit to the lock store first")
				}
			case shape == "const:_roots.pem", shape == "tilepath", shape == "staging", shape == "sprintf:issuer/%x",
				shape == "tar-header-name", shape == "concat-originhash", shape == "concat-prefix:mirror/":
				c.OK(inst, "key cannot equal \"checkpoint\"", []string{s.Pos()})
			default:
				if len(shape) > 6 && shape[:6] == "const:" && shape != "const:checkpoint" {
					c.OK(inst, "constant key other than \"checkpoint\"", []string{s.Pos()})
				} else {
					c.Unk(inst, "upload key of unrecognised shape at "+s.Pos()+": cannot show it differs from \"checkpoint\"")
				}
			}
		}
	}
	// uploadAction literals: keys of staged uploads come from TilePath
	ua := 0
	for _, f := range c.P.Funcs(pkgCtlog) {
		if f.Body == nil {
			continue
		}
		for _, s := range f.Find(func(n ast.Node) bool {
			cl, ok := n.(*ast.CompositeLit)
			if !ok {
				return false
			}
			tv, ok := f.Info().Types[cl]
			return ok && namedIs(tv.Type, pkgCtlog, "uploadAction")
		}) {
			ua++
			cl := s.X.(*ast.CompositeLit)
			key := compositeField(f.Info(), cl, "key", 0)
			inst := fmt.Sprintf("%s uploadAction", f.Name)
			if key != nil && keyShape(f, key) == "tilepath" {
				c.OK(inst, "staged upload key is a TilePath", []string{s.Pos()})
			} else {
				c.Bad(inst, s.Pos(), "staged upload with a key that is not a TilePath result")
			}
		}
	}
	if ua == 0 {
		c.Unk("uploadAction literals", "no uploadAction composite literal found")
	}
}

// namedIs reports whether t (or *t) is the named type pkg.name.
func namedIs(t types.Type, pkg, name string) bool {
	if p, ok := t.(*types.Pointer); ok {
		t = p.Elem()
	}
	n, ok := t.(*types.Named)
	if !ok {
		if a, isAlias := t.(*types.Alias); isAlias {
			return namedIs(types.Unalias(a), pkg, name)
		}
		return false
	}
	return n.Obj().Name() == name && n.Obj().Pkg() != nil && n.Obj().Pkg().Path() == pkg
}

// compositeField returns the value of the named field of a struct literal
// (keyed, or positional at index pos).
func compositeField(info *types.Info, cl *ast.CompositeLit, name string, pos int) ast.Expr {
	for i, el := range cl.Elts {
		if kv, ok := el.(*ast.KeyValueExpr); ok {
			if id, ok := kv.Key.(*ast.Ident); ok && id.Name == name {
				return kv.Value
			}
			continue
		}
		if i == pos {
			// positional: verify the struct's field order
			if tv, ok := info.Types[cl]; ok {
				t := tv.Type
				if p, isP := t.Underlying().(*types.Pointer); isP {
					t = p.Elem()
				}
				if st, isSt := t.Underlying().(*types.Struct); isSt && pos < st.NumFields() && st.Field(pos).Name() == name {
					return el
				}
			}
		}
	}
	return nil
}

// isClockCall recognises a call of the package-level clock hook
// ctlog.timeNowUnixMilli.
func isClockCall(info *types.Info, e ast.Expr) bool {
	c, ok := ast.Unparen(e).(*ast.CallExpr)
	return ok && isPkgVar(info, c.Fun, pkgCtlog, "timeNowUnixMilli")
}

func c01c(c *Ctx) {
	seqs := sequencers(c.P)
	if len(seqs) == 0 {
		c.Unk("sequencer", "no function of internal/ctlog calls LockBackend.Replace")
		return
	}
	for _, f := range seqs {
		c.touch(f)
		info := f.Info()
		g := f.Graph()
		recv := f.recvObj()
		// the clock is read exactly once
		clocks := f.Find(func(n ast.Node) bool { e, ok := n.(ast.Expr); return ok && isClockCall(info, e) })
		if len(clocks) != 1 {
			c.Bad(f.Name+" clock", f.Pos(f.Body), fmt.Sprintf("the sequencing function reads the clock %d times; the tree-head time must be one reading", len(clocks)))
			continue
		}
		isTs := func(e ast.Expr) bool { return isClockCall(info, f.ResolveDeep(e).E) }
		isTreeTime := func(e ast.Expr) bool {
			return f.IsFieldPathOf(e, func(o types.Object) bool { return o == recv }, "tree", "Time")
		}
		// the time that is signed is ts
		hth := f.Calls(Callee{pkgCtlog, "", "hashTreeHead"})
		sign := f.Calls(Callee{pkgCtlog, "", "signTreeHead"})
		repl := f.CallsW(specLockRepl)
		if len(hth) != 1 || len(sign) != 1 || len(repl) == 0 {
			c.Unk(f.Name+" anchors", fmt.Sprintf("expected one hashTreeHead and one signTreeHead call, found %d/%d", len(hth), len(sign)))
			continue
		}
		if tArg := argByName(info, hth[0].Call, "t"); tArg == nil || !isTs(tArg) {
			c.Bad(f.Name+" signed-time", hth[0].Pos(), "the time given to hashTreeHead is not the round's clock reading")
			continue
		}
		if tr := argByName(info, sign[0].Call, "tree"); tr == nil {
			c.Unk(f.Name+" signed-tree", "signTreeHead has no tree parameter")
			continue
		} else if _, ok := f.IsCallResult(tr, 0, Callee{pkgCtlog, "", "hashTreeHead"}); !ok {
			c.Bad(f.Name+" signed-tree", sign[0].Pos(), "the tree head that is signed is not the result of hashTreeHead(n, ..., ts)")
			continue
		}
		c.OK(f.Name+" signed-time", "signTreeHead(hashTreeHead(_, _, ts)) with ts the single clock reading", []string{clocks[0].Pos(), hth[0].Pos(), sign[0].Pos()})

		// the comparison exists
		found := false
		for _, e := range g.CondEdges() {
			for _, a := range EdgeFacts(e) {
				if _, ok := cmpRel(a, isTs, isTreeTime); ok {
					found = true
				}
			}
		}
		if !found {
			c.Bad(f.Name+" ordering", f.Pos(f.Body), "no comparison between the round's timestamp and the previous tree-head time")
			continue
		}
		for _, ord := range []struct {
			name string
			rel  int
		}{{"ts<prev", relLT}, {"ts==prev", relEQ}, {"ts>prev", relGT}} {
			env := func(e ast.Expr) Tri {
				rel, ok := cmpRel(Atom{e, true}, isTs, isTreeTime)
				if !ok {
					return Unknown
				}
				if rel&ord.rel != 0 {
					return True
				}
				return False
			}
			cut := Cut{Edges: g.FeasibleCut(env)}
			inst := f.Name + " " + ord.name
			if ord.rel == relGT {
				if pt, _ := g.ReachableFromEntry(cut, atAnySite(repl)); pt == nil {
					c.Unk(inst, "the CAS is unreachable even when time progressed: rule cannot interpret the function")
				} else {
					c.OK(inst, "CAS reachable when time progressed (control)", []string{repl[0].Pos()})
				}
				continue
			}
			if pt, path := g.ReachableFromEntry(cut, atAnySite(append(append([]Site{}, sign...), repl...))); pt != nil {
				c.Bad(inst, f.Pos(pt.B.Nodes[pt.I]), "a checkpoint can be signed/committed although the clock did not progress (path "+g.describePath(path)+")")
				continue
			}
			bad := false
			rets := g.ReturnsFrom(g.Entry(), cut)
			for _, r := range rets {
				e := f.errResultExpr(r)
				if e == nil || !f.wrapsVar(e, pkgCtlog, "errFatal") {
					c.Bad(inst, f.Pos(r), "a non-fatal return is reachable when the clock did not progress")
					bad = true
					break
				}
			}
			if !bad {
				var ws []Witness
				for e := range g.EdgesImplying(func(a Atom) bool { _, ok := cmpRel(a, isTs, isTreeTime); return ok }) {
					// mutate the comparison itself: swap strictness
					if be, ok := ast.Unparen(Cond(e.From)).(*ast.BinaryExpr); ok && e.Idx == 0 {
						ws = append(ws, f.Wit(be, "false", "drop-guard"))
					}
				}
				c.add(Result{Instance: inst, Verdict: Discharged, Evals: len(rets) + 1, Witnesses: ws,
					Detail: fmt.Sprintf("%d reachable return(s), all fatal; sign/CAS unreachable", len(rets))})
			}
		}
	}
}

func c01d(c *Ctx) {
	seqSet := map[*Func]bool{}
	for _, f := range sequencers(c.P) {
		seqSet[f] = true
	}
	for _, field := range []string{"tree", "lockCheckpoint", "edgeTiles"} {
		fv := c.P.fieldVar(pkgCtlog, "Log", field)
		if fv == nil {
			c.Unk("Log."+field, "field not found")
			continue
		}
		stores := c.P.AllStoresTo(fv)
		nIn := 0
		for _, st := range stores {
			c.touch(st.F)
			inst := fmt.Sprintf("Log.%s store in %s", field, st.F.Name)
			if !seqSet[st.F] {
				c.Bad(inst, st.Pos(), "Log."+field+" is written outside the sequencing function")
				continue
			}
			nIn++
			f := st.F
			g := f.Graph()
			succ, _ := gateEdges(f.CallsW(specLockRepl), OutNil)
			cut := Cut{Edges: succ}
			if pt, _ := g.ReachableFromEntry(cut, atSite(st.Site)); pt == nil {
				c.add(Result{Instance: inst, Verdict: Discharged, Sites: []string{st.Pos()}, Detail: "store only reachable through the success edge of Replace", Witnesses: f.WitEdges(succ)})
				continue
			}
			// stored earlier: tolerated only if every exit before the CAS success is fatal
			bad := false
			for _, r := range g.ReturnsFrom(st.After(), cut) {
				e := f.errResultExpr(r)
				if e == nil || !f.wrapsVar(e, pkgCtlog, "errFatal") {
					c.Bad(inst, st.Pos(), "in-memory state is advanced before the CAS and a non-fatal return ("+f.Pos(r)+") is reachable without the CAS having succeeded")
					bad = true
					break
				}
			}
			if !bad {
				c.OK(inst, "store precedes the CAS but every exit in between is fatal", []string{st.Pos()})
			}
		}
		if nIn == 0 {
			c.Unk("Log."+field, "no store to the field found in the sequencing function")
		}
	}
	// the converse: once the CAS has succeeded the whole in-memory state advances with it, on
	// every path, before anything else of the round (tile application, publication, return)
	for _, f := range sequencers(c.P) {
		g := f.Graph()
		repl := f.CallsW(specLockRepl)
		succ, _ := gateEdges(repl, OutNil)
		var next []Site
		next = append(next, f.CallsW(specApply)...)
		next = append(next, checkpointUploads(f)...)
		for _, r := range f.Returns() {
			next = append(next, r)
		}
		var signed types.Object
		for _, s := range f.Calls(specSignTreeHead) {
			signed = objOf(f.Info(), argByName(f.Info(), s.Call, "tree"))
		}
		for _, field := range []string{"tree", "lockCheckpoint", "edgeTiles"} {
			inst := fmt.Sprintf("%s advances Log.%s with every successful CAS", f.Name, field)
			fv := c.P.fieldVar(pkgCtlog, "Log", field)
			var sts []Site
			okVal := true
			for _, st := range f.StoresTo(fv) {
				if st.Direct {
					sts = append(sts, st.Site)
					switch field {
					case "tree":
						if signed == nil || st.Rhs == nil || objOf(f.Info(), st.Rhs) != signed {
							okVal = false
						}
					case "lockCheckpoint":
						if _, isRepl := f.IsCallResultW(st.Rhs, 0, specLockRepl); !isRepl {
							okVal = false
						}
					}
				}
			}
			if len(succ) == 0 || len(sts) == 0 {
				c.Unk(inst, "CAS success edge / store not found")
				continue
			}
			stop := func(p Point, _ ast.Node) bool {
				for _, s := range sts {
					if s.P == p {
						return true
					}
				}
				return false
			}
			bad := false
			for e := range succ {
				if g.dead[e] {
					continue
				}
				if pt, path := g.Reach(EdgeStart(e), Cut{Stop: stop}, atAnySite(next)); pt != nil {
					c.Bad(inst, f.Pos(pt.B.Nodes[pt.I]), fmt.Sprintf("after the lock backend accepted the new checkpoint the round can go on (or return) without advancing Log.%s (path %s): the next round would start from a state that is not the committed one", field, g.describePath(path)))
					bad = true
					break
				}
			}
			if bad {
				continue
			}
			if !okVal {
				c.Bad(inst, sts[0].Pos(), "Log."+field+" is not set to the value that was committed (the signed tree head / the handle returned by the CAS)")
				continue
			}
			c.add(Result{Instance: inst, Verdict: Discharged, Evals: len(succ), Sites: sitePositions(sts), Detail: "from the CAS success edge neither the tile application, the publication nor a return is reached without the store; the value stored is the committed one"})
		}
	}
}

func c01e(c *Ctx) {
	fv := c.P.fieldVar(pkgCtlog, "Log", "lockCheckpoint")
	if fv == nil {
		c.Unk("Log.lockCheckpoint", "field not found")
		return
	}
	for _, f := range sequencers(c.P) {
		c.touch(f)
		recv := f.recvObj()
		for _, s := range f.CallsW(specLockRepl) {
			old := argByName(f.Info(), s.Call, "old")
			inst := f.Name + " Replace.old"
			base, ok := fieldSel(f.Info(), old, pkgCtlog, "Log", "lockCheckpoint")
			if ok && objOf(f.Info(), base) == recv {
				c.OK(inst, "old operand is the receiver's lockCheckpoint", []string{s.Pos()})
			} else {
				c.Bad(inst, s.Pos(), "the CAS compares against "+exprString(old)+", not the lock checkpoint held in memory")
			}
		}
	}
	for _, st := range c.P.AllStoresTo(fv) {
		f := st.F
		c.touch(f)
		inst := "lockCheckpoint := in " + f.Name
		if !st.Direct || st.Rhs == nil {
			c.Bad(inst, st.Pos(), "lockCheckpoint is modified other than by plain assignment")
			continue
		}
		if _, ok := f.IsCallResultW(st.Rhs, 0, specLockRepl); ok {
			c.OK(inst, "assigned from the result of Replace", []string{st.Pos()})
		} else {
			c.Bad(inst, st.Pos(), "lockCheckpoint assigned from "+exprString(st.Rhs)+", not from the result of LockBackend.Replace")
		}
	}
	// composite literals of Log
	n := 0
	for _, f := range c.P.Funcs(pkgCtlog) {
		if f.Body == nil {
			continue
		}
		for _, s := range f.Find(func(n ast.Node) bool {
			cl, ok := n.(*ast.CompositeLit)
			if !ok {
				return false
			}
			tv, ok := f.Info().Types[cl]
			return ok && namedIs(tv.Type, pkgCtlog, "Log")
		}) {
			n++
			c.touch(f)
			v := compositeField(f.Info(), s.X.(*ast.CompositeLit), "lockCheckpoint", -1)
			inst := "Log{lockCheckpoint:} in " + f.Name
			if v == nil {
				c.Bad(inst, s.Pos(), "Log constructed without a lock checkpoint")
				continue
			}
			if _, ok := f.IsCallResult(v, 0, specLockFet); ok {
				c.OK(inst, "initialised from LockBackend.Fetch", []string{s.Pos()})
			} else {
				c.Bad(inst, s.Pos(), "Log.lockCheckpoint initialised from "+exprString(v)+", not from LockBackend.Fetch")
			}
		}
	}
	if n == 0 {
		c.Unk("Log literal", "no composite literal of ctlog.Log found")
	}
}

func c01f(c *Ctx) {
	for _, f := range sequencers(c.P) {
		c.touch(f)
		info := f.Info()
		recv := f.recvObj()
		for _, s := range f.Calls(Callee{pkgCtlog, "", "hashTreeHead"}) {
			nArg := argByName(info, s.Call, "n")
			inst := f.Name + " size"
			o := objOf(info, nArg)
			if o == nil || !isLocal(o) {
				c.Bad(inst, s.Pos(), "tree size argument is not a local counter: "+exprString(nArg))
				continue
			}
			defs := f.Defs(o)
			inits, bad := 0, ""
			for _, d := range defs {
				switch {
				case d.Kind == DefAssign && d.Idx < 0 && f.IsFieldPathOf(d.Rhs, func(x types.Object) bool { return x == recv }, "tree", "N"):
					inits++
				case d.Kind == DefOther:
					if inc, ok := d.Node.(*ast.IncDecStmt); ok && inc.Tok == token.INC {
						continue
					}
					bad = f.Pos(d.Node)
				default:
					bad = f.Pos(d.Node)
				}
			}
			if inits == 1 && bad == "" {
				c.OK(inst, fmt.Sprintf("n := l.tree.N; %d increment(s)", len(defs)-1), []string{s.Pos()})
			} else {
				c.Bad(inst, s.Pos(), "the new tree size is not (old size + increments): extra definition at "+bad)
			}
		}
	}
}

func c01g(c *Ctx) {
	f := c.Fn("ctlog.openCheckpoint")
	if f == nil {
		return
	}
	info := f.Info()
	g := f.Graph()
	// timestamp object: assigned from RFC6962SignatureTimestamp
	var tsObj types.Object
	for _, s := range f.Calls(Callee{pkgRoot, "", "RFC6962SignatureTimestamp"}) {
		if a, ok := s.Node.(*ast.AssignStmt); ok && len(a.Lhs) >= 1 {
			tsObj = objOf(info, a.Lhs[0])
		}
	}
	if tsObj == nil {
		c.Unk(f.Name, "no timestamp extracted with RFC6962SignatureTimestamp")
		return
	}
	isNow := func(e ast.Expr) bool { return isClockCall(info, f.ResolveDeep(e).E) }
	isTs := func(e ast.Expr) bool { return objOf(info, e) == tsObj }
	safe := g.EdgesImplying(func(a Atom) bool {
		rel, ok := cmpRel(a, isNow, isTs)
		return ok && rel&relLT == 0
	})
	var okRets []Site
	for _, r := range f.Returns() {
		e := f.errResultExpr(r.X.(*ast.ReturnStmt))
		if e != nil && isNilIdent(info, e) {
			okRets = append(okRets, r)
			// the returned time is the checked one
			rs := r.X.(*ast.ReturnStmt).Results
			if len(rs) == 3 && objOf(info, rs[1]) != tsObj {
				c.Bad(f.Name+" returned-time", r.Pos(), "the timestamp returned is not the one compared with the clock")
				return
			}
		}
	}
	if len(okRets) == 0 {
		c.Unk(f.Name, "no successful return found")
		return
	}
	if len(safe) == 0 {
		c.Bad(f.Name, okRets[0].Pos(), "checkpoint accepted without comparing its timestamp with the current time")
		return
	}
	if pt, path := g.ReachableFromEntry(Cut{Edges: safe}, atAnySite(okRets)); pt != nil {
		c.Bad(f.Name, okRets[0].Pos(), "success is reachable with now < timestamp (path "+g.describePath(path)+")")
		return
	}
	c.add(Result{Instance: f.Name, Verdict: Discharged, Sites: sitePositions(okRets), Detail: "success unreachable unless now >= timestamp", Witnesses: f.WitEdges(safe)})
}

func c01h(c *Ctx) {
	for _, f := range sequencers(c.P) {
		c.touch(f)
		g := f.Graph()
		for _, s := range f.CallsW(specLockRepl) {
			inst := f.Name + " Replace error edge"
			_, nonNil, _, ok := OutcomeEdges(s)
			if !ok || len(nonNil) == 0 {
				c.Bad(inst, s.Pos(), "the error of LockBackend.Replace is not tested")
				continue
			}
			bad := false
			n := 0
			var ws []Witness
			for e := range nonNil {
				for _, r := range g.ReturnsFrom(EdgeStart(e), Cut{}) {
					n++
					ex := f.errResultExpr(r)
					if ex == nil || !f.wrapsVar(ex, pkgCtlog, "errFatal") {
						c.Bad(inst, f.Pos(r), "a CAS failure can end in a return that does not wrap errFatal, so the sequencer would keep running on unknown lock state")
						bad = true
					} else if call, isCall := ast.Unparen(f.ResolveDeep(ex).E).(*ast.CallExpr); isCall {
						// witness: replace errFatal operand by the inner error
						for _, a := range call.Args {
							if isPkgVar(f.Info(), a, pkgCtlog, "errFatal") {
								ws = append(ws, f.Wit(a, "err", "unwrap-fatal"))
							}
						}
					}
				}
			}
			if n == 0 {
				c.Bad(inst, s.Pos(), "the error edge of Replace does not lead to a return")
				continue
			}
			if !bad {
				c.add(Result{Instance: inst, Verdict: Discharged, Sites: []string{s.Pos()}, Evals: n, Detail: fmt.Sprintf("%d return(s) on the error edge, all wrap errFatal", n), Witnesses: ws})
			}
		}
	}
}

func c01i(c *Ctx) {
	for _, f := range sequencers(c.P) {
		c.touch(f)
		info := f.Info()
		g := f.Graph()
		recv := f.recvObj()
		isRecv := func(o types.Object) bool { return o == recv }
		ov := f.Calls(Callee{pkgTorch, "", "NewHashReaderOverlay"})
		if len(ov) != 1 {
			c.Bad(f.Name+" overlay", f.Pos(f.Decl), "the new tree is not computed over a hash-reader overlay of the existing tree")
			continue
		}
		var ovObj types.Object
		if a, ok := ov[0].Node.(*ast.AssignStmt); ok {
			ovObj = objOf(info, a.Lhs[0])
		}
		okBase := f.IsFieldPathOf(ov[0].Call.Args[0], isRecv, "tree", "N")
		okReader := false
		if call, ok := ast.Unparen(ov[0].Call.Args[1]).(*ast.CallExpr); ok && matchCallee(info, call, Callee{pkgCtlog, "Log", "edgeTilesHashReader"}) {
			okReader = isMethodOnPath(f, call, "edgeTilesHashReader", isRecv)
		}
		if okBase && okReader && ovObj != nil {
			c.OK(f.Name+" overlay", "NewHashReaderOverlay(l.tree.N, l.edgeTilesHashReader())", []string{ov[0].Pos()})
		} else {
			c.Bad(f.Name+" overlay", ov[0].Pos(), "the overlay is not based at the in-memory tree size over the verified edge tiles")
			continue
		}
		// every sequenced leaf is appended
		app := f.Calls(Callee{pkgTorch, "HashReaderOverlay", "AppendRecordHash"})
		ale := f.Calls(Callee{pkgCtlog, "PendingLogEntry", "asLogEntry"})
		inst := f.Name + " leaves appended"
		if len(app) != 1 || len(ale) != 1 {
			c.Bad(inst, ov[0].Pos(), fmt.Sprintf("expected one AppendRecordHash per sequenced leaf, found %d append site(s) for %d asLogEntry site(s)", len(app), len(ale)))
		} else {
			a := app[0]
			okArg := false
			if sel, ok := ast.Unparen(a.Call.Fun).(*ast.SelectorExpr); ok && objOf(info, sel.X) == ovObj {
				if rh, ok := ast.Unparen(a.Call.Args[0]).(*ast.CallExpr); ok && matchCallee(info, rh, Callee{pkgTlog, "", "RecordHash"}) {
					if ml, ok := ast.Unparen(rh.Args[0]).(*ast.CallExpr); ok && matchCallee(info, ml, Callee{pkgRoot, "LogEntry", "MerkleTreeLeaf"}) {
						if ms, ok := ast.Unparen(ml.Fun).(*ast.SelectorExpr); ok {
							if _, ok := f.IsCallResult(ms.X, 0, Callee{pkgCtlog, "PendingLogEntry", "asLogEntry"}); ok {
								okArg = true
							}
						}
					}
				}
			}
			okErr, how := errDiscipline(a)
			// each iteration that builds an entry appends it before the index advances
			var incs []Site
			if len(f.Calls(specHashTreeHead)) == 1 {
				if so := objOf(info, argByName(info, f.Calls(specHashTreeHead)[0].Call, "n")); so != nil {
					for _, d := range f.Defs(so) {
						if inc, ok := d.Node.(*ast.IncDecStmt); ok {
							incs = append(incs, f.Find(func(n ast.Node) bool { return n == ast.Node(inc) })...)
						}
					}
				}
			}
			skip := false
			if len(incs) == 1 {
				if pt, _ := g.Reach(ale[0].After(), Cut{Stop: func(p Point, _ ast.Node) bool { return p == a.P }}, atSite(incs[0])); pt != nil {
					skip = true
				}
			}
			switch {
			case !okArg:
				c.Bad(inst, a.Pos(), "what is appended to the tree is not RecordHash(MerkleTreeLeaf()) of the entry built for this leaf")
			case !okErr:
				c.Bad(inst, a.Pos(), "the error of AppendRecordHash is not handled ("+how+")")
			case skip || len(incs) != 1:
				c.Bad(inst, a.Pos(), "the index can advance for a leaf whose hash was not appended to the tree")
			default:
				c.add(Result{Instance: inst, Verdict: Discharged, Evals: 3, Sites: []string{a.Pos()}, Detail: "AppendRecordHash(RecordHash(entry.MerkleTreeLeaf())) for every sequenced leaf, before n++, error handled", Witnesses: []Witness{f.WitDelete(a.Node)}})
			}
		}
		// tree head from the overlay
		for _, h := range f.Calls(specHashTreeHead) {
			if objOf(info, argByName(info, h.Call, "r")) == ovObj {
				c.OK(f.Name+" head from overlay", "hashTreeHead(n, overlay, ts)", []string{h.Pos()})
			} else {
				c.Bad(f.Name+" head from overlay", h.Pos(), "the root hash that is signed is not computed from the overlay the leaves were appended to")
			}
		}
		// hash tiles
		nt := f.Calls(Callee{pkgTlog, "", "NewTiles"})
		rt := f.Calls(Callee{pkgTlog, "", "ReadTileData"})
		inst = f.Name + " hash tiles"
		if len(nt) != 1 || len(rt) != 1 {
			c.Bad(inst, f.Pos(f.Decl), "new hash tiles are not generated with tlog.NewTiles / ReadTileData")
			continue
		}
		var sizeObj types.Object
		for _, h := range f.Calls(specHashTreeHead) {
			sizeObj = objOf(info, argByName(info, h.Call, "n"))
		}
		okTiles := f.IsFieldPathOf(argByName(info, nt[0].Call, "oldTreeSize"), isRecv, "tree", "N") && objOf(info, argByName(info, nt[0].Call, "newTreeSize")) == sizeObj && sizeObj != nil
		if hv, ok := constInt(info, argByName(info, nt[0].Call, "h")); !ok || hv != 8 {
			okTiles = false
		}
		okRead := objOf(info, rt[0].Call.Args[1]) == ovObj
		if okTiles && okRead {
			c.add(Result{Instance: inst, Verdict: Discharged, Evals: 3, Sites: []string{nt[0].Pos(), rt[0].Pos()}, Detail: "NewTiles(TileHeight, l.tree.N, n) read from the overlay"})
		} else {
			c.Bad(inst, nt[0].Pos(), "hash tiles are not generated for [old size, new size) from the overlay that produced the signed root")
		}
	}
}
