package main

// C19 - the read-path server serves exactly the stored objects with correct metadata.

import (
	"fmt"
	"go/ast"
	"go/token"
	"go/types"
	"sort"
	"strings"
)

func init() {
	register(&Property{
		ID:    "C19",
		Title: "The read-path server serves exactly the stored objects with correct metadata",
		Explanation: "Who-may-call inventory, guard, route/header table agreement (against a table frozen from names-tiles.md, the README's read-path section and the property statement, and against the writers' upload options) and value-flow obligations on cmd/skylight. " +
			"Decided: every file-serving handler is http.FileServerFS over filesOnlyFS over (*os.Root).FS() of an os.OpenRoot; no http.Dir / ServeFile / direct file reads in handlers; filesOnlyFS.Open returns a file only when it is not a directory; each layout route sets the prescribed content type, gzip encoding (data and names tiles only) and cache policy (immutable for tiles and issuers, no-store for checkpoints); for each object class those headers agree with the options the writers (ctlog, witness) store the object with and with the S3 backend's immutable cache-control string; the witness handler re-prefixes the stripped path with its own origin segment. " +
			"NOT decided: byte equality of bodies, net/http's path cleaning.",
		Assumptions: []string{"os.Root and http.FileServerFS confine and serve files as documented", "the route/header table frozen in the rule reflects the Static CT / tlog-tiles layout (no external spec is reachable in the sandbox)"},
		Obligations: []*Obligation{
			{ID: "C19.a", Title: "CONFINED", Template: "T4+T6", MinInst: 2,
				Rule: "every file server is FileServerFS(filesOnlyFS{root.FS()}) with root from os.OpenRoot; no other file-serving primitive is used", Run: c19a},
			{ID: "C19.b", Title: "FILES-ONLY", Template: "T2", MinInst: 1,
				Rule: "filesOnlyFS.Open's successful return is unreachable once the edge implying !IsDir() is cut, and the stat comes from the opened file", Run: c19b},
			{ID: "C19.c", Title: "ROUTE-HEADERS", Template: "T5", MinInst: 6,
				Rule: "checkpoint, log.v3.json, issuer, tile default, data tile and names tile routes set exactly the frozen header table", Run: c19c},
			{ID: "C19.d", Title: "WRITER-READER", Template: "T5", MinInst: 6,
				Rule: "for each object class the writer's UploadOptions (ContentType, Compressed, Immutable) agree with the served headers, and the immutable cache policy equals the S3 backend's", Run: c19d},
			{ID: "C19.e", Title: "PREFIX", Template: "T6", MinInst: 2,
				Rule: "witness and mirror handlers serve filePrefix + URL.Path where filePrefix is /<origin> resp. /mirror/<origin> of the same path value that was stripped", Run: c19e},
		},
	})
}

func c19a(c *Ctx) {
	m := c.Fn("skylight.main")
	if m == nil {
		return
	}
	info := m.Info()
	n := 0
	fns := append([]*Func{m}, allLits(m)...)
	for _, f := range fns {
		for _, s := range f.Calls(Callee{"net/http", "", "FileServerFS"}) {
			n++
			inst := "FileServerFS at " + s.Pos()
			cl, ok := ast.Unparen(s.Call.Args[0]).(*ast.CompositeLit)
			okFS := false
			if ok {
				if tv, has := info.Types[cl]; has && namedIs(tv.Type, pkgSkylight, "filesOnlyFS") && len(cl.Elts) == 1 {
					v := cl.Elts[0]
					if kv, isKV := v.(*ast.KeyValueExpr); isKV {
						v = kv.Value
					}
					if call, isC := ast.Unparen(v).(*ast.CallExpr); isC && matchCallee(info, call, Callee{"os", "Root", "FS"}) {
						if sel, isS := ast.Unparen(call.Fun).(*ast.SelectorExpr); isS {
							if _, fromOpen := f.IsCallResult(sel.X, 0, Callee{"os", "", "OpenRoot"}); fromOpen {
								okFS = true
							}
						}
					}
				}
			}
			if okFS {
				c.OK(inst, "FileServerFS(filesOnlyFS{OpenRoot(dir).FS()})", []string{s.Pos()})
			} else {
				c.Bad(inst, s.Pos(), "a file server is not confined to an os.Root with directories hidden")
			}
		}
		for _, s := range f.Find(func(x ast.Node) bool {
			call, ok := x.(*ast.CallExpr)
			if !ok {
				return false
			}
			if tv, has := info.Types[call.Fun]; has && tv.IsType() && namedIs(tv.Type, "net/http", "Dir") {
				return true
			}
			return matchCallee(info, call, Callee{"net/http", "", "FileServer"}, Callee{"net/http", "", "ServeFile"}, Callee{"net/http", "", "ServeFileFS"}, Callee{"net/http", "", "ServeContent"})
		}) {
			c.Bad("unconfined file serving at "+s.Pos(), s.Pos(), "files are served through a primitive that is not confined to the configured directory")
		}
	}
	// handlers (function literals with a ResponseWriter parameter) do not read files themselves
	for _, f := range allLits(m) {
		isHandler := false
		for _, fl := range f.Type.Params.List {
			if tv, ok := info.Types[fl.Type]; ok && namedIs(tv.Type, "net/http", "ResponseWriter") {
				isHandler = true
			}
		}
		if !isHandler {
			continue
		}
		for _, s := range f.Calls(Callee{"os", "", "Open"}, Callee{"os", "", "ReadFile"}, Callee{"os", "", "OpenFile"}, Callee{"io/fs", "", "ReadFile"}) {
			// fs.ReadFile on a root FS is used by /health only through checkLog etc (not literals)
			c.Bad("handler reads files at "+s.Pos(), s.Pos(), "a request handler opens files directly instead of going through the confined file server")
		}
	}
	if n < 2 {
		c.Unk("file servers", fmt.Sprintf("expected the log and witness file servers, found %d", n))
	}
}

func c19b(c *Ctx) {
	f := c.Fn("skylight.(filesOnlyFS).Open")
	if f == nil {
		return
	}
	info := f.Info()
	g := f.Graph()
	okRets := successReturns(f)
	opens := f.Find(func(n ast.Node) bool {
		call, ok := n.(*ast.CallExpr)
		if !ok {
			return false
		}
		sel, ok := ast.Unparen(call.Fun).(*ast.SelectorExpr)
		return ok && sel.Sel.Name == "Open" && len(call.Args) == 1 && f.IsParam(call.Args[0], "name")
	})
	var fileObj, infoObj types.Object
	for _, s := range opens {
		if a, ok := s.Node.(*ast.AssignStmt); ok {
			fileObj = objOf(info, a.Lhs[0])
		}
	}
	stats := f.Find(func(n ast.Node) bool {
		call, ok := n.(*ast.CallExpr)
		if !ok {
			return false
		}
		sel, ok := ast.Unparen(call.Fun).(*ast.SelectorExpr)
		return ok && sel.Sel.Name == "Stat" && objOf(info, sel.X) == fileObj && fileObj != nil
	})
	for _, s := range stats {
		if a, ok := s.Node.(*ast.AssignStmt); ok {
			infoObj = objOf(info, a.Lhs[0])
		}
	}
	if len(okRets) == 0 || fileObj == nil || infoObj == nil {
		c.Unk(f.Name, "open / stat / successful return not found")
		return
	}
	c.requireGate(f.Name+" stat ok", f, stats, OutNil, okRets, "file returned only after it was stat'ed")
	isDir := func(e ast.Expr) bool {
		call, ok := ast.Unparen(e).(*ast.CallExpr)
		if !ok {
			return false
		}
		sel, ok := ast.Unparen(call.Fun).(*ast.SelectorExpr)
		return ok && sel.Sel.Name == "IsDir" && objOf(info, sel.X) == infoObj
	}
	c.guardSuccess(f, "not a directory", g.EdgesImplying(func(a Atom) bool { return isDir(a.E) && !a.Val }), okRets, "a directory can be returned to the file server (listing / redirect)")
	for _, r := range okRets {
		if objOf(info, r.X.(*ast.ReturnStmt).Results[0]) != fileObj {
			c.Bad(f.Name+" result", r.Pos(), "the file returned is not the one that was checked")
		}
	}
	// EXACT-FILE: the file handed to the file server is the one the request path names - the wrapped
	// file system is opened exactly once, with the unmodified name, and the variable holding the file
	// has no other definition (no fallback to a sibling object, a full tile for a missing partial, ...)
	inst := f.Name + " exact file"
	allOpens := f.Find(func(n ast.Node) bool {
		call, ok := n.(*ast.CallExpr)
		if !ok {
			return false
		}
		sel, ok := ast.Unparen(call.Fun).(*ast.SelectorExpr)
		if !ok {
			return false
		}
		switch sel.Sel.Name {
		case "Open", "OpenFile", "OpenRoot", "ReadFile", "Sub":
			return true
		}
		return false
	})
	switch {
	case len(allOpens) != 1 || len(opens) != 1:
		pos := f.Pos(f.Decl)
		if len(allOpens) > 1 {
			pos = allOpens[1].Pos()
		}
		c.Bad(inst, pos, fmt.Sprintf("the file system is opened %d time(s), %d of them with the requested name itself: a response can come from a file other than the one the path names", len(allOpens), len(opens)))
	case len(f.Defs(fileObj)) != 1:
		c.Bad(inst, opens[0].Pos(), "the file variable is redefined after the open: the file served may not be the one the path names")
	default:
		// the wrapped file system is the struct's own field
		sel := ast.Unparen(opens[0].X.(*ast.CallExpr).Fun).(*ast.SelectorExpr)
		if r, pth, ok := fieldPath(info, sel.X); !ok || r != f.recvObj() || len(pth) != 1 {
			c.Bad(inst, opens[0].Pos(), "Open does not delegate to the wrapped file system of the receiver")
		} else if np := f.paramObj("name"); np == nil || len(f.Defs(np)) != 0 {
			c.Bad(inst, opens[0].Pos(), "the requested name is rewritten before the open")
		} else {
			c.OK(inst, "one Open(name) on the wrapped file system, result returned unchanged", []string{opens[0].Pos()})
		}
	}
}

// routeHeaders extracts, for each logMux.HandleFunc(pattern, literal), the
// headers set unconditionally and per `switch tile.L` case.
type routeInfo struct {
	pattern string
	base    map[string]string
	cases   map[string]map[string]string // "-1", "-2", "default"
	pos     string
	limited bool
}

func headerSets(f *Func, list []ast.Stmt, out map[string]string) {
	info := f.Info()
	for _, st := range list {
		es, ok := st.(*ast.ExprStmt)
		if !ok {
			continue
		}
		call, ok := es.X.(*ast.CallExpr)
		if !ok || !matchCallee(info, call, Callee{"net/http", "Header", "Set"}) || len(call.Args) != 2 {
			continue
		}
		k, ok1 := constString(info, call.Args[0])
		v, ok2 := constString(info, call.Args[1])
		if ok1 && ok2 {
			out[k] = v
		}
	}
}

func skylightRoutes(c *Ctx) []routeInfo {
	m := c.P.Fn("skylight.main")
	if m == nil {
		return nil
	}
	info := m.Info()
	var out []routeInfo
	for _, s := range m.Calls(Callee{"net/http", "ServeMux", "HandleFunc"}) {
		pat, ok := constString(info, s.Call.Args[0])
		if !ok {
			continue
		}
		lit, ok := ast.Unparen(s.Call.Args[1]).(*ast.FuncLit)
		if !ok {
			continue
		}
		lf := c.P.FuncOfLit(lit)
		ri := routeInfo{pattern: pat, base: map[string]string{}, cases: map[string]map[string]string{}, pos: s.Pos()}
		headerSets(lf, lit.Body.List, ri.base)
		for _, st := range lit.Body.List {
			sw, ok := st.(*ast.SwitchStmt)
			if !ok || sw.Tag == nil {
				continue
			}
			if _, p, ok := fieldPath(info, sw.Tag); !ok || len(p) != 1 || p[0] != "L" {
				continue
			}
			for _, cl := range sw.Body.List {
				cc := cl.(*ast.CaseClause)
				key := "default"
				if len(cc.List) == 1 {
					if v, ok := constInt(info, cc.List[0]); ok {
						key = fmt.Sprint(v)
					}
				}
				hs := map[string]string{}
				headerSets(lf, cc.Body, hs)
				ri.cases[key] = hs
			}
		}
		ri.limited = len(lf.Find(func(n ast.Node) bool {
			call, ok := n.(*ast.CallExpr)
			if !ok {
				return false
			}
			fn, ok := calleeObj(info, call).(*types.Func)
			return ok && fn.Name() == "rateLimitedHandlerFromContext"
		})) > 0
		out = append(out, ri)
	}
	return out
}

func mergeHeaders(a, b map[string]string) map[string]string {
	o := map[string]string{}
	for k, v := range a {
		o[k] = v
	}
	for k, v := range b {
		o[k] = v
	}
	return o
}

func headerString(h map[string]string) string {
	var ks []string
	for k, v := range h {
		// only the headers the layout prescribes; additional headers are free
		if k != "Content-Type" && k != "Content-Encoding" && k != "Cache-Control" {
			continue
		}
		ks = append(ks, k+": "+v)
	}
	sort.Strings(ks)
	return strings.Join(ks, " | ")
}

const immutableCC = "public, max-age=604800, immutable"

// servedHeaders returns the headers skylight serves per object class.
func servedHeaders(c *Ctx) map[string]map[string]string {
	out := map[string]map[string]string{}
	for _, r := range skylightRoutes(c) {
		switch r.pattern {
		case "GET /checkpoint":
			out["checkpoint"] = r.base
		case "GET /log.v3.json":
			out["log.v3.json"] = r.base
		case "GET /issuer/{issuer}":
			out["issuer"] = r.base
		case "GET /tile/{tile...}":
			out["tile"] = mergeHeaders(r.base, r.cases["default"])
			out["data"] = mergeHeaders(r.base, r.cases["-1"])
			out["names"] = mergeHeaders(r.base, r.cases["-2"])
		}
	}
	return out
}

func c19c(c *Ctx) {
	// frozen from names-tiles.md, README (skylight section) and the property statement
	want := map[string]string{
		"checkpoint":  "Cache-Control: no-store | Content-Type: text/plain; charset=utf-8",
		"log.v3.json": "Content-Type: application/json",
		"issuer":      "Cache-Control: " + immutableCC + " | Content-Type: application/pkix-cert",
		"tile":        "Cache-Control: " + immutableCC + " | Content-Type: application/octet-stream",
		"data":        "Cache-Control: " + immutableCC + " | Content-Encoding: gzip | Content-Type: application/octet-stream",
		"names":       "Cache-Control: " + immutableCC + " | Content-Encoding: gzip | Content-Type: application/jsonl; charset=utf-8",
	}
	got := servedHeaders(c)
	for class, w := range want {
		inst := "route headers: " + class
		h, ok := got[class]
		if !ok {
			c.Bad(inst, "cmd/skylight/skylight.go", "no route serves this object class")
			continue
		}
		if g := headerString(h); g == w {
			c.OK(inst, g, nil)
		} else {
			c.Bad(inst, "cmd/skylight/skylight.go", fmt.Sprintf("served with {%s}, the layout prescribes {%s}", g, w))
		}
	}
	// the tile level is parsed from the request path with the log's parser (falling back to the mirror's)
	m := c.P.Fn("skylight.main")
	if m != nil {
		for _, l := range allLits(m) {
			parses := l.Calls(Callee{pkgRoot, "", "ParseTilePath"})
			if len(parses) == 0 {
				continue
			}
			info := l.Info()
			ok := false
			if be, isB := ast.Unparen(l.ResolveDeep(parses[0].Call.Args[0]).E).(*ast.BinaryExpr); isB && be.Op == token.ADD {
				if s, _ := constString(info, be.X); s == "tile/" {
					if pv, isC := ast.Unparen(be.Y).(*ast.CallExpr); isC && matchCallee(info, pv, Callee{"net/http", "Request", "PathValue"}) {
						ok = true
					}
				}
			}
			if ok {
				c.OK("tile route parses its own path", "ParseTilePath(\"tile/\" + r.PathValue(\"tile\"))", []string{parses[0].Pos()})
			} else {
				c.Bad("tile route parses its own path", parses[0].Pos(), "the tile level used for the headers is not parsed from the requested tile path")
			}
		}
	}
}

// optsOf reads the UploadOptions literal of a package-level variable.
func optsOf(p *Program, pkg, name string) (ct string, comp, immu, ok bool) {
	pk := p.Pkgs[pkg]
	if pk == nil {
		return
	}
	for _, file := range pk.Syntax {
		for _, d := range file.Decls {
			gd, isG := d.(*ast.GenDecl)
			if !isG || gd.Tok != token.VAR {
				continue
			}
			for _, sp := range gd.Specs {
				vs := sp.(*ast.ValueSpec)
				for i, nm := range vs.Names {
					if nm.Name != name || i >= len(vs.Values) {
						continue
					}
					e := vs.Values[i]
					if u, isU := ast.Unparen(e).(*ast.UnaryExpr); isU {
						e = u.X
					}
					cl, isCl := ast.Unparen(e).(*ast.CompositeLit)
					if !isCl {
						return
					}
					ct, _ = constString(pk.TypesInfo, orEmpty(compositeField(pk.TypesInfo, cl, "ContentType", -1)))
					comp, _ = constBool(pk.TypesInfo, orEmpty(compositeField(pk.TypesInfo, cl, "Compressed", -1)))
					immu, _ = constBool(pk.TypesInfo, orEmpty(compositeField(pk.TypesInfo, cl, "Immutable", -1)))
					return ct, comp, immu, true
				}
			}
		}
	}
	return
}

func c19d(c *Ctx) {
	served := servedHeaders(c)
	type pair struct{ pkg, v, class string }
	for _, pr := range []pair{
		{pkgCtlog, "optsCheckpoint", "checkpoint"}, {pkgCtlog, "optsIssuer", "issuer"}, {pkgCtlog, "optsHashTile", "tile"},
		{pkgCtlog, "optsDataTile", "data"}, {pkgCtlog, "optsNamesTile", "names"},
		{pkgWitness, "optsCheckpoint", "checkpoint"}, {pkgWitness, "optsHashTile", "tile"}, {pkgWitness, "optsDataTile", "data"},
	} {
		inst := fmt.Sprintf("%s.%s <-> %s route", shortPkg(pr.pkg), pr.v, pr.class)
		ct, comp, immu, ok := optsOf(c.P, pr.pkg, pr.v)
		h, ok2 := served[pr.class]
		if !ok || !ok2 {
			c.Unk(inst, "writer option variable or route not found")
			continue
		}
		if ct == "" {
			ct = "application/octet-stream" // documented default of UploadOptions.ContentType
		}
		var bad []string
		if h["Content-Type"] != ct {
			bad = append(bad, fmt.Sprintf("writer stores Content-Type %q, server sends %q", ct, h["Content-Type"]))
		}
		if comp != (h["Content-Encoding"] == "gzip") {
			bad = append(bad, fmt.Sprintf("writer Compressed=%v but server Content-Encoding=%q", comp, h["Content-Encoding"]))
		}
		if immu != (h["Cache-Control"] == immutableCC) {
			bad = append(bad, fmt.Sprintf("writer Immutable=%v but server Cache-Control=%q", immu, h["Cache-Control"]))
		}
		if len(bad) > 0 {
			c.Bad(inst, "cmd/skylight/skylight.go", strings.Join(bad, "; "))
		} else {
			c.add(Result{Instance: inst, Verdict: Discharged, Evals: 3, Detail: fmt.Sprintf("ContentType=%q gzip=%v immutable=%v on both sides", ct, comp, immu)})
		}
	}
	// S3 backend derives the same cache-control string from Immutable, gzip from Compressed
	if f := c.Fn("ctlog.(*S3Backend).Upload"); f != nil {
		info := f.Info()
		found := map[string]bool{}
		ast.Inspect(f.Body, func(n ast.Node) bool {
			if e, ok := n.(ast.Expr); ok {
				if s, ok := constString(info, e); ok {
					found[s] = true
				}
			}
			return true
		})
		if found[immutableCC] && found["gzip"] {
			c.OK("S3 backend header derivation", "Immutable -> \""+immutableCC+"\", Compressed -> gzip (same strings as skylight)", []string{f.Pos(f.Decl)})
		} else {
			c.Bad("S3 backend header derivation", f.Pos(f.Decl), "the S3 backend's cache-control / content-encoding strings differ from the read-path server's")
		}
	}
}

func c19e(c *Ctx) {
	m := c.Fn("skylight.main")
	if m == nil {
		return
	}
	info := m.Info()
	// the re-prefixing handler
	n := 0
	for _, l := range allLits(m) {
		for _, s := range l.Find(func(x ast.Node) bool {
			a, ok := x.(*ast.AssignStmt)
			if !ok || len(a.Lhs) != 1 || len(a.Rhs) != 1 {
				return false
			}
			_, p, ok := fieldPath(info, a.Lhs[0])
			return ok && len(p) == 2 && p[0] == "URL" && p[1] == "Path"
		}) {
			n++
			a := s.X.(*ast.AssignStmt)
			v := l.ResolveDeep(a.Rhs[0])
			be, ok := ast.Unparen(v.E).(*ast.BinaryExpr)
			okExpr := false
			if ok && be.Op == token.ADD {
				if call, isC := ast.Unparen(be.X).(*ast.CallExpr); isC {
					if fn, isF := calleeObj(info, call).(*types.Func); isF && fn.Name() == "filePrefixFromContext" {
						if _, p, okp := fieldPath(info, be.Y); okp && len(p) == 2 && p[0] == "URL" && p[1] == "Path" {
							okExpr = true
						}
					}
				}
			}
			if okExpr {
				c.OK("witness file path", "served path = filePrefixFromContext(ctx) + r.URL.Path", []string{s.Pos()})
			} else {
				c.Bad("witness file path", s.Pos(), "the witness handler does not serve filePrefix + the stripped request path")
			}
		}
	}
	if n == 0 {
		c.Unk("witness file path", "re-prefixing handler not found")
	}
	// the prefix stored in the context and the prefix stripped agree
	for _, l := range allLits(m) {
		var ctxPrefix, strip ast.Expr
		var pos string
		for _, s := range l.Find(func(x ast.Node) bool {
			call, ok := x.(*ast.CallExpr)
			return ok && matchCallee(info, call, Callee{"context", "", "WithValue"}) && len(call.Args) == 3
		}) {
			if cl, ok := ast.Unparen(s.Call.Args[1]).(*ast.CompositeLit); ok {
				if tv, has := info.Types[cl]; has && namedIs(tv.Type, pkgSkylight, "filePrefixContextKey") {
					ctxPrefix = s.Call.Args[2]
					pos = s.Pos()
				}
			}
		}
		for _, s := range l.Calls(Callee{"net/http", "", "StripPrefix"}) {
			strip = s.Call.Args[0]
		}
		if ctxPrefix == nil {
			continue
		}
		inst := "witness prefix agreement at " + pos
		// ctxPrefix = "<seg>" + origin ; strip = prefix.Path + "<seg>" + origin, origin = r.PathValue("origin")
		flat := func(e ast.Expr) []string {
			var parts []string
			var walk func(x ast.Expr)
			walk = func(x ast.Expr) {
				if be, ok := ast.Unparen(x).(*ast.BinaryExpr); ok && be.Op == token.ADD {
					walk(be.X)
					walk(be.Y)
					return
				}
				if s, ok := constString(info, x); ok {
					parts = append(parts, "\""+s+"\"")
					return
				}
				v := l.ResolveDeep(x)
				if call, ok := ast.Unparen(v.E).(*ast.CallExpr); ok && matchCallee(info, call, Callee{"net/http", "Request", "PathValue"}) {
					pv, _ := constString(info, call.Args[0])
					parts = append(parts, "PathValue("+pv+")")
					return
				}
				parts = append(parts, exprString(x))
			}
			walk(e)
			return parts
		}
		a, b := flat(ctxPrefix), flat(strip)
		// merge adjacent constants
		join := func(p []string) string { return strings.ReplaceAll(strings.Join(p, "+"), "\"+\"", "") }
		ja, jb := join(a), join(b)
		if strip != nil && strings.HasSuffix(jb, ja) && strings.Contains(ja, "PathValue(origin)") {
			c.add(Result{Instance: inst, Verdict: Discharged, Evals: 2, Sites: []string{pos}, Detail: "stored prefix " + ja + " is the suffix of the stripped prefix " + jb})
		} else {
			c.Bad(inst, pos, "the prefix put back in front of the path ("+ja+") is not the origin segment that was stripped ("+jb+")")
		}
	}
}
