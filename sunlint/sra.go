package main

// N4 - scalar replacement of local aggregates.
//
// A refactor that "introduces a small struct to pass several values" makes a
// value travel through a field of a local struct (h := hdrs{ct: x}; use(h.ct)).
// The rules follow values through local variables, not through fields of local
// aggregates, so before they run a local variable v of struct type S (or *S)
// that is only ever
//
//   - defined from a composite literal S{...} / &S{...}, from nil, from its zero
//     value (var v S) or from another such variable, and
//   - used through a directly selected field v.f (read or written, never
//     address-taken), or compared with nil,
//
// is replaced by one variable per field (plus a "is nil" flag for *S). This is
// what a compiler's SROA pass does, at source level; it keeps the order of all
// evaluations. A pointer variable that is copied from another candidate is only
// replaced when no field is written through either (the copies would alias).
// Everything else (v passed to a call, returned, stored, address-taken, ranged
// over, a method called on it) leaves v alone.

import (
	"fmt"
	"go/ast"
	"go/token"
	"go/types"
	"sort"
	"strings"
)

type sraVar struct {
	obj     *types.Var
	st      *types.Struct
	ptr     bool
	idx     int
	ok      bool
	why     string
	written bool         // some field is written
	deps    []*types.Var // copied from / to
	selUses int
	fields  []string
	ftypes  []string
}

func (v *sraVar) fname(i int) string {
	return fmt.Sprintf("_sra%d_%s_%s", v.idx, v.obj.Name(), v.fields[i])
}
func (v *sraVar) nilname() string { return fmt.Sprintf("_sra%d_%s_isnil", v.idx, v.obj.Name()) }

func (nz *normalizer) collectSRA() map[string][]srcEdit {
	out := map[string][]srcEdit{}
	p := nz.p
	for _, pk := range p.All {
		for _, file := range pk.Syntax {
			tf := p.Fset.File(file.Pos())
			if tf == nil {
				continue
			}
			name := tf.Name()
			if strings.HasSuffix(name, "_test.go") {
				continue
			}
			src, err := p.readFile(name)
			if err != nil {
				continue
			}
			fc := &fileCtx{nz: nz, pk: &pkgT{pk.TypesInfo, pk.Types}, file: file, name: name, src: src, tf: tf}
			var edits []srcEdit
			for _, d := range file.Decls {
				fd, ok := d.(*ast.FuncDecl)
				if !ok || fd.Body == nil {
					continue
				}
				edits = append(edits, fc.sraFunc(fd)...)
			}
			if len(edits) > 0 {
				out[name] = edits
			}
		}
	}
	return out
}

func inStmtList(parent ast.Node) bool {
	switch parent.(type) {
	case *ast.BlockStmt, *ast.CaseClause, *ast.CommClause:
		return true
	}
	return false
}

func (fc *fileCtx) sraFunc(fd *ast.FuncDecl) []srcEdit {
	info := fc.pk.Info
	parent := map[ast.Node]ast.Node{}
	var stack []ast.Node
	ast.Inspect(fd.Body, func(n ast.Node) bool {
		if n == nil {
			stack = stack[:len(stack)-1]
			return false
		}
		if len(stack) > 0 {
			parent[n] = stack[len(stack)-1]
		}
		stack = append(stack, n)
		return true
	})
	vars := map[*types.Var]*sraVar{}
	var order []*sraVar
	occ := map[*types.Var][]*ast.Ident{}
	consider := func(id *ast.Ident) {
		var o types.Object
		if d := info.Defs[id]; d != nil {
			o = d
		} else {
			o = info.Uses[id]
		}
		v, ok := o.(*types.Var)
		if !ok || v.IsField() || v.Pos() < fd.Body.Pos() || v.Pos() > fd.Body.End() {
			return
		}
		t := v.Type()
		ptr := false
		if pt, ok := t.(*types.Pointer); ok {
			t = pt.Elem()
			ptr = true
		}
		st, ok := t.Underlying().(*types.Struct)
		if !ok || st.NumFields() == 0 || st.NumFields() > 12 {
			return
		}
		if _, named := t.(*types.Named); !named {
			return
		}
		sv := vars[v]
		if sv == nil {
			sv = &sraVar{obj: v, st: st, ptr: ptr, ok: true, idx: len(order) + 1}
			for i := 0; i < st.NumFields(); i++ {
				f := st.Field(i)
				ts := fc.typeString(f.Type())
				if f.Embedded() || ts == "" || f.Name() == "_" || (!f.Exported() && f.Pkg() != fc.pk.Types) {
					sv.ok, sv.why = false, "field "+f.Name()
				}
				sv.fields = append(sv.fields, f.Name())
				sv.ftypes = append(sv.ftypes, ts)
			}
			vars[v] = sv
			order = append(order, sv)
		}
		occ[v] = append(occ[v], id)
	}
	ast.Inspect(fd.Body, func(n ast.Node) bool {
		if id, ok := n.(*ast.Ident); ok {
			consider(id)
		}
		return true
	})
	if len(order) == 0 {
		return nil
	}
	varOf := func(e ast.Expr) *sraVar {
		id, ok := ast.Unparen(e).(*ast.Ident)
		if !ok {
			return nil
		}
		o := info.Uses[id]
		if o == nil {
			o = info.Defs[id]
		}
		v, _ := o.(*types.Var)
		if v == nil {
			return nil
		}
		return vars[v]
	}
	isNil := func(e ast.Expr) bool {
		id, ok := ast.Unparen(e).(*ast.Ident)
		if !ok {
			return false
		}
		_, isnil := info.Uses[id].(*types.Nil)
		return isnil
	}
	// source kinds: 0 not acceptable, 1 literal, 2 nil, 3 copy
	source := func(sv *sraVar, rhs ast.Expr) (kind int, lit *ast.CompositeLit, from *sraVar) {
		rhs = ast.Unparen(rhs)
		if sv.ptr {
			if isNil(rhs) {
				return 2, nil, nil
			}
			if u, ok := rhs.(*ast.UnaryExpr); ok && u.Op == token.AND {
				if cl, ok := ast.Unparen(u.X).(*ast.CompositeLit); ok && types.Identical(info.TypeOf(rhs), sv.obj.Type()) {
					return 1, cl, nil
				}
			}
		} else if cl, ok := rhs.(*ast.CompositeLit); ok && types.Identical(info.TypeOf(rhs), sv.obj.Type()) {
			return 1, cl, nil
		}
		if w := varOf(rhs); w != nil && w != sv && types.Identical(w.obj.Type(), sv.obj.Type()) {
			return 3, nil, w
		}
		return 0, nil, nil
	}
	litOK := func(sv *sraVar, cl *ast.CompositeLit) bool {
		for i, el := range cl.Elts {
			if kv, ok := el.(*ast.KeyValueExpr); ok {
				k, ok := kv.Key.(*ast.Ident)
				if !ok {
					return false
				}
				found := false
				for _, f := range sv.fields {
					if f == k.Name {
						found = true
					}
				}
				if !found {
					return false
				}
			} else if i >= len(sv.fields) || len(cl.Elts) != len(sv.fields) {
				return false
			}
		}
		return true
	}
	type stmtRewrite struct {
		stmt ast.Node // *ast.AssignStmt or *ast.DeclStmt
	}
	rewrites := map[ast.Node]bool{}
	reject := func(sv *sraVar, why string) {
		if sv.ok {
			sv.ok, sv.why = false, why
		}
	}
	for _, sv := range order {
		for _, id := range occ[sv.obj] {
			if !sv.ok {
				break
			}
			par := parent[id]
			for {
				if pe, ok := par.(*ast.ParenExpr); ok {
					par = parent[pe]
					continue
				}
				break
			}
			switch x := par.(type) {
			case *ast.SelectorExpr:
				if x.X != ast.Expr(id) && ast.Unparen(x.X) != ast.Expr(id) {
					reject(sv, "selector")
					break
				}
				sel := info.Selections[x]
				if sel == nil || sel.Kind() != types.FieldVal || len(sel.Index()) != 1 {
					reject(sv, "method or promoted field "+x.Sel.Name)
					break
				}
				gp := parent[x]
				for {
					if pe, ok := gp.(*ast.ParenExpr); ok {
						gp = parent[pe]
						continue
					}
					break
				}
				switch g := gp.(type) {
				case *ast.UnaryExpr:
					if g.Op == token.AND {
						reject(sv, "address of field")
					}
				case *ast.AssignStmt:
					for _, l := range g.Lhs {
						if ast.Unparen(l) == ast.Expr(x) {
							sv.written = true
						}
					}
				case *ast.IncDecStmt:
					sv.written = true
				case *ast.RangeStmt:
					if g.Key == ast.Expr(x) || g.Value == ast.Expr(x) {
						reject(sv, "range target")
					}
				}
				sv.selUses++
			case *ast.AssignStmt:
				if (x.Tok != token.ASSIGN && x.Tok != token.DEFINE) || len(x.Lhs) != len(x.Rhs) || !inStmtList(parent[x]) {
					reject(sv, "assignment form")
					break
				}
				done := false
				for i := range x.Lhs {
					if ast.Unparen(x.Lhs[i]) == ast.Expr(id) {
						k, cl, from := source(sv, x.Rhs[i])
						switch {
						case k == 0:
							reject(sv, "defined from "+fc.text(x.Rhs[i].Pos(), x.Rhs[i].End()))
						case k == 1 && !litOK(sv, cl):
							reject(sv, "literal form")
						case k == 3:
							sv.deps = append(sv.deps, from.obj)
							from.deps = append(from.deps, sv.obj)
						}
						done = true
					}
					if ast.Unparen(x.Rhs[i]) == ast.Expr(id) {
						if b, isB := x.Lhs[i].(*ast.Ident); isB && b.Name == "_" {
							// `_ = v`: a use that keeps the compiler quiet
						} else if w := varOf(x.Lhs[i]); w == nil || w == sv || !types.Identical(w.obj.Type(), sv.obj.Type()) {
							reject(sv, "copied into something else")
						}
						done = true
					}
				}
				if !done {
					reject(sv, "assignment operand")
				}
				rewrites[x] = true
			case *ast.ValueSpec:
				gd, _ := parent[x].(*ast.GenDecl)
				ds, _ := parent[gd].(*ast.DeclStmt)
				if gd == nil || ds == nil || len(gd.Specs) != 1 || len(x.Names) != 1 || x.Names[0] != id || !inStmtList(parent[ds]) || len(x.Values) > 1 {
					reject(sv, "declaration form")
					break
				}
				if len(x.Values) == 1 {
					k, cl, from := source(sv, x.Values[0])
					switch {
					case k == 0:
						reject(sv, "declared from something else")
					case k == 1 && !litOK(sv, cl):
						reject(sv, "literal form")
					case k == 3:
						sv.deps = append(sv.deps, from.obj)
						from.deps = append(from.deps, sv.obj)
					}
				}
				rewrites[ds] = true
			case *ast.BinaryExpr:
				if !sv.ptr || (x.Op != token.EQL && x.Op != token.NEQ) {
					reject(sv, "comparison")
					break
				}
				other := x.Y
				if ast.Unparen(x.Y) == ast.Expr(id) {
					other = x.X
				}
				if !isNil(other) {
					reject(sv, "comparison with a non-nil value")
				}
			default:
				reject(sv, fmt.Sprintf("used as %T", par))
			}
		}
	}
	// a declaration with := must be in a statement list (checked above); labelled statements are left alone
	for n := range rewrites {
		if _, ok := parent[n].(*ast.LabeledStmt); ok {
			for _, sv := range order {
				sv.ok = false
			}
		}
	}
	// fixpoint over copies
	for changed := true; changed; {
		changed = false
		for _, sv := range order {
			if !sv.ok {
				continue
			}
			for _, d := range sv.deps {
				w := vars[d]
				if w == nil || !w.ok {
					reject(sv, "copy partner "+d.Name()+" stays")
					changed = true
					break
				}
				if sv.ptr && (sv.written || w.written) {
					reject(sv, "pointer copy with field writes")
					reject(w, "pointer copy with field writes")
					changed = true
					break
				}
			}
		}
	}
	any := false
	for _, sv := range order {
		if sv.ok && sv.selUses == 0 && len(sv.deps) == 0 {
			sv.ok = false
		}
		if sv.ok {
			any = true
		} else if normDebug && sv.why != "" {
			dbg("sra: %s in %s stays: %s", sv.obj.Name(), fd.Name.Name, sv.why)
		}
	}
	if !any {
		return nil
	}
	// every variable on the left of a rewritten statement that is a candidate must be ok, or the
	// statement is left alone for that position (handled per position below)

	// leaf edits: selectors and nil comparisons
	var leaves []srcEdit
	for _, sv := range order {
		if !sv.ok {
			continue
		}
		for _, id := range occ[sv.obj] {
			par := parent[id]
			for {
				if pe, ok := par.(*ast.ParenExpr); ok {
					par = parent[pe]
					continue
				}
				break
			}
			switch x := par.(type) {
			case *ast.SelectorExpr:
				for i, f := range sv.fields {
					if f == x.Sel.Name {
						leaves = append(leaves, srcEdit{fc.off(x.Pos()), fc.off(x.End()), sv.fname(i)})
					}
				}
			case *ast.BinaryExpr:
				t := sv.nilname()
				if x.Op == token.NEQ {
					t = "!" + t
				}
				leaves = append(leaves, srcEdit{fc.off(x.Pos()), fc.off(x.End()), t})
			}
		}
	}
	render := func(a, b token.Pos) string {
		lo, hi := fc.off(a), fc.off(b)
		var in []srcEdit
		for _, e := range leaves {
			if e.start >= lo && e.end <= hi {
				in = append(in, srcEdit{e.start - lo, e.end - lo, e.text})
			}
		}
		return string(applySrcEdits(append([]byte(nil), fc.src[lo:hi]...), in))
	}
	zero := func(sv *sraVar, i int) string { return "*new(" + sv.ftypes[i] + ")" }
	expand := func(sv *sraVar, rhs ast.Expr) (vals []string, nilv string) {
		k, cl, from := source(sv, rhs)
		switch k {
		case 1:
			vals = make([]string, len(sv.fields))
			for i, el := range cl.Elts {
				if kv, ok := el.(*ast.KeyValueExpr); ok {
					for j, f := range sv.fields {
						if f == kv.Key.(*ast.Ident).Name {
							vals[j] = render(kv.Value.Pos(), kv.Value.End())
						}
					}
				} else {
					vals[i] = render(el.Pos(), el.End())
				}
			}
			for i := range vals {
				if vals[i] == "" {
					vals[i] = zero(sv, i)
				}
			}
			return vals, "false"
		case 2:
			for i := range sv.fields {
				vals = append(vals, zero(sv, i))
			}
			return vals, "true"
		case 3:
			for i := range from.fields {
				vals = append(vals, from.fname(i))
			}
			return vals, from.nilname()
		}
		return nil, ""
	}
	decls := func(sv *sraVar, nilInit string) string {
		var b strings.Builder
		var names []string
		for i := range sv.fields {
			fmt.Fprintf(&b, "var %s %s; ", sv.fname(i), sv.ftypes[i])
			names = append(names, sv.fname(i))
		}
		if sv.ptr {
			fmt.Fprintf(&b, "var %s bool = %s; ", sv.nilname(), nilInit)
			names = append(names, sv.nilname())
		}
		us := make([]string, len(names))
		for i := range us {
			us[i] = "_"
		}
		fmt.Fprintf(&b, "%s = %s; ", strings.Join(us, ", "), strings.Join(names, ", "))
		return b.String()
	}
	var edits []srcEdit
	covered := func(e srcEdit) bool {
		for _, s := range edits {
			if e.start >= s.start && e.end <= s.end {
				return true
			}
		}
		return false
	}
	var rw []ast.Node
	for n := range rewrites {
		rw = append(rw, n)
	}
	sort.Slice(rw, func(i, j int) bool { return rw[i].Pos() < rw[j].Pos() })
	for _, n := range rw {
		switch x := n.(type) {
		case *ast.AssignStmt:
			var pre, post strings.Builder
			var lhs, rhs []string
			touched := false
			anyNew := false
			for i := range x.Lhs {
				sv := varOf(x.Lhs[i])
				if sv == nil || !sv.ok {
					lhs = append(lhs, render(x.Lhs[i].Pos(), x.Lhs[i].End()))
					if rv := varOf(x.Rhs[i]); rv != nil && rv.ok {
						// `_ = v`
						rhs = append(rhs, rv.fname(0))
						touched = true
					} else {
						rhs = append(rhs, render(x.Rhs[i].Pos(), x.Rhs[i].End()))
					}
					if id, ok := x.Lhs[i].(*ast.Ident); ok && x.Tok == token.DEFINE && info.Defs[id] != nil && id.Name != "_" {
						anyNew = true
					}
					continue
				}
				touched = true
				vals, nilv := expand(sv, x.Rhs[i])
				if id, ok := ast.Unparen(x.Lhs[i]).(*ast.Ident); ok && x.Tok == token.DEFINE && info.Defs[id] != nil {
					pre.WriteString(decls(sv, "true"))
				}
				for j := range sv.fields {
					lhs = append(lhs, sv.fname(j))
					rhs = append(rhs, vals[j])
				}
				if sv.ptr {
					fmt.Fprintf(&post, "; %s = %s", sv.nilname(), nilv)
				}
			}
			if !touched {
				continue
			}
			tok := "="
			if anyNew {
				tok = ":="
			}
			text := pre.String() + strings.Join(lhs, ", ") + " " + tok + " " + strings.Join(rhs, ", ") + post.String()
			edits = append(edits, srcEdit{fc.off(x.Pos()), fc.off(x.End()), text})
		case *ast.DeclStmt:
			vs := x.Decl.(*ast.GenDecl).Specs[0].(*ast.ValueSpec)
			sv := vars[info.Defs[vs.Names[0]].(*types.Var)]
			if sv == nil || !sv.ok {
				continue
			}
			text := decls(sv, "true")
			if len(vs.Values) == 1 {
				vals, nilv := expand(sv, vs.Values[0])
				var names []string
				for j := range sv.fields {
					names = append(names, sv.fname(j))
				}
				text += strings.Join(names, ", ") + " = " + strings.Join(vals, ", ")
				if sv.ptr {
					text += "; " + sv.nilname() + " = " + nilv
				}
			} else {
				text = strings.TrimSuffix(text, "; ")
			}
			edits = append(edits, srcEdit{fc.off(x.Pos()), fc.off(x.End()), text})
		}
	}
	for _, e := range leaves {
		if !covered(e) {
			edits = append(edits, e)
		}
	}
	for _, sv := range order {
		if sv.ok {
			fc.nz.sra = append(fc.nz.sra, fd.Name.Name+"."+sv.obj.Name())
		}
	}
	return edits
}
