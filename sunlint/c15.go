package main

// C15 - a mirror cosignature implies a complete, correct, servable copy.

import (
	"fmt"
	"go/ast"
	"go/types"
	"golang.org/x/tools/go/cfg"
	"strings"
)

func init() {
	register(&Property{
		ID:    "C15",
		Title: "A mirror cosignature implies a complete, correct, servable copy",
		Explanation: "Guard-dominance, must-pass-through, value-flow, who-may-write and table-agreement obligations on serveAddEntries, processAddEntriesMetadata/Packages/Package/Commit, ensureCutTiles, mirrorConflict and verifyTicket. " +
			"Decided: the mirror signature leaves the commit only with the upload frontier at or beyond the checkpoint size, the checkpoint not behind the mirror checkpoint, the cut tiles ensured, the lock-store CAS and the public upload succeeded; in an entry package every tile upload and the frontier advance follow a successful subtree proof of the recomputed hash against the resolved checkpoint, the frontier only moves forward and has no other writer; the checkpoint an upload is authenticated against is resolved only on size equality with the pending, mirror or ticket checkpoint; the three phases run in order on one resolved checkpoint; ensureCutTiles returns nil only for an aligned size, an existing cut tile, or after both cut tiles were uploaded; ticket sealing and opening bind the same associated data and the opened ticket is re-verified against the witness's own ML-DSA cosignature and origin. " +
			"NOT decided: tile contents, range arithmetic (rounded starts, overlay widths), restart behaviour (runtime).",
		Assumptions: []string{"torchwood.CheckSubtree / SubtreeHash / HashReaderOverlay are correct", "Backend.Upload is durable when it returns", "XAES-256-GCM is an AEAD"},
		Obligations: []*Obligation{
			{ID: "C15.a", Title: "COMMIT-GUARDS", Template: "T1+T2", MinInst: 6,
				Rule: "processAddEntriesCommit's success is unreachable once any guard's safe edges are cut: nextEntry >= pending.N, pending.N >= mirror.N, ensureCutTiles ok, Lock.Replace ok, public upload ok; what is signed is the pending checkpoint's re-encoding with the mirror key", Run: c15a},
			{ID: "C15.b", Title: "PACKAGE-AUTH", Template: "T1", MinInst: 4,
				Rule: "in processAddEntriesPackage every Backend.Upload and the frontier store follow CheckSubtree success against pending; the store is guarded by end > nextEntry; logState.nextEntry has no other advancing writer", Run: c15b},
			{ID: "C15.c", Title: "RESOLVE", Template: "T2", MinInst: 3,
				Rule: "each assignment of the resolved checkpoint is dominated by uploadEnd == <that checkpoint>.N; a nil resolution returns a conflict", Run: c15c},
			{ID: "C15.d", Title: "PHASE-ORDER", Template: "T1", MinInst: 3,
				Rule: "serveAddEntries runs metadata -> packages -> commit, each only after the previous returned no error, with the packages and the commit on the checkpoint returned by the metadata phase and the packages' upload end equal to its size", Run: c15d},
			{ID: "C15.e", Title: "CUT-TILES", Template: "T2", MinInst: 1,
				Rule: "ensureCutTiles returns nil only when the size is tile-aligned, the cut hash tile already exists, or after both cut tiles were uploaded successfully", Run: c15e},
			{ID: "C15.f", Title: "TICKET", Template: "T5+T2", MinInst: 3,
				Rule: "associated data is built identically when sealing and opening; an opened ticket is accepted only after AEAD open, note.Open with the witness's own ML-DSA verifier, and origin equality", Run: c15f},
			{ID: "C15.g", Title: "STATE-LOCK", Template: "T3", MinInst: 10,
				Rule: "mirror state is accessed under the per-log mutex (as C14.e)", Run: c14e},
			{ID: "C15.i", Title: "SERVABLE", Template: "T1+T2+T6", MinInst: 3,
				Rule: "inside the NewTiles loop of the package processor, on the tile.L == 0 edge the hash-tile upload is reached only after the entry-bundle upload, whose key is the L = -1 copy of that tile; an upload is accepted only when uploadStart <= the frontier read under the lock", Run: c15i},
		},
	})
}

func c15a(c *Ctx) {
	f := c.Fn("witness.(*Witness).processAddEntriesCommit")
	if f == nil {
		return
	}
	info := f.Info()
	g := f.Graph()
	recv := f.recvObj()
	okRets := successReturns(f)
	pend := f.paramObj("pending")
	var mirr, next types.Object
	mcl := f.Calls(Callee{pkgWitness, "logState", "mirrorCheckpointLocked"})
	for _, s := range mcl {
		if a, ok := s.Node.(*ast.AssignStmt); ok && len(a.Lhs) == 3 {
			mirr, next = objOf(info, a.Lhs[0]), objOf(info, a.Lhs[1])
		}
	}
	if len(okRets) == 0 || mirr == nil || next == nil {
		c.Unk(f.Name, "mirror checkpoint / next entry / success return not found")
		return
	}
	fld := func(o types.Object, name string) func(ast.Expr) bool {
		return func(e ast.Expr) bool {
			r, p, ok := fieldPath(info, e)
			return ok && r == o && len(p) == 1 && p[0] == name
		}
	}
	isNext := func(e ast.Expr) bool { return objOf(info, e) == next }
	c.requireGate(f.Name+" mirror state read", f, mcl, OutNil, okRets, "commit only after the mirror checkpoint and frontier were read")
	c.guardSuccess(f, "frontier >= checkpoint size", g.EdgesImplying(func(a Atom) bool { rel, ok := cmpRel(a, isNext, fld(pend, "N")); return ok && rel&relLT == 0 }), okRets,
		"a mirror checkpoint can be signed although entries below its size were never uploaded")
	c.guardSuccess(f, "checkpoint >= mirror checkpoint", g.EdgesImplying(func(a Atom) bool { rel, ok := cmpRel(a, fld(pend, "N"), fld(mirr, "N")); return ok && rel&relLT == 0 }), okRets,
		"the mirror checkpoint can move backwards")
	c.guardSuccess(f, "mirror state is this origin's", g.EdgesImplying(func(a Atom) bool {
		rel, ok := cmpRel(a, fld(pend, "Origin"), fld(mirr, "Origin"))
		return ok && rel == relEQ
	}), okRets,
		"a checkpoint of one log can be committed against the mirror state of another")
	ect := f.Calls(Callee{pkgWitness, "Witness", "ensureCutTiles"})
	c.requireGate(f.Name+" cut tiles ensured", f, ect, OutNil, okRets, "signature only after the partial tiles cut at the checkpoint size exist")
	for _, s := range ect {
		if objOf(info, argByName(info, s.Call, "pending")) != pend || objOf(info, argByName(info, s.Call, "nextEntry")) != next {
			c.Bad(f.Name+" cut tiles operands", s.Pos(), "cut tiles are ensured for a checkpoint / frontier other than the ones being committed")
		}
	}
	repl := f.Calls(specLockRepl)
	c.requireGate(f.Name+" CAS before release", f, repl, OutNil, okRets, "signature returned only after the mirror checkpoint was recorded")
	var ups []Site
	for _, s := range f.Calls(specUpload) {
		ups = append(ups, s)
	}
	c.requireGate(f.Name+" published before release", f, ups, OutNil, okRets, "signature returned only after the mirror checkpoint was uploaded")
	// signed = note.Sign(&Note{Text: pending.String(), Sigs: pending.UnverifiedSigs}, w.sm)
	signs := f.Calls(Callee{pkgNote, "", "Sign"})
	if len(signs) == 1 {
		s := signs[0]
		nl := s.Call.Args[0]
		if u, ok := ast.Unparen(nl).(*ast.UnaryExpr); ok {
			nl = u.X
		}
		okText, okSigner := false, false
		if cl, ok := ast.Unparen(nl).(*ast.CompositeLit); ok {
			if t := compositeField(info, cl, "Text", -1); t != nil {
				if call, isC := ast.Unparen(t).(*ast.CallExpr); isC {
					if sel, isS := ast.Unparen(call.Fun).(*ast.SelectorExpr); isS && sel.Sel.Name == "String" && objOf(info, sel.X) == pend {
						okText = true
					}
				}
			}
		}
		okSigner = len(s.Call.Args) == 2 && f.IsFieldPathOf(s.Call.Args[1], func(o types.Object) bool { return o == recv }, "sm")
		var signedObj types.Object
		if a, ok := s.Node.(*ast.AssignStmt); ok {
			signedObj = objOf(info, a.Lhs[0])
		}
		okStore := len(repl) > 0 && objOf(info, argByName(info, repl[0].Call, "new")) == signedObj
		okUp := len(ups) > 0 && objOf(info, argByName(info, ups[0].Call, "data")) == signedObj
		if okText && okSigner && okStore && okUp {
			c.add(Result{Instance: f.Name + " signed value", Verdict: Discharged, Evals: 4, Sites: []string{s.Pos()}, Detail: "Sign({Text: pending.String()}, sm); that note is recorded and uploaded"})
		} else {
			c.Bad(f.Name+" signed value", s.Pos(), fmt.Sprintf("the mirror signature is not over the committed checkpoint with the mirror key, or another value is recorded/uploaded (text=%v signer=%v recorded=%v uploaded=%v)", okText, okSigner, okStore, okUp))
		}
	} else {
		c.Unk(f.Name+" signed value", "note.Sign call not found")
	}
	// the CAS operand and unknown outcome
	for _, s := range repl {
		if _, ok := fieldSel(info, argByName(info, s.Call, "old"), pkgWitness, "logState", "mirrorCheckpoint"); !ok {
			c.Bad(f.Name+" CAS operand", s.Pos(), "the CAS does not compare against the recorded mirror checkpoint")
		}
	}
}

func c15b(c *Ctx) {
	f := c.Fn("witness.(*Witness).processAddEntriesPackage")
	if f == nil {
		return
	}
	info := f.Info()
	g := f.Graph()
	pend := f.paramObj("pending")
	cs := f.Calls(Callee{pkgTorch, "", "CheckSubtree"})
	ups := f.Calls(specUpload)
	ne := c.P.fieldVar(pkgWitness, "logState", "nextEntry")
	var stores []Site
	for _, st := range f.StoresTo(ne) {
		stores = append(stores, st.Site)
	}
	if len(cs) != 1 || len(ups) == 0 || len(stores) == 0 {
		c.Unk(f.Name, fmt.Sprintf("anchors: CheckSubtree=%d uploads=%d frontier stores=%d", len(cs), len(ups), len(stores)))
		return
	}
	c.requireGate(f.Name+" uploads after authentication", f, cs, OutNil, ups, "tiles written only after the package hashed to a proven subtree of the checkpoint")
	c.requireGate(f.Name+" frontier after authentication", f, cs, OutNil, stores, "frontier advanced only after the package was authenticated")
	c.requireGate(f.Name+" success after authentication", f, cs, OutNil, successReturns(f), "a package is reported as accepted only after it hashed to a proven subtree of the checkpoint (later packages build on its record hashes)")
	// frontier after all uploads of this package: every upload's failure returns
	for _, u := range ups {
		ok, how := errDiscipline(u)
		if !ok {
			c.Bad(f.Name+" upload errors", u.Pos(), "a tile upload's error is not handled ("+how+"): the frontier could pass a tile that was not stored")
		}
	}
	// the frontier store is unreachable from any upload's error edge
	bad := false
	for _, u := range ups {
		_, nn, _, ok := OutcomeEdges(u)
		if !ok {
			continue
		}
		for e := range nn {
			if pt, _ := g.Reach(EdgeStart(e), Cut{}, atAnySite(stores)); pt != nil {
				c.Bad(f.Name+" frontier after uploads", u.Pos(), "the frontier can advance after a failed tile upload")
				bad = true
			}
		}
	}
	if !bad {
		c.OK(f.Name+" frontier after uploads", "no frontier store reachable from an upload's error edge", sitePositions(stores))
	}
	// operands of CheckSubtree
	call := cs[0].Call
	pf := func(e ast.Expr, field string) bool {
		r, p, ok := fieldPath(info, e)
		return ok && r == pend && len(p) == 1 && p[0] == field
	}
	var p []string
	if !pf(argByName(info, call, "t"), "N") || !pf(argByName(info, call, "th"), "Hash") {
		p = append(p, "the proof is not checked against the resolved checkpoint's size and root")
	}
	if !f.IsParam(argByName(info, call, "start"), "tileStart") || !f.IsParam(argByName(info, call, "end"), "end") {
		p = append(p, "the proven range is not [tileStart, end)")
	}
	sh := argByName(info, call, "sh")
	if shc, ok := f.IsCallResult(sh, 0, Callee{pkgTorch, "", "SubtreeHash"}); !ok || !f.IsParam(shc.Args[0], "tileStart") || !f.IsParam(shc.Args[1], "end") {
		p = append(p, "the hash proven is not SubtreeHash(tileStart, end) recomputed from the uploaded entries")
	}
	if !f.IsParam(argByName(info, call, "p"), "proof") {
		p = append(p, "the proof checked is not the submitted one")
	}
	// the record hashes come from the entries that are uploaded
	okHash := false
	for _, s := range f.Calls(Callee{pkgTorch, "HashReaderOverlay", "AppendRecordHash"}) {
		if rh, ok := ast.Unparen(s.Call.Args[0]).(*ast.CallExpr); ok && matchCallee(info, rh, Callee{pkgTlog, "", "RecordHash"}) {
			okHash = true
		}
	}
	if !okHash {
		p = append(p, "the overlay is not fed with the record hashes of the entries")
	}
	if len(p) > 0 {
		c.Bad(f.Name+" proof operands", cs[0].Pos(), strings.Join(p, "; "))
	} else {
		c.add(Result{Instance: f.Name + " proof operands", Verdict: Discharged, Evals: 5, Sites: []string{cs[0].Pos()}, Detail: "CheckSubtree(proof, pending.N, pending.Hash, tileStart, end, SubtreeHash(tileStart, end, overlay of RecordHash(entries)))"})
	}
	// monotone frontier
	endP := f.paramObj("end")
	isEnd := func(e ast.Expr) bool { return objOf(info, e) == endP }
	isNE := func(e ast.Expr) bool { _, ok := fieldSel(info, e, pkgWitness, "logState", "nextEntry"); return ok }
	fwd := g.EdgesImplying(func(a Atom) bool { rel, ok := cmpRel(a, isEnd, isNE); return ok && rel == relGT })
	c.guardSuccess(f, "frontier only forward", fwd, stores, "the upload frontier can be moved backwards")
	for _, st := range f.StoresTo(ne) {
		if st.Rhs == nil || objOf(info, st.Rhs) != endP {
			c.Bad(f.Name+" frontier value", st.Pos(), "the frontier is set to something other than the end of the authenticated package")
		}
	}
	// other writers
	for _, st := range c.P.AllStoresTo(ne) {
		switch st.F.Name {
		case "witness.(*Witness).processAddEntriesPackage":
		case "witness.(*logState).mirrorCheckpointLocked":
			// first fetch: only when unset (-1), to the mirror checkpoint's size
			sf := st.F
			si := sf.Info()
			isNE2 := func(e ast.Expr) bool { _, ok := fieldSel(si, e, pkgWitness, "logState", "nextEntry"); return ok }
			isM1 := func(e ast.Expr) bool { v, ok := constInt(si, e); return ok && v == -1 }
			unset := sf.Graph().EdgesImplying(func(a Atom) bool { rel, ok := cmpRel(a, isNE2, isM1); return ok && rel == relEQ })
			if pt, _ := sf.Graph().ReachableFromEntry(Cut{Edges: unset}, atSite(st.Site)); pt != nil || len(unset) == 0 {
				c.Bad("nextEntry store in "+sf.Name, st.Pos(), "the frontier is reset while already set")
			} else {
				c.OK("nextEntry store in "+sf.Name, "initialised to the mirror checkpoint size only when unset (-1)", []string{st.Pos()})
			}
		default:
			c.Bad("nextEntry store in "+st.F.Name, st.Pos(), "the upload frontier is written outside the authenticated package path")
		}
	}
}

func c15c(c *Ctx) {
	f := c.Fn("witness.(*Witness).processAddEntriesMetadata")
	if f == nil {
		return
	}
	info := f.Info()
	g := f.Graph()
	// resolved variable: the one returned on success
	okRets := successReturns(f)
	if len(okRets) == 0 {
		c.Unk(f.Name, "no successful return")
		return
	}
	res := objOf(info, okRets[0].X.(*ast.ReturnStmt).Results[0])
	upEnd := f.paramObj("uploadEnd")
	if res == nil || upEnd == nil {
		c.Unk(f.Name, "resolved checkpoint variable / uploadEnd parameter not found")
		return
	}
	isEnd := func(e ast.Expr) bool { return objOf(info, e) == upEnd }
	n := 0
	for _, d := range f.Defs(res) {
		if d.Kind != DefAssign {
			continue
		}
		if isNilIdent(info, d.Rhs) {
			continue // "nothing resolved": success requires resolved != nil (checked below)
		}
		n++
		src := objOf(info, d.Rhs)
		site := f.Find(func(x ast.Node) bool { return x == d.Node })
		inst := fmt.Sprintf("%s resolved = %s", f.Name, exprString(d.Rhs))
		if src == nil || len(site) == 0 {
			c.Bad(inst, f.Pos(d.Node), "the checkpoint to authenticate against is not one of the recorded / ticket checkpoints")
			continue
		}
		isSrcN := func(e ast.Expr) bool {
			r, p, ok := fieldPath(info, e)
			return ok && r == src && len(p) == 1 && p[0] == "N"
		}
		eq := g.EdgesImplying(func(a Atom) bool { rel, ok := cmpRel(a, isEnd, isSrcN); return ok && rel == relEQ })
		if len(eq) == 0 {
			c.Bad(inst, site[0].Pos(), "an upload is authenticated against a checkpoint whose size is not compared with the upload end")
		} else if pt, _ := g.ReachableFromEntry(Cut{Edges: eq}, atSite(site[0])); pt != nil {
			c.Bad(inst, site[0].Pos(), "a checkpoint of a different size than the upload end can be chosen: entries would be proven against the wrong tree")
		} else {
			c.add(Result{Instance: inst, Verdict: Discharged, Sites: []string{site[0].Pos()}, Detail: "chosen only when uploadEnd == its size", Witnesses: f.WitEdges(eq)})
		}
		// provenance of src
		okSrc := false
		for _, sd := range f.Defs(src) {
			if sd.Kind == DefAssign && sd.Idx == 0 {
				if call, ok := ast.Unparen(sd.Rhs).(*ast.CallExpr); ok && matchCallee(info, call, Callee{pkgWitness, "logState", "checkpointLocked"}, Callee{pkgWitness, "logState", "mirrorCheckpointLocked"}, Callee{pkgWitness, "Witness", "verifyTicket"}) {
					okSrc = true
				}
			}
		}
		if !okSrc {
			c.Bad(inst+" source", site[0].Pos(), "the checkpoint does not come from the lock store or a verified ticket")
		}
	}
	if n == 0 {
		c.Bad(f.Name+" resolution", okRets[0].Pos(), "no checkpoint is ever resolved")
	}
	// ticket error must prevent its use
	for _, s := range f.Calls(Callee{pkgWitness, "Witness", "verifyTicket"}) {
		nilE, _, _, ok := OutcomeEdges(s)
		var tk types.Object
		if a, isA := s.Node.(*ast.AssignStmt); isA {
			tk = objOf(info, a.Lhs[0])
		}
		var uses []Site
		for _, d := range f.Defs(res) {
			if d.Kind == DefAssign && objOf(info, d.Rhs) == tk {
				uses = append(uses, f.Find(func(x ast.Node) bool { return x == d.Node })...)
			}
		}
		if !ok || len(uses) == 0 {
			c.Bad(f.Name+" ticket verified", s.Pos(), "the ticket's verification result is not used")
			continue
		}
		c.guardSuccess(f, "ticket verified", nilE, uses, "a ticket that failed verification can be used as the checkpoint to authenticate against")
	}
	// nil resolution => conflict
	isRes := func(e ast.Expr) bool { return objOf(info, e) == res }
	nonNil := g.EdgesImplying(func(a Atom) bool { eq, ok := isNilCmp(info, a.E, isRes); return ok && eq != a.Val })
	c.guardSuccess(f, "resolved != nil", nonNil, okRets, "the metadata phase can succeed without a checkpoint to authenticate against")
}

func c15d(c *Ctx) {
	f := c.Fn("witness.(*Witness).serveAddEntries")
	if f == nil {
		return
	}
	info := f.Info()
	g := f.Graph()
	meta := f.Calls(Callee{pkgWitness, "Witness", "processAddEntriesMetadata"})
	pkgs := f.Calls(Callee{pkgWitness, "Witness", "processAddEntriesPackages"})
	com := f.Calls(Callee{pkgWitness, "Witness", "processAddEntriesCommit"})
	if len(meta) != 1 || len(pkgs) != 1 || len(com) != 1 {
		c.Unk(f.Name, "the three phases were not all found")
		return
	}
	// err is reassigned by each phase: gate = the `if err != nil { ...return }` following each call
	// (errors are also dispatched through switch statements that return)
	phaseGate := func(name string, call Site, next []Site) {
		inst := f.Name + " " + name
		errObj, ok := resultVar(call, isErrorType)
		if !ok {
			c.Bad(inst, call.Pos(), "the error of this phase is not bound before the next phase starts")
			return
		}
		// the error variable is tested several times (labels, switch, errors.As,
		// final test): evaluate the function with "err != nil" instead of
		// looking for one dominating test
		isErr := func(e ast.Expr) bool { return objOf(info, e) == errObj }
		env := func(e ast.Expr) Tri {
			if eq, ok := isNilCmp(info, e, isErr); ok {
				if eq {
					return False
				}
				return True
			}
			return Unknown
		}
		tests := g.EdgesImplying(func(a Atom) bool { _, ok := isNilCmp(info, a.E, isErr); return ok })
		if len(tests) == 0 {
			c.Bad(inst, call.Pos(), "the error of this phase is never compared with nil")
			return
		}
		if pt, path := g.Reach(call.After(), Cut{Edges: g.FeasibleCut(env)}, atAnySite(next)); pt != nil {
			c.Bad(inst, next[0].Pos(), "the next phase can start although this phase returned an error (path "+g.describePath(path)+")")
			return
		}
		// witnesses: the nil tests whose neutralisation (treated as unknown) lets the next phase start
		nec := map[Edge]bool{}
		for e := range tests {
			cond := Cond(e.From)
			env2 := func(x ast.Expr) Tri {
				if x == cond || ast.Unparen(x) == ast.Unparen(cond) {
					return Unknown
				}
				return env(x)
			}
			// evaluate with this whole condition unknown
			cutE := map[Edge]bool{}
			for _, b := range g.Blocks {
				cb := Cond(b)
				if cb == nil || cb == cond {
					continue
				}
				switch evalCond(cb, env2) {
				case True:
					cutE[Edge{b, 1}] = true
				case False:
					cutE[Edge{b, 0}] = true
				}
			}
			if pt, _ := g.Reach(call.After(), Cut{Edges: cutE}, atAnySite(next)); pt != nil {
				if eq, ok := isNilCmp(info, ast.Unparen(cond), isErr); ok && e.Idx == map[bool]int{true: 0, false: 1}[eq] {
					nec[e] = true
				}
			}
		}
		c.add(Result{Instance: inst, Verdict: Discharged, Sites: []string{call.Pos(), next[0].Pos()}, Detail: "with err != nil the next phase is unreachable from this call", Witnesses: f.WitEdges(nec)})
	}
	phaseGate("metadata before packages", meta[0], pkgs)
	phaseGate("packages before commit", pkgs[0], com)
	// every path to packages/commit passes the previous call
	stopAt := func(s Site) func(Point, ast.Node) bool { return func(p Point, _ ast.Node) bool { return p == s.P } }
	if pt, _ := g.ReachableFromEntry(Cut{Stop: stopAt(meta[0])}, atAnySite(pkgs)); pt != nil {
		c.Bad(f.Name+" order", pkgs[0].Pos(), "entries can be processed without the metadata phase")
	}
	if pt, _ := g.ReachableFromEntry(Cut{Stop: stopAt(pkgs[0])}, atAnySite(com)); pt != nil {
		c.Bad(f.Name+" order", com[0].Pos(), "the commit can run without the packages phase")
	}
	// same checkpoint
	var pend types.Object
	if a, ok := meta[0].Node.(*ast.AssignStmt); ok {
		pend = objOf(info, a.Lhs[0])
	}
	if pend != nil && objOf(info, argByName(info, pkgs[0].Call, "pending")) == pend && objOf(info, argByName(info, com[0].Call, "pending")) == pend {
		c.OK(f.Name+" one checkpoint", "packages and commit use the checkpoint resolved by the metadata phase", []string{meta[0].Pos()})
	} else {
		c.Bad(f.Name+" one checkpoint", com[0].Pos(), "the commit signs a checkpoint other than the one the uploaded entries were authenticated against")
	}
	// packages: uploadEnd == pending.N
	if pf := c.Fn("witness.(*Witness).processAddEntriesPackages"); pf != nil {
		pi := pf.Info()
		pg := pf.Graph()
		pp, ue := pf.paramObj("pending"), pf.paramObj("uploadEnd")
		isUE := func(e ast.Expr) bool { return objOf(pi, e) == ue }
		isPN := func(e ast.Expr) bool {
			r, p, ok := fieldPath(pi, e)
			return ok && r == pp && len(p) == 1 && p[0] == "N"
		}
		eq := pg.EdgesImplying(func(a Atom) bool { rel, ok := cmpRel(a, isUE, isPN); return ok && rel == relEQ })
		calls := pf.Calls(Callee{pkgWitness, "Witness", "processAddEntriesPackage"})
		if len(eq) == 0 {
			c.Bad(pf.Name+" upload end == checkpoint size", pf.Pos(pf.Decl), "packages are processed without checking that the upload ends at the checkpoint size")
		} else if pt, _ := pg.ReachableFromEntry(Cut{Edges: eq}, atAnySite(calls)); pt != nil {
			c.Bad(pf.Name+" upload end == checkpoint size", calls[0].Pos(), "a package can be processed although the upload end differs from the checkpoint size")
		} else {
			c.add(Result{Instance: pf.Name + " upload end == checkpoint size", Verdict: Discharged, Sites: sitePositions(calls), Detail: "package processing unreachable unless uploadEnd == pending.N", Witnesses: pf.WitEdges(eq)})
		}
		// each package's error stops the loop
		for _, s := range calls {
			if ok, how := errDiscipline(s); !ok {
				c.Bad(pf.Name+" package errors", s.Pos(), "a package's error is dropped ("+how+")")
			}
			if objOf(pi, argByName(pi, s.Call, "pending")) != pp {
				c.Bad(pf.Name+" package checkpoint", s.Pos(), "a package is authenticated against another checkpoint")
			}
		}
	}
}

func c15e(c *Ctx) {
	f := c.Fn("witness.(*Witness).ensureCutTiles")
	if f == nil {
		return
	}
	info := f.Info()
	g := f.Graph()
	okRets := successReturns(f)
	ups := f.Calls(specUpload)
	fet := f.Calls(specFetch)
	if len(okRets) == 0 || len(ups) < 2 {
		c.Bad(f.Name, f.Pos(f.Decl), "ensureCutTiles does not upload both the cut data tile and the cut hash tile")
		return
	}
	// cutW == 0
	var cutW types.Object
	for _, s := range f.Find(func(n ast.Node) bool {
		a, ok := n.(*ast.AssignStmt)
		if !ok || len(a.Lhs) != 1 || len(a.Rhs) != 1 {
			return false
		}
		found := false
		ast.Inspect(a.Rhs[0], func(x ast.Node) bool {
			if be, ok := x.(*ast.BinaryExpr); ok && be.Op.String() == "%" {
				found = true
			}
			return true
		})
		return found
	}) {
		if cutW == nil {
			cutW = objOf(info, s.X.(*ast.AssignStmt).Lhs[0])
		}
	}
	isCutW := func(e ast.Expr) bool { return cutW != nil && objOf(info, e) == cutW }
	isZero := func(e ast.Expr) bool { v, ok := constInt(info, e); return ok && v == 0 }
	aligned := g.EdgesImplying(func(a Atom) bool { rel, ok := cmpRel(a, isCutW, isZero); return ok && rel == relEQ })
	exists, _ := gateEdges(fet, OutNil)
	// with "aligned" and "exists" edges cut, success requires both uploads
	cut := unionEdges(aligned, exists)
	bad := false
	for _, u := range ups {
		nilE, _, _, ok := OutcomeEdges(u)
		if !ok {
			c.Bad(f.Name, u.Pos(), "a cut-tile upload's error is not tested")
			bad = true
			continue
		}
		if pt, _ := g.ReachableFromEntry(Cut{Edges: unionEdges(cut, nilE)}, atAnySite(okRets)); pt != nil {
			c.Bad(f.Name, u.Pos(), "ensureCutTiles can return nil although this cut tile was neither present nor uploaded")
			bad = true
		}
	}
	if len(aligned) == 0 || len(exists) == 0 {
		c.Unk(f.Name, "aligned / already-present shortcuts not recognised")
		return
	}
	// the object whose presence means "already done" is written last
	for _, ft := range fet {
		_, _, _, tested := OutcomeEdges(ft)
		if !tested {
			continue
		}
		pk := argByName(info, ft.Call, "key")
		var probe *Site
		for i, u := range ups {
			if uk := argByName(info, u.Call, "key"); pk != nil && uk != nil && f.SameValue(pk, uk) {
				probe = &ups[i]
			}
		}
		inst := f.Name + " probe object written last"
		if probe == nil {
			c.Bad(inst, ft.Pos(), "the object whose presence short-cuts ensureCutTiles is not one of the objects it uploads")
			bad = true
			continue
		}
		okLast := true
		for _, u := range ups {
			if u.P == probe.P {
				continue
			}
			nilE, _, _, ok := OutcomeEdges(u)
			if !ok {
				continue
			}
			if pt, _ := g.ReachableFromEntry(Cut{Edges: nilE}, atSite(*probe)); pt != nil {
				c.Bad(inst, probe.Pos(), fmt.Sprintf("the tile whose presence means \"cut tiles already stored\" can be uploaded before the upload at %s succeeded: a failure in between leaves the probe present and the other tile missing for good", u.Pos()))
				okLast = false
				bad = true
			}
		}
		if okLast {
			c.add(Result{Instance: inst, Verdict: Discharged, Evals: len(ups) - 1, Sites: []string{probe.Pos()}, Detail: "the upload of the probed key is unreachable unless every other cut-tile upload succeeded"})
		}
	}
	if !bad {
		c.add(Result{Instance: f.Name, Verdict: Discharged, Evals: len(ups), Sites: sitePositions(ups), Detail: "nil only if aligned, cut hash tile present, or after both uploads succeeded"})
	}
}

// appendSeq renders the sequence of values appended to variable obj in f,
// with roles instead of names: the receiver is W, a string parameter or the
// Origin field of a parameter is ORIGIN.
func appendSeq(f *Func, obj types.Object) []string {
	info := f.Info()
	recv := f.recvObj()
	var render func(e ast.Expr) string
	render = func(e ast.Expr) string {
		switch x := ast.Unparen(e).(type) {
		case *ast.Ident:
			o := objOf(info, x)
			if o != nil && o == recv {
				return "W"
			}
			// a local that only names another expression is rendered as that expression
			if o != nil && isLocal(o) && !isParamOrRecv(f, o) {
				if v := f.Resolve(x); v.Idx < 0 && ast.Unparen(v.E) != ast.Expr(x) {
					return render(v.E)
				}
			}
			if o != nil && isParamOrRecv(f, o) && isStringType(o.Type()) {
				return "ORIGIN"
			}
			return x.Name
		case *ast.SelectorExpr:
			if x.Sel.Name == "Origin" {
				if o := objOf(info, x.X); o != nil && isParamOrRecv(f, o) {
					return "ORIGIN"
				}
			}
			return render(x.X) + "." + x.Sel.Name
		case *ast.CallExpr:
			var args []string
			for _, a := range x.Args {
				args = append(args, render(a))
			}
			return exprString(x.Fun) + "(" + strings.Join(args, ",") + ")"
		}
		return exprString(e)
	}
	var out []string
	ast.Inspect(f.Body, func(n ast.Node) bool {
		a, ok := n.(*ast.AssignStmt)
		if !ok || len(a.Lhs) != 1 || objOf(info, a.Lhs[0]) != obj || len(a.Rhs) != 1 {
			return true
		}
		call, ok := ast.Unparen(a.Rhs[0]).(*ast.CallExpr)
		if !ok || !isBuiltinCall(info, call, "append") {
			return true
		}
		for _, arg := range call.Args[1:] {
			s := render(arg)
			if call.Ellipsis.IsValid() {
				s += "..."
			}
			out = append(out, s)
		}
		return true
	})
	return out
}

func c15f(c *Ctx) {
	seal := c.Fn("witness.(*Witness).mirrorConflict")
	open := c.Fn("witness.(*Witness).verifyTicket")
	if seal == nil || open == nil {
		return
	}
	si, oi := seal.Info(), open.Info()
	// ad objects: argument "additionalData" of Seal / Open
	var sealAD, openAD types.Object
	var sealCall, openCall *ast.CallExpr
	for _, s := range seal.Find(func(n ast.Node) bool {
		call, ok := n.(*ast.CallExpr)
		if !ok {
			return false
		}
		fn, ok := calleeObj(si, call).(*types.Func)
		return ok && fn.Name() == "Seal" && len(call.Args) == 4
	}) {
		sealCall = s.Call
		sealAD = objOf(si, seal.copyRoot(s.Call.Args[3]))
	}
	for _, s := range open.Find(func(n ast.Node) bool {
		call, ok := n.(*ast.CallExpr)
		if !ok {
			return false
		}
		fn, ok := calleeObj(oi, call).(*types.Func)
		return ok && fn.Name() == "Open" && len(call.Args) == 4 && recvName(fn) != ""
	}) {
		openCall = s.Call
		openAD = objOf(oi, open.copyRoot(s.Call.Args[3]))
	}
	if sealAD == nil || openAD == nil {
		c.Unk("ticket associated data", "AEAD Seal/Open calls not found")
		return
	}
	a := appendSeq(seal, sealAD)
	b := appendSeq(open, openAD)
	if strings.Join(a, " | ") == strings.Join(b, " | ") && len(a) > 0 {
		c.add(Result{Instance: "ticket associated data", Verdict: Discharged, Evals: len(a), Sites: []string{seal.Pos(sealCall), open.Pos(openCall)}, Detail: "sealed and opened with ad = " + strings.Join(a, " | ")})
	} else {
		c.Bad("ticket associated data", open.Pos(openCall), "tickets are sealed with {"+strings.Join(a, " | ")+"} but opened with {"+strings.Join(b, " | ")+"}: the binding to mirror name and origin differs")
	}
	// what is sealed: pending.Bytes; nonce fresh
	if r, p, ok := fieldPath(si, sealCall.Args[2]); !ok || r != seal.paramObj("pending") || len(p) != 1 || p[0] != "Bytes" {
		c.Bad("ticket content", seal.Pos(sealCall), "the ticket does not contain the pending checkpoint's bytes")
	}
	// open side guards
	g := open.Graph()
	okRets := successReturns(open)
	var openSites []Site
	for _, s := range open.Find(func(n ast.Node) bool { return n == ast.Node(openCall) }) {
		openSites = append(openSites, s)
	}
	c.requireGate(open.Name+" AEAD opens", open, openSites, OutNil, okRets, "ticket accepted only when it decrypts and authenticates")
	nopen := open.Calls(Callee{pkgNote, "", "Open"})
	c.requireGate(open.Name+" own cosignature", open, nopen, OutNil, okRets, "ticket accepted only when the witness's own ML-DSA cosignature on it verifies")
	recv := open.recvObj()
	for _, s := range nopen {
		okV := false
		if vl, ok := ast.Unparen(s.Call.Args[1]).(*ast.CallExpr); ok && len(vl.Args) == 1 {
			if vc, ok := ast.Unparen(vl.Args[0]).(*ast.CallExpr); ok {
				okV = isMethodOnPath(open, vc, "Verifier", func(o types.Object) bool { return o == recv }, "s2")
			}
		}
		if !okV {
			c.Bad(open.Name+" verifier", s.Pos(), "the ticket checkpoint is not verified with exactly the witness's ML-DSA verifier")
		}
	}
	var ck types.Object
	for _, s := range open.Calls(Callee{pkgTorch, "", "ParseCheckpoint"}) {
		if a, ok := s.Node.(*ast.AssignStmt); ok {
			ck = objOf(oi, a.Lhs[0])
		}
	}
	isCkOrigin := func(e ast.Expr) bool {
		r, p, ok := fieldPath(oi, e)
		return ok && r == ck && ck != nil && len(p) == 1 && p[0] == "Origin"
	}
	isOriginP := func(e ast.Expr) bool { return objOf(oi, e) == open.paramObj("origin") }
	c.guardSuccess(open, "ticket origin == request origin", g.EdgesImplying(func(a Atom) bool { rel, ok := cmpRel(a, isCkOrigin, isOriginP); return ok && rel == relEQ }), okRets,
		"a ticket issued for another log can be used")
}

// ---------------------------------------------------------------------------
// C15.i SERVABLE: entry bundles accompany level-0 tiles; uploads are contiguous.

func c15i(c *Ctx) {
	// (1) in the package processor, the entry bundle is written with every level-0 hash tile
	if f := c.Fn("witness.(*Witness).processAddEntriesPackage"); f != nil {
		c.touch(f)
		info := f.Info()
		g := f.Graph()
		var dataUp, hashUp []Site
		for _, u := range f.Calls(specUpload) {
			switch optsVarOf(f, argByName(info, u.Call, "opts")) {
			case "optsDataTile":
				dataUp = append(dataUp, u)
			case "optsHashTile":
				hashUp = append(hashUp, u)
			}
		}
		// the tile loop
		var loop *ast.RangeStmt
		var tileObj types.Object
		ast.Inspect(f.Body, func(n ast.Node) bool {
			if rs, ok := n.(*ast.RangeStmt); ok && rs.Value != nil {
				if _, isNT := f.IsCallResult(rs.X, 0, Callee{pkgTlog, "", "NewTiles"}); isNT {
					loop = rs
					tileObj = objOf(info, rs.Value)
				}
			}
			return true
		})
		inst := f.Name + " entry bundle with every level-0 tile"
		// the bundle upload may be delegated to one same-package helper: a function whose only upload is the
		// data-tile upload and which reports success only through that upload's success edge
		var viaHelper *Func
		if len(dataUp) == 0 {
			for _, s := range f.Find(func(n ast.Node) bool { _, ok := n.(*ast.CallExpr); return ok }) {
				fn, ok := calleeObj(info, s.X.(*ast.CallExpr)).(*types.Func)
				if !ok {
					continue
				}
				h := c.P.FuncOf(fn.Origin())
				if h == nil || h == f || h.Body == nil || h.Pkg != f.Pkg {
					continue
				}
				ups := h.Calls(specUpload)
				if len(ups) != 1 || optsVarOf(h, argByName(h.Info(), ups[0].Call, "opts")) != "optsDataTile" {
					continue
				}
				okE, _ := gateEdges(ups, OutNil)
				var succ []Site
				for _, r := range h.Returns() {
					if e := h.errResultExpr(r.X.(*ast.ReturnStmt)); e != nil && h.mayBeNilError(e) {
						succ = append(succ, r)
					}
				}
				if len(okE) == 0 || len(succ) == 0 {
					continue
				}
				if pt, _ := h.Graph().ReachableFromEntry(Cut{Edges: okE}, atAnySite(succ)); pt != nil {
					continue
				}
				c.touch(h)
				s.Call = s.X.(*ast.CallExpr)
				dataUp = append(dataUp, s)
				viaHelper = h
			}
		}
		inLoopNode := func(n ast.Node) bool { return loop != nil && loop.Body.Pos() <= n.Pos() && n.End() <= loop.Body.End() }
		switch {
		case len(dataUp) == 1 && len(hashUp) == 1 && loop != nil && !inLoopNode(dataUp[0].X):
			// the bundle is written outside the tile loop: it must be complete before the first hash tile is
			head := rangeHead(g, loop)
			okE, _ := gateEdges(dataUp, OutNil)
			switch {
			case head == nil:
				c.Unk(inst, "tile loop head not found")
			case len(okE) == 0:
				c.Bad(inst, dataUp[0].Pos(), "the error of the entry bundle upload is not tested")
			default:
				if pt, path := g.ReachableFromEntry(Cut{Edges: okE}, atSite(hashUp[0])); pt != nil {
					c.Bad(inst, hashUp[0].Pos(), "a level-0 hash tile can be written before its entry bundle is stored (path "+g.describePath(path)+"): after a failure in between, the hash tile whose presence short-cuts ensureCutTiles exists without the entries it covers, and the mirror can sign a size it cannot serve")
				} else {
					c.add(Result{Instance: inst, Verdict: Discharged, Evals: 1, Sites: []string{dataUp[0].Pos(), hashUp[0].Pos()}, Detail: "the bundle upload succeeded before the tile loop is entered", Witnesses: f.WitEdges(okE)})
				}
			}
			if viaHelper != nil {
				c.OK(f.Name+" entry bundle key", "delegated to "+viaHelper.Name+" (its single upload uses optsDataTile)", []string{dataUp[0].Pos()})
			}
		case len(dataUp) != 1 || len(hashUp) != 1 || loop == nil || tileObj == nil:
			c.Unk(inst, fmt.Sprintf("anchors: data uploads=%d hash uploads=%d NewTiles loop=%v", len(dataUp), len(hashUp), loop != nil))
		default:
			isL := func(e ast.Expr) bool {
				r, p, ok := fieldPath(info, e)
				return ok && r == tileObj && len(p) == 1 && p[0] == "L"
			}
			isZero := func(e ast.Expr) bool { v, ok := constInt(info, e); return ok && v == 0 }
			notL0 := g.EdgesImplying(func(a Atom) bool { rel, ok := cmpRel(a, isL, isZero); return ok && rel&relEQ == 0 })
			l0 := g.EdgesImplying(func(a Atom) bool { rel, ok := cmpRel(a, isL, isZero); return ok && rel == relEQ })
			head := rangeHead(g, loop)
			if head == nil || len(head.Succs) == 0 {
				c.Unk(inst, "tile loop head not found")
				break
			}
			body := Point{head.Succs[0], 0}
			stopData := func(p Point, _ ast.Node) bool { return p == dataUp[0].P }
			// with the "not level 0" edges cut, the hash-tile upload of an iteration is reached only through the bundle upload
			pt, path := g.Reach(body, Cut{Edges: notL0, Stop: stopData, NoEnter: func(b *cfg.Block) bool { return b == head }}, atSite(hashUp[0]))
			inLoop := func(n ast.Node) bool { return loop.Body.Pos() <= n.Pos() && n.End() <= loop.Body.End() }
			switch {
			case len(notL0) == 0 || len(l0) == 0:
				c.Bad(inst, dataUp[0].Pos(), "the entry bundle upload is not tied to the level-0 tile of the package (no tile.L == 0 test)")
			case !inLoop(dataUp[0].X) || !inLoop(hashUp[0].X):
				c.Bad(inst, dataUp[0].Pos(), "the tile uploads are not inside the loop over tlog.NewTiles(tileStart, end)")
			case pt != nil:
				c.Bad(inst, hashUp[0].Pos(), "a level-0 hash tile can be written without its entry bundle (path "+g.describePath(path)+"): the mirror would serve hashes for entries it cannot serve")
			default:
				c.add(Result{Instance: inst, Verdict: Discharged, Evals: 1, Sites: []string{dataUp[0].Pos(), hashUp[0].Pos()},
					Detail: "inside the NewTiles loop, on the tile.L == 0 edge the hash-tile upload is reached only after the bundle upload", Witnesses: f.WitEdges(necessaryEdgesFrom(g, body, notL0, hashUp, stopData, head))})
			}
			// the bundle is the tile of the same index, level -1
			k := argByName(info, dataUp[0].Call, "key")
			okKey := false
			if viaHelper != nil {
				// delegated: the tile handed to the helper is the L = -1 copy, and the helper's key is TilePath of that parameter
				hinfo := viaHelper.Info()
				hup := viaHelper.Calls(specUpload)[0]
				var tileParam types.Object
				ast.Inspect(viaHelper.ResolveDeep(argByName(hinfo, hup.Call, "key")).E, func(n ast.Node) bool {
					if call, ok := n.(*ast.CallExpr); ok && matchCallee(hinfo, call, Callee{pkgTorch, "", "TilePath"}) && len(call.Args) == 1 {
						if o := objOf(hinfo, call.Args[0]); o != nil && isParamOrRecv(viaHelper, o) {
							tileParam = o
						}
					}
					return true
				})
				if tileParam != nil {
					if arg := argForParam(viaHelper, dataUp[0].Call, tileParam); arg != nil {
						dt := objOf(info, arg)
						if dt != nil && tileLevelAt(f, dt, dataUp[0]) == "-1" {
							for _, d := range f.Defs(dt) {
								if d.Rhs != nil && objOf(info, d.Rhs) == tileObj {
									okKey = true
								}
							}
						}
					}
				}
				k = nil
			}
			if k != nil {
				ast.Inspect(f.ResolveDeep(k).E, func(n ast.Node) bool {
					if call, ok := n.(*ast.CallExpr); ok && matchCallee(info, call, Callee{pkgTorch, "", "TilePath"}) && len(call.Args) == 1 {
						dt := objOf(info, call.Args[0])
						if dt != nil && tileLevelAt(f, dt, dataUp[0]) == "-1" {
							for _, d := range f.Defs(dt) {
								if d.Rhs != nil && objOf(info, d.Rhs) == tileObj {
									okKey = true
								}
							}
						}
					}
					return true
				})
			}
			if okKey {
				c.OK(f.Name+" entry bundle key", "TilePath of a copy of the level-0 tile with L = -1", []string{dataUp[0].Pos()})
			} else {
				c.Bad(f.Name+" entry bundle key", dataUp[0].Pos(), "the entry bundle is not stored under the data-tile path (L = -1) of the level-0 tile being written")
			}
		}
	}
	// (2) uploads are contiguous: an accepted upload starts at or before the frontier
	if f := c.Fn("witness.(*Witness).processAddEntriesMetadata"); f != nil {
		c.touch(f)
		info := f.Info()
		g := f.Graph()
		inst := f.Name + " upload starts at or before the frontier"
		start := f.paramObj("uploadStart")
		var next types.Object
		for _, s := range f.Calls(Callee{pkgWitness, "logState", "mirrorCheckpointLocked"}) {
			if as, ok := s.Node.(*ast.AssignStmt); ok && len(as.Lhs) == 3 {
				next = objOf(info, as.Lhs[1])
			}
		}
		okRets := successReturns(f)
		if start == nil || next == nil || len(okRets) == 0 {
			c.Unk(inst, "uploadStart parameter / frontier value / success return not found")
		} else {
			isS := func(e ast.Expr) bool { return objOf(info, e) == start }
			isN := func(e ast.Expr) bool { return objOf(info, e) == next }
			le := g.EdgesImplying(func(a Atom) bool { rel, ok := cmpRel(a, isS, isN); return ok && rel&relGT == 0 })
			c.guardSuccess(f, "upload starts at or before the frontier", le, okRets, "an upload that starts beyond the frontier can be accepted: the frontier would then pass entries that were never uploaded")
		}
	}
}

// necessaryEdgesFrom is necessaryEdges for a loop-body query.
func necessaryEdgesFrom(g *Graph, from Point, safe map[Edge]bool, targets []Site, stop func(Point, ast.Node) bool, head *cfg.Block) map[Edge]bool {
	out := map[Edge]bool{}
	for e := range safe {
		rest := map[Edge]bool{}
		for o := range safe {
			if o != e {
				rest[o] = true
			}
		}
		if pt, _ := g.Reach(from, Cut{Edges: rest, Stop: stop, NoEnter: func(b *cfg.Block) bool { return b == head }}, atAnySite(targets)); pt != nil {
			out[e] = true
		}
	}
	return out
}
