package main

import (
	"go/ast"
)

// Wit builds a witness replacing the source text of node n.
func (f *Func) Wit(n ast.Node, repl, kind string) Witness {
	s := f.Prog.Fset.Position(n.Pos())
	e := f.Prog.Fset.Position(n.End())
	return Witness{File: s.Filename, Start: s.Offset, End: e.Offset, Repl: repl, Kind: kind, Pos: f.Pos(n)}
}

func runSelfTest(p *Program, prop *Property, results []Result) map[string]any {
	return map[string]any{}
}
