package main

// Thorough tier: rule liveness self-test. Every discharged obligation records
// witnesses - the guard condition, error test, lock statement, table cell...
// that made it hold. Each witness is neutralised in an in-memory copy of the
// CURRENT source file, the affected module packages are re-type-checked from
// their syntax (go/types, importer = the packages already loaded), and the
// obligation must stop being discharged. Nothing is written to disk and no
// sunlight code is executed. The self-test never changes the verdict on the
// real tree: it measures whether each rule is live on today's code.

import (
	"bytes"
	"fmt"
	"go/ast"
	"go/parser"
	"go/token"
	"go/types"
	"sort"
	"strings"
	"sync"

	"golang.org/x/tools/go/packages"
)

// Wit builds a witness replacing the source text of node n.
func (f *Func) Wit(n ast.Node, repl, kind string) Witness {
	s := f.Prog.Fset.Position(n.Pos())
	e := f.Prog.Fset.Position(n.End())
	return Witness{File: s.Filename, Start: s.Offset, End: e.Offset, Repl: repl, Kind: kind, Pos: f.Pos(n)}
}

type mapImporter map[string]*types.Package

func (m mapImporter) Import(path string) (*types.Package, error) {
	if p, ok := m[path]; ok {
		return p, nil
	}
	return nil, fmt.Errorf("package %s not loaded", path)
}

// allTypePackages collects every types.Package reachable from the module
// packages' imports.
func (p *Program) allTypePackages() map[string]*types.Package {
	out := map[string]*types.Package{}
	var walk func(tp *types.Package)
	walk = func(tp *types.Package) {
		if tp == nil || out[tp.Path()] != nil {
			return
		}
		out[tp.Path()] = tp
		for _, i := range tp.Imports() {
			walk(i)
		}
	}
	for _, pk := range p.All {
		walk(pk.Types)
	}
	return out
}

// moduleOrder returns the module packages in dependency order and, for each,
// the module packages it imports.
func (p *Program) moduleOrder() []*packages.Package {
	deps := map[string][]string{}
	for _, pk := range p.All {
		for _, i := range pk.Types.Imports() {
			if p.Pkgs[i.Path()] != nil {
				deps[pk.PkgPath] = append(deps[pk.PkgPath], i.Path())
			}
		}
	}
	var order []*packages.Package
	seen := map[string]bool{}
	var visit func(path string)
	visit = func(path string) {
		if seen[path] {
			return
		}
		seen[path] = true
		for _, d := range deps[path] {
			visit(d)
		}
		order = append(order, p.Pkgs[path])
	}
	for _, pk := range p.All {
		visit(pk.PkgPath)
	}
	return order
}

// mutate builds a Program in which file w.File has w applied, re-checking the
// package that contains the file and every module package depending on it.
func (p *Program) mutate(w Witness) (*Program, error) {
	src, err := p.readFile(w.File)
	if err != nil {
		return nil, err
	}
	if w.Start < 0 || w.End > len(src) || w.Start > w.End {
		return nil, fmt.Errorf("witness range out of bounds")
	}
	mut := append(append(append([]byte{}, src[:w.Start]...), []byte(w.Repl)...), src[w.End:]...)
	// find the package and file
	var target *packages.Package
	fileIdx := -1
	for _, pk := range p.All {
		for i, f := range pk.Syntax {
			if p.Fset.Position(f.Pos()).Filename == w.File {
				target, fileIdx = pk, i
			}
		}
	}
	if target == nil {
		return nil, fmt.Errorf("file %s not in a module package", w.File)
	}
	nf, err := parser.ParseFile(p.Fset, w.File, mut, parser.ParseComments|parser.SkipObjectResolution)
	if err != nil {
		return nil, fmt.Errorf("mutant does not parse: %v", err)
	}
	imp := mapImporter(p.allTypePackages())
	np := &Program{Dir: p.Dir, Config: p.Config, Fset: p.Fset, Pkgs: map[string]*packages.Package{}, overlay: map[string][]byte{w.File: mut}}
	dirty := map[string]bool{target.PkgPath: true}
	for _, pk := range p.moduleOrder() {
		need := dirty[pk.PkgPath]
		for _, i := range pk.Types.Imports() {
			if dirty[i.Path()] {
				need = true
			}
		}
		if !need {
			np.Pkgs[pk.PkgPath] = pk
			np.All = append(np.All, pk)
			continue
		}
		dirty[pk.PkgPath] = true
		files := append([]*ast.File{}, pk.Syntax...)
		if pk == target {
			files[fileIdx] = nf
		}
		info := &types.Info{
			Types:      map[ast.Expr]types.TypeAndValue{},
			Defs:       map[*ast.Ident]types.Object{},
			Uses:       map[*ast.Ident]types.Object{},
			Implicits:  map[ast.Node]types.Object{},
			Selections: map[*ast.SelectorExpr]*types.Selection{},
			Scopes:     map[ast.Node]*types.Scope{},
			Instances:  map[*ast.Ident]types.Instance{},
		}
		var firstErr error
		conf := types.Config{Importer: imp, Sizes: pk.TypesSizes, Error: func(e error) {
			if firstErr == nil {
				firstErr = e
			}
		}}
		if pk.Module != nil && pk.Module.GoVersion != "" {
			conf.GoVersion = "go" + pk.Module.GoVersion
		}
		tp, _ := conf.Check(pk.PkgPath, p.Fset, files, info)
		if firstErr != nil {
			return nil, fmt.Errorf("mutant does not compile: %v", firstErr)
		}
		imp[pk.PkgPath] = tp
		npk := &packages.Package{ID: pk.ID, Name: pk.Name, PkgPath: pk.PkgPath, Syntax: files, Types: tp, TypesInfo: info, TypesSizes: pk.TypesSizes, Module: pk.Module}
		np.Pkgs[pk.PkgPath] = npk
		np.All = append(np.All, npk)
	}
	sort.Slice(np.All, func(i, j int) bool { return np.All[i].PkgPath < np.All[j].PkgPath })
	np.index()
	return np, nil
}

type mutantJob struct {
	w    Witness
	uses []mutantUse
}

type mutantUse struct {
	ob       *Obligation
	instance string
}

func witnessKey(w Witness) string { return fmt.Sprintf("%s:%d:%d:%s", w.File, w.Start, w.End, w.Repl) }

func runSelfTest(p *Program, prop *Property, results []Result) map[string]any {
	obs := map[string]*Obligation{}
	for _, o := range prop.Obligations {
		obs[o.ID] = o
	}
	jobs := map[string]*mutantJob{}
	var order []string
	for _, r := range results {
		if r.Verdict != Discharged || strings.Contains(r.Instance, " [linux/") {
			continue
		}
		for _, w := range r.Witnesses {
			if w.File == "" {
				continue
			}
			k := witnessKey(w)
			if jobs[k] == nil {
				jobs[k] = &mutantJob{w: w}
				order = append(order, k)
			}
			jobs[k].uses = append(jobs[k].uses, mutantUse{obs[r.Obligation], r.Instance})
		}
	}
	var mu sync.Mutex
	total, applied, killed := 0, 0, 0
	var notKilled, skipped []string
	var samples []map[string]string
	sem := make(chan struct{}, 8)
	var wg sync.WaitGroup
	for _, k := range order {
		job := jobs[k]
		wg.Add(1)
		sem <- struct{}{}
		go func() {
			defer wg.Done()
			defer func() { <-sem }()
			np, err := p.mutate(job.w)
			mu.Lock()
			total += len(job.uses)
			mu.Unlock()
			if err != nil {
				mu.Lock()
				skipped = append(skipped, fmt.Sprintf("%s (%s): %v", job.w.Pos, job.w.Kind, err))
				mu.Unlock()
				return
			}
			for _, u := range job.uses {
				rs := runObligation(np, prop, u.ob, "quick", map[string]bool{})
				dead := false
				foundInst := false
				for _, r := range rs {
					if r.Verdict != Discharged {
						dead = true
					}
					if r.Instance == u.instance {
						foundInst = true
					}
				}
				if !foundInst {
					dead = true
				}
				mu.Lock()
				applied++
				if dead {
					killed++
					if len(samples) < 6 {
						samples = append(samples, map[string]string{"obligation": u.ob.ID, "instance": u.instance, "mutation": job.w.Kind + " at " + job.w.Pos + " -> " + job.w.Repl, "result": "obligation no longer discharged"})
					}
				} else {
					notKilled = append(notKilled, fmt.Sprintf("%s %s: %s at %s", u.ob.ID, u.instance, job.w.Kind, job.w.Pos))
				}
				mu.Unlock()
			}
		}()
	}
	wg.Wait()
	sort.Strings(notKilled)
	sort.Strings(skipped)
	return map[string]any{
		"selftest_rule":     "every witness recorded by a discharged obligation (guard condition, error test, store, table cell) is neutralised in an in-memory copy of the current file; affected module packages are re-type-checked; the obligation must stop being discharged",
		"mutants_total":     total,
		"mutants_applied":   applied,
		"mutants_killed":    killed,
		"mutants_skipped":   skipped,
		"selftest_failures": notKilled,
		"selftest_samples":  samples,
	}
}

// ---------------------------------------------------------------------------
// Stability (metamorphic) test: behaviour-preserving rewrites of the files the
// property's rules looked at must leave every obligation discharged. This
// measures the other half of the contract - no alarm on code where the
// property holds - on variants of today's code. Like the liveness test it is
// in memory only and never changes the verdict on the real tree.

type textEdit struct {
	start, end int
	repl       string
}

var flipOp = map[string]string{"==": "==", "!=": "!=", "<": ">", "<=": ">=", ">": "<", ">=": "<="}

// stabilityVariants builds, per file, the edits of each transformation.
func (p *Program) stabilityVariants(files map[string]bool) map[string]map[string][]textEdit {
	out := map[string]map[string][]textEdit{} // transform -> file -> edits
	for _, pk := range p.All {
		for _, file := range pk.Syntax {
			name := p.Fset.Position(file.Pos()).Filename
			if !files[name] {
				continue
			}
			info := pk.TypesInfo
			var swaps, ifs []textEdit
			off := func(pos interface{ IsValid() bool }) int { return 0 }
			_ = off
			ast.Inspect(file, func(n ast.Node) bool {
				switch x := n.(type) {
				case *ast.BinaryExpr:
					op, ok := flipOp[x.Op.String()]
					if !ok {
						return true
					}
					// leaf comparisons only
					nested := false
					for _, side := range []ast.Expr{x.X, x.Y} {
						ast.Inspect(side, func(m ast.Node) bool {
							if b, ok := m.(*ast.BinaryExpr); ok {
								if _, cmp := flipOp[b.Op.String()]; cmp {
									nested = true
								}
							}
							if _, ok := m.(*ast.FuncLit); ok {
								nested = true
							}
							return !nested
						})
					}
					if nested {
						return true
					}
					// only boolean-valued comparisons in expressions we can re-render
					if tv, ok := info.Types[x]; !ok || !isBoolType(tv.Type) {
						return true
					}
					s, e := p.Fset.Position(x.Pos()).Offset, p.Fset.Position(x.End()).Offset
					swaps = append(swaps, textEdit{s, e, "(" + p.srcText(x.Y) + ") " + op + " (" + p.srcText(x.X) + ")"})
					return false
				case *ast.IfStmt:
					els, ok := x.Else.(*ast.BlockStmt)
					if !ok || x.Init != nil {
						return true
					}
					// if c {A} else {B}  =>  if !(c) {B} else {A}   (outermost only: do not descend)
					s, e := p.Fset.Position(x.Cond.Pos()).Offset, p.Fset.Position(x.End()).Offset
					ifs = append(ifs, textEdit{s, e, "!(" + p.srcText(x.Cond) + ") " + p.srcText(els) + " else " + p.srcText(x.Body)})
					return false
				}
				return true
			})
			// rename every non-parameter local variable
			params := map[types.Object]bool{}
			ast.Inspect(file, func(n ast.Node) bool {
				var ft *ast.FuncType
				var recv *ast.FieldList
				switch x := n.(type) {
				case *ast.FuncDecl:
					ft, recv = x.Type, x.Recv
				case *ast.FuncLit:
					ft = x.Type
				}
				if ft == nil {
					return true
				}
				for _, fl := range []*ast.FieldList{recv, ft.Params, ft.Results} {
					if fl == nil {
						continue
					}
					for _, fld := range fl.List {
						for _, nm := range fld.Names {
							if o := info.Defs[nm]; o != nil {
								params[o] = true
							}
						}
					}
				}
				return true
			})
			var renames []textEdit
			ast.Inspect(file, func(n ast.Node) bool {
				id, ok := n.(*ast.Ident)
				if !ok || id.Name == "_" {
					return true
				}
				o := info.Defs[id]
				if o == nil {
					o = info.Uses[id]
				}
				if o == nil || !isLocal(o) {
					return true
				}
				_ = params
				if _, isVar := o.(*types.Var); !isVar {
					return true
				}
				s, e := p.Fset.Position(id.Pos()).Offset, p.Fset.Position(id.End()).Offset
				renames = append(renames, textEdit{s, e, id.Name + "Renamed"})
				return true
			})
			if len(renames) > 0 {
				if out["rename-locals"] == nil {
					out["rename-locals"] = map[string][]textEdit{}
				}
				out["rename-locals"][name] = renames
			}
			if len(swaps) > 0 {
				if out["swap-comparison-operands"] == nil {
					out["swap-comparison-operands"] = map[string][]textEdit{}
				}
				out["swap-comparison-operands"][name] = swaps
			}
			if len(ifs) > 0 {
				if out["negate-if-else"] == nil {
					out["negate-if-else"] = map[string][]textEdit{}
				}
				out["negate-if-else"][name] = ifs
			}
		}
	}
	return out
}

func applyEdits(src []byte, edits []textEdit) []byte {
	sort.Slice(edits, func(i, j int) bool { return edits[i].start > edits[j].start })
	out := append([]byte{}, src...)
	last := len(src) + 1
	for _, e := range edits {
		if e.end > last || e.start > e.end {
			continue // overlapping: skip
		}
		out = append(append(append([]byte{}, out[:e.start]...), []byte(e.repl)...), out[e.end:]...)
		last = e.start
	}
	return out
}

func runStabilityTest(p *Program, prop *Property, funcs map[string]bool) map[string]any {
	files := map[string]bool{}
	for name := range funcs {
		if f := p.Fn(name); f != nil && f.Body != nil {
			files[p.Fset.Position(f.Body.Pos()).Filename] = true
		}
	}
	variants, stable := 0, 0
	var unstable []string
	var skipped []string
	for tname, perFile := range p.stabilityVariants(files) {
		var names []string
		for n := range perFile {
			names = append(names, n)
		}
		sort.Strings(names)
		for _, file := range names {
			src, err := p.readFile(file)
			if err != nil {
				continue
			}
			mut := applyEdits(src, perFile[file])
			np, err := p.mutate(Witness{File: file, Start: 0, End: len(src), Repl: string(mut)})
			short := strings.TrimPrefix(file, p.Dir+"/")
			if err != nil {
				skipped = append(skipped, fmt.Sprintf("%s on %s: %v", tname, short, err))
				continue
			}
			variants++
			ok := true
			for _, ob := range prop.Obligations {
				for _, r := range runObligation(np, prop, ob, "quick", map[string]bool{}) {
					if r.Verdict != Discharged {
						ok = false
						unstable = append(unstable, fmt.Sprintf("%s on %s: %s %s: %s", tname, short, r.Obligation, r.Instance, firstLines(r.Detail, 1)))
					}
				}
			}
			if ok {
				stable++
			}
		}
	}
	sort.Strings(unstable)
	return map[string]any{
		"stability_rule":     "behaviour-preserving rewrites (all comparisons with operands swapped; every if/else negated with branches exchanged; every local variable, parameter and receiver renamed) applied file by file, in memory, to the files of the analysed functions; every obligation must stay discharged",
		"stability_variants": variants,
		"stability_stable":   stable,
		"stability_failures": unstable,
		"stability_skipped":  skipped,
	}
}

// ---------------------------------------------------------------------------
// Condition sensitivity sweep (thorough): every two-way condition of the
// functions the property's rules looked at is forced false / true, one at a
// time, in memory; the sweep records which of these variants are noticed by
// at least one obligation of the property. Conditions no obligation reacts to
// are listed in the evidence: they are the rule set's blind spots on today's
// code (many are legitimately irrelevant to the property - logging, metrics,
// option handling). Not part of the verdict.

func runSensitivitySweep(p *Program, prop *Property, funcs map[string]bool) map[string]any {
	type cand struct {
		w    Witness
		desc string
	}
	var cands []cand
	var names []string
	for n := range funcs {
		names = append(names, n)
	}
	sort.Strings(names)
	for _, name := range names {
		f := p.Fn(name)
		if f == nil || f.Body == nil {
			continue
		}
		for _, fx := range append([]*Func{f}, allLits(f)...) {
			g := fx.Graph()
			seen := map[ast.Expr]bool{}
			for _, b := range g.Blocks {
				c := Cond(b)
				if c == nil || seen[c] {
					continue
				}
				seen[c] = true
				src := p.srcText(c)
				if src == "" || len(src) > 400 {
					continue
				}
				cands = append(cands, cand{fx.Wit(c, "("+src+") && false", "force-false"), fx.Name + " " + fx.Pos(c) + ": " + firstLines(src, 1)})
				cands = append(cands, cand{fx.Wit(c, "("+src+") || true", "force-true"), fx.Name + " " + fx.Pos(c) + ": " + firstLines(src, 1)})
			}
			// statement removal: every call statement, assignment, ++/--, defer and go of the function
			for _, b := range g.Blocks {
				for _, n := range b.Nodes {
					switch st := n.(type) {
					case *ast.ExprStmt, *ast.IncDecStmt, *ast.DeferStmt, *ast.GoStmt:
					case *ast.AssignStmt:
						if st.Tok == token.DEFINE {
							continue // removing a declaration does not compile
						}
					default:
						continue
					}
					src := p.srcText(n)
					if src == "" || len(src) > 600 {
						continue
					}
					w := fx.WitDelete(n)
					if w.File == "" {
						continue
					}
					w.Kind = "remove-stmt"
					cands = append(cands, cand{w, fx.Name + " " + fx.Pos(n) + ": " + firstLines(src, 1)})
				}
			}
		}
	}
	var mu sync.Mutex
	noticed, applied := 0, 0
	var blind, seenList []string
	sem := make(chan struct{}, 12)
	var wg sync.WaitGroup
	for _, cd := range cands {
		cd := cd
		wg.Add(1)
		sem <- struct{}{}
		go func() {
			defer wg.Done()
			defer func() { <-sem }()
			np, err := p.mutate(cd.w)
			if err != nil {
				return
			}
			hit := false
			for _, ob := range prop.Obligations {
				for _, r := range runObligation(np, prop, ob, "quick", map[string]bool{}) {
					if r.Verdict != Discharged {
						hit = true
					}
				}
				if hit {
					break
				}
			}
			mu.Lock()
			applied++
			if hit {
				noticed++
				seenList = append(seenList, cd.w.Kind+" "+cd.desc)
			} else {
				blind = append(blind, cd.w.Kind+" "+cd.desc)
			}
			mu.Unlock()
		}()
	}
	wg.Wait()
	sort.Strings(blind)
	sort.Strings(seenList)
	return map[string]any{
		"sensitivity_rule":         "every two-way condition of the analysed functions forced false and forced true, and every call statement / assignment / increment / defer / go statement reduced to the evaluation of its operands, one at a time, in memory; a variant is noticed when at least one obligation of the property stops being discharged",
		"sensitivity_variants":     applied,
		"sensitivity_noticed":      noticed,
		"sensitivity_unnoticed":    blind,
		"sensitivity_noticed_list": seenList,
	}
}

// withOverlay builds a Program in which the given files have new contents,
// re-checking the packages that contain them and every module package that
// depends on one of those - in memory, with go/types, against the type packages
// already loaded (no `go list`, no compilation).
func (p *Program) withOverlay(files map[string][]byte) (*Program, error) {
	parsed := map[string]*ast.File{}
	dirty := map[string]bool{}
	for _, pk := range p.All {
		for _, f := range pk.Syntax {
			name := p.Fset.File(f.Pos()).Name()
			src, ok := files[name]
			if !ok {
				continue
			}
			if old, has := p.overlay[name]; has && bytes.Equal(old, src) {
				continue
			}
			nf, err := parser.ParseFile(p.Fset, name, src, parser.ParseComments|parser.SkipObjectResolution)
			if err != nil {
				return nil, fmt.Errorf("%s does not parse: %v", name, err)
			}
			parsed[name] = nf
			dirty[pk.PkgPath] = true
		}
	}
	imp := mapImporter(p.allTypePackages())
	ov := map[string][]byte{}
	for k, v := range p.overlay {
		ov[k] = v
	}
	for k, v := range files {
		ov[k] = v
	}
	np := &Program{Dir: p.Dir, Config: p.Config, Fset: p.Fset, Pkgs: map[string]*packages.Package{}, overlay: ov}
	for _, pk := range p.moduleOrder() {
		need := dirty[pk.PkgPath]
		for _, i := range pk.Types.Imports() {
			if dirty[i.Path()] {
				need = true
			}
		}
		if !need {
			np.Pkgs[pk.PkgPath] = pk
			np.All = append(np.All, pk)
			continue
		}
		dirty[pk.PkgPath] = true
		fs := append([]*ast.File{}, pk.Syntax...)
		for i, f := range fs {
			if nf := parsed[p.Fset.File(f.Pos()).Name()]; nf != nil {
				fs[i] = nf
			}
		}
		info := &types.Info{
			Types:      map[ast.Expr]types.TypeAndValue{},
			Defs:       map[*ast.Ident]types.Object{},
			Uses:       map[*ast.Ident]types.Object{},
			Implicits:  map[ast.Node]types.Object{},
			Selections: map[*ast.SelectorExpr]*types.Selection{},
			Scopes:     map[ast.Node]*types.Scope{},
			Instances:  map[*ast.Ident]types.Instance{},
		}
		var errs []string
		conf := types.Config{Importer: imp, Sizes: pk.TypesSizes, Error: func(e error) {
			if len(errs) < 4 {
				errs = append(errs, e.Error())
			}
		}}
		if pk.Module != nil && pk.Module.GoVersion != "" {
			conf.GoVersion = "go" + pk.Module.GoVersion
		}
		tp, _ := conf.Check(pk.PkgPath, p.Fset, fs, info)
		if len(errs) > 0 {
			return nil, fmt.Errorf("package %s: %s", pk.PkgPath, strings.Join(errs, " | "))
		}
		imp[pk.PkgPath] = tp
		npk := &packages.Package{ID: pk.ID, Name: pk.Name, PkgPath: pk.PkgPath, Syntax: fs, Types: tp, TypesInfo: info, TypesSizes: pk.TypesSizes, Module: pk.Module}
		np.Pkgs[pk.PkgPath] = npk
		np.All = append(np.All, npk)
	}
	sort.Slice(np.All, func(i, j int) bool { return np.All[i].PkgPath < np.All[j].PkgPath })
	np.index()
	return np, nil
}
