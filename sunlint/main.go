package main

import (
	"fmt"
	"golang.org/x/tools/go/cfg"
	"golang.org/x/tools/go/packages"
	"golang.org/x/tools/go/ssa"
	"golang.org/x/tools/go/types/typeutil"
	"golang.org/x/tools/go/callgraph/vta"
)

var _ = cfg.New
var _ = packages.Load
var _ ssa.Value
var _ = typeutil.Callee
var _ = vta.CallGraph

func main() { fmt.Println("ok") }
