package main

// sunlint: repository-specific static analyser for FiloSottile/sunlight.
// See /verif/DESIGN.md. One subcommand per property:
//
//	sunlint -property C01 -tier quick
//	sunlint -replay evidence/replay/C01-....json

import (
	"encoding/json"
	"flag"
	"fmt"
	"os"
	"path/filepath"
	"runtime/debug"
	"sort"
	"strconv"
	"strings"
	"time"
)

func main() {
	attachGates()
	var (
		propID   = flag.String("property", "", "property id (C01..C20)")
		tier     = flag.String("tier", "quick", "quick|thorough")
		repo     = flag.String("repo", "/repo", "repository root")
		evDir    = flag.String("evidence", "evidence", "evidence directory")
		known    = flag.String("known", "known_findings.json", "known findings file")
		replay   = flag.String("replay", "", "replay file: re-decide one obligation instance verbosely")
		verbose  = flag.Bool("v", false, "print every obligation instance")
		list     = flag.Bool("list", false, "list properties and obligations")
		noSelf   = flag.Bool("noselftest", false, "thorough: skip the rule liveness self-test")
		noSweep  = flag.Bool("nosweep", false, "thorough: skip the condition sensitivity sweep")
		dump     = flag.String("dump", "", "debug: print the CFG of the named function and exit")
		noNorm   = flag.Bool("nonorm", false, "debug: analyse the tree as written, without inlining new helpers first")
		dumpNorm = flag.String("dumpnorm", "", "debug: print the normalised source of the named file (suffix match) and exit")
		dumpClos = flag.Bool("dumpclosures", false, "maintenance: print the table of local closure variables (frozen in closuretable.go)")
		dumpPar  = flag.Bool("dumpparams", false, "maintenance: print the parameter-name table of the module's functions (frozen in paramtable.go)")
	)
	flag.Parse()

	if *list {
		var ids []string
		for id := range registry {
			ids = append(ids, id)
		}
		sort.Strings(ids)
		for _, id := range ids {
			p := registry[id]
			fmt.Printf("%s %s\n", p.ID, p.Title)
			for _, o := range p.Obligations {
				fmt.Printf("  %-7s %-26s %-4s min=%d  %s\n", o.ID, o.Title, o.Template, o.MinInst, o.Rule)
			}
		}
		return
	}

	if *dumpClos {
		abs, _ := filepath.Abs(*repo)
		p, err := LoadProgram(abs, "", nil)
		if err != nil {
			fatal("%v", err)
		}
		dumpClosures(p)
		return
	}
	if *dumpPar {
		abs, _ := filepath.Abs(*repo)
		p, err := LoadProgram(abs, "", nil)
		if err != nil {
			fatal("%v", err)
		}
		dumpParams(p)
		return
	}
	if *dump != "" {
		abs, _ := filepath.Abs(*repo)
		p, err := LoadProgram(abs, "", nil)
		if err != nil {
			fatal("%v", err)
		}
		dumpCFG(p, *dump)
		return
	}
	var only *replayFile
	if *replay != "" {
		b, err := os.ReadFile(*replay)
		if err != nil {
			fatal("cannot read replay file: %v", err)
		}
		only = &replayFile{}
		if err := json.Unmarshal(b, only); err != nil {
			fatal("bad replay file: %v", err)
		}
		*propID = only.Property
		*verbose = true
		if only.Tier != "" {
			*tier = only.Tier
		}
	}
	prop := registry[*propID]
	if prop == nil {
		fatal("unknown property %q", *propID)
	}
	if *tier != "quick" && *tier != "thorough" {
		fatal("unknown tier %q", *tier)
	}
	seed, _ := strconv.Atoi(os.Getenv("VERIF_SEED"))
	start := time.Now()

	abs, err := filepath.Abs(*repo)
	if err != nil {
		fatal("%v", err)
	}
	var progs []*Program
	p0, err := LoadProgram(abs, "", nil)
	if err != nil {
		// a tree that does not load cannot be decided
		fmt.Printf("UNDECIDED property=%s: cannot load %s: %v\n", prop.ID, abs, err)
		fmt.Printf("VIOLATION property=%s replay=%s\n", prop.ID, "evidence/replay/"+prop.ID+"-load.json")
		os.Exit(1)
	}
	var normNotes []string
	curProgramRenamed = p0.renamed
	normNotes = append(normNotes, p0.Notes...)
	for _, n := range p0.Notes {
		fmt.Printf("note: %s\n", n)
	}
	if !*noNorm {
		var nn []string
		p0, nn = normalizeProgram(p0)
		curProgramRenamed = p0.renamed
		for _, n := range nn {
			fmt.Printf("note: %s\n", n)
		}
		normNotes = append(normNotes, nn...)
	}
	if *dumpNorm != "" {
		for name, b := range p0.overlay {
			if strings.HasSuffix(name, *dumpNorm) {
				fmt.Printf("==== %s\n%s\n", name, b)
			}
		}
		return
	}
	progs = append(progs, p0)
	if only == nil {
		old, _ := filepath.Glob(filepath.Join(*evDir, "replay", prop.ID+"-*.json"))
		for _, o := range old {
			os.Remove(o)
		}
	}
	funcs := map[string]bool{}
	var results []Result
	for i, p := range progs {
		rs := runProperty(p, prop, *tier, funcs)
		if i > 0 {
			for k := range rs {
				rs[k].Instance += " [" + p.Config + "]"
			}
		}
		results = append(results, rs...)
	}

	kf, err := loadKnown(*known)
	if err != nil {
		fatal("cannot read known findings: %v", err)
	}
	for i := range results {
		r := &results[i]
		if r.Verdict == Discharged {
			continue
		}
		for _, k := range kf {
			base := strings.SplitN(r.Instance, " [", 2)[0]
			if k.Status == "known" && k.Property == prop.ID && k.Obligation == r.Obligation && k.Instance == base {
				r.Known = true
			}
		}
	}

	selftest := map[string]any{}
	if len(normNotes) > 0 {
		selftest["normalisation"] = normNotes
	}
	if *tier == "thorough" && !*noSelf && only == nil {
		selftest = runSelfTest(p0, prop, results)
		for k, v := range runStabilityTest(p0, prop, funcs) {
			selftest[k] = v
		}
		if !*noSweep {
			sw := runSensitivitySweep(p0, prop, funcs)
			for k, v := range sw {
				selftest[k] = v
			}
			// keep the sweep lists beside the evidence, where a later quick run does not overwrite them
			if b, err := json.MarshalIndent(sw, "", " "); err == nil {
				dir := filepath.Join(*evDir, "sweep")
				if os.MkdirAll(dir, 0o755) == nil {
					os.WriteFile(filepath.Join(dir, prop.ID+".json"), b, 0o644)
				}
			}
		}
	}

	// output
	exit := 0
	rules := map[string]string{}
	for _, o := range prop.Obligations {
		rules[o.ID] = o.Rule
	}
	nd := 0
	for _, r := range results {
		if only != nil && (r.Obligation != only.Obligation || strings.SplitN(r.Instance, " [", 2)[0] != strings.SplitN(only.Instance, " [", 2)[0]) {
			continue
		}
		switch {
		case r.Verdict == Discharged:
			nd++
			if *verbose {
				fmt.Printf("ok        %s %-24s %s  %s  %s\n", r.Obligation, r.Title, r.Instance, strings.Join(r.Sites, ","), r.Detail)
			}
		case r.Known:
			fmt.Printf("KNOWN-FINDING: property=%s %s %s: %s (%s)\n", prop.ID, r.Obligation, r.Instance, r.Detail, strings.Join(r.Sites, ","))
		default:
			exit = 1
			path, _ := writeReplay(*evDir, prop, r, rules[r.Obligation], *tier)
			fmt.Printf("%s %s %s [%s] %s at %s: %s\n", strings.ToUpper(string(r.Verdict)), r.Obligation, r.Title, r.Template, r.Instance, strings.Join(r.Sites, ","), r.Detail)
			fmt.Printf("VIOLATION property=%s replay=%s\n", prop.ID, path)
		}
	}
	if st, ok := selftest["selftest_failures"].([]string); ok && len(st) > 0 {
		// a rule that does not react to the neutralisation of its own witness is
		// reported, but it is a defect of the checker, not of /repo: it does not
		// raise an alarm.
		for _, s := range st {
			fmt.Printf("selftest: not killed: %s\n", s)
		}
	}
	if st, ok := selftest["stability_failures"].([]string); ok && len(st) > 0 {
		for _, s := range st {
			fmt.Printf("stability: rule not stable under a behaviour-preserving rewrite: %s\n", s)
		}
	}
	wall := time.Since(start).Seconds()
	if only == nil {
		cmd := "bin/sunlint -property " + prop.ID + " -tier " + *tier
		if err := writeEvidence(*evDir, prop, *tier, seed, progs, results, funcs, selftest, wall, cmd); err != nil {
			fatal("cannot write evidence: %v", err)
		}
	}
	fmt.Printf("%s %s: %d obligation instances, %d discharged, tier=%s, %.1fs\n", prop.ID, map[int]string{0: "HOLDS", 1: "FAILS"}[exit], len(results), nd, *tier, wall)
	os.Exit(exit)
}

func fatal(format string, a ...any) {
	fmt.Fprintf(os.Stderr, "sunlint: "+format+"\n", a...)
	os.Exit(2)
}

// runProperty runs every obligation of prop on program p.
func runProperty(p *Program, prop *Property, tier string, funcs map[string]bool) []Result {
	var out []Result
	for _, ob := range prop.Obligations {
		out = append(out, runObligation(p, prop, ob, tier, funcs)...)
	}
	return out
}

func runObligation(p *Program, prop *Property, ob *Obligation, tier string, funcs map[string]bool) (res []Result) {
	c := &Ctx{P: p, Prop: prop, Ob: ob, Tier: tier, funcs: funcs}
	defer func() {
		if r := recover(); r != nil {
			c.Unk("rule panic", fmt.Sprintf("%v\n%s", r, firstLines(string(debug.Stack()), 12)))
			res = c.Results
		}
	}()
	ob.Run(c)
	n := 0
	for _, r := range c.Results {
		if r.Verdict == Discharged {
			n++
		}
	}
	bad := len(c.Results) - n
	if bad == 0 && n < ob.MinInst {
		c.Unk("instance-count", fmt.Sprintf("rule matched %d instances, fewer than the %d confirmed by hand: anchors moved or rule went vacuous", n, ob.MinInst))
	}
	return c.Results
}

func firstLines(s string, n int) string {
	l := strings.Split(s, "\n")
	if len(l) > n {
		l = l[:n]
	}
	return strings.Join(l, "\n")
}
