package main

// C20 - the health endpoint is green only for fresh, valid, consistent state.

import (
	"fmt"
	"go/ast"
	"go/types"

	"golang.org/x/tools/go/cfg"
)

func init() {
	register(&Property{
		ID:    "C20",
		Title: "The health endpoint is green only for fresh, valid, consistent state",
		Explanation: "Guard-dominance, finite-ordering evaluation of the handler's decision, value-flow and constant-agreement obligations on checkLog, witnessHealth.loadVerifiers/hashes/check and the /health handler of cmd/skylight. " +
			"Decided: checkLog returns nil only after the checkpoint verified under the key and name of log.v3.json, the origin matched, and the signature timestamp is fresh; it returns the read-only marker only after the three final-tree equalities; the handler turns the answer into a failure exactly for a non-nil, non-read-only error of a non-staging log (enumerated), and likewise for witness checks; a witness check succeeds only after verification with the published keys and the origin-hash test, and for mirrors additionally the verifying right-edge read, the pending checkpoint's verification with the witness keys, origin equality and mirror size <= pending size; the read-only horizon equals ctlog's (plus slack). " +
			"NOT decided: time-dependent outcomes (clock values).",
		Assumptions: []string{"note.Open, tlog/torchwood verifying readers and os.Root behave as documented"},
		Obligations: []*Obligation{
			{ID: "C20.a", Title: "LOG-GUARDS", Template: "T2", MinInst: 7,
				Rule: "checkLog's nil return is dominated by signature verification with (log.Name, log key), origin equality and freshness; the read-only return by the three final-tree equalities", Run: c20a},
			{ID: "C20.b", Title: "HANDLER-TABLE", Template: "T7", MinInst: 8,
				Rule: "over (err nil / read-only / other) x staging: the failure status is set exactly for (other, not staging), for log and witness checks", Run: c20b},
			{ID: "C20.c", Title: "WITNESS-GUARDS", Template: "T2", MinInst: 3,
				Rule: "witnessHealth.check's nil return is dominated by note.Open with the loaded verifier, checkpoint parse, and OriginHash(origin) == directory name; the verifier comes from the witness's published key file", Run: c20c},
			{ID: "C20.d", Title: "MIRROR-GUARDS", Template: "T2", MinInst: 4,
				Rule: "for a mirror the nil return is additionally dominated by the verifying right-edge read, the pending checkpoint's verification with the witness verifier, pending origin equality and mirror size <= pending size", Run: c20d},
			{ID: "C20.e", Title: "CONSTANTS", Template: "T5", MinInst: 1,
				Rule: "the read-only horizon used by checkLog is ctlog.ReadOnlyAfter plus a few seconds of slack", Run: c20e},
		},
	})
}

func c20a(c *Ctx) {
	f := c.Fn("skylight.checkLog")
	if f == nil {
		return
	}
	info := f.Info()
	g := f.Graph()
	var nilRets, sunsetRets []Site
	for _, r := range f.Returns() {
		e := r.X.(*ast.ReturnStmt).Results[0]
		if isNilIdent(info, e) {
			nilRets = append(nilRets, r)
		} else if isPkgVar(info, e, pkgSkylight, "errLogSunset") {
			sunsetRets = append(sunsetRets, r)
		}
	}
	both := append(append([]Site{}, nilRets...), sunsetRets...)
	if len(nilRets) == 0 {
		c.Unk(f.Name, "no nil return")
		return
	}
	var logObj, vObj, ckObj, noteObj, tsObj types.Object
	for _, s := range f.Calls(Callee{pkgRoot, "", "NewRFC6962Verifier"}) {
		if a, ok := s.Node.(*ast.AssignStmt); ok {
			vObj = objOf(info, a.Lhs[0])
		}
		r, p, ok := fieldPath(info, argByName(info, s.Call, "name"))
		if ok && len(p) == 1 && p[0] == "Name" {
			logObj = r
		}
		kOK := false
		if pk, ok := f.IsCallResult(argByName(info, s.Call, "key"), 0, Callee{"crypto/x509", "", "ParsePKIXPublicKey"}); ok {
			if r2, p2, ok2 := fieldPath(info, pk.Args[0]); ok2 && r2 == logObj && len(p2) == 1 && p2[0] == "PublicKeyDER" {
				kOK = true
			}
		}
		if kOK && logObj != nil {
			c.OK(f.Name+" verifier", "NewRFC6962Verifier(log.Name, ParsePKIXPublicKey(log.PublicKeyDER)) from log.v3.json", []string{s.Pos()})
		} else {
			c.Bad(f.Name+" verifier", s.Pos(), "the checkpoint is not verified under the name and key published in log.v3.json")
		}
	}
	opens := f.Calls(Callee{pkgNote, "", "Open"})
	for _, s := range opens {
		if a, ok := s.Node.(*ast.AssignStmt); ok {
			noteObj = objOf(info, a.Lhs[0])
		}
		vl, ok := ast.Unparen(s.Call.Args[1]).(*ast.CallExpr)
		if !ok || len(vl.Args) != 1 || objOf(info, vl.Args[0]) != vObj || vObj == nil {
			c.Bad(f.Name+" verifier list", s.Pos(), "note.Open accepts verifiers other than the log's")
		}
	}
	c.requireGate(f.Name+" signature verified", f, opens, OutNil, both, "healthy / read-only only for a checkpoint that verifies")
	for _, s := range f.Calls(Callee{pkgTorch, "", "ParseCheckpoint"}) {
		if a, ok := s.Node.(*ast.AssignStmt); ok {
			ckObj = objOf(info, a.Lhs[0])
		}
		if r, p, ok := fieldPath(info, s.Call.Args[0]); !ok || r != noteObj || len(p) != 1 || p[0] != "Text" {
			c.Bad(f.Name+" parsed text", s.Pos(), "the checkpoint parsed is not the verified note's text")
		}
	}
	fld := func(o types.Object, path ...string) func(ast.Expr) bool {
		return func(e ast.Expr) bool {
			e = stripConv(info, e)
			if sl, ok := ast.Unparen(e).(*ast.SliceExpr); ok {
				e = sl.X
			}
			r, p, ok := fieldPath(info, e)
			if !ok || r != o || o == nil || len(p) != len(path) {
				return false
			}
			for i := range p {
				if p[i] != path[i] {
					return false
				}
			}
			return true
		}
	}
	c.guardSuccess(f, "origin == log name", g.EdgesImplying(func(a Atom) bool {
		rel, ok := cmpRel(a, fld(ckObj, "Origin"), fld(logObj, "Name"))
		return ok && rel == relEQ
	}), both,
		"a checkpoint of another origin is reported healthy")
	// timestamp
	tsc := f.Calls(Callee{pkgRoot, "", "RFC6962SignatureTimestamp"})
	for _, s := range tsc {
		if a, ok := s.Node.(*ast.AssignStmt); ok {
			tsObj = objOf(info, a.Lhs[0])
		}
	}
	c.requireGate(f.Name+" timestamp extracted", f, tsc, OutNil, both, "healthy only when the signature timestamp parsed")
	// freshness: time.Since(time.UnixMilli(t)) > 5s => error
	isAge := func(e ast.Expr) bool {
		call, ok := ast.Unparen(e).(*ast.CallExpr)
		if !ok || !matchCallee(info, call, Callee{"time", "", "Since"}) {
			return false
		}
		um, ok := f.IsCallResult(call.Args[0], -1, Callee{"time", "", "UnixMilli"})
		return ok && objOf(info, um.Args[0]) == tsObj && tsObj != nil
	}
	isDur := func(e ast.Expr) bool { v, ok := constInt(info, e); return ok && v > 0 && v <= int64(60e9) }
	fresh := g.EdgesImplying(func(a Atom) bool { rel, ok := cmpRel(a, isAge, isDur); return ok && rel&relGT == 0 })
	c.guardSuccess(f, "checkpoint fresh", fresh, nilRets, "a stale checkpoint is reported healthy")
	// read-only: three equalities
	for _, eq := range []struct {
		name string
		a, b func(ast.Expr) bool
		call bool
	}{
		{"final tree size", fld(logObj, "FinalTree", "Size"), fld(ckObj, "N"), false},
		{"final tree timestamp", fld(logObj, "FinalTree", "Timestamp"), func(e ast.Expr) bool { return objOf(info, e) == tsObj }, false},
	} {
		eq := eq
		c.guardSuccess(f, "read-only: "+eq.name, g.EdgesImplying(func(a Atom) bool { rel, ok := cmpRel(a, eq.a, eq.b); return ok && rel == relEQ }), sunsetRets,
			"a log past its read-only date is reported fine although its checkpoint's "+eq.name+" differs from the recorded final tree")
	}
	hashEq := g.EdgesImplying(func(a Atom) bool {
		call, ok := ast.Unparen(a.E).(*ast.CallExpr)
		if !ok || !a.Val || !matchCallee(info, call, Callee{"bytes", "", "Equal"}) {
			return false
		}
		return (fld(logObj, "FinalTree", "RootHash")(call.Args[0]) && fld(ckObj, "Hash")(call.Args[1])) || (fld(logObj, "FinalTree", "RootHash")(call.Args[1]) && fld(ckObj, "Hash")(call.Args[0]))
	})
	c.guardSuccess(f, "read-only: final tree hash", hashEq, sunsetRets, "a log past its read-only date is reported fine although its root differs from the recorded final tree")
	// the read-only branch is taken only past the horizon
	isSinceLimit := func(e ast.Expr) bool {
		call, ok := ast.Unparen(e).(*ast.CallExpr)
		return ok && matchCallee(info, call, Callee{"time", "", "Since"})
	}
	isHorizon := func(e ast.Expr) bool { v, ok := constInt(info, e); return ok && v > int64(24*3600*1e9) }
	c.guardSuccess(f, "read-only only past the horizon", g.EdgesImplying(func(a Atom) bool { rel, ok := cmpRel(a, isSinceLimit, isHorizon); return ok && rel == relGT }), sunsetRets,
		"a log can be reported read-only (stale checkpoint tolerated) before its read-only date")
	// ... and conversely a log past its read-only date is never plainly healthy: freshness alone is not
	// enough there, the checkpoint has to be the recorded final tree (seed C20-n2 tested freshness first)
	c.guardSuccess(f, "healthy only before the horizon", g.EdgesImplying(func(a Atom) bool { rel, ok := cmpRel(a, isSinceLimit, isHorizon); return ok && rel&relGT == 0 }), nilRets,
		"a log past its read-only date is reported healthy on the strength of a fresh checkpoint alone: it may have grown past (or lack) the recorded final tree")
}

func c20b(c *Ctx) {
	m := c.Fn("skylight.main")
	if m == nil {
		return
	}
	info := m.Info()
	// the /health handler
	var h *Func
	for _, s := range m.Calls(Callee{"net/http", "ServeMux", "HandleFunc"}) {
		if pat, _ := constString(info, s.Call.Args[0]); pat == "/health" {
			if lit, ok := ast.Unparen(s.Call.Args[1]).(*ast.FuncLit); ok {
				h = c.P.FuncOfLit(lit)
			}
		}
	}
	if h == nil {
		c.Unk("/health handler", "not found")
		return
	}
	c.touch(h)
	g := h.Graph()
	// status = 500 stores
	var statusObj types.Object
	var fails []Site
	for _, s := range h.Find(func(n ast.Node) bool {
		a, ok := n.(*ast.AssignStmt)
		if !ok || len(a.Lhs) != 1 || len(a.Rhs) != 1 {
			return false
		}
		v, isC := constInt(info, a.Rhs[0])
		return isC && v == 500
	}) {
		statusObj = objOf(info, s.X.(*ast.AssignStmt).Lhs[0])
		fails = append(fails, s)
	}
	if statusObj == nil {
		c.Bad("/health failure status", h.Pos(h.Lit), "the health handler never reports a failure")
		return
	}
	// status written to the response
	wrote := false
	for _, s := range h.Find(func(n ast.Node) bool {
		call, ok := n.(*ast.CallExpr)
		if !ok {
			return false
		}
		sel, ok := ast.Unparen(call.Fun).(*ast.SelectorExpr)
		return ok && sel.Sel.Name == "WriteHeader" && len(call.Args) == 1 && objOf(info, call.Args[0]) == statusObj
	}) {
		_ = s
		wrote = true
	}
	if !wrote {
		c.Bad("/health response status", h.Pos(h.Lit), "the computed status is not what the handler responds with")
	}
	// checks: each call whose error steers the status
	type chk struct {
		name    string
		sites   []Site
		staging func(ast.Expr) bool
		sunset  bool
	}
	isStaging := func(field string) func(ast.Expr) bool {
		return func(e ast.Expr) bool {
			_, p, ok := fieldPath(info, e)
			return ok && len(p) == 1 && p[0] == field
		}
	}
	checks := []chk{
		{"checkLog", h.Calls(Callee{pkgSkylight, "", "checkLog"}), isStaging("Staging"), true},
		{"witness check", h.Calls(Callee{pkgSkylight, "witnessHealth", "check"}), isStaging("staging"), false},
		{"witness verifier keys", h.Calls(Callee{pkgSkylight, "witnessHealth", "loadVerifiers"}), isStaging("staging"), false},
		{"witness log enumeration", h.Calls(Callee{pkgSkylight, "witnessHealth", "hashes"}), isStaging("staging"), false},
	}
	for _, ck := range checks {
		if len(ck.sites) != 1 {
			c.Unk("/health "+ck.name, fmt.Sprintf("expected one call, found %d", len(ck.sites)))
			continue
		}
		s := ck.sites[0]
		errObj, ok := resultVar(s, isErrorType)
		if !ok {
			c.Bad("/health "+ck.name, s.Pos(), "the result of the check is dropped")
			continue
		}
		isErr := func(e ast.Expr) bool { return objOf(info, e) == errObj }
		// only the failure stores of this check's own loop iteration count
		var loop ast.Stmt
		ast.Inspect(h.Body, func(n ast.Node) bool {
			switch x := n.(type) {
			case *ast.RangeStmt:
				if x.Body.Pos() <= s.Call.Pos() && s.Call.End() <= x.Body.End() {
					loop = x
				}
			case *ast.ForStmt:
				if x.Body.Pos() <= s.Call.Pos() && s.Call.End() <= x.Body.End() {
					loop = x
				}
			}
			return true
		})
		// loops nested in the check's loop that do not contain the call: their stores belong to other checks
		var inner []ast.Stmt
		if loop != nil {
			ast.Inspect(loop, func(n ast.Node) bool {
				switch x := n.(type) {
				case *ast.RangeStmt, *ast.ForStmt:
					st := x.(ast.Stmt)
					if st != loop && !(st.Pos() <= s.Call.Pos() && s.Call.End() <= st.End()) {
						inner = append(inner, st)
					}
				}
				return true
			})
		}
		var own []Site
		for _, fs := range fails {
			if loop != nil && loop.Pos() <= fs.X.Pos() && fs.X.End() <= loop.End() {
				nested := false
				for _, in := range inner {
					if in.Pos() <= fs.X.Pos() && fs.X.End() <= in.End() {
						nested = true
					}
				}
				if !nested {
					own = append(own, fs)
				}
			}
		}
		if loop == nil || len(own) == 0 {
			c.Bad("/health "+ck.name, s.Pos(), "a failed check never sets the failure status")
			continue
		}
		var head *cfg.Block
		for _, b := range g.Blocks {
			if (b.Kind == cfg.KindRangeLoop || b.Kind == cfg.KindForLoop) && b.Stmt == loop {
				head = b
			}
		}
		// the stores that belong to this check: reachable from the call before the next loop iteration
		for _, errClass := range []string{"nil", "read-only", "other"} {
			if errClass == "read-only" && !ck.sunset {
				continue
			}
			for _, staging := range []bool{false, true} {
				errClass, staging := errClass, staging
				env := func(e ast.Expr) Tri {
					if eq, ok := isNilCmp(info, e, isErr); ok {
						isNil := errClass == "nil"
						if eq == isNil {
							return True
						}
						return False
					}
					if call, ok := ast.Unparen(e).(*ast.CallExpr); ok && matchCallee(info, call, Callee{"errors", "", "Is"}) && len(call.Args) == 2 && isErr(call.Args[0]) {
						if isPkgVar(info, call.Args[1], pkgSkylight, "errLogSunset") {
							if errClass == "read-only" {
								return True
							}
							return False
						}
					}
					if ck.staging(e) {
						if staging {
							return True
						}
						return False
					}
					return Unknown
				}
				// stop at the next occurrence of the same call (next iteration) so that other iterations do not count
				stop := func(p Point, n ast.Node) bool {
					return p == s.P || (n != nil && assignsTo(info, n, errObj))
				}
				pt, _ := g.Reach(s.After(), Cut{Edges: g.FeasibleCut(env), Stop: stop, NoEnter: func(b *cfg.Block) bool { return b == head }}, atAnySite(own))
				want := errClass == "other" && !staging
				inst := fmt.Sprintf("/health %s [err=%s staging=%v]", ck.name, errClass, staging)
				if (pt != nil) == want {
					d := "failure status not set"
					if want {
						d = "failure status set"
					}
					c.add(Result{Instance: inst, Verdict: Discharged, Detail: d})
				} else if want {
					c.Bad(inst, s.Pos(), "a failed check of a non-staging entry does not turn the health answer into a failure")
				} else {
					c.Bad(inst, s.Pos(), "the health answer becomes a failure although the check passed, the log is read-only, or the entry is staging")
				}
			}
		}
	}
	// loadVerifiers / hashes errors also fail (non-staging)
	for _, s := range h.Calls(Callee{pkgSkylight, "witnessHealth", "loadVerifiers"}) {
		if ok, how := errDiscipline(s); !ok {
			c.Bad("/health loadVerifiers", s.Pos(), "the error of loading the witness verifier keys is dropped ("+how+")")
		}
	}
}

func c20c(c *Ctx) {
	f := c.Fn("skylight.(witnessHealth).check")
	if f == nil {
		return
	}
	info := f.Info()
	g := f.Graph()
	recv := f.recvObj()
	var okRets []Site
	for _, r := range f.Returns() {
		rs := r.X.(*ast.ReturnStmt).Results
		if len(rs) == 2 && isNilIdent(info, rs[1]) {
			okRets = append(okRets, r)
		}
	}
	opens := f.Calls(Callee{pkgNote, "", "Open"})
	var first []Site
	for _, s := range opens {
		if f.IsFieldPathOf(s.Call.Args[1], func(o types.Object) bool { return o == recv }, "verifier") {
			first = append(first, s)
		}
	}
	if len(first) != 1 || len(okRets) == 0 {
		c.Bad(f.Name+" checkpoint verified", f.Pos(f.Decl), "the served checkpoint is not verified with the keys loaded from the witness's published key file")
		return
	}
	c.requireGate(f.Name+" checkpoint verified", f, first, OutNil, okRets, "healthy only for a checkpoint signed by a published witness key")
	var ckObj types.Object
	for _, s := range f.Calls(Callee{pkgTorch, "", "ParseCheckpoint"}) {
		if a, ok := s.Node.(*ast.AssignStmt); ok && ckObj == nil {
			ckObj = objOf(info, a.Lhs[0])
		}
	}
	hashP := f.paramObj("hash")
	isOH := func(e ast.Expr) bool {
		_, ok := f.IsCallResult(e, -1, Callee{pkgWitness, "", "OriginHash"})
		return ok
	}
	isH := func(e ast.Expr) bool { return objOf(info, e) == hashP }
	c.guardSuccess(f, "origin hash == directory", g.EdgesImplying(func(a Atom) bool { rel, ok := cmpRel(a, isOH, isH); return ok && rel == relEQ }), okRets,
		"a checkpoint stored under the hash of another origin is reported healthy")
	// loadVerifiers: verifier parsed from witness.v0.json / mirror.v0.json of its own root
	if lv := c.Fn("skylight.(*witnessHealth).loadVerifiers"); lv != nil {
		li := lv.Info()
		lrecv := lv.recvObj()
		ok := false
		for _, st := range lv.StoresTo(c.P.fieldVar(pkgSkylight, "witnessHealth", "verifier")) {
			if call, isC := lv.IsCallResult(st.Rhs, 0, Callee{pkgSkylight, "", "parseVerifiers"}); isC && lv.IsFieldPathOf(call.Args[0], func(o types.Object) bool { return o == lrecv }, "root") {
				ok = true
			}
		}
		okW := false
		for _, st := range lv.StoresTo(c.P.fieldVar(pkgSkylight, "witnessHealth", "witnessVerifier")) {
			if call, isC := lv.IsCallResult(st.Rhs, 0, Callee{pkgSkylight, "", "parseVerifiers"}); isC && lv.IsFieldPathOf(call.Args[0], func(o types.Object) bool { return o == lrecv }, "pendingRoot") {
				if s, _ := constString(li, call.Args[1]); s == "witness.v0.json" {
					okW = true
				}
			}
		}
		if ok && okW {
			c.OK(lv.Name, "verifier from its own root's key file; pending verifier from the witness root's witness.v0.json", []string{lv.Pos(lv.Decl)})
		} else {
			c.Bad(lv.Name, lv.Pos(lv.Decl), "verifier keys are not loaded from the published key files of the respective directories")
		}
	}
	if pv := c.Fn("skylight.parseVerifiers"); pv != nil {
		pg := pv.Graph()
		pi := pv.Info()
		isLen := func(e ast.Expr) bool {
			call, ok := ast.Unparen(e).(*ast.CallExpr)
			return ok && isBuiltinCall(pi, call, "len")
		}
		isZero := func(e ast.Expr) bool { v, ok := constInt(pi, e); return ok && v == 0 }
		c.guardSuccess(pv, "at least one key", pg.EdgesImplying(func(a Atom) bool { rel, ok := cmpRel(a, isLen, isZero); return ok && rel&relEQ == 0 }), successReturns(pv),
			"an empty key list yields a verifier that accepts nothing / everything silently")
	}
}

func c20d(c *Ctx) {
	f := c.Fn("skylight.(witnessHealth).check")
	if f == nil {
		return
	}
	info := f.Info()
	g := f.Graph()
	recv := f.recvObj()
	isRecv := func(o types.Object) bool { return o == recv }
	// the mirror part: returns after the `if !wh.mirror { return }` early exit
	var okRets []Site
	for _, r := range f.Returns() {
		rs := r.X.(*ast.ReturnStmt).Results
		if len(rs) == 2 && isNilIdent(info, rs[1]) {
			okRets = append(okRets, r)
		}
	}
	isMirror := func(e ast.Expr) bool { return f.IsFieldPathOf(e, isRecv, "mirror") }
	env := func(e ast.Expr) Tri {
		if isMirror(e) {
			return True
		}
		return Unknown
	}
	feas := g.FeasibleCut(env)
	guard := func(name string, safe map[Edge]bool, msg string) {
		inst := f.Name + " mirror: " + name
		if len(safe) == 0 {
			c.Bad(inst, f.Pos(f.Decl), msg+" (no such check)")
			return
		}
		if pt, _ := g.ReachableFromEntry(Cut{Edges: unionEdges(feas, safe)}, atAnySite(okRets)); pt != nil {
			c.Bad(inst, okRets[0].Pos(), msg)
			return
		}
		if pt, _ := g.ReachableFromEntry(Cut{Edges: feas}, atAnySite(okRets)); pt == nil {
			c.Unk(inst, "no success path for a mirror")
			return
		}
		c.add(Result{Instance: inst, Verdict: Discharged, Evals: 2, Detail: "mirror success unreachable unless " + name, Witnesses: f.WitEdges(safe)})
	}
	// right-edge read
	rh := f.Find(func(n ast.Node) bool {
		call, ok := n.(*ast.CallExpr)
		if !ok {
			return false
		}
		sel, ok := ast.Unparen(call.Fun).(*ast.SelectorExpr)
		return ok && sel.Sel.Name == "ReadHashes"
	})
	rhOK, _ := gateEdges(rh, OutNil)
	// bypass: empty right edge (size 0)
	emptyEdge := g.EdgesImplying(func(a Atom) bool {
		rel, ok := cmpRel(a, func(e ast.Expr) bool {
			call, ok := ast.Unparen(e).(*ast.CallExpr)
			return ok && isBuiltinCall(info, call, "len")
		}, func(e ast.Expr) bool { v, ok := constInt(info, e); return ok && v == 0 })
		return ok && rel&relGT == 0
	})
	guard("right-edge tiles verified", unionEdges(rhOK, emptyEdge), "a mirror whose right-edge tiles are missing or invalid is reported healthy")
	// the reader verifies against the mirror checkpoint's tree
	for _, s := range f.Calls(Callee{pkgTorch, "", "TileHashReaderWithContext"}) {
		_, p, ok := fieldPath(info, s.Call.Args[1])
		if !ok || len(p) != 1 || p[0] != "Tree" {
			c.Bad(f.Name+" mirror: reader tree", s.Pos(), "the right edge is not verified against the mirror checkpoint's tree")
		}
	}
	// pending checkpoint
	var pend []Site
	for _, s := range f.Calls(Callee{pkgNote, "", "Open"}) {
		if f.IsFieldPathOf(s.Call.Args[1], isRecv, "witnessVerifier") {
			pend = append(pend, s)
		}
	}
	pOK, _ := gateEdges(pend, OutNil)
	guard("pending checkpoint verified", pOK, "the pending checkpoint is not verified with the witness's keys")
	var ckObjs []types.Object
	for _, s := range f.Calls(Callee{pkgTorch, "", "ParseCheckpoint"}) {
		if a, ok := s.Node.(*ast.AssignStmt); ok {
			ckObjs = append(ckObjs, objOf(info, a.Lhs[0]))
		}
	}
	if len(ckObjs) != 2 {
		c.Unk(f.Name+" mirror: checkpoints", "expected the mirror and the pending checkpoint")
		return
	}
	mir, pen := ckObjs[0], ckObjs[1]
	fld := func(o types.Object, name string) func(ast.Expr) bool {
		return func(e ast.Expr) bool {
			r, p, ok := fieldPath(info, e)
			return ok && r == o && len(p) == 1 && p[0] == name
		}
	}
	// origin var := checkpoint.Origin
	isOrigin := func(e ast.Expr) bool {
		if fld(mir, "Origin")(e) {
			return true
		}
		v := f.ResolveDeep(e)
		return fld(mir, "Origin")(v.E)
	}
	guard("pending origin == mirror origin", g.EdgesImplying(func(a Atom) bool { rel, ok := cmpRel(a, fld(pen, "Origin"), isOrigin); return ok && rel == relEQ }), "a pending checkpoint of another origin is compared")
	guard("mirror size <= pending size", g.EdgesImplying(func(a Atom) bool { rel, ok := cmpRel(a, fld(mir, "N"), fld(pen, "N")); return ok && rel&relGT == 0 }), "a mirror checkpoint ahead of the pending checkpoint is reported healthy")
}

func c20e(c *Ctx) {
	f := c.Fn("skylight.checkLog")
	if f == nil {
		return
	}
	info := f.Info()
	var ro int64 = -1
	if pk := c.P.Pkgs[pkgCtlog]; pk != nil {
		if cst, ok := pk.Types.Scope().Lookup("ReadOnlyAfter").(*types.Const); ok {
			ro, _ = constantInt64(cst)
		}
	}
	found := false
	ast.Inspect(f.Body, func(n ast.Node) bool {
		be, ok := n.(*ast.BinaryExpr)
		if !ok {
			return true
		}
		var v int64
		isSince := func(e ast.Expr) bool {
			call, ok := ast.Unparen(e).(*ast.CallExpr)
			return ok && matchCallee(info, call, Callee{"time", "", "Since"})
		}
		isBig := func(e ast.Expr) bool {
			x, ok := constInt(info, e)
			if ok && x >= int64(24*3600*1e9) {
				v = x
				return true
			}
			return false
		}
		if rel, isCmp := cmpRel(Atom{be, true}, isSince, isBig); !isCmp || rel != relGT {
			return true
		}
		found = true
		slack := v - ro
		if ro > 0 && slack >= 0 && slack <= int64(60e9) {
			c.add(Result{Instance: "read-only horizon", Verdict: Discharged, Evals: 1, Sites: []string{f.Pos(be)}, Detail: fmt.Sprintf("checkLog horizon = ctlog.ReadOnlyAfter + %ds", slack/1e9)})
		} else {
			c.Bad("read-only horizon", f.Pos(be), fmt.Sprintf("checkLog treats a log as read-only after %dns but the log stops sequencing after %dns: healthy logs would be flagged or stale ones tolerated", v, ro))
		}
		return true
	})
	if !found {
		c.Unk("read-only horizon", "no horizon comparison in checkLog")
	}
}
