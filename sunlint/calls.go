package main

// Call-site resolution (through type information, never by text) and the
// outcome edges of a call: which CFG edges are taken when the call's error
// result is nil / non-nil.

import (
	"go/ast"
	"go/constant"
	"go/token"
	"go/types"
	"strings"

	"golang.org/x/tools/go/cfg"
	"golang.org/x/tools/go/types/typeutil"
)

// Callee describes a function or method: package path, receiver type name
// ("" for a plain function; the interface name for an interface method) and
// name. "*" as Recv matches any receiver; "*" as Name any name.
type Callee struct{ Pkg, Recv, Name string }

func (c Callee) String() string {
	s := shortPkg(c.Pkg) + "."
	if c.Recv != "" {
		s += c.Recv + "."
	}
	return s + c.Name
}

func calleeObj(info *types.Info, call *ast.CallExpr) types.Object {
	return typeutil.Callee(info, call)
}

// recvName returns the name of the receiver's named type ("" if none).
func recvName(fn *types.Func) string {
	sig, ok := fn.Type().(*types.Signature)
	if !ok || sig.Recv() == nil {
		return ""
	}
	t := sig.Recv().Type()
	if p, ok := t.(*types.Pointer); ok {
		t = p.Elem()
	}
	switch n := t.(type) {
	case *types.Named:
		return n.Obj().Name()
	case *types.Alias:
		return n.Obj().Name()
	}
	return "?"
}

func funcMatches(fn *types.Func, spec Callee) bool {
	if fn == nil {
		return false
	}
	fn = fn.Origin()
	pkg := ""
	if fn.Pkg() != nil {
		pkg = fn.Pkg().Path()
	}
	if spec.Pkg != "*" && pkg != spec.Pkg {
		return false
	}
	name := fn.Name()
	if curProgramRenamed != nil {
		// a function the loader recognised as renamed answers to the name the rules know
		if old, ok := curProgramRenamed[fn.FullName()]; ok {
			name = old[strings.LastIndex(old, ".")+1:]
		}
	}
	if spec.Name != "*" && name != spec.Name {
		return false
	}
	r := recvName(fn)
	if spec.Recv == "*" {
		return true
	}
	return r == spec.Recv
}

func matchCallee(info *types.Info, call *ast.CallExpr, specs ...Callee) bool {
	fn, ok := calleeObj(info, call).(*types.Func)
	if !ok {
		return false
	}
	for _, s := range specs {
		if funcMatches(fn, s) {
			return true
		}
	}
	return false
}

// isBuiltinCall reports a call to the named builtin (close, len, append, ...).
func isBuiltinCall(info *types.Info, call *ast.CallExpr, name string) bool {
	id, ok := ast.Unparen(call.Fun).(*ast.Ident)
	if !ok {
		return false
	}
	b, ok := info.Uses[id].(*types.Builtin)
	return ok && b.Name() == name
}

// constString returns the constant string value of e, if any.
func constString(info *types.Info, e ast.Expr) (string, bool) {
	tv, ok := info.Types[e]
	if !ok || tv.Value == nil || tv.Value.Kind() != constant.String {
		return "", false
	}
	return constant.StringVal(tv.Value), true
}

func constInt(info *types.Info, e ast.Expr) (int64, bool) {
	tv, ok := info.Types[e]
	if !ok || tv.Value == nil {
		return 0, false
	}
	v := constant.ToInt(tv.Value)
	if v.Kind() != constant.Int {
		return 0, false
	}
	n, exact := constant.Int64Val(v)
	return n, exact
}

func constBool(info *types.Info, e ast.Expr) (bool, bool) {
	tv, ok := info.Types[e]
	if !ok || tv.Value == nil || tv.Value.Kind() != constant.Bool {
		return false, false
	}
	return constant.BoolVal(tv.Value), true
}

// argByName returns the argument expression bound to the callee's parameter
// with the given name (from the type-checked signature).
func argByName(info *types.Info, call *ast.CallExpr, name string) ast.Expr {
	var sig *types.Signature
	if fn, ok := calleeObj(info, call).(*types.Func); ok {
		sig, _ = fn.Type().(*types.Signature)
	} else if tv, ok := info.Types[call.Fun]; ok {
		sig, _ = tv.Type.Underlying().(*types.Signature)
	}
	if sig == nil {
		return nil
	}
	for i := 0; i < sig.Params().Len(); i++ {
		if sig.Params().At(i).Name() == name && i < len(call.Args) {
			if sig.Variadic() && i == sig.Params().Len()-1 {
				return nil
			}
			return call.Args[i]
		}
	}
	// the parameter was renamed since the rules were written: use its position
	if fn, ok := calleeObj(info, call).(*types.Func); ok {
		if i := frozenParamIndex(fn, name, sig.Params().Len()); i >= 0 && i < len(call.Args) {
			if sig.Variadic() && i == sig.Params().Len()-1 {
				return nil
			}
			return call.Args[i]
		}
	}
	return nil
}

// curProgramRenamed: the rename table of the program being analysed (load.go, aliasRenamed).
var curProgramRenamed map[string]string

func frozenParamIndex(fn *types.Func, name string, n int) int {
	names, ok := frozenParams[fn.Origin().FullName()]
	if !ok && curProgramRenamed != nil {
		if old, has := curProgramRenamed[fn.Origin().FullName()]; has {
			names, ok = frozenParams[old]
		}
	}
	if !ok || len(names) != n {
		return -1
	}
	for i, nm := range names {
		if nm == name {
			return i
		}
	}
	return -1
}

func isErrorType(t types.Type) bool {
	return t != nil && types.Identical(t, types.Universe.Lookup("error").Type())
}

func isBoolType(t types.Type) bool {
	b, ok := t.Underlying().(*types.Basic)
	return ok && b.Info()&types.IsBoolean != 0
}

// objOf returns the object an identifier expression denotes.
func objOf(info *types.Info, e ast.Expr) types.Object {
	id, ok := ast.Unparen(e).(*ast.Ident)
	if !ok {
		return nil
	}
	if o := info.Defs[id]; o != nil {
		return o
	}
	return info.Uses[id]
}

// usesObj reports whether expression e mentions obj.
func usesObj(info *types.Info, e ast.Node, obj types.Object) bool {
	found := false
	ast.Inspect(e, func(n ast.Node) bool {
		if id, ok := n.(*ast.Ident); ok && (info.Uses[id] == obj || info.Defs[id] == obj) {
			found = true
		}
		return !found
	})
	return found
}

// resultVar finds the variable that receives the result of the call at site s
// whose type satisfies want (error / bool). ok=false when the result is
// discarded or the call is not in a recognised binding position.
func resultVar(s Site, want func(types.Type) bool) (types.Object, bool) {
	info := s.F.Info()
	switch n := s.Node.(type) {
	case *ast.AssignStmt:
		if len(n.Rhs) == 1 && ast.Unparen(n.Rhs[0]) == s.real() {
			for _, l := range n.Lhs {
				o := objOf(info, l)
				if o != nil && want(o.Type()) {
					return o, true
				}
			}
			return nil, false
		}
		for i, r := range n.Rhs {
			if ast.Unparen(r) == s.real() && i < len(n.Lhs) {
				o := objOf(info, n.Lhs[i])
				if o != nil && want(o.Type()) {
					return o, true
				}
			}
		}
	case *ast.DeclStmt:
		if gd, ok := n.Decl.(*ast.GenDecl); ok {
			for _, sp := range gd.Specs {
				vs := sp.(*ast.ValueSpec)
				if len(vs.Values) == 1 && ast.Unparen(vs.Values[0]) == s.real() {
					for _, nm := range vs.Names {
						o := info.Defs[nm]
						if o != nil && want(o.Type()) {
							return o, true
						}
					}
				}
			}
		}
	}
	return nil, false
}

// assignsTo reports whether node n (a CFG node) assigns to obj.
func assignsTo(info *types.Info, n ast.Node, obj types.Object) bool {
	found := false
	inspectNoLit(n, func(x ast.Node) bool {
		switch a := x.(type) {
		case *ast.AssignStmt:
			for _, l := range a.Lhs {
				if objOf(info, l) == obj {
					found = true
				}
			}
		case *ast.IncDecStmt:
			if objOf(info, a.X) == obj {
				found = true
			}
		}
		return !found
	})
	return found
}

// Outcome classifies an edge relative to a call's error result.
type Outcome int

const (
	OutNil    Outcome = iota // error result known nil (call succeeded)
	OutNonNil                // error result known non-nil
)

// OutcomeEdges computes, for the call at site s whose error result is bound to
// a variable, the CFG edges on which that variable is known nil and those on
// which it is known non-nil. The search follows the control flow from the call
// until the variable is tested or overwritten. ok=false when the result is not
// bound to a variable or never tested (the call's outcome does not steer
// control flow).
//
// Recognised idioms: `x, err := A(); if err != nil {..}`, `if err := A(); err
// != nil`, `if _, err := A(); err == nil {..}`, tests against sentinel errors
// (`err == io.EOF` true edge => non-nil), `switch`-form, conjunction/
// disjunction with other atoms (only the implied side is used), `errors.Is(err,
// X)` true edge => non-nil.
func OutcomeEdges(s Site) (nilE, nonNilE map[Edge]bool, errObj types.Object, ok bool) {
	obj, found := resultVar(s, isErrorType)
	if !found {
		return nil, nil, nil, false
	}
	nilE, nonNilE = boolOrErrEdges(s, obj, true)
	return nilE, nonNilE, obj, len(nilE)+len(nonNilE) > 0
}

// BoolEdges is OutcomeEdges for a boolean result (`v, ok := m[k]`, or a
// bool-returning call): edges on which the bound variable is true / false.
func BoolEdges(s Site) (trueE, falseE map[Edge]bool, obj types.Object, ok bool) {
	o, found := resultVar(s, isBoolType)
	if !found {
		return nil, nil, nil, false
	}
	f, t := boolOrErrEdges(s, o, false)
	return t, f, o, len(t)+len(f) > 0
}

// boolOrErrEdges: for errors returns (nilEdges, nonNilEdges); for bools
// returns (falseEdges, trueEdges).
func boolOrErrEdges(s Site, obj types.Object, isErr bool) (a, b map[Edge]bool) {
	info := s.F.Info()
	a, b = map[Edge]bool{}, map[Edge]bool{}
	isVar := func(e ast.Expr) bool { return objOf(info, e) == obj }
	classify := func(at Atom) (res int) { // 0 unknown, 1 => a (nil/false), 2 => b (non-nil/true)
		if isErr {
			if eq, ok := isNilCmp(info, at.E, isVar); ok {
				if eq == at.Val {
					return 1
				}
				return 2
			}
			// err == sentinel / errors.Is(err, X) / errors.As(err, ..): true => non-nil
			if be, ok := ast.Unparen(at.E).(*ast.BinaryExpr); ok && be.Op == token.EQL && at.Val &&
				(isVar(be.X) || isVar(be.Y)) {
				return 2
			}
			if be, ok := ast.Unparen(at.E).(*ast.BinaryExpr); ok && be.Op == token.NEQ && !at.Val &&
				(isVar(be.X) || isVar(be.Y)) {
				return 2
			}
			if c, ok := ast.Unparen(at.E).(*ast.CallExpr); ok && at.Val && len(c.Args) >= 1 && isVar(c.Args[0]) &&
				matchCallee(info, c, Callee{"errors", "", "Is"}, Callee{"errors", "", "As"}, Callee{"os", "", "IsNotExist"}, Callee{"os", "", "IsExist"}) {
				return 2
			}
			return 0
		}
		if isVar(at.E) {
			if at.Val {
				return 2
			}
			return 1
		}
		return 0
	}
	g := s.F.Graph()
	seen := map[*cfg.Block]bool{}
	var walk func(b0 *cfg.Block, from int)
	walk = func(b0 *cfg.Block, from int) {
		for i := from; i < len(b0.Nodes); i++ {
			if i == len(b0.Nodes)-1 && Cond(b0) != nil {
				break
			}
			if assignsTo(info, b0.Nodes[i], obj) {
				return // overwritten before being tested on this path
			}
			if y := copiedInto(info, b0.Nodes[i], obj); y != nil && y != obj {
				// the value moves to another variable (y := obj): tests of y are tests of this value
				a2, b2 := boolOrErrEdges(Site{F: s.F, P: Point{b0, i}, Node: b0.Nodes[i]}, y, isErr)
				for e := range a2 {
					a[e] = true
				}
				for e := range b2 {
					b[e] = true
				}
				if len(a2)+len(b2) > 0 {
					return
				}
			}
		}
		if c := Cond(b0); c != nil && usesObj(info, c, obj) {
			for k := 0; k < 2; k++ {
				e := Edge{b0, k}
				res := 0
				for _, at := range implied(c, k == 0) {
					if r := classify(at); r != 0 {
						res = r
					}
				}
				switch res {
				case 1:
					a[e] = true
				case 2:
					b[e] = true
				default:
					if t := e.To(); !seen[t] {
						seen[t] = true
						walk(t, 0)
					}
				}
			}
			return
		}
		for _, t := range b0.Succs {
			if !seen[t] {
				seen[t] = true
				walk(t, 0)
			}
		}
	}
	_ = g
	walk(s.P.B, s.P.I+1)
	return a, b
}

// ---------------------------------------------------------------------------

// copiedInto: node n is an assignment (or declaration) that copies the plain
// variable obj into another local variable, which is returned.
func copiedInto(info *types.Info, n ast.Node, obj types.Object) types.Object {
	var lhs, rhs []ast.Expr
	switch x := n.(type) {
	case *ast.AssignStmt:
		if x.Tok != token.ASSIGN && x.Tok != token.DEFINE {
			return nil
		}
		lhs, rhs = x.Lhs, x.Rhs
	case *ast.DeclStmt:
		gd, ok := x.Decl.(*ast.GenDecl)
		if !ok || len(gd.Specs) != 1 {
			return nil
		}
		vs, ok := gd.Specs[0].(*ast.ValueSpec)
		if !ok {
			return nil
		}
		for _, nm := range vs.Names {
			lhs = append(lhs, nm)
		}
		rhs = vs.Values
	default:
		return nil
	}
	if len(lhs) != len(rhs) {
		return nil
	}
	for i := range rhs {
		if id, ok := ast.Unparen(rhs[i]).(*ast.Ident); ok && info.Uses[id] == obj {
			if y := objOf(info, lhs[i]); y != nil && isLocal(y) {
				return y
			}
		}
	}
	return nil
}

// fmtErrorfWraps reports whether call is fmt.Errorf / the package's fmtErrorf
// whose arguments include (for a %w verb) an expression accepted by isWrapped.
func errorfWraps(info *types.Info, call *ast.CallExpr, isWrapped func(ast.Expr) bool) bool {
	fn, ok := calleeObj(info, call).(*types.Func)
	if !ok {
		return false
	}
	if !(fn.Name() == "Errorf" && fn.Pkg() != nil && fn.Pkg().Path() == "fmt") && fn.Name() != "fmtErrorf" {
		return false
	}
	if len(call.Args) < 2 {
		return false
	}
	format, ok := constString(info, call.Args[0])
	if !ok {
		return false
	}
	// map each verb to its operand index
	argi := 1
	for i := 0; i < len(format); i++ {
		if format[i] != '%' {
			continue
		}
		i++
		for i < len(format) && strings.ContainsRune("+-# 0123456789.[]*", rune(format[i])) {
			i++
		}
		if i >= len(format) {
			break
		}
		if format[i] == '%' {
			continue
		}
		if format[i] == 'w' && argi < len(call.Args) && isWrapped(call.Args[argi]) {
			return true
		}
		argi++
	}
	return false
}

// isPkgVar recognises a use of the package-level variable pkg.name.
func isPkgVar(info *types.Info, e ast.Expr, pkg, name string) bool {
	var id *ast.Ident
	switch x := ast.Unparen(e).(type) {
	case *ast.Ident:
		id = x
	case *ast.SelectorExpr:
		id = x.Sel
	default:
		return false
	}
	v, ok := info.Uses[id].(*types.Var)
	if !ok || v.Pkg() == nil || v.IsField() {
		return false
	}
	return v.Pkg().Path() == pkg && v.Name() == name && v.Parent() == v.Pkg().Scope()
}

// fieldOf recognises a selector expression x.f where f is the named field of
// the named struct type (declared in pkg). Returns the base expression x.
func fieldSel(info *types.Info, e ast.Expr, pkg, typ, field string) (base ast.Expr, ok bool) {
	se, isSel := ast.Unparen(e).(*ast.SelectorExpr)
	if !isSel {
		return nil, false
	}
	v, isVar := info.Uses[se.Sel].(*types.Var)
	if !isVar || !v.IsField() || v.Name() != field {
		return nil, false
	}
	if v.Pkg() == nil || v.Pkg().Path() != pkg {
		return nil, false
	}
	if typ != "" && !fieldBelongsTo(v, typ) {
		return nil, false
	}
	return se.X, true
}

// fieldBelongsTo reports whether field v is declared in the struct type named
// typ of its package.
func fieldBelongsTo(v *types.Var, typ string) bool {
	tn, ok := v.Pkg().Scope().Lookup(typ).(*types.TypeName)
	if !ok {
		return false
	}
	st, ok := tn.Type().Underlying().(*types.Struct)
	if !ok {
		return false
	}
	for i := 0; i < st.NumFields(); i++ {
		if st.Field(i) == v {
			return true
		}
	}
	return false
}

// exprString is types.ExprString (for diagnostics and lock-base identity).
func exprString(e ast.Expr) string { return types.ExprString(e) }

func constantInt64(c *types.Const) (int64, bool) {
	v := constant.ToInt(c.Val())
	if v.Kind() != constant.Int {
		return 0, false
	}
	return constant.Int64Val(v)
}
