package main

// C05 - lock backends are linearizable compare-and-swap registers.

import (
	"fmt"
	"go/ast"
	"go/types"
	"strings"
)

func init() {
	register(&Property{
		ID:    "C05",
		Title: "Lock backends are linearizable compare-and-swap registers",
		Explanation: "Sibling-agreement, table-agreement (SQL text parsed to tokens, DynamoDB condition expressions, S3 conditional headers), value-flow, lockset and guard obligations over every type implementing ctlog.LockBackend. " +
			"Decided: every Fetch can report the dedicated not-found error; every Replace/Create carries its precondition (SQL WHERE logID = ? AND body = ? with a zero-changes test; INSERT ... ON CONFLICT DO NOTHING with a zero-changes test; ConditionExpression checkpoint = :old / attribute_not_exists; If-Match header); the compared token and key are the fields of the caller's old checkpoint and the returned checkpoint holds the new value and token; the SQLite connection is only used with the backend mutex held; reads are strongly consistent / the SQLite connection stored is the one configured synchronous=FULL; nil values are normalised before binding. " +
			"NOT decided: linearizability itself, which is a property of SQLite file locking, DynamoDB and S3/Tigris conditional writes under real concurrency (remote or C-library semantics outside the source); NUL/empty round-trips through GetText.",
		Assumptions: []string{"SQLite, DynamoDB and S3-compatible stores implement conditional writes atomically as documented"},
		Obligations: []*Obligation{
			{ID: "C05.a", Title: "FETCH-NOT-FOUND", Template: "T5", MinInst: 3,
				Rule: "every implementer of LockBackend has, in Fetch, a return of ErrLogNotFound (the variable itself or wrapped with %w)", Run: c05a},
			{ID: "C05.b", Title: "CONDITIONAL-WRITE", Template: "T5", MinInst: 6,
				Rule: "Replace/Create of each implementer carries its precondition and (SQLite) treats zero changed rows as failure", Run: c05b},
			{ID: "C05.c", Title: "TOKEN-FLOW", Template: "T6", MinInst: 6,
				Rule: "the compared value and the key are fields of the old parameter; the new value is what is written; the returned checkpoint holds new and the store's new token", Run: c05c},
			{ID: "C05.d", Title: "SQLITE-SERIALISED", Template: "T3", MinInst: 4,
				Rule: "SQLiteBackend.conn is used only with SQLiteBackend.mu held, including the Changes() read after Exec",
				Run:  c05d},
			{ID: "C05.e", Title: "READ-YOUR-WRITES", Template: "T5", MinInst: 3,
				Rule: "PRAGMA synchronous = FULL is executed on the connection stored in the backend; DynamoDB GetItem sets ConsistentRead true; the ETag GetObject sends no-cache and the CAS read header", Run: c05e},
			{ID: "C05.g", Title: "CAS-FAIL-IS-ERROR", Template: "T8", MinInst: 6,
				Rule: "in Replace/Create of every implementer, with the success edge of the conditional write cut, every reachable return carries a certainly non-nil error (or the write's own error): a failed precondition is never turned into success",
				Run:  c05g},
			{ID: "C05.f", Title: "NIL-IS-EMPTY", Template: "T2", MinInst: 2,
				Rule: "in SQLite Replace/Create the statement is reachable only with new known non-nil or after new was replaced by an empty slice", Run: c05f},
		},
	})
}

// sqlWrites returns the mutating SQL statements of f (SELECT / PRAGMA are not writes).
func sqlWrites(f *Func) (sites []Site, queries []string) {
	ss, qs := sqlCalls(f)
	for i, q := range qs {
		kind, _ := sqlInfo(q)
		switch kind {
		case "SELECT", "PRAGMA", "EXPLAIN":
			continue
		}
		sites = append(sites, ss[i])
		queries = append(queries, q)
	}
	return
}

// lockBackendImpls returns the named types of the module implementing
// ctlog.LockBackend, with their Fetch/Replace/Create methods.
type lockImpl struct {
	name                   string
	fetch, replace, create *Func
}

func lockBackendImpls(p *Program) []lockImpl {
	pk := p.Pkgs[pkgCtlog]
	if pk == nil {
		return nil
	}
	io, ok := pk.Types.Scope().Lookup("LockBackend").(*types.TypeName)
	if !ok {
		return nil
	}
	iface, ok := io.Type().Underlying().(*types.Interface)
	if !ok {
		return nil
	}
	var out []lockImpl
	for _, mp := range p.All {
		sc := mp.Types.Scope()
		for _, nm := range sc.Names() {
			tn, ok := sc.Lookup(nm).(*types.TypeName)
			if !ok || tn.IsAlias() {
				continue
			}
			if _, isIface := tn.Type().Underlying().(*types.Interface); isIface {
				continue
			}
			pt := types.NewPointer(tn.Type())
			if !types.Implements(pt, iface) && !types.Implements(tn.Type(), iface) {
				continue
			}
			li := lockImpl{name: shortPkg(mp.PkgPath) + "." + nm}
			get := func(m string) *Func {
				o, _, _ := types.LookupFieldOrMethod(pt, true, mp.Types, m)
				fn, _ := o.(*types.Func)
				return p.FuncOf(fn)
			}
			li.fetch, li.replace, li.create = get("Fetch"), get("Replace"), get("Create")
			out = append(out, li)
		}
	}
	return out
}

func c05a(c *Ctx) {
	impls := lockBackendImpls(c.P)
	if len(impls) == 0 {
		c.Unk("implementers", "no type implements ctlog.LockBackend")
		return
	}
	for _, li := range impls {
		inst := li.name + ".Fetch"
		f := li.fetch
		if f == nil {
			c.Unk(inst, "Fetch method body not found")
			continue
		}
		c.touch(f)
		found := ""
		// Fetch itself, or a same-package helper it returns the result of (depth <= 2)
		var scan func(x *Func, depth int)
		scan = func(x *Func, depth int) {
			for _, r := range x.Returns() {
				ret := r.X.(*ast.ReturnStmt)
				if e := x.errResultExpr(ret); e != nil {
					if isPkgVar(x.Info(), e, pkgCtlog, "ErrLogNotFound") || x.wrapsVar(e, pkgCtlog, "ErrLogNotFound") {
						if pt, _ := x.Graph().ReachableFromEntry(Cut{}, atSite(r)); pt != nil {
							found = r.Pos()
						}
					}
				}
				if len(ret.Results) == 1 && depth < 2 {
					if call, ok := ast.Unparen(ret.Results[0]).(*ast.CallExpr); ok {
						if fn, ok := calleeObj(x.Info(), call).(*types.Func); ok {
							if h := c.P.FuncOf(fn); h != nil && h.Pkg == x.Pkg {
								c.touch(h)
								scan(h, depth+1)
							}
						}
					}
				}
			}
		}
		scan(f, 0)
		if found != "" {
			c.OK(inst, "has a reachable return of ErrLogNotFound", []string{found})
		} else {
			c.Bad(inst, f.Pos(f.Decl), "Fetch never returns ctlog.ErrLogNotFound: a missing log is reported with some other error, so callers testing errors.Is(err, ErrLogNotFound) (cmd/sunlight, witness.NewWitness) cannot recognise it")
		}
	}
}

// sqlWhere parses "UPDATE t SET a = ? WHERE x = ? AND y = ?" into the SET
// columns and WHERE columns, in placeholder order.
func updateShape(toks []string) (table string, set, where []string, ok bool) {
	if len(toks) < 2 || toks[0] != "UPDATE" {
		return
	}
	table = toks[1]
	i := 2
	if i >= len(toks) || toks[i] != "SET" {
		return
	}
	i++
	for i+2 < len(toks) && toks[i] != "WHERE" {
		if toks[i] == "," {
			i++
			continue
		}
		if toks[i+1] != "=" || toks[i+2] != "?" {
			return
		}
		set = append(set, toks[i])
		i += 3
	}
	if i >= len(toks) || toks[i] != "WHERE" {
		return table, set, nil, true
	}
	i++
	for i+2 < len(toks) {
		if toks[i] == "AND" {
			i++
			continue
		}
		if toks[i+1] != "=" || toks[i+2] != "?" {
			return
		}
		where = append(where, toks[i])
		i += 3
	}
	return table, set, where, true
}

// changesGuard: success returns unreachable unless conn.Changes() != 0.
func (c *Ctx) changesGuard(inst string, f *Func) {
	info := f.Info()
	g := f.Graph()
	okRets := successReturns(f)
	isChanges := func(e ast.Expr) bool {
		call, ok := ast.Unparen(e).(*ast.CallExpr)
		return ok && matchCallee(info, call, Callee{pkgSqlite, "Conn", "Changes"})
	}
	isZero := func(e ast.Expr) bool { v, ok := constInt(info, e); return ok && v == 0 }
	safe := g.EdgesImplying(func(a Atom) bool { rel, ok := cmpRel(a, isChanges, isZero); return ok && rel&relEQ == 0 })
	if len(okRets) == 0 {
		c.Unk(inst, "no successful return")
		return
	}
	if len(safe) == 0 {
		c.Bad(inst, okRets[0].Pos(), "the number of changed rows is not checked: a lost compare-and-swap would be reported as success")
		return
	}
	if pt, _ := g.ReachableFromEntry(Cut{Edges: safe}, atAnySite(okRets)); pt != nil {
		c.Bad(inst, okRets[0].Pos(), "success is reachable although no row was changed")
		return
	}
	// the Changes() read follows the Exec on the same connection
	c.add(Result{Instance: inst, Verdict: Discharged, Sites: sitePositions(okRets), Detail: "success unreachable when Changes() == 0", Witnesses: f.WitEdges(safe)})
}

// structLitIn finds the composite literal of the named type in f.
func structLits(f *Func, pkg, name string) []*ast.CompositeLit {
	var out []*ast.CompositeLit
	for _, s := range f.Find(func(n ast.Node) bool {
		cl, ok := n.(*ast.CompositeLit)
		if !ok {
			return false
		}
		tv, ok := f.Info().Types[cl]
		return ok && namedIs(tv.Type, pkg, name)
	}) {
		out = append(out, s.X.(*ast.CompositeLit))
	}
	return out
}

const pkgDynamo = "github.com/aws/aws-sdk-go-v2/service/dynamodb"
const pkgDynTypes = "github.com/aws/aws-sdk-go-v2/service/dynamodb/types"
const pkgS3 = "github.com/aws/aws-sdk-go-v2/service/s3"
const pkgAws = "github.com/aws/aws-sdk-go-v2/aws"
const pkgSmithyHTTP = "github.com/aws/smithy-go/transport/http"

// awsString returns the constant passed to aws.String(...).
func awsConstString(f *Func, e ast.Expr) (string, bool) {
	call, ok := ast.Unparen(e).(*ast.CallExpr)
	if !ok || !matchCallee(f.Info(), call, Callee{pkgAws, "", "String"}) || len(call.Args) != 1 {
		return "", false
	}
	return constString(f.Info(), call.Args[0])
}

// headerOptions lists (header, value expr) pairs added through
// awshttp.AddHeaderValue in the option literals of an S3 call.
func headerOptions(f *Func, call *ast.CallExpr) map[string]ast.Expr {
	out := map[string]ast.Expr{}
	for _, a := range call.Args {
		lit, ok := ast.Unparen(a).(*ast.FuncLit)
		if !ok {
			continue
		}
		ast.Inspect(lit.Body, func(n ast.Node) bool {
			c, ok := n.(*ast.CallExpr)
			if ok && matchCallee(f.Info(), c, Callee{pkgSmithyHTTP, "", "AddHeaderValue"}) && len(c.Args) == 2 {
				if h, ok := constString(f.Info(), c.Args[0]); ok {
					// the option must actually be appended to APIOptions
					out[strings.ToLower(h)] = c.Args[1]
				}
			}
			return true
		})
	}
	return out
}

func c05b(c *Ctx) {
	for _, li := range lockBackendImpls(c.P) {
		for _, m := range []struct {
			name string
			f    *Func
		}{{"Replace", li.replace}, {"Create", li.create}} {
			inst := li.name + "." + m.name
			f := m.f
			if f == nil {
				c.Unk(inst, "method body not found")
				continue
			}
			c.touch(f)
			info := f.Info()
			sites, qs := sqlWrites(f)
			puts := f.Calls(Callee{pkgDynamo, "Client", "PutItem"})
			objs := f.Calls(Callee{pkgS3, "Client", "PutObject"})
			switch {
			case len(sites) > 0:
				if len(sites) != 1 {
					c.Unk(inst, "more than one writing SQL statement")
					continue
				}
				_, toks := sqlInfo(qs[0])
				if m.name == "Replace" {
					_, set, where, ok := updateShape(toks)
					if !ok || strings.Join(set, ",") != "BODY" || strings.Join(where, ",") != "LOGID,BODY" {
						c.Bad(inst, sites[0].Pos(), "the UPDATE is not `SET body = ? WHERE logID = ? AND body = ?`: without the body comparison it is a blind write, not a compare-and-swap ("+strings.Join(strings.Fields(qs[0]), " ")+")")
						continue
					}
					c.OK(inst+" statement", "UPDATE ... SET body = ? WHERE logID = ? AND body = ?", []string{sites[0].Pos()})
				} else {
					joined := " " + strings.Join(toks, " ") + " "
					isInsert := len(toks) > 0 && toks[0] == "INSERT"
					noOverwrite := strings.Contains(joined, " ON CONFLICT ( LOGID ) DO NOTHING ") || strings.Contains(joined, " INSERT OR IGNORE ")
					upsert := strings.Contains(joined, " DO UPDATE ") || strings.Contains(joined, " OR REPLACE ") || toks[0] == "REPLACE"
					if !isInsert || !noOverwrite || upsert {
						c.Bad(inst, sites[0].Pos(), "Create is not an INSERT that leaves an existing row untouched: "+strings.Join(strings.Fields(qs[0]), " "))
						continue
					}
					c.OK(inst+" statement", "INSERT ... ON CONFLICT(logID) DO NOTHING", []string{sites[0].Pos()})
				}
				c.changesGuard(inst+" changes", f)
			case len(puts) > 0:
				lits := structLits(f, pkgDynamo, "PutItemInput")
				if len(lits) != 1 {
					c.Unk(inst, "PutItemInput literal not found")
					continue
				}
				ce := compositeField(info, lits[0], "ConditionExpression", -1)
				cond, ok := "", false
				if ce != nil {
					cond, ok = awsConstString(f, ce)
				}
				norm := strings.Join(strings.Fields(cond), " ")
				want := map[string]string{"Replace": "checkpoint = :old", "Create": "attribute_not_exists(logID)"}[m.name]
				if !ok || norm != want {
					c.Bad(inst, f.Pos(lits[0]), fmt.Sprintf("the PutItem is not conditional on %q (found %q): it would overwrite concurrently written state", want, norm))
					continue
				}
				c.OK(inst+" condition", "ConditionExpression "+want, []string{f.Pos(lits[0])})
			case len(objs) > 0:
				hdr := headerOptions(f, objs[0].Call)
				if _, ok := hdr["if-match"]; !ok {
					c.Bad(inst, objs[0].Pos(), "the PutObject carries no If-Match precondition")
					continue
				}
				if m.name == "Create" {
					if s, ok := constString(info, hdr["if-match"]); !ok || s != "" {
						c.Bad(inst, objs[0].Pos(), "Create's If-Match is not the empty ETag (create-if-absent)")
						continue
					}
				}
				c.OK(inst+" condition", "If-Match header option on PutObject", []string{objs[0].Pos()})
			default:
				c.Unk(inst, "unrecognised store: no SQL statement, PutItem or PutObject")
			}
		}
	}
}

func c05c(c *Ctx) {
	for _, li := range lockBackendImpls(c.P) {
		f := li.replace
		inst := li.name + ".Replace"
		if f == nil {
			continue
		}
		c.touch(f)
		info := f.Info()
		oldP, newP := f.paramObj("old"), f.paramObj("new")
		// o := old.(*T)
		isOld := func(o types.Object) bool {
			if o == nil {
				return false
			}
			if o == oldP {
				return true
			}
			for _, d := range f.Defs(o) {
				if d.Kind == DefAssign {
					if ta, ok := ast.Unparen(d.Rhs).(*ast.TypeAssertExpr); ok && objOf(info, ta.X) == oldP {
						return true
					}
				}
			}
			return false
		}
		isOldField := func(e ast.Expr, field string) bool {
			e = stripConv(info, e)
			if u, ok := ast.Unparen(e).(*ast.StarExpr); ok {
				e = u.X
			}
			r, p, ok := fieldPath(info, e)
			return ok && isOld(r) && len(p) == 1 && p[0] == field
		}
		isNew := func(e ast.Expr) bool {
			e = stripConv(info, e)
			if call, ok := ast.Unparen(e).(*ast.CallExpr); ok && matchCallee(info, call, Callee{"bytes", "", "NewReader"}) && len(call.Args) == 1 {
				e = call.Args[0]
			}
			return objOf(info, e) == newP
		}
		var problems []string
		sites, _ := sqlWrites(f)
		puts := f.Calls(Callee{pkgDynamo, "Client", "PutItem"})
		objs := f.Calls(Callee{pkgS3, "Client", "PutObject"})
		tokenField, keyField := "", ""
		switch {
		case len(sites) == 1:
			args := sqlBoundArgs(sites[0].Call)
			if len(args) != 3 {
				problems = append(problems, fmt.Sprintf("%d values bound to 3 placeholders", len(args)))
			} else {
				if !isNew(args[0]) {
					problems = append(problems, "SET body is not bound to new")
				}
				if !isOldField(args[1], "logID") {
					problems = append(problems, "WHERE logID is not bound to old's log ID")
				}
				if !isOldField(args[2], "body") {
					problems = append(problems, "WHERE body is not bound to old's body")
				}
			}
			tokenField, keyField = "body", "logID"
		case len(puts) == 1:
			lits := structLits(f, pkgDynamo, "PutItemInput")
			if len(lits) == 1 {
				vals := compositeField(info, lits[0], "ExpressionAttributeValues", -1)
				item := compositeField(info, lits[0], "Item", -1)
				mv := mapLit(info, vals)
				mi := mapLit(info, item)
				if v, ok := mv[":old"]; !ok || !isOldField(attrValue(info, v), "body") {
					problems = append(problems, ":old is not bound to old's body")
				}
				if v, ok := mi["logID"]; !ok || !isOldField(attrValue(info, v), "logID") {
					problems = append(problems, "item key is not old's log ID")
				}
				if v, ok := mi["checkpoint"]; !ok || !isNew(attrValue(info, v)) {
					problems = append(problems, "item value is not new")
				}
			} else {
				problems = append(problems, "PutItemInput literal not found")
			}
			tokenField, keyField = "body", "logID"
		case len(objs) == 1:
			hdr := headerOptions(f, objs[0].Call)
			if v, ok := hdr["if-match"]; !ok || !isOldField(v, "eTag") {
				problems = append(problems, "If-Match is not old's ETag")
			}
			lits := structLits(f, pkgS3, "PutObjectInput")
			if len(lits) == 1 {
				if k := compositeField(info, lits[0], "Key", -1); k == nil || !isOldFieldAws(f, k, isOldField, "key") {
					problems = append(problems, "object key is not old's key")
				}
				if b := compositeField(info, lits[0], "Body", -1); b == nil || !isNew(b) {
					problems = append(problems, "object body is not new")
				}
			} else {
				problems = append(problems, "PutObjectInput literal not found")
			}
			tokenField, keyField = "eTag", "key"
		default:
			c.Unk(inst, "unrecognised store")
			continue
		}
		if len(problems) > 0 {
			c.Bad(inst+" operands", f.Pos(f.Decl), strings.Join(problems, "; "))
		} else {
			c.add(Result{Instance: inst + " operands", Verdict: Discharged, Evals: 3, Sites: []string{f.Pos(f.Decl)}, Detail: "compared token and key from old, written value = new"})
		}
		// returned checkpoint
		good := false
		why := "no successful return of a checkpoint literal"
		for _, r := range successReturns(f) {
			e := r.X.(*ast.ReturnStmt).Results[0]
			if u, ok := ast.Unparen(e).(*ast.UnaryExpr); ok {
				e = u.X
			}
			cl, ok := ast.Unparen(e).(*ast.CompositeLit)
			if !ok {
				continue
			}
			body := compositeField(info, cl, "body", -1)
			key := compositeField(info, cl, keyField, -1)
			switch {
			case body == nil || !isNew(body):
				why = "the returned checkpoint's body is not new"
			case key == nil || !isOldField(key, keyField):
				why = "the returned checkpoint's key is not old's"
			case tokenField == "eTag":
				tk := compositeField(info, cl, "eTag", -1)
				okTok := false
				if tk != nil {
					if st, isStar := ast.Unparen(tk).(*ast.StarExpr); isStar {
						if r, p, ok := fieldPath(info, st.X); ok && len(p) == 1 && p[0] == "ETag" && r != nil {
							for _, d := range f.Defs(r) {
								if d.Kind == DefAssign {
									if call, ok := ast.Unparen(d.Rhs).(*ast.CallExpr); ok && matchCallee(info, call, Callee{pkgS3, "Client", "PutObject"}) {
										okTok = true
									}
								}
							}
						}
					}
				}
				if okTok {
					good = true
				} else {
					why = "the returned ETag is not the one returned by the PutObject"
				}
			default:
				good = true
			}
		}
		if good {
			c.OK(inst+" result", "returns {key of old, body = new, new token}", nil)
		} else {
			c.Bad(inst+" result", f.Pos(f.Decl), why)
		}
	}
}

func isOldFieldAws(f *Func, e ast.Expr, isOldField func(ast.Expr, string) bool, field string) bool {
	call, ok := ast.Unparen(e).(*ast.CallExpr)
	if ok && matchCallee(f.Info(), call, Callee{pkgAws, "", "String"}) && len(call.Args) == 1 {
		return isOldField(call.Args[0], field)
	}
	return isOldField(e, field)
}

// mapLit returns the constant-keyed entries of a map literal.
func mapLit(info *types.Info, e ast.Expr) map[string]ast.Expr {
	out := map[string]ast.Expr{}
	cl, ok := ast.Unparen(e).(*ast.CompositeLit)
	if !ok {
		return out
	}
	for _, el := range cl.Elts {
		if kv, ok := el.(*ast.KeyValueExpr); ok {
			if k, ok := constString(info, kv.Key); ok {
				out[k] = kv.Value
			}
		}
	}
	return out
}

// attrValue unwraps &types.AttributeValueMemberB{Value: x}.
func attrValue(info *types.Info, e ast.Expr) ast.Expr {
	if u, ok := ast.Unparen(e).(*ast.UnaryExpr); ok {
		e = u.X
	}
	if cl, ok := ast.Unparen(e).(*ast.CompositeLit); ok {
		if v := compositeField(info, cl, "Value", 0); v != nil {
			return v
		}
	}
	return e
}

func c05e(c *Ctx) {
	// SQLite
	if f := c.Fn("ctlog.NewSQLiteBackend"); f != nil {
		info := f.Info()
		var pragma []Site
		var connObj types.Object
		sites, qs := sqlCalls(f)
		for i, q := range qs {
			_, toks := sqlInfo(q)
			if strings.Join(toks, " ") == "PRAGMA SYNCHRONOUS = FULL" {
				pragma = append(pragma, sites[i])
				connObj = objOf(info, sites[i].Call.Args[0])
			}
		}
		lits := structLits(f, pkgCtlog, "SQLiteBackend")
		inst := "SQLiteBackend synchronous=FULL"
		switch {
		case len(pragma) == 0:
			c.Bad(inst, f.Pos(f.Decl), "the lock database connection is not set to PRAGMA synchronous = FULL: a committed CAS could be lost on power failure")
		case len(lits) != 1 || objOf(info, compositeField(info, lits[0], "conn", -1)) != connObj:
			c.Bad(inst, pragma[0].Pos(), "the connection configured with synchronous = FULL is not the one stored in the backend")
		default:
			c.requireGate(inst, f, pragma, OutNil, successReturns(f), "backend returned only after the pragma succeeded")
		}
	}
	// DynamoDB
	for _, li := range lockBackendImpls(c.P) {
		f := li.fetch
		if f == nil {
			continue
		}
		// the read may live in a same-package helper that Fetch delegates to
		for _, h := range reachableFuncs(f) {
			if h != f && h.Pkg == f.Pkg && (len(h.Calls(Callee{pkgDynamo, "Client", "GetItem"})) > 0 || len(h.Calls(Callee{pkgS3, "Client", "GetObject"})) > 0) {
				f = h
			}
		}
		info := f.Info()
		if gets := f.Calls(Callee{pkgDynamo, "Client", "GetItem"}); len(gets) > 0 {
			inst := li.name + ".Fetch consistent read"
			lits := structLits(f, pkgDynamo, "GetItemInput")
			ok := false
			if len(lits) == 1 {
				if cr := compositeField(info, lits[0], "ConsistentRead", -1); cr != nil {
					if call, isCall := ast.Unparen(cr).(*ast.CallExpr); isCall && matchCallee(info, call, Callee{pkgAws, "", "Bool"}) && len(call.Args) == 1 {
						if b, isB := constBool(info, call.Args[0]); isB && b {
							ok = true
						}
					}
				}
			}
			if ok {
				c.OK(inst, "GetItem with ConsistentRead: true", []string{gets[0].Pos()})
			} else {
				c.Bad(inst, gets[0].Pos(), "GetItem is not strongly consistent: a fetch after a successful replace may return the old value")
			}
		}
		if gets := f.Calls(Callee{pkgS3, "Client", "GetObject"}); len(gets) > 0 {
			inst := li.name + ".Fetch uncached CAS read"
			hdr := headerOptions(f, gets[0].Call)
			cc, ok1 := hdr["cache-control"]
			cas, ok2 := hdr["x-tigris-cas"]
			s1, _ := constString(info, cc)
			s2, _ := constString(info, cas)
			if ok1 && ok2 && s1 == "no-cache" && s2 == "true" {
				c.OK(inst, "GetObject with Cache-Control: no-cache and the CAS read header", []string{gets[0].Pos()})
			} else {
				c.Bad(inst, gets[0].Pos(), "the ETag fetch may be served from a cache (missing no-cache / CAS read headers)")
			}
		}
	}
}

func c05f(c *Ctx) {
	for _, li := range lockBackendImpls(c.P) {
		for _, f := range []*Func{li.replace, li.create} {
			if f == nil {
				continue
			}
			sites, _ := sqlCalls(f)
			if len(sites) == 0 {
				continue
			}
			c.touch(f)
			info := f.Info()
			g := f.Graph()
			newP := f.paramObj("new")
			inst := f.Name + " nil normalised"
			isNew := func(e ast.Expr) bool { return objOf(info, e) == newP }
			nonNil := g.EdgesImplying(func(a Atom) bool {
				eq, ok := isNilCmp(info, a.E, isNew)
				return ok && eq != a.Val
			})
			stop := func(_ Point, n ast.Node) bool {
				as, ok := n.(*ast.AssignStmt)
				if !ok || len(as.Lhs) != 1 || objOf(info, as.Lhs[0]) != newP {
					return false
				}
				_, isLit := ast.Unparen(as.Rhs[0]).(*ast.CompositeLit)
				return isLit
			}
			if pt, _ := g.ReachableFromEntry(Cut{Edges: nonNil, Stop: stop}, atAnySite(sites)); pt != nil {
				c.Bad(inst, sites[0].Pos(), "a nil value can reach the statement: SQLite binds it as NULL, which never compares equal, so the next Replace of that value would fail")
			} else {
				c.add(Result{Instance: inst, Verdict: Discharged, Sites: sitePositions(sites), Detail: "statement reachable only with new != nil or after new = []byte{}", Witnesses: f.WitEdges(nonNil)})
			}
		}
	}
}

func c05g(c *Ctx) {
	for _, li := range lockBackendImpls(c.P) {
		for _, m := range []struct {
			name string
			f    *Func
		}{{"Replace", li.replace}, {"Create", li.create}} {
			f := m.f
			inst := li.name + "." + m.name + " failed write is an error"
			if f == nil {
				c.Unk(inst, "method body not found")
				continue
			}
			c.touch(f)
			info := f.Info()
			g := f.Graph()
			var writes []Site
			sites, _ := sqlWrites(f)
			writes = append(writes, sites...)
			writes = append(writes, f.Calls(Callee{pkgDynamo, "Client", "PutItem"})...)
			writes = append(writes, f.Calls(Callee{pkgS3, "Client", "PutObject"})...)
			if len(writes) != 1 {
				c.Unk(inst, fmt.Sprintf("expected exactly one conditional write, found %d", len(writes)))
				continue
			}
			w := writes[0]
			errObj, bound := resultVar(w, isErrorType)
			nilE, _, _, tested := OutcomeEdges(w)
			if !bound {
				c.Bad(inst, w.Pos(), "the error of the conditional write is not bound")
				continue
			}
			if !tested {
				// `return err` directly: every return must be that variable
				ok := true
				for _, r := range g.ReturnsFrom(w.After(), Cut{}) {
					if e := f.errResultExpr(r); e == nil || objOf(info, e) != errObj {
						ok = false
					}
				}
				if ok {
					c.OK(inst, "the write's error is returned as is", []string{w.Pos()})
				} else {
					c.Bad(inst, w.Pos(), "the error of the conditional write is neither tested nor returned")
				}
				continue
			}
			bad := false
			rets := g.ReturnsFrom(w.After(), Cut{Edges: nilE})
			for _, r := range rets {
				e := f.errResultExpr(r)
				if e == nil || (f.mayBeNilError(e) && objOf(info, e) != errObj) {
					c.Bad(inst, f.Pos(r), "after the conditional write failed (precondition not met or outcome unknown) "+m.name+" can still report success: two writers could both believe they replaced the same predecessor")
					bad = true
				}
			}
			if !bad {
				c.add(Result{Instance: inst, Verdict: Discharged, Evals: len(rets), Sites: []string{w.Pos()}, Detail: fmt.Sprintf("%d return(s) reachable without the write's success edge, all errors", len(rets)), Witnesses: f.WitEdges(necessaryEdges(g, w.After(), nilE, successReturns(f), Cut{}))})
			}
		}
	}
}

func c05d(c *Ctx) {
	c.checkLockDiscipline(Protected{Pkg: pkgCtlog, Type: "SQLiteBackend", Mutex: "mu", Fields: []string{"conn"}, Exclusive: true}, nil, true)
}
