package main

// C03 - a crash at any point of sequencing or recovery is recoverable.

import (
	"fmt"
	"go/ast"
	"go/types"
)

func init() {
	register(&Property{
		ID:    "C03",
		Title: "A crash at any point of sequencing or recovery is recoverable without loss",
		Explanation: "Ordering, value-flow and error-discipline obligations on the sequencing function, applyStagedUploads, marshalStagedUploads and LoadLog (go/cfg + go/types). " +
			"Decided on every path: staging upload -> lock CAS -> tile application -> checkpoint upload -> staging discard, with the staging upload skippable only when the round produced no uploads; the bytes staged are the bytes applied; the staging key is derived from the tree that is signed and LoadLog reads the key derived from the lock checkpoint with the same function; when the published size is below the lock size LoadLog succeeds only after fetching and applying the bundle; applyStagedUploads returns the errgroup's Wait and each task returns the upload error; tile failure is fatal; storage/lock errors are never dropped; bundle writer and reader agree on header fields. " +
			"The recovery argument (any prefix of S,L,T,C,D leaves lock == published or lock ahead with S present, T idempotent) is what these orderings imply; that LoadLog actually succeeds at runtime, and partial application of the parallel batch beyond idempotence, are NOT decided.",
		Assumptions: []string{"Backend.Upload is durable when it returns; immutable re-upload of equal bytes succeeds (C13)", "errgroup.Wait returns the first non-nil task error"},
		Obligations: []*Obligation{
			{ID: "C03.a", Title: "ROUND-ORDER", Template: "T1", MinInst: 4,
				Rule: "Upload(staging) < Replace < applyStagedUploads < Upload(checkpoint) < Discard(staging) on every path; the staging upload may be skipped only on the edge where the upload list is empty",
				Run:  c03a},
			{ID: "C03.b", Title: "STAGING-CONTENT", Template: "T6", MinInst: 1,
				Rule: "the bytes staged (after compress) and the bytes applied are the same marshalStagedUploads(uploads) value",
				Run:  c03b},
			{ID: "C03.c", Title: "STAGING-KEY", Template: "T6", MinInst: 3,
				Rule: "staging key = stagingPath(Tree of the tree head that is signed); the discard uses the same key; LoadLog fetches stagingPath(Tree of the lock checkpoint)",
				Run:  c03c},
			{ID: "C03.d", Title: "RECOVERY", Template: "T7", MinInst: 2,
				Rule: "in LoadLog, for published size < lock size every path to a non-nil *Log passes the success of the staging fetch and of applyStagedUploads",
				Run:  c03d},
			{ID: "C03.e", Title: "APPLY-AWAITS", Template: "T12+T6", MinInst: 2,
				Rule: "applyStagedUploads' only may-be-nil return is errgroup Wait; every task passed to Go returns Backend.Upload's error for that entry's key, data and options",
				Run:  c03e},
			{ID: "C03.f", Title: "TILE-FAILURE-FATAL", Template: "T2", MinInst: 1,
				Rule: "every return reachable from the error edge of applyStagedUploads inside a round wraps errFatal",
				Run:  c03f},
			{ID: "C03.g", Title: "ERROR-DISCIPLINE", Template: "T12", MinInst: 15,
				Rule: "every Backend/LockBackend/applyStagedUploads/errgroup.Wait/cachePut call in ctlog has its error bound and tested, or returned directly; documented exceptions listed",
				Run:  c03g},
			{ID: "C03.k", Title: "STAGING-PATH", Template: "T6", MinInst: 1,
				Rule: "stagingPath names the tree by its size and its complete root hash under staging/: writer (signed tree) and reader (lock checkpoint) derive the same key, and no two trees share one",
				Run:  hStagingPath},
			{ID: "C03.i", Title: "IDEMPOTENT-REUPLOAD", Template: "T10", MinInst: 1,
				Rule: "re-applying a staged bundle over tiles that already exist must succeed on the local backend: the comparison of an existing immutable object with equal bytes terminates for every length and does not treat the final short chunk as a difference (as C13.i)",
				Run:  c13i},
			{ID: "C03.h", Title: "BUNDLE-SCHEMA", Template: "T5", MinInst: 1,
				Rule: "tar header fields written by marshalStagedUploads (Name, Size, PAX record key, options type) are the ones read by applyStagedUploads",
				Run:  c03h},
		},
	})
}

var specApply = Callee{pkgCtlog, "", "applyStagedUploads"}
var specMarshalStaged = Callee{pkgCtlog, "", "marshalStagedUploads"}
var specStagingPath = Callee{pkgCtlog, "", "stagingPath"}
var specCompress = Callee{pkgCtlog, "", "compress"}
var specHashTreeHead = Callee{pkgCtlog, "", "hashTreeHead"}
var specSignTreeHead = Callee{pkgCtlog, "", "signTreeHead"}

// stagingUploads: Backend.Upload sites whose key is a stagingPath(...) result.
func stagingUploads(f *Func) []Site {
	var out []Site
	for _, s := range f.CallsW(specUpload) {
		if k := argByName(f.Info(), s.Call, "key"); k != nil {
			if _, ok := f.IsCallResult(k, -1, specStagingPath); ok {
				out = append(out, s)
			}
		}
	}
	return out
}

func c03a(c *Ctx) {
	for _, f := range sequencers(c.P) {
		c.touch(f)
		info := f.Info()
		g := f.Graph()
		stag := stagingUploads(f)
		repl := f.CallsW(specLockRepl)
		apply := f.CallsW(specApply)
		pub := checkpointUploads(f)
		disc := f.CallsW(specDiscard)
		if len(stag) == 0 || len(repl) == 0 || len(apply) == 0 || len(pub) == 0 || len(disc) == 0 {
			c.Unk(f.Name, fmt.Sprintf("round steps not all found: staging=%d replace=%d apply=%d publish=%d discard=%d", len(stag), len(repl), len(apply), len(pub), len(disc)))
			continue
		}
		// S < L with bypass guard
		{
			inst := f.Name + " staging<CAS"
			succ, untested := gateEdges(stag, OutNil)
			if len(succ) == 0 {
				p := stag[0].Pos()
				if len(untested) > 0 {
					p = untested[0].Pos()
				}
				c.Bad(inst, p, "the staging upload's error is not tested before the lock CAS")
			} else {
				// the list that decides the bypass: the argument of marshalStagedUploads
				var listObj types.Object
				for _, m := range f.Calls(specMarshalStaged) {
					if a := argByName(info, m.Call, "uploads"); a != nil {
						listObj = objOf(info, a)
					}
				}
				bypass := g.EdgesImplying(func(a Atom) bool {
					rel, ok := cmpRel(a, func(e ast.Expr) bool {
						ce, isCall := ast.Unparen(e).(*ast.CallExpr)
						return isCall && isBuiltinCall(info, ce, "len") && len(ce.Args) == 1 && listObj != nil && objOf(info, ce.Args[0]) == listObj
					}, func(e ast.Expr) bool { v, ok := constInt(info, e); return ok && v == 0 })
					return ok && rel&relGT == 0
				})
				cut := Cut{Edges: unionEdges(succ, bypass)}
				if pt, path := g.ReachableFromEntry(cut, atAnySite(repl)); pt != nil {
					c.Bad(inst, repl[0].Pos(), "the lock CAS is reachable without a successful staging upload although the round has uploads (path "+g.describePath(path)+")")
				} else if pt, _ := g.ReachableFromEntry(Cut{Edges: succ}, atAnySite(repl)); pt == nil && len(bypass) == 0 {
					c.add(Result{Instance: inst, Verdict: Discharged, Sites: sitePositions(append(stag, repl...)), Detail: "CAS only after staging upload success (no bypass)", Witnesses: f.WitEdges(succ)})
				} else {
					c.add(Result{Instance: inst, Verdict: Discharged, Sites: sitePositions(append(stag, repl...)), Evals: 2,
						Detail: fmt.Sprintf("CAS reachable only through staging-upload success or the empty-upload-list edge (%d bypass edge(s))", len(bypass)), Witnesses: f.WitEdges(succ)})
				}
			}
		}
		c.requireGate(f.Name+" CAS<apply", f, repl, OutNil, apply, "tile application after lock commit")
		c.requireGate(f.Name+" apply<publish", f, apply, OutNil, pub, "checkpoint upload after all tiles were applied")
		c.requireGate(f.Name+" publish<discard", f, pub, OutNil, disc, "staging discard after the checkpoint was published")
	}
}

func c03b(c *Ctx) {
	for _, f := range sequencers(c.P) {
		c.touch(f)
		info := f.Info()
		inst := f.Name
		var marshal *ast.CallExpr
		bad := false
		for _, s := range stagingUploads(f) {
			data := argByName(info, s.Call, "data")
			cc, ok := f.IsCallResult(data, 0, specCompress)
			if !ok || len(cc.Args) != 1 {
				c.Bad(inst, s.Pos(), "the staged object is not compress(<bundle>)")
				bad = true
				continue
			}
			m, ok := f.IsCallResult(cc.Args[0], 0, specMarshalStaged)
			if !ok {
				c.Bad(inst, s.Pos(), "the staged object is not built by marshalStagedUploads")
				bad = true
				continue
			}
			marshal = m
		}
		for _, s := range f.CallsW(specApply) {
			a := argByName(info, s.Call, "stagedUploads")
			m, ok := f.IsCallResult(a, 0, specMarshalStaged)
			if !ok || (marshal != nil && m != marshal) {
				c.Bad(inst, s.Pos(), "the bundle applied is not the marshalStagedUploads value that was staged")
				bad = true
			}
		}
		if !bad && marshal != nil {
			c.OK(inst, "staged = compress(B), applied = B, B = marshalStagedUploads(uploads)", []string{f.Pos(marshal)})
		} else if !bad {
			c.Unk(inst, "no staging upload found")
		}
	}
}

func c03c(c *Ctx) {
	for _, f := range sequencers(c.P) {
		c.touch(f)
		info := f.Info()
		// the tree that is signed
		var signedTree types.Object
		for _, s := range f.Calls(specSignTreeHead) {
			if a := argByName(info, s.Call, "tree"); a != nil {
				signedTree = objOf(info, a)
			}
		}
		for _, s := range stagingUploads(f) {
			k := argByName(info, s.Call, "key")
			sp, _ := f.IsCallResult(k, -1, specStagingPath)
			inst := f.Name + " staging key"
			root, path, ok := fieldPath(info, sp.Args[0])
			if ok && signedTree != nil && root == signedTree && len(path) == 1 && path[0] == "Tree" {
				c.OK(inst, "stagingPath(tree.Tree) of the tree head that is signed", []string{s.Pos()})
			} else {
				c.Bad(inst, s.Pos(), "the staging key is not derived from the tree head that is signed: "+exprString(sp.Args[0]))
			}
			for _, d := range f.CallsW(specDiscard) {
				dk := argByName(info, d.Call, "key")
				if f.SameValue(dk, k) {
					c.OK(f.Name+" discard key", "Discard uses the staging key of this round", []string{d.Pos()})
				} else {
					c.Bad(f.Name+" discard key", d.Pos(), "Discard is called with a key other than this round's staging key: "+exprString(dk))
				}
			}
		}
	}
	f := c.Fn("ctlog.LoadLog")
	if f == nil {
		return
	}
	info := f.Info()
	lockCk := lockCheckpointObj(f)
	n := 0
	for _, s := range f.Calls(Callee{pkgCtlog, "", "fetchAndDecompress"}) {
		k := argByName(info, s.Call, "key")
		sp, ok := f.IsCallResult(k, -1, specStagingPath)
		if !ok {
			continue
		}
		n++
		root, path, ok := fieldPath(info, sp.Args[0])
		if ok && lockCk != nil && root == lockCk && len(path) == 1 && path[0] == "Tree" {
			c.OK("ctlog.LoadLog staging key", "stagingPath(c.Tree) of the lock checkpoint", []string{s.Pos()})
		} else {
			c.Bad("ctlog.LoadLog staging key", s.Pos(), "recovery reads a staging key not derived from the lock checkpoint: "+exprString(sp.Args[0]))
		}
	}
	if n == 0 {
		c.Bad("ctlog.LoadLog staging key", f.Pos(f.Body), "LoadLog never fetches the staging bundle")
	}
}

// lockCheckpointObj: in LoadLog, the variable holding openCheckpoint(config,
// <LockBackend.Fetch result>.Bytes()).
func lockCheckpointObj(f *Func) types.Object { return openedFrom(f, specLockFet) }

func pubCheckpointObj(f *Func) types.Object { return openedFrom(f, specFetch) }

func openedFrom(f *Func, src Callee) types.Object {
	info := f.Info()
	for _, s := range f.Calls(Callee{pkgCtlog, "", "openCheckpoint"}) {
		b := argByName(info, s.Call, "b")
		if b == nil {
			continue
		}
		v := f.ResolveDeep(b)
		e := ast.Unparen(v.E)
		// lock.Bytes()
		if call, ok := e.(*ast.CallExpr); ok {
			if sel, ok := ast.Unparen(call.Fun).(*ast.SelectorExpr); ok && sel.Sel.Name == "Bytes" {
				e = sel.X
			}
		}
		if _, ok := f.IsCallResult(e, 0, src); !ok {
			continue
		}
		if a, ok := s.Node.(*ast.AssignStmt); ok && len(a.Lhs) > 0 {
			return objOf(info, a.Lhs[0])
		}
	}
	return nil
}

// successReturns: returns whose error result is the literal nil.
func successReturns(f *Func) []Site {
	var out []Site
	for _, r := range f.Returns() {
		e := f.errResultExpr(r.X.(*ast.ReturnStmt))
		if e != nil && isNilIdent(f.Info(), e) {
			out = append(out, r)
		}
	}
	return out
}

func c03d(c *Ctx) {
	f := c.Fn("ctlog.LoadLog")
	if f == nil {
		return
	}
	info := f.Info()
	g := f.Graph()
	lockCk, pubCk := lockCheckpointObj(f), pubCheckpointObj(f)
	if lockCk == nil || pubCk == nil {
		c.Unk(f.Name, "could not identify the lock and published checkpoints (openCheckpoint of LockBackend.Fetch / Backend.Fetch)")
		return
	}
	isN := func(o types.Object) func(ast.Expr) bool {
		return func(e ast.Expr) bool {
			root, path, ok := fieldPath(info, e)
			return ok && root == o && len(path) == 1 && path[0] == "N"
		}
	}
	okRets := successReturns(f)
	if len(okRets) == 0 {
		c.Unk(f.Name, "no successful return")
		return
	}
	env := func(e ast.Expr) Tri {
		rel, ok := cmpRel(Atom{e, true}, isN(pubCk), isN(lockCk))
		if !ok {
			return Unknown
		}
		if rel&relLT != 0 {
			return True
		}
		return False
	}
	feas := g.FeasibleCut(env)
	var fetches []Site
	for _, s := range f.Calls(Callee{pkgCtlog, "", "fetchAndDecompress"}) {
		if _, ok := f.IsCallResult(argByName(info, s.Call, "key"), -1, specStagingPath); ok {
			fetches = append(fetches, s)
		}
	}
	for _, step := range []struct {
		name  string
		sites []Site
	}{{"fetch staging", fetches}, {"apply staging", f.CallsW(specApply)}} {
		inst := f.Name + " published<lock: " + step.name
		if len(step.sites) == 0 {
			c.Bad(inst, f.Pos(f.Body), "LoadLog has no "+step.name+" step")
			continue
		}
		succ, _ := gateEdges(step.sites, OutNil)
		if len(succ) == 0 {
			c.Bad(inst, step.sites[0].Pos(), "the error of the "+step.name+" step is not tested")
			continue
		}
		if pt, path := g.ReachableFromEntry(Cut{Edges: unionEdges(feas, succ)}, atAnySite(okRets)); pt != nil {
			c.Bad(inst, okRets[0].Pos(), "with the published checkpoint behind the lock checkpoint, LoadLog can succeed without a successful "+step.name+" (path "+g.describePath(path)+")")
			continue
		}
		// control: with feasibility alone the success return is reachable
		if pt, _ := g.ReachableFromEntry(Cut{Edges: feas}, atAnySite(okRets)); pt == nil {
			c.Unk(inst, "success unreachable under published<lock even without cutting: rule cannot interpret LoadLog")
			continue
		}
		c.add(Result{Instance: inst, Verdict: Discharged, Sites: sitePositions(step.sites), Evals: 2, Detail: "success requires " + step.name + " to succeed when published size < lock size", Witnesses: f.WitEdges(succ)})
	}
	// equal sizes (the common clean restart): success must not depend on a staging bundle,
	// which has been discarded after the last round
	{
		envEq := func(e ast.Expr) Tri {
			if rel, ok := cmpRel(Atom{e, true}, isN(pubCk), isN(lockCk)); ok {
				if rel&relEQ != 0 && rel&^relEQ == 0 {
					return True
				}
				if rel&relEQ == 0 {
					return False
				}
				if rel == relEQ|relLT || rel == relEQ|relGT {
					return True
				}
			}
			isH := func(o types.Object) func(ast.Expr) bool {
				return func(x ast.Expr) bool {
					r, p, ok := fieldPath(info, x)
					return ok && r == o && len(p) == 1 && p[0] == "Hash"
				}
			}
			if rel, ok := cmpRel(Atom{e, true}, isH(pubCk), isH(lockCk)); ok {
				if rel == relEQ {
					return True
				}
				if rel&relEQ == 0 {
					return False
				}
			}
			return Unknown
		}
		inst := f.Name + " published==lock: no staging needed"
		cutEq := Cut{Edges: g.FeasibleCut(envEq)}
		steps := append(append([]Site{}, fetches...), f.CallsW(specApply)...)
		if pt, _ := g.ReachableFromEntry(cutEq, atAnySite(steps)); pt != nil {
			c.Bad(inst, f.Pos(pt.B.Nodes[pt.I]), "after a clean shutdown (published checkpoint == lock checkpoint) LoadLog still wants the staging bundle, which was discarded: the log could not be restarted")
		} else if pt, _ := g.ReachableFromEntry(cutEq, atAnySite(okRets)); pt == nil {
			c.Bad(inst, okRets[0].Pos(), "LoadLog cannot succeed when the published checkpoint equals the lock checkpoint")
		} else {
			c.add(Result{Instance: inst, Verdict: Discharged, Evals: 2, Detail: "success reachable, staging fetch/apply unreachable"})
		}
	}
	// the applied bundle is the fetched one
	for _, s := range f.CallsW(specApply) {
		a := argByName(info, s.Call, "stagedUploads")
		if _, ok := f.IsCallResult(a, 0, Callee{pkgCtlog, "", "fetchAndDecompress"}); !ok {
			c.Bad(f.Name+" applied bundle", s.Pos(), "the bundle applied during recovery is not the fetched staging bundle")
		}
	}
}

func c03e(c *Ctx) {
	f := c.Fn("ctlog.applyStagedUploads")
	if f == nil {
		return
	}
	info := f.Info()
	specWait := Callee{pkgErrgroup, "Group", "Wait"}
	specGo := Callee{pkgErrgroup, "Group", "Go"}
	// returns
	bad := false
	nWait := 0
	for _, r := range f.Returns() {
		e := f.errResultExpr(r.X.(*ast.ReturnStmt))
		if e == nil {
			c.Bad(f.Name+" returns", r.Pos(), "bare return")
			bad = true
			continue
		}
		if !f.mayBeNilError(e) {
			continue
		}
		if _, ok := f.IsCallResult(e, -1, specWait); ok {
			nWait++
			continue
		}
		c.Bad(f.Name+" returns", r.Pos(), "applyStagedUploads can return "+exprString(e)+" (possibly nil) without waiting for the uploads")
		bad = true
	}
	if !bad {
		if nWait == 0 {
			c.Bad(f.Name+" returns", f.Pos(f.Body), "applyStagedUploads never returns the errgroup's Wait()")
		} else {
			c.OK(f.Name+" returns", fmt.Sprintf("the only may-be-nil return is g.Wait() (%d)", nWait), nil)
		}
	}
	// tasks
	gos := f.Calls(specGo)
	if len(gos) == 0 {
		c.Bad(f.Name+" tasks", f.Pos(f.Body), "no errgroup task is started")
		return
	}
	for _, s := range gos {
		lit, ok := ast.Unparen(s.Call.Args[0]).(*ast.FuncLit)
		inst := f.Name + " task"
		if !ok {
			c.Unk(inst, "errgroup task is not a function literal at "+s.Pos())
			continue
		}
		lf := c.P.FuncOfLit(lit)
		c.touch(lf)
		rets := lf.Returns()
		good := len(rets) > 0
		var up *ast.CallExpr
		for _, r := range rets {
			rs := r.X.(*ast.ReturnStmt).Results
			if len(rs) != 1 {
				good = false
				continue
			}
			call, ok := lf.IsCallResult(rs[0], -1, specUpload)
			if !ok {
				good = false
				continue
			}
			up = call
		}
		if !good || up == nil {
			c.Bad(inst, s.Pos(), "an upload task does not return Backend.Upload's error")
			continue
		}
		// key/data/opts flow
		key, data, opts := argByName(info, up, "key"), argByName(info, up, "data"), argByName(info, up, "opts")
		okKey := keyShape(lf, key) == "tar-header-name"
		_, okData := lf.IsCallResult(data, 0, Callee{"io", "", "ReadAll"})
		okOpts := false
		if o := objOf(info, lf.copyRoot(opts)); o != nil {
			for _, u := range f.Calls(Callee{"encoding/json", "", "Unmarshal"}) {
				if len(u.Call.Args) == 2 && objOf(info, f.copyRoot(u.Call.Args[1])) == o {
					okOpts = true
				}
			}
		}
		if okKey && okData && okOpts {
			c.OK(inst, "task returns Upload(header.Name, ReadAll(entry), unmarshalled options)", []string{s.Pos()})
		} else {
			c.Bad(inst, f.Pos(up), fmt.Sprintf("upload task arguments do not come from the tar entry (key ok=%v data ok=%v opts ok=%v)", okKey, okData, okOpts))
		}
	}
}

func c03f(c *Ctx) {
	for _, f := range sequencers(c.P) {
		c.touch(f)
		g := f.Graph()
		for _, s := range f.CallsW(specApply) {
			inst := f.Name + " apply error edge"
			_, nonNil, _, ok := OutcomeEdges(s)
			if !ok || len(nonNil) == 0 {
				c.Bad(inst, s.Pos(), "the error of applyStagedUploads is not tested")
				continue
			}
			n, bad := 0, false
			var ws []Witness
			for e := range nonNil {
				for _, r := range g.ReturnsFrom(EdgeStart(e), Cut{}) {
					n++
					ex := f.errResultExpr(r)
					if ex == nil || !f.wrapsVar(ex, pkgCtlog, "errFatal") {
						c.Bad(inst, f.Pos(r), "a tile upload failure can end in a non-fatal return; the next round would build on missing tiles")
						bad = true
					} else if call, isCall := ast.Unparen(f.ResolveDeep(ex).E).(*ast.CallExpr); isCall {
						for _, a := range call.Args {
							if isPkgVar(f.Info(), a, pkgCtlog, "errFatal") {
								ws = append(ws, f.Wit(a, "err", "unwrap-fatal"))
							}
						}
					}
				}
			}
			if n == 0 {
				c.Bad(inst, s.Pos(), "the error edge of applyStagedUploads does not lead to a return")
			} else if !bad {
				c.add(Result{Instance: inst, Verdict: Discharged, Sites: []string{s.Pos()}, Evals: n, Detail: fmt.Sprintf("%d return(s), all wrap errFatal", n), Witnesses: ws})
			}
		}
	}
}

// errDiscipline decides whether the error of the call at s is handled:
// returned directly, bound and tested, or bound and returned.
func errDiscipline(s Site) (ok bool, how string) {
	f := s.F
	info := f.Info()
	switch n := s.Node.(type) {
	case *ast.ReturnStmt:
		for _, r := range n.Results {
			if ast.Unparen(r) == s.real() {
				return true, "returned directly"
			}
		}
	case *ast.ExprStmt:
		return false, "result discarded"
	case *ast.DeferStmt, *ast.GoStmt:
		return false, "called in defer/go: result discarded"
	}
	obj, found := resultVar(s, isErrorType)
	if !found {
		// `_ = f()` or `x, _ := f()`
		return false, "error result not bound to a variable"
	}
	nilE, nonNilE := boolOrErrEdges(s, obj, true)
	if len(nilE)+len(nonNilE) > 0 {
		return true, "bound and tested"
	}
	// bound then returned / passed on before being overwritten
	g := f.Graph()
	used := false
	g.ReachAll(s.After(), Cut{Stop: func(_ Point, n ast.Node) bool { return assignsTo(info, n, obj) }}, func(_ Point, n ast.Node) bool {
		if n == nil {
			return false
		}
		switch x := n.(type) {
		case *ast.ReturnStmt:
			if usesObj(info, x, obj) {
				used = true
			}
			// a bare return with a named result of that object
			if len(x.Results) == 0 && f.namedErrResult() == obj {
				used = true
			}
		}
		return false
	})
	if used {
		return true, "bound and returned"
	}
	return false, "error bound but neither tested nor returned"
}

func c03g(c *Ctx) {
	watched := []Callee{specUpload, specFetch, specDiscard, specLockFet, specLockRepl, specLockCrea, specApply,
		{pkgErrgroup, "Group", "Wait"}, {pkgCtlog, "Log", "cachePut"}, {pkgCtlog, "", "fetchAndDecompress"}, {pkgCtlog, "", "marshalStagedUploads"}}
	n := 0
	for _, f := range c.P.Funcs(pkgCtlog) {
		if f.Body == nil {
			continue
		}
		for _, s := range f.Calls(watched...) {
			n++
			c.touch(f)
			inst := fmt.Sprintf("%s: %s", f.Name, exprString(s.Call.Fun))
			ok, how := errDiscipline(s)
			if ok {
				c.OK(inst, how, []string{s.Pos()})
			} else {
				c.Bad(inst, s.Pos(), "storage/lock error not handled: "+how)
			}
		}
	}
	_ = n
}

func c03h(c *Ctx) {
	w := c.Fn("ctlog.marshalStagedUploads")
	r := c.Fn("ctlog.applyStagedUploads")
	if w == nil || r == nil {
		return
	}
	wi, ri := w.Info(), r.Info()
	// writer: tar.Header literal
	var hdr *ast.CompositeLit
	for _, s := range w.Find(func(n ast.Node) bool {
		cl, ok := n.(*ast.CompositeLit)
		if !ok {
			return false
		}
		tv, ok := wi.Types[cl]
		return ok && namedIs(tv.Type, "archive/tar", "Header")
	}) {
		hdr = s.X.(*ast.CompositeLit)
	}
	if hdr == nil {
		c.Bad("bundle header", w.Pos(w.Body), "marshalStagedUploads writes no tar.Header literal")
		return
	}
	// the range variable over the uploads parameter
	isEntryField := func(e ast.Expr, field string) bool {
		base, ok := fieldSel(wi, stripConv(wi, e), pkgCtlog, "uploadAction", field)
		if !ok {
			// len(u.data)
			if ce, isCall := ast.Unparen(stripConv(wi, e)).(*ast.CallExpr); isCall && isBuiltinCall(wi, ce, "len") && len(ce.Args) == 1 {
				base, ok = fieldSel(wi, ce.Args[0], pkgCtlog, "uploadAction", field)
			}
		}
		return ok && base != nil
	}
	name := compositeField(wi, hdr, "Name", -1)
	size := compositeField(wi, hdr, "Size", -1)
	pax := compositeField(wi, hdr, "PAXRecords", -1)
	var problems []string
	if name == nil || !isEntryField(name, "key") {
		problems = append(problems, "Name is not the upload's key")
	}
	if size == nil || !isEntryField(size, "data") {
		problems = append(problems, "Size is not len(data)")
	}
	// data written
	wroteData := false
	for _, s := range w.Calls(Callee{"archive/tar", "Writer", "Write"}) {
		if len(s.Call.Args) == 1 && isEntryField(s.Call.Args[0], "data") {
			wroteData = true
		}
	}
	if !wroteData {
		problems = append(problems, "the entry body written is not the upload's data")
	}
	paxKey := ""
	optsType := ""
	if cl, ok := ast.Unparen(pax).(*ast.CompositeLit); ok && len(cl.Elts) == 1 {
		if kv, ok := cl.Elts[0].(*ast.KeyValueExpr); ok {
			paxKey, _ = constString(wi, kv.Key)
			v := w.ResolveDeep(stripConv(wi, kv.Value))
			if call, ok := w.IsCallResult(v.E, 0, Callee{"encoding/json", "", "Marshal"}); ok && len(call.Args) == 1 {
				if tv, ok := wi.Types[call.Args[0]]; ok {
					optsType = tv.Type.String()
				}
				if !isEntryField(call.Args[0], "opts") {
					problems = append(problems, "the PAX record does not carry the upload's options")
				}
			}
		}
	}
	if paxKey == "" || optsType == "" {
		problems = append(problems, "PAX record with the JSON options not found in the header literal")
	}
	// reader
	readKey := ""
	for _, s := range r.Find(func(n ast.Node) bool {
		ix, ok := n.(*ast.IndexExpr)
		if !ok {
			return false
		}
		sel, ok := ast.Unparen(ix.X).(*ast.SelectorExpr)
		if !ok {
			return false
		}
		v, ok := ri.Uses[sel.Sel].(*types.Var)
		return ok && v.IsField() && v.Name() == "PAXRecords"
	}) {
		readKey, _ = constString(ri, s.X.(*ast.IndexExpr).Index)
	}
	readType := ""
	for _, s := range r.Calls(Callee{"encoding/json", "", "Unmarshal"}) {
		if len(s.Call.Args) == 2 {
			if tv, ok := ri.Types[s.Call.Args[1]]; ok {
				readType = tv.Type.String()
			}
		}
	}
	if readKey != paxKey {
		problems = append(problems, fmt.Sprintf("writer stores options under %q, reader looks up %q", paxKey, readKey))
	}
	if readType != optsType {
		problems = append(problems, fmt.Sprintf("writer marshals %s, reader unmarshals into %s", optsType, readType))
	}
	readsName := len(r.Find(func(n ast.Node) bool {
		sel, ok := n.(*ast.SelectorExpr)
		if !ok {
			return false
		}
		v, ok := ri.Uses[sel.Sel].(*types.Var)
		return ok && v.IsField() && v.Name() == "Name" && v.Pkg() != nil && v.Pkg().Path() == "archive/tar"
	})) > 0
	if !readsName {
		problems = append(problems, "reader does not use header.Name")
	}
	if len(problems) > 0 {
		c.Bad("bundle header", w.Pos(hdr), fmt.Sprint(problems))
		return
	}
	c.add(Result{Instance: "bundle header", Verdict: Discharged, Evals: 5, Sites: []string{w.Pos(hdr)},
		Detail: fmt.Sprintf("Name=key, Size=len(data), body=data, PAX[%q]=json(%s) on both sides", paxKey, optsType)})
}
