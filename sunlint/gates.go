package main

// ERRORS-GATE: a table-driven T12 obligation attached to several properties.
//
// Rule: in the named function, every call whose error result is bound and
// tested cuts the protected effect off on failure: once the edges on which
// that error is nil are removed, the effect (a success return, or a named
// call) cannot be reached from the call.
// This is what makes "the step is performed and checked" mean anything: a
// verification whose error is logged and forgotten verifies nothing.
//
// Each tolerated fall-through is one line with its reason; a tolerated site
// that no longer falls through is still counted as gated.

import (
	"fmt"
	"go/ast"
	"go/types"
	"strings"
)

type gateSpec struct {
	fn     string
	what   string
	effect func(f *Func) []Site
	// tolerated returns the reason why the failure of the call at s may fall
	// through to the effect, or "".
	tolerated func(f *Func, s Site) string
	min       int
}

type gateGroup struct {
	prop, id string
	rule     string
	specs    []gateSpec
}

// effectSuccess: any return whose error result is the literal nil.
func effectSuccess(f *Func) []Site {
	return successReturns(f)
}

// effectCalls: any call (wrapper-aware) to one of specs, or a success return.
func effectCalls(andSuccess bool, specs ...Callee) func(f *Func) []Site {
	return func(f *Func) []Site {
		sites := f.CallsW(specs...)
		if andSuccess {
			sites = append(sites, successReturns(f)...)
		}
		return sites
	}
}

// effectStores: every store to the named field.
func effectStores(pkg, typ, field string) func(f *Func) []Site {
	return func(f *Func) []Site {
		var out []Site
		for _, st := range f.StoresTo(f.Prog.fieldVar(pkg, typ, field)) {
			out = append(out, st.Site)
		}
		return out
	}
}

func calleeIs(f *Func, s Site, specs ...Callee) bool {
	return matchCallee(f.Info(), s.real(), specs...)
}

// firstArgConst reports the constant string value of the argument named key.
func keyArgConst(f *Func, s Site) (string, bool) {
	a := argByName(f.Info(), s.real(), "key")
	if a == nil {
		return "", false
	}
	return constString(f.Info(), a)
}

func keyArgCallTo(f *Func, s Site, name string) bool {
	a := argByName(f.Info(), s.real(), "key")
	if a == nil {
		return false
	}
	call, ok := ast.Unparen(a).(*ast.CallExpr)
	if !ok {
		return false
	}
	fn, ok := calleeObj(f.Info(), call).(*types.Func)
	return ok && fn.Name() == name
}

var (
	specTrimmed  = Callee{pkgRoot, "LogEntry", "TrimmedEntry"}
	specJSONMar  = Callee{"encoding/json", "", "Marshal"}
	specCachePut = Callee{pkgCtlog, "Log", "cachePut"}
)

func namesTileBestEffort(f *Func, s Site) string {
	if calleeIs(f, s, specTrimmed, specJSONMar) {
		return "the names tile is an auxiliary, unauthenticated product: a leaf that cannot be trimmed is logged and skipped"
	}
	return ""
}

var gateGroups = []gateGroup{
	{prop: "C06", id: "C06.h", rule: "start-up and creation: every failing step of LoadLog / openCheckpoint / CreateLog cuts off the successful return (and, in CreateLog, the LockBackend.Create call that follows it)",
		specs: []gateSpec{
			{fn: "ctlog.LoadLog", what: "start-up", effect: effectSuccess, min: 10, tolerated: loadLogTolerated},
			{fn: "ctlog.openCheckpoint", what: "checkpoint opening", effect: effectSuccess, min: 4},
			{fn: "ctlog.CreateLog", what: "log creation", effect: effectSuccess, min: 6, tolerated: createLogTolerated},
		}},
	{prop: "C08", id: "C08.g", rule: "every failing verification or fetch step of LoadLog and openCheckpoint cuts off the successful return, so the adopted tree has passed every one of them",
		specs: []gateSpec{
			{fn: "ctlog.LoadLog", what: "start-up verification", effect: effectSuccess, min: 10, tolerated: loadLogTolerated},
			{fn: "ctlog.openCheckpoint", what: "checkpoint opening", effect: effectSuccess, min: 4},
		}},
	{prop: "C03", id: "C03.j", rule: "every failing step of a sequencing round cuts off the lock-backend commit and the success return; the bundle writer, the bundle reader and the (de)compression helpers never return success after a failing step",
		specs: []gateSpec{
			{fn: "ctlog.(*Log).sequencePool", what: "sequencing round", effect: effectCalls(true, specLockRepl), min: 8, tolerated: sequenceTolerated},
			{fn: "ctlog.applyStagedUploads", what: "staged-upload application", effect: effectCalls(false, Callee{pkgErrgroup, "Group", "Wait"}), min: 3},
			{fn: "ctlog.marshalStagedUploads", what: "bundle serialisation", effect: effectSuccess, min: 4},
			{fn: "ctlog.compress", what: "compression", effect: effectSuccess, min: 2},
			{fn: "ctlog.fetchAndDecompress", what: "fetch and decompress", effect: effectSuccess, min: 3},
		}},
	{prop: "C01", id: "C01.l", rule: "every failing step of a sequencing round (hashing, signing, staging, tile upload) cuts off the lock-backend commit and the checkpoint publication",
		specs: []gateSpec{
			{fn: "ctlog.(*Log).sequencePool", what: "sequencing round", effect: effectCalls(true, specLockRepl), min: 8, tolerated: sequenceTolerated},
		}},
	{prop: "C04", id: "C04.k", rule: "every failing step of the admission function (issuer upload) cuts off the insertion of the leaf into the pool",
		specs: []gateSpec{
			{fn: "ctlog.(*Log).addLeafToPool", what: "admission", effect: effectStores(pkgCtlog, "pool", "pendingLeaves"), min: 1},
		}},
	{prop: "C02", id: "C02.h", rule: "every failing step of the submission handler - validation, the wait for sequencing, extension encoding, SCT signing, response encoding - cuts off the successful (SCT-bearing) return, and a failed submission never reaches the handlers' response body write",
		specs: []gateSpec{
			{fn: "ctlog.(*Log).addChainOrPreChain", what: "SCT issuance", effect: effectSuccess, min: 8},
			{fn: "ctlog.(*Log).addChain", what: "add-chain response", effect: effectCalls(false, Callee{"net/http", "ResponseWriter", "Write"}), min: 1},
			{fn: "ctlog.(*Log).addPreChain", what: "add-pre-chain response", effect: effectCalls(false, Callee{"net/http", "ResponseWriter", "Write"}), min: 1},
		}},
	{prop: "C09", id: "C09.h", rule: "every failing parse or validation step of the submission handler cuts off the call that adds the leaf to the pool",
		specs: []gateSpec{
			{fn: "ctlog.(*Log).addChainOrPreChain", what: "submission handling", effect: effectCalls(false, Callee{pkgCtlog, "Log", "addLeafToPool"}), min: 3},
		}},
	{prop: "C12", id: "C12.i", rule: "every failing step of the client's verifying operations cuts off their successful return",
		specs: []gateSpec{
			{fn: "sunlight.(*Client).CheckInclusion", what: "inclusion check", effect: effectSuccess, min: 4},
			{fn: "sunlight.(*Client).Checkpoint", what: "checkpoint fetch", effect: effectSuccess, min: 2},
			{fn: "sunlight.(*Client).Entry", what: "entry fetch", effect: effectSuccess, min: 2},
		}},
	{prop: "C14", id: "C14.i", rule: "every failing step of the add-checkpoint request processing cuts off the state update and the cosignature; every failing step of updateCheckpoint cuts off its success return",
		specs: []gateSpec{
			{fn: "witness.(*Witness).processAddCheckpointRequest", what: "add-checkpoint processing", effect: effectCalls(true, Callee{pkgWitness, "Witness", "updateCheckpoint"}), min: 3},
			{fn: "witness.(*Witness).updateCheckpoint", what: "checkpoint update", effect: effectSuccess, min: 2},
			{fn: "witness.NewWitness", what: "witness construction", effect: effectSuccess, min: 4, tolerated: newWitnessTolerated},
		}},
	{prop: "C15", id: "C15.h", rule: "every failing step of the add-entries commit and package processing cuts off the mirror-state update and the success return",
		specs: []gateSpec{
			{fn: "witness.(*Witness).processAddEntriesCommit", what: "add-entries commit", effect: effectSuccess, min: 3},
			{fn: "witness.(*Witness).processAddEntriesPackage", what: "add-entries package", effect: effectSuccess, min: 1},
			{fn: "witness.(*Witness).processAddEntriesMetadata", what: "add-entries metadata", effect: effectSuccess, min: 2, tolerated: metadataTolerated},
			{fn: "witness.(*Witness).ensureCutTiles", what: "cut tiles", effect: effectCalls(true, specUpload), min: 4, tolerated: cutTilesTolerated},
			{fn: "witness.(*Witness).completeTileFromBackend", what: "tile completion", effect: effectSuccess, min: 3},
			{fn: "witness.(*logState).mirrorCheckpointLocked", what: "mirror checkpoint load", effect: effectSuccess, min: 2},
			{fn: "witness.fetchAndDecompress", what: "fetch and decompress", effect: effectSuccess, min: 3},
		}},
	{prop: "C16", id: "C16.f", rule: "every failing step of the sign-subtree processing cuts off the subtree signature",
		specs: []gateSpec{
			{fn: "witness.(*Witness).processSignSubtreeRequest", what: "sign-subtree processing", effect: effectSuccess, min: 3},
		}},
	{prop: "C18", id: "C18.f", rule: "every failing step of the cleaning function (directory read, tile-path parsing, override) cuts off the Remove calls; every failing step of logSize cuts off its success return, every failing step of overrideImmutable the immutable.Unset call",
		specs: []gateSpec{
			{fn: "partial-aftersun.cleanDir", what: "cleaning", effect: effectCalls(false, Callee{"os", "Root", "Remove"}), min: 3, tolerated: cleanDirTolerated},
			{fn: "partial-aftersun.logSize", what: "size discovery", effect: effectSuccess, min: 3},
			{fn: "partial-aftersun.overrideImmutable", what: "immutable override", effect: effectCalls(false, Callee{pkgImmut, "", "Unset"}), min: 3},
		}},
	{prop: "C20", id: "C20.f", rule: "every failing step of the per-log and per-witness health checks cuts off the healthy (nil) verdict",
		specs: []gateSpec{
			{fn: "skylight.checkLog", what: "log health check", effect: effectSuccess, min: 5},
			{fn: "skylight.(witnessHealth).check", what: "witness health check", effect: effectSuccess, min: 3},
		}},
	{prop: "C11", id: "C11.h", rule: "every failing step of tree-head signing (key hash, signature, encoding) cuts off the successful return of the signed checkpoint",
		specs: []gateSpec{
			{fn: "ctlog.signTreeHead", what: "tree-head signing", effect: effectSuccess, min: 4},
			{fn: "ctlog.hashTreeHead", what: "tree-head hashing", effect: effectSuccess, min: 1},
			{fn: "sunlight.NewRFC6962Verifier", what: "verifier construction", effect: effectSuccess, min: 1},
			{fn: "sunlight.NewRFC6962InjectedSigner", what: "signer construction", effect: effectSuccess, min: 1},
			{fn: "sunlight.RFC6962SignatureTimestamp", what: "timestamp extraction", effect: effectSuccess, min: 1},
		}},
	{prop: "C07", id: "C07.i", rule: "every failing step of the deduplication cache set-up and lookup cuts off the successful return",
		specs: []gateSpec{
			{fn: "ctlog.initCache", what: "cache set-up", effect: effectSuccess, min: 3},
			{fn: "ctlog.(*Log).cacheGet", what: "cache lookup", effect: effectSuccess, min: 1, tolerated: cacheGetTolerated},
			{fn: "ctlog.(*Log).cachePut", what: "cache insert", effect: effectSuccess, min: 1},
		}},
	{prop: "C17", id: "C17.k", rule: "in RunSequencer a failed sequencing round cuts off the next round: the loop never calls sequence again after it returned an error",
		specs: []gateSpec{
			{fn: "ctlog.(*Log).RunSequencer", what: "sequencer loop", effect: effectCalls(false, Callee{pkgCtlog, "Log", "sequence"}), min: 1},
		}},
	{prop: "C05", id: "C05.h", rule: "every failing step of every lock-backend method (SQL execution, DynamoDB / S3 request, body read) cuts off its successful return",
		specs: []gateSpec{
			{fn: "ctlog.(*SQLiteBackend).Fetch", what: "SQLite fetch", effect: effectSuccess, min: 1},
			{fn: "ctlog.(*SQLiteBackend).Replace", what: "SQLite replace", effect: effectSuccess, min: 1},
			{fn: "ctlog.(*SQLiteBackend).Create", what: "SQLite create", effect: effectSuccess, min: 1},
			{fn: "ctlog.(*DynamoDBBackend).Fetch", what: "DynamoDB fetch", effect: effectSuccess, min: 1},
			{fn: "ctlog.(*DynamoDBBackend).Replace", what: "DynamoDB replace", effect: effectSuccess, min: 1},
			{fn: "ctlog.(*ETagBackend).Fetch", what: "ETag fetch", effect: effectSuccess, min: 2},
			{fn: "ctlog.(*ETagBackend).Replace", what: "ETag replace", effect: effectSuccess, min: 1},
			{fn: "ctlog.(*ETagBackend).Create", what: "ETag create", effect: effectSuccess, min: 1},
		}},
	{prop: "C10", id: "C10.h", rule: "every failing step of the tile-path and tile-leaf decoders cuts off their successful return",
		specs: []gateSpec{
			{fn: "sunlight.ParseTilePath", what: "tile path parsing", effect: effectSuccess, min: 2},
		}},
	{prop: "C13", id: "C13.l", rule: "every failing step of the local backend's Upload, of compareFile and of durable.Mkdir cuts off their success return",
		specs: []gateSpec{
			{fn: "ctlog.(*LocalBackend).Upload", what: "local upload", effect: effectSuccess, min: 3, tolerated: localUploadTolerated},
			{fn: "ctlog.compareFile", what: "file comparison", effect: effectSuccess, min: 1},
			{fn: "durable.Mkdir", what: "durable mkdir", effect: effectSuccess, min: 2, tolerated: mkdirTolerated},
		}},
}

func loadLogTolerated(f *Func, s Site) string {
	if calleeIs(f, s, specFetch) {
		if k, ok := keyArgConst(f, s); ok && k == "_roots.pem" {
			return "previously accepted roots are optional at start-up: a missing _roots.pem is logged and the pool starts empty"
		}
		if keyArgCallTo(f, s, "legacyStagingPath") {
			return "existence probe: the successful outcome is the refusing one"
		}
	}
	return namesTileBestEffort(f, s)
}

func createLogTolerated(f *Func, s Site) string {
	if calleeIs(f, s, specFetch, specLockFet) {
		return "existence probe: the successful outcome is the refusing one (gated the other way by C06.c)"
	}
	return ""
}

func sequenceTolerated(f *Func, s Site) string {
	if calleeIs(f, s, specDiscard) {
		return "discarding the staging bundle happens after the round is committed and published; its failure is logged"
	}
	if calleeIs(f, s, specCachePut) {
		return "the deduplication cache is written after publication; its failure does not undo the round"
	}
	return namesTileBestEffort(f, s)
}

func cutTilesTolerated(f *Func, s Site) string {
	if calleeIs(f, s, specFetch) {
		return "existence probe of the cut hash tile: its presence means the work is already done (C15.e orders the uploads so that this is sound)"
	}
	return ""
}

func metadataTolerated(f *Func, s Site) string {
	if calleeIs(f, s, Callee{pkgWitness, "Witness", "verifyTicket"}) {
		return "a ticket that does not verify is ignored, the request is then resolved without it (its use is gated by C15.c)"
	}
	return ""
}

func newWitnessTolerated(f *Func, s Site) string {
	if calleeIs(f, s, Callee{"crypto/rand", "", "Read"}) {
		return "crypto/rand.Read is documented never to return an error (it aborts the program instead)"
	}
	if calleeIs(f, s, specLockFet) && classifiedNotFound(f, s) {
		return "a missing configuration record is the first-start case (ErrLogNotFound), handled by creating it"
	}
	return ""
}

// classifiedNotFound: the error of the call at s is tested with
// errors.Is(err, ErrLogNotFound) before it is overwritten.
func classifiedNotFound(f *Func, s Site) bool {
	info := f.Info()
	obj, ok := resultVar(s, isErrorType)
	if !ok {
		return false
	}
	found := false
	f.Graph().ReachAll(s.After(), Cut{Stop: func(_ Point, n ast.Node) bool { return n != nil && assignsTo(info, n, obj) }}, func(p Point, n ast.Node) bool {
		if n != nil && Cond(p.B) == n {
			ast.Inspect(n, func(x ast.Node) bool {
				if call, ok := x.(*ast.CallExpr); ok && matchCallee(info, call, Callee{"errors", "", "Is"}) && len(call.Args) == 2 &&
					objOf(info, call.Args[0]) == obj && isPkgVar(info, call.Args[1], pkgCtlog, "ErrLogNotFound") {
					found = true
				}
				return true
			})
		}
		return false
	})
	return found
}

func cacheGetTolerated(f *Func, s Site) string {
	// the second lookup (legacy 128-bit table): its failure is tolerated only when the table is gone
	if calleeIs(f, s, Callee{pkgSqlitex, "", "Exec"}) {
		if q, ok := constString(f.Info(), argByName(f.Info(), s.real(), "query")); ok && strings.Contains(q, "FROM cache WHERE") {
			return "the legacy table may have been dropped by the operator; the fallback is then disabled (the 256-bit lookup already succeeded)"
		}
	}
	return ""
}

func cleanDirTolerated(f *Func, s Site) string {
	return ""
}

func mkdirTolerated(f *Func, s Site) string {
	if calleeIs(f, s, Callee{"os", "", "Mkdir"}) {
		return "an already existing directory is the wanted outcome (os.IsExist)"
	}
	return ""
}

func localUploadTolerated(f *Func, s Site) string {
	return ""
}

func attachGates() {
	for i := range gateGroups {
		gg := gateGroups[i]
		p := registry[gg.prop]
		if p == nil {
			panic("gates: unknown property " + gg.prop)
		}
		for _, o := range p.Obligations {
			if o.ID == gg.id {
				panic("gates: duplicate obligation id " + gg.id)
			}
		}
		min := 0
		for _, sp := range gg.specs {
			min += sp.min
		}
		p.Obligations = append(p.Obligations, &Obligation{ID: gg.id, Title: "ERRORS-GATE", Template: "T12+T1", MinInst: min, Rule: gg.rule,
			Run: func(c *Ctx) { runGateGroup(c, gg) }})
	}
}

func runGateGroup(c *Ctx, gg gateGroup) {
	for _, sp := range gg.specs {
		f := c.Fn(sp.fn)
		if f == nil {
			continue
		}
		tol := sp.tolerated
		eff := sp.effect(f)
		if len(eff) == 0 {
			c.Unk(f.Name, fmt.Sprintf("%s: the protected effect (success return / guarded call) was not found in %s", sp.what, f.Name))
			continue
		}
		n := c.errorsGate(f.Name, f, sp.what, atAnySite(eff), func(s Site) string {
			if tol == nil {
				return ""
			}
			return tol(f, s)
		})
		if n > 0 && n < sp.min {
			c.Unk(f.Name+" (count)", fmt.Sprintf("%s: only %d gated call(s) found in %s, %d were confirmed by reading", sp.what, n, f.Name, sp.min))
		}
	}
}
