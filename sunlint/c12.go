package main

// C12 - the monitoring client never yields unauthenticated log content.

import (
	"fmt"
	"go/ast"
	"go/token"
	"go/types"
	"strings"
)

const pkgCTtls = "github.com/google/certificate-transparency-go/tls"

func init() {
	register(&Property{
		ID:    "C12",
		Title: "The monitoring client never yields unauthenticated log content",
		Explanation: "Value-flow, guard-dominance and who-yields inventory obligations on cutEntry, Client.Entries/AllEntries/Entry/CheckInclusion/Checkpoint and NewClient (go/cfg + go/types). " +
			"Decided: the record hash given to the verifying tile client is RecordHash(MerkleTreeLeaf(parsed entry)) and the bytes handed back are exactly the parsed prefix; every entry that leaves the client was parsed (with the reader selected by the archival option, no trailing data) from bytes obtained from the verifying torchwood client, single-entry fetch checks the leaf index; CheckInclusion's success is dominated by the version, log-ID (hash of the configured key), extension parse, authenticated entry fetch at the SCT's index, timestamp equality and signature verification with the configured key over the entry's Merkle leaf; Checkpoint's success is dominated by note.Open with the verifier of the configured key, parse and origin equality; every torchwood client is built with this cutEntry. " +
			"NOT decided: torchwood/tlog proof verification, tamper outcomes (runtime).",
		Assumptions: []string{"torchwood.Client authenticates every entry it yields against the given tree using the record hash from cutEntry"},
		Obligations: []*Obligation{
			{ID: "C12.a", Title: "CUT-ENTRY", Template: "T6", MinInst: 2,
				Rule: "cutEntry returns RecordHash(MerkleTreeLeaf(parse(tile))) and exactly the parsed prefix tile[:len(tile)-len(rest)]", Run: c12a},
			{ID: "C12.b", Title: "ENTRY-GUARDS", Template: "T2", MinInst: 7,
				Rule: "in Entries, AllEntries and Entry: archival reader only when AllowRFC6962ArchivalLeafs, strict reader otherwise; an entry is yielded/returned only after parse success and empty rest; Entry also requires LeafIndex == index for non-archival leaves", Run: c12b},
			{ID: "C12.c", Title: "INCLUSION-GUARDS", Template: "T2+T6", MinInst: 6,
				Rule: "CheckInclusion's success is dominated by version, log ID, extension parse, entry fetch at the SCT index, timestamp equality and VerifySignature(configured key, entry.MerkleTreeLeaf(), SCT signature)", Run: c12c},
			{ID: "C12.d", Title: "CHECKPOINT-VERIFIED", Template: "T2+T6", MinInst: 4,
				Rule: "Checkpoint's success is dominated by note.Open with NewRFC6962Verifier(name, configured key), ParseCheckpoint of the verified text and origin == name; it returns that checkpoint and note", Run: c12d},
			{ID: "C12.e", Title: "WITH-CUT-ENTRY", Template: "T4", MinInst: 2,
				Rule: "every torchwood.NewClient call in the package passes WithCutEntry(cutEntry)", Run: c12e},
			{ID: "C12.j", Title: "ENTRY-NOT-REWRITTEN", Template: "T4", MinInst: 1,
				Rule: "no Merkle-covered field of a LogEntry is stored to in package sunlight outside the tile-leaf readers (an entry under construction from a literal excepted): what the client hands out is what was parsed from authenticated bytes, and the index / SCT comparisons made afterwards look at the authenticated values",
				Run:  c12i},
			{ID: "C12.g", Title: "VERIFIER-STRICT", Template: "T2", MinInst: 3,
				Rule: "the note verifier that Checkpoint relies on accepts only when the text parses as a checkpoint, its origin is the verifier's name and it has no extension line (the guards of C11.c that decide WHAT content is covered by the log's signature): unsigned content cannot ride on a signed checkpoint",
				Run:  func(c *Ctx) { c11cOnly(c, []string{"checkpoint parses", "origin == name", "no extension"}) }},
			{ID: "C12.h", Title: "LEAF-CODEC", Template: "T5a", MinInst: 6,
				Rule: "the entry that is hashed for authentication re-encodes exactly what was parsed: tile-leaf writer and reader agree path-wise, the extension codec agrees and the 40-bit index codec uses one shift table (as C10.a, C10.c, C10.d), so a tampered field cannot parse to one value and hash as another",
				Run:  func(c *Ctx) { c10a(c); c10c(c); c10d(c) }},
			{ID: "C12.f", Title: "WHO-YIELDS", Template: "T6", MinInst: 4,
				Rule: "every *LogEntry passed to yield or returned by Entry/CheckInclusion is the result of ReadTileLeaf* applied to bytes produced by the torchwood client's Entries/AllEntries/Entry", Run: c12f},
		},
	})
}

func c12a(c *Ctx) {
	f := c.Fn("sunlight.cutEntry")
	if f == nil {
		return
	}
	info := f.Info()
	parse := f.Calls(Callee{pkgRoot, "", "ReadTileLeafMaybeArchival"}, Callee{pkgRoot, "", "ReadTileLeaf"}, Callee{pkgRoot, "", "readTileLeaf"})
	if len(parse) != 1 || !f.IsParam(parse[0].Call.Args[0], "tile") {
		c.Bad(f.Name+" parse", f.Pos(f.Decl), "cutEntry does not parse its tile argument with the tile-leaf reader")
		return
	}
	a, ok := parse[0].Node.(*ast.AssignStmt)
	if !ok || len(a.Lhs) != 3 {
		c.Unk(f.Name, "unrecognised binding of the parse results")
		return
	}
	eObj, restObj := objOf(info, a.Lhs[0]), objOf(info, a.Lhs[1])
	okRets := successReturns(f)
	if len(okRets) == 0 {
		c.Unk(f.Name, "no successful return")
		return
	}
	c.requireGate(f.Name+" parse ok", f, parse, OutNil, okRets, "entry returned only when the parse succeeded")
	// values: named results or explicit
	res := func(name string, idx int) ast.Expr {
		rs := okRets[0].X.(*ast.ReturnStmt).Results
		if idx < len(rs) {
			e := rs[idx]
			if o := objOf(info, e); o != nil {
				// named result assigned earlier: follow its last definition
				defs := f.Defs(o)
				var last ast.Expr
				for _, d := range defs {
					if d.Kind == DefAssign && d.Idx < 0 {
						last = d.Rhs
					}
				}
				if last != nil {
					return last
				}
			}
			return e
		}
		return nil
	}
	rh := res("rh", 1)
	okHash := false
	if call, isC := ast.Unparen(rh).(*ast.CallExpr); isC && matchCallee(info, call, Callee{pkgTlog, "", "RecordHash"}) && len(call.Args) == 1 {
		if ml, isM := ast.Unparen(call.Args[0]).(*ast.CallExpr); isM && matchCallee(info, ml, Callee{pkgRoot, "LogEntry", "MerkleTreeLeaf"}) {
			if sel, isS := ast.Unparen(ml.Fun).(*ast.SelectorExpr); isS && objOf(info, sel.X) == eObj {
				okHash = true
			}
		}
	}
	entry := res("entry", 0)
	okSlice := false
	if sl, isS := ast.Unparen(entry).(*ast.SliceExpr); isS && sl.Low == nil && sl.High != nil && f.IsParam(sl.X, "tile") {
		if be, isB := ast.Unparen(sl.High).(*ast.BinaryExpr); isB && be.Op == token.SUB {
			l, lok := ast.Unparen(be.X).(*ast.CallExpr)
			r, rok := ast.Unparen(be.Y).(*ast.CallExpr)
			if lok && rok && isBuiltinCall(info, l, "len") && isBuiltinCall(info, r, "len") && f.IsParam(l.Args[0], "tile") && objOf(info, r.Args[0]) == restObj {
				okSlice = true
			}
		}
	}
	restRet := okRets[0].X.(*ast.ReturnStmt).Results
	okRest := len(restRet) == 4 && objOf(info, restRet[2]) == restObj
	if okHash && okSlice && okRest {
		c.add(Result{Instance: f.Name + " values", Verdict: Discharged, Evals: 3, Sites: []string{okRets[0].Pos()}, Detail: "rh = RecordHash(e.MerkleTreeLeaf()); entry = tile[:len(tile)-len(rest)]; rest = parser's rest"})
	} else {
		c.Bad(f.Name+" values", okRets[0].Pos(), fmt.Sprintf("cutEntry's results are not (parsed prefix, hash of the parsed entry's Merkle leaf, rest): hash ok=%v prefix ok=%v rest ok=%v", okHash, okSlice, okRest))
	}
}

// clientEntryFuncs: the functions/literals of the root package where entries
// are parsed from torchwood bytes.
func c12b(c *Ctx) {
	type target struct {
		f     *Func
		sinks []Site // yield calls or success returns
		name  string
	}
	var ts []target
	for _, name := range []string{"sunlight.(*Client).Entries", "sunlight.(*Client).AllEntries"} {
		top := c.Fn(name)
		if top == nil {
			continue
		}
		for _, l := range top.Lits {
			info := l.Info()
			yp := l.soleFuncParam()
			var ys []Site
			for _, s := range l.Find(func(n ast.Node) bool {
				call, ok := n.(*ast.CallExpr)
				return ok && yp != nil && objOf(info, call.Fun) == yp
			}) {
				ys = append(ys, s)
			}
			if len(ys) > 0 {
				ts = append(ts, target{l, ys, name})
			}
		}
	}
	if e := c.Fn("sunlight.(*Client).Entry"); e != nil {
		ts = append(ts, target{e, successReturns(e), "sunlight.(*Client).Entry"})
	}
	helper := entryParserHelper(c.P)
	if helper != nil {
		ts = append(ts, target{helper, successReturns(helper), helper.Name})
	}
	for _, t := range ts {
		f := t.f
		c.touch(f)
		info := f.Info()
		g := f.Graph()
		if helper != nil && f != helper && !usesReader(f) {
			// parsing delegated: the helper's own obligations are checked as a target of their own;
			// here the helper's failure must keep the entry from the sink
			var hcalls []Site
			for _, s := range f.Find(func(n ast.Node) bool { _, ok := n.(*ast.CallExpr); return ok }) {
				if fn, ok := calleeObj(info, s.X.(*ast.CallExpr)).(*types.Func); ok && fn.Origin() == helper.Obj {
					s.Call = s.X.(*ast.CallExpr)
					hcalls = append(hcalls, s)
				}
			}
			inst := t.name + " parse succeeded"
			okE, untested := gateEdges(hcalls, OutNil)
			switch {
			case len(hcalls) == 0:
				c.Bad(t.name+" parse", f.Pos(f.Body), "entries are produced without parsing tile leaves")
				continue
			case len(untested) > 0 || len(okE) == 0:
				c.Bad(inst, hcalls[0].Pos(), "the error of "+helper.Name+" is not tested")
			default:
				bad := false
				for _, h := range hcalls {
					if pt, _ := g.Reach(h.After(), Cut{Edges: okE}, atAnySite(t.sinks)); pt != nil {
						c.Bad(inst, t.sinks[0].Pos(), "an entry can be yielded although parsing failed")
						bad = true
						break
					}
				}
				if !bad {
					c.add(Result{Instance: inst, Verdict: Discharged, Sites: sitePositions(t.sinks), Detail: "sink unreachable unless " + helper.Name + " succeeded", Witnesses: f.WitEdges(okE)})
				}
			}
			c.OK(t.name+" reader selection", "delegated to "+helper.Name+" (checked there)", sitePositions(hcalls))
			c.OK(t.name+" no trailing data", "delegated to "+helper.Name+" (checked there)", sitePositions(hcalls))
			if t.name == "sunlight.(*Client).Entry" {
				var ent types.Object
				if a, ok := hcalls[0].Node.(*ast.AssignStmt); ok && len(a.Lhs) == 2 {
					ent = objOf(info, a.Lhs[0])
				}
				c12bIndexCheck(c, f, ent, t.sinks)
			}
			continue
		}
		isAllow := func(e ast.Expr) bool {
			_, p, ok := fieldPath(info, e)
			return ok && len(p) >= 1 && p[len(p)-1] == "AllowRFC6962ArchivalLeafs"
		}
		allowT := g.EdgesImplying(func(a Atom) bool { return isAllow(a.E) && a.Val })
		allowF := g.EdgesImplying(func(a Atom) bool { return isAllow(a.E) && !a.Val })
		arch := f.Calls(Callee{pkgRoot, "", "ReadTileLeafMaybeArchival"})
		strict := f.Calls(Callee{pkgRoot, "", "ReadTileLeaf"})
		// the reader may be chosen into a local function variable first: the binding sites stand for
		// the calls in the selection rule, the calls through the variable are the parse sites
		vcalls, vArch, vStrict := readerVar(f)
		if len(arch)+len(strict) == 0 && len(vcalls) > 0 {
			arch, strict = vArch, vStrict
		}
		inst := t.name + " reader selection"
		switch {
		case len(arch) == 0 && len(strict) > 0:
			c.OK(inst, "only the strict reader is used", sitePositions(strict))
		case len(arch) == 0:
			c.Bad(inst, f.Pos(f.Body), "no tile-leaf reader is called")
		case len(allowT) == 0:
			c.Bad(inst, arch[0].Pos(), "archival leaves (without leaf index) are accepted regardless of the AllowRFC6962ArchivalLeafs option")
		default:
			p1, _ := g.ReachableFromEntry(Cut{Edges: allowT}, atAnySite(arch))
			var p2 *Point
			if len(strict) > 0 && len(vcalls) == 0 {
				p2, _ = g.ReachableFromEntry(Cut{Edges: allowF}, atAnySite(strict))
			}
			if len(strict) > 0 && len(vcalls) > 0 {
				// bound first, overridden only when allowed: the strict binding must reach the call when the option is off
				if pt, _ := g.Reach(strict[0].After(), Cut{Edges: allowT, Stop: func(p Point, _ ast.Node) bool {
					for _, a := range arch {
						if a.P == p {
							return true
						}
					}
					return false
				}}, atAnySite(vcalls)); pt == nil {
					p2 = &Point{}
				}
			}
			if p1 != nil {
				c.Bad(inst, arch[0].Pos(), "the archival reader can be used although archival leaves are not allowed")
			} else if p2 != nil || len(strict) == 0 {
				c.Bad(inst, f.Pos(f.Body), "the strict reader is not used when archival leaves are not allowed")
			} else {
				c.add(Result{Instance: inst, Verdict: Discharged, Evals: 2, Sites: sitePositions(append(arch, strict...)), Detail: "archival reader only if allowed, strict reader otherwise", Witnesses: f.WitEdges(allowT)})
			}
		}
		// error and rest
		parses := append(append([]Site{}, arch...), strict...)
		if len(vcalls) > 0 && len(f.Calls(Callee{pkgRoot, "", "ReadTileLeafMaybeArchival"}, Callee{pkgRoot, "", "ReadTileLeaf"})) == 0 {
			parses = vcalls
		}
		if len(parses) == 0 {
			c.Bad(t.name+" parse", f.Pos(f.Body), "entries are produced without parsing tile leaves")
			continue
		}
		// all parse sites assign (entry, rest, err) to the same objects
		var entObj, restObj, errObj types.Object
		for _, s := range parses {
			if a, ok := s.Node.(*ast.AssignStmt); ok && len(a.Lhs) == 3 {
				entObj, restObj, errObj = objOf(info, a.Lhs[0]), objOf(info, a.Lhs[1]), objOf(info, a.Lhs[2])
			}
		}
		isErr := func(e ast.Expr) bool { return objOf(info, e) == errObj }
		errNil := g.EdgesImplying(func(a Atom) bool { eq, ok := isNilCmp(info, a.E, isErr); return ok && eq == a.Val })
		isLenRest := func(e ast.Expr) bool {
			call, ok := ast.Unparen(e).(*ast.CallExpr)
			return ok && isBuiltinCall(info, call, "len") && objOf(info, call.Args[0]) == restObj
		}
		isZero := func(e ast.Expr) bool { v, ok := constInt(info, e); return ok && v == 0 }
		noRest := g.EdgesImplying(func(a Atom) bool { rel, ok := cmpRel(a, isLenRest, isZero); return ok && rel&relGT == 0 })
		// only paths from a parse site matter: start after each parse
		for _, gd := range []struct {
			name string
			e    map[Edge]bool
			msg  string
		}{
			{"parse succeeded", errNil, "an entry can be yielded although parsing failed"},
			{"no trailing data", noRest, "an entry can be yielded although the authenticated bytes contain trailing data that is not part of it"},
		} {
			inst := t.name + " " + gd.name
			if len(gd.e) == 0 {
				c.Bad(inst, t.sinks[0].Pos(), gd.msg+" (no such check)")
				continue
			}
			bad := false
			for _, p := range parses {
				if pt, _ := g.Reach(p.After(), Cut{Edges: gd.e}, atAnySite(t.sinks)); pt != nil {
					c.Bad(inst, t.sinks[0].Pos(), gd.msg)
					bad = true
					break
				}
			}
			if !bad {
				nec := map[Edge]bool{}
				for _, p := range parses {
					for e := range necessaryEdges(g, p.After(), gd.e, t.sinks, Cut{}) {
						nec[e] = true
					}
				}
				c.add(Result{Instance: inst, Verdict: Discharged, Sites: sitePositions(t.sinks), Detail: "sink unreachable from the parse unless " + gd.name, Witnesses: f.WitEdges(nec)})
			}
		}
		// Entry: index check
		if t.name == "sunlight.(*Client).Entry" {
			c12bIndexCheck(c, f, entObj, t.sinks)
		}
	}
	if len(ts) < 3 {
		c.Unk("client entry functions", fmt.Sprintf("expected Entries, AllEntries and Entry, found %d", len(ts)))
	}
}

func c12c(c *Ctx) {
	f := c.Fn("sunlight.(*Client).CheckInclusion")
	if f == nil {
		return
	}
	info := f.Info()
	g := f.Graph()
	recv := f.recvObj()
	okRets := successReturns(f)
	if len(okRets) == 0 {
		c.Unk(f.Name, "no successful return")
		return
	}
	isCfgKey := func(e ast.Expr) bool {
		return f.IsFieldPathOf(e, func(o types.Object) bool { return o == recv }, "cc", "PublicKey")
	}
	// the SCT variable
	var sct types.Object
	unm := f.Calls(Callee{pkgCTtls, "", "Unmarshal"})
	for _, s := range unm {
		if u, ok := ast.Unparen(s.Call.Args[1]).(*ast.UnaryExpr); ok {
			sct = objOf(info, u.X)
		}
		if !f.IsParam(s.Call.Args[0], "sct") {
			sct = nil
		}
	}
	if sct == nil {
		c.Bad(f.Name+" SCT parse", f.Pos(f.Decl), "the SCT bytes are not parsed with tls.Unmarshal into a SignedCertificateTimestamp")
		return
	}
	c.requireGate(f.Name+" SCT parses", f, unm, OutNil, okRets, "success only for a parseable SCT")
	sctField := func(path ...string) func(ast.Expr) bool {
		return func(e ast.Expr) bool {
			r, p, ok := fieldPath(info, stripConv(info, e))
			if !ok || r != sct || len(p) != len(path) {
				return false
			}
			for i := range p {
				if p[i] != path[i] {
					return false
				}
			}
			return true
		}
	}
	guard := func(name string, safe map[Edge]bool, msg string) {
		inst := f.Name + " " + name
		if len(safe) == 0 {
			c.Bad(inst, okRets[0].Pos(), msg+" (no such check)")
		} else if pt, _ := g.ReachableFromEntry(Cut{Edges: safe}, atAnySite(okRets)); pt != nil {
			c.Bad(inst, okRets[0].Pos(), msg)
		} else {
			c.add(Result{Instance: inst, Verdict: Discharged, Sites: sitePositions(okRets), Detail: "success unreachable unless " + name, Witnesses: f.WitEdges(safe)})
		}
	}
	isV1 := func(e ast.Expr) bool { v, ok := constInt(info, e); return ok && v == 0 }
	guard("version == v1", g.EdgesImplying(func(a Atom) bool { rel, ok := cmpRel(a, sctField("SCTVersion"), isV1); return ok && rel == relEQ }), "an SCT of another version can be confirmed")
	// log id
	isLogID := func(e ast.Expr) bool {
		h, ok := f.IsCallResult(e, -1, Callee{"crypto/sha256", "", "Sum256"})
		if !ok || len(h.Args) != 1 {
			return false
		}
		m, ok := f.IsCallResult(h.Args[0], 0, Callee{"crypto/x509", "", "MarshalPKIXPublicKey"})
		return ok && len(m.Args) == 1 && isCfgKey(m.Args[0])
	}
	guard("log ID == hash(configured key)", g.EdgesImplying(func(a Atom) bool {
		rel, ok := cmpRel(a, sctField("LogID", "KeyID"), isLogID)
		return ok && rel == relEQ
	}), "an SCT naming another log can be confirmed")
	// extensions, entry
	pe := f.Calls(Callee{pkgRoot, "", "ParseExtensions"})
	var extObj types.Object
	for _, s := range pe {
		if a, ok := s.Node.(*ast.AssignStmt); ok {
			extObj = objOf(info, a.Lhs[0])
		}
		if !sctField("Extensions")(s.Call.Args[0]) {
			c.Bad(f.Name+" extension source", s.Pos(), "the leaf index is not parsed from the SCT's extensions")
		}
	}
	c.requireGate(f.Name+" extensions parse", f, pe, OutNil, okRets, "success only when the leaf-index extension parsed")
	ent := f.Calls(Callee{pkgRoot, "Client", "Entry"})
	var entObj, proofObj types.Object
	for _, s := range ent {
		if a, ok := s.Node.(*ast.AssignStmt); ok && len(a.Lhs) == 3 {
			entObj, proofObj = objOf(info, a.Lhs[0]), objOf(info, a.Lhs[1])
		}
		ix := argByName(info, s.Call, "index")
		r, p, ok := fieldPath(info, ix)
		tr := argByName(info, s.Call, "tree")
		if !ok || r != extObj || len(p) != 1 || p[0] != "LeafIndex" || !f.IsParam(tr, "tree") {
			c.Bad(f.Name+" entry fetch operands", s.Pos(), "the entry is not fetched at the SCT's leaf index in the caller's tree")
		}
	}
	c.requireGate(f.Name+" authenticated entry", f, ent, OutNil, okRets, "success only after the entry at the SCT's index was fetched and authenticated")
	isEntTs := func(e ast.Expr) bool {
		r, p, ok := fieldPath(info, stripConv(info, e))
		return ok && r == entObj && len(p) == 1 && p[0] == "Timestamp"
	}
	guard("timestamp equality", g.EdgesImplying(func(a Atom) bool { rel, ok := cmpRel(a, isEntTs, sctField("Timestamp")); return ok && rel == relEQ }), "an SCT whose timestamp differs from the logged entry's can be confirmed")
	// signature
	vs := f.Calls(Callee{pkgCTtls, "", "VerifySignature"})
	for _, s := range vs {
		okArgs := len(s.Call.Args) == 3 && isCfgKey(s.Call.Args[0]) && sctField("Signature")(s.Call.Args[2])
		if ml, ok := ast.Unparen(s.Call.Args[1]).(*ast.CallExpr); ok && matchCallee(info, ml, Callee{pkgRoot, "LogEntry", "MerkleTreeLeaf"}) {
			if sel, ok := ast.Unparen(ml.Fun).(*ast.SelectorExpr); !ok || objOf(info, sel.X) != entObj {
				okArgs = false
			}
		} else {
			okArgs = false
		}
		if !okArgs {
			c.Bad(f.Name+" signature operands", s.Pos(), "the signature is not verified with the configured key over the authenticated entry's Merkle leaf")
		}
	}
	c.requireGate(f.Name+" signature verifies", f, vs, OutNil, okRets, "success only when the SCT signature verified")
	// returned values
	for _, r := range okRets {
		rs := r.X.(*ast.ReturnStmt).Results
		if len(rs) != 3 || objOf(info, rs[0]) != entObj || objOf(info, rs[1]) != proofObj {
			c.Bad(f.Name+" result", r.Pos(), "CheckInclusion does not return the authenticated entry and its proof")
		}
	}
}

func c12d(c *Ctx) {
	f := c.Fn("sunlight.(*Client).Checkpoint")
	if f == nil {
		return
	}
	info := f.Info()
	g := f.Graph()
	recv := f.recvObj()
	okRets := successReturns(f)
	if len(okRets) == 0 {
		c.Unk(f.Name, "no successful return")
		return
	}
	nv := f.Calls(Callee{pkgRoot, "", "NewRFC6962Verifier"})
	var vObj, nameObj types.Object
	for _, s := range nv {
		if a, ok := s.Node.(*ast.AssignStmt); ok {
			vObj = objOf(info, a.Lhs[0])
		}
		nameObj = objOf(info, argByName(info, s.Call, "name"))
		if !f.IsFieldPathOf(argByName(info, s.Call, "key"), func(o types.Object) bool { return o == recv }, "cc", "PublicKey") {
			c.Bad(f.Name+" verifier key", s.Pos(), "the checkpoint verifier is not built from the configured public key")
			return
		}
	}
	if vObj == nil {
		c.Bad(f.Name+" verifier key", f.Pos(f.Decl), "no verifier for the configured key")
		return
	}
	c.OK(f.Name+" verifier key", "NewRFC6962Verifier(name, c.cc.PublicKey)", sitePositions(nv))
	opens := f.Calls(Callee{pkgNote, "", "Open"})
	var noteObj types.Object
	for _, s := range opens {
		if a, ok := s.Node.(*ast.AssignStmt); ok {
			noteObj = objOf(info, a.Lhs[0])
		}
		// VerifierList(verifier) only
		vl, ok := ast.Unparen(s.Call.Args[1]).(*ast.CallExpr)
		if !ok || len(vl.Args) != 1 || objOf(info, vl.Args[0]) != vObj {
			c.Bad(f.Name+" verifier list", s.Pos(), "note.Open accepts verifiers other than the one for the configured key")
		}
		if _, ok := f.IsCallResult(s.Call.Args[0], 0, Callee{pkgTorch, "TileReader", "ReadEndpoint"}); !ok {
			c.Unk(f.Name+" note source", "the note opened is not the fetched checkpoint endpoint")
		}
	}
	c.requireGate(f.Name+" note verified", f, opens, OutNil, okRets, "success only after note.Open verified the signature")
	parses := f.Calls(Callee{pkgTorch, "", "ParseCheckpoint"}, Callee{pkgRoot, "", "ParseCheckpoint"})
	var ckObj types.Object
	for _, s := range parses {
		if a, ok := s.Node.(*ast.AssignStmt); ok {
			ckObj = objOf(info, a.Lhs[0])
		}
		r, p, ok := fieldPath(info, s.Call.Args[0])
		if !ok || r != noteObj || len(p) != 1 || p[0] != "Text" {
			c.Bad(f.Name+" parsed text", s.Pos(), "the checkpoint parsed is not the verified note's text")
		}
	}
	c.requireGate(f.Name+" parses", f, parses, OutNil, okRets, "success only when the verified text parses")
	isOrigin := func(e ast.Expr) bool {
		r, p, ok := fieldPath(info, e)
		return ok && r == ckObj && len(p) == 1 && p[0] == "Origin"
	}
	isName := func(e ast.Expr) bool { return objOf(info, e) == nameObj && nameObj != nil }
	safe := g.EdgesImplying(func(a Atom) bool { rel, ok := cmpRel(a, isOrigin, isName); return ok && rel == relEQ })
	inst := f.Name + " origin == name"
	if len(safe) == 0 {
		c.Bad(inst, okRets[0].Pos(), "the checkpoint origin is not compared with the name the verifier was built for")
	} else if pt, _ := g.ReachableFromEntry(Cut{Edges: safe}, atAnySite(okRets)); pt != nil {
		c.Bad(inst, okRets[0].Pos(), "success reachable with a foreign origin")
	} else {
		c.add(Result{Instance: inst, Verdict: Discharged, Sites: sitePositions(okRets), Detail: "success unreachable unless origin == name", Witnesses: f.WitEdges(safe)})
	}
	for _, r := range okRets {
		rs := r.X.(*ast.ReturnStmt).Results
		if len(rs) != 3 || objOf(info, rs[0]) != ckObj || objOf(info, rs[1]) != noteObj {
			c.Bad(f.Name+" result", r.Pos(), "Checkpoint does not return the verified checkpoint and note")
		}
	}
}

func c12e(c *Ctx) {
	n := 0
	for _, f := range c.P.Funcs(pkgRoot) {
		if f.Body == nil {
			continue
		}
		for _, s := range f.Calls(Callee{pkgTorch, "", "NewClient"}) {
			n++
			c.touch(f)
			info := f.Info()
			ok := false
			for _, a := range s.Call.Args[1:] {
				if call, isC := ast.Unparen(a).(*ast.CallExpr); isC && matchCallee(info, call, Callee{pkgTorch, "", "WithCutEntry"}) && len(call.Args) == 1 {
					if fn, isF := info.Uses[identOf(call.Args[0])].(*types.Func); isF && fn.Name() == "cutEntry" && fn.Pkg().Path() == pkgRoot {
						ok = true
					}
				}
			}
			inst := fmt.Sprintf("%s NewClient at %s", f.Name, s.Pos())
			if ok {
				c.OK(inst, "WithCutEntry(cutEntry)", []string{s.Pos()})
			} else {
				c.Bad(inst, s.Pos(), "a torchwood client is created without sunlight's cutEntry: entries would not be hashed as RFC 6962 leaves")
			}
		}
	}
	if n == 0 {
		c.Unk("NewClient sites", "no torchwood.NewClient call found")
	}
}

func c12f(c *Ctx) {
	// yields in Entries/AllEntries; returns in Entry
	helper := entryParserHelper(c.P)
	// the helper (if any) returns exactly what the tile-leaf reader produced from its byte parameter
	helperBytes := -1 // index of the helper's []byte parameter among the call arguments
	if helper != nil {
		c.touch(helper)
		hinfo := helper.Info()
		okH := true
		var bytesParam types.Object
		for _, r := range successReturns(helper) {
			o := objOf(hinfo, r.X.(*ast.ReturnStmt).Results[0])
			nd := 0
			for _, d := range helper.Defs(o) {
				if d.Kind == DefZero {
					continue
				}
				nd++
				call, ok := ast.Unparen(d.Rhs).(*ast.CallExpr)
				if d.Kind != DefAssign || !ok || d.Idx != 0 {
					okH = false
					continue
				}
				// read(e) where read is ReadTileLeaf / ReadTileLeafMaybeArchival directly or a local function value bound only to them
				isReader := matchCallee(hinfo, call, Callee{pkgRoot, "", "ReadTileLeaf"}, Callee{pkgRoot, "", "ReadTileLeafMaybeArchival"})
				if !isReader {
					if fo := objOf(hinfo, call.Fun); fo != nil && isLocal(fo) {
						isReader = len(helper.Defs(fo)) > 0
						for _, fd := range helper.Defs(fo) {
							if fn, ok := objOf(hinfo, fd.Rhs).(*types.Func); !ok || fd.Kind != DefAssign || fn.Pkg() == nil || fn.Pkg().Path() != pkgRoot || (fn.Name() != "ReadTileLeaf" && fn.Name() != "ReadTileLeafMaybeArchival") {
								isReader = false
							}
						}
					}
				}
				if !isReader || len(call.Args) != 1 {
					okH = false
					continue
				}
				bp := objOf(hinfo, call.Args[0])
				if bp == nil || !isParamOrRecv(helper, bp) || (bytesParam != nil && bytesParam != bp) {
					okH = false
					continue
				}
				bytesParam = bp
			}
			if nd == 0 {
				okH = false
			}
		}
		if okH && bytesParam != nil {
			i := 0
			for _, fl := range helper.Type.Params.List {
				for _, nm := range fl.Names {
					if hinfo.Defs[nm] == bytesParam {
						helperBytes = i
					}
					i++
				}
			}
		}
		if helperBytes < 0 {
			c.Bad(helper.Name+" returns the parsed entry", helper.Pos(helper.Decl), "the parsing helper can return an entry that is not the tile-leaf reader's result for its byte parameter")
		} else {
			c.OK(helper.Name+" returns the parsed entry", "every successful return is ReadTileLeaf*(its byte parameter)", []string{helper.Pos(helper.Decl)})
		}
	}
	check := func(f *Func, sinkEntry ast.Expr, pos string, inst string, sources []Callee) {
		info := f.Info()
		o := objOf(info, sinkEntry)
		if o == nil {
			c.Bad(inst, pos, "the entry yielded is not a variable filled by the tile-leaf reader")
			return
		}
		n := 0
		for _, d := range f.Defs(o) {
			if d.Kind == DefZero {
				continue
			}
			n++
			call, ok := ast.Unparen(d.Rhs).(*ast.CallExpr)
			viaHelper := false
			if ok && helper != nil && helperBytes >= 0 {
				if fn, isF := calleeObj(info, call).(*types.Func); isF && fn.Origin() == helper.Obj && helperBytes < len(call.Args) {
					viaHelper = true
				}
			}
			isReaderVar := func(call *ast.CallExpr) bool {
				fo := objOf(info, call.Fun)
				if fo == nil || !isLocal(fo) || len(f.Defs(fo)) == 0 {
					return false
				}
				for _, fd := range f.Defs(fo) {
					if fn, isFn := objOf(info, fd.Rhs).(*types.Func); !isFn || fd.Kind != DefAssign || fn.Pkg() == nil || fn.Pkg().Path() != pkgRoot || (fn.Name() != "ReadTileLeaf" && fn.Name() != "ReadTileLeafMaybeArchival") {
						return false
					}
				}
				return true
			}
			// the yielded variable may be a plain copy of the parsed one
			if d.Kind == DefAssign && d.Idx < 0 && !ok {
				if src := objOf(info, f.copyRoot(d.Rhs)); src != nil && src != o && isLocal(src) {
					if sd := f.Defs(src); len(sd) == 1 {
						d = sd[0]
						call, ok = ast.Unparen(d.Rhs).(*ast.CallExpr)
					}
				}
			}
			viaVar := ok && isReaderVar(call)
			if d.Kind != DefAssign || !ok || d.Idx != 0 || !(viaHelper || viaVar || matchCallee(info, call, Callee{pkgRoot, "", "ReadTileLeaf"}, Callee{pkgRoot, "", "ReadTileLeafMaybeArchival"})) {
				c.Bad(inst, f.Pos(d.Node), "the entry yielded can come from something other than the tile-leaf reader")
				return
			}
			// the bytes parsed come from the torchwood client
			bytesArg := call.Args[0]
			if viaHelper {
				bytesArg = call.Args[helperBytes]
			}
			src := objOf(info, bytesArg)
			okSrc := false
			for _, sd := range f.Defs(src) {
				switch sd.Kind {
				case DefRange:
					if rc, isC := ast.Unparen(sd.Rhs).(*ast.CallExpr); isC && matchCallee(info, rc, sources...) && sd.Idx == 1 {
						okSrc = true
					}
				case DefAssign:
					if rc, isC := ast.Unparen(sd.Rhs).(*ast.CallExpr); isC && matchCallee(info, rc, sources...) && sd.Idx == 0 {
						okSrc = true
					}
				}
			}
			if !okSrc {
				c.Bad(inst, f.Pos(d.Node), "the bytes parsed are not the ones authenticated by the torchwood client")
				return
			}
		}
		if n == 0 {
			c.Bad(inst, pos, "the entry yielded is never assigned")
			return
		}
		c.add(Result{Instance: inst, Verdict: Discharged, Evals: n, Sites: []string{pos}, Detail: fmt.Sprintf("%d definition(s), all ReadTileLeaf*(bytes from the verifying client)", n)})
	}
	for _, name := range []string{"Entries", "AllEntries"} {
		top := c.Fn("sunlight.(*Client)." + name)
		if top == nil {
			continue
		}
		for _, l := range top.Lits {
			yp := l.soleFuncParam()
			for _, s := range l.Find(func(n ast.Node) bool {
				call, ok := n.(*ast.CallExpr)
				return ok && yp != nil && objOf(l.Info(), call.Fun) == yp
			}) {
				c.touch(l)
				check(l, s.Call.Args[1], s.Pos(), "sunlight.(*Client)."+name+" yield", []Callee{{pkgTorch, "Client", name}})
				// the index yielded is the client's index
				io := objOf(l.Info(), s.Call.Args[0])
				okIdx := false
				for _, d := range l.Defs(io) {
					if d.Kind == DefRange && d.Idx == 0 {
						okIdx = true
					}
				}
				if !okIdx {
					c.Bad("sunlight.(*Client)."+name+" yield index", s.Pos(), "the index yielded is not the authenticated position")
				}
			}
		}
		// the tree and start handed to torchwood are the caller's
		for _, l := range top.Lits {
			for _, s := range l.Calls(Callee{pkgTorch, "Client", name}) {
				if len(s.Call.Args) != 3 || !l.IsParam(s.Call.Args[1], "tree") || !l.IsParam(s.Call.Args[2], "start") {
					c.Bad("sunlight.(*Client)."+name+" operands", s.Pos(), "the verifying client is not driven with the caller's tree and start")
				}
			}
		}
	}
	if e := c.Fn("sunlight.(*Client).Entry"); e != nil {
		for _, r := range successReturns(e) {
			check(e, r.X.(*ast.ReturnStmt).Results[0], r.Pos(), e.Name+" return", []Callee{{pkgTorch, "Client", "Entry"}})
		}
		for _, s := range e.Calls(Callee{pkgTorch, "Client", "Entry"}) {
			if len(s.Call.Args) != 3 || !e.IsParam(s.Call.Args[1], "tree") || !e.IsParam(s.Call.Args[2], "index") {
				c.Bad(e.Name+" operands", s.Pos(), "the verifying client is not asked for the caller's index in the caller's tree")
			}
		}
	}
	if ci := c.Fn("sunlight.(*Client).CheckInclusion"); ci != nil {
		for _, r := range successReturns(ci) {
			o := objOf(ci.Info(), r.X.(*ast.ReturnStmt).Results[0])
			ok := false
			for _, d := range ci.Defs(o) {
				if d.Kind == DefAssign && d.Idx == 0 {
					if call, isC := ast.Unparen(d.Rhs).(*ast.CallExpr); isC && matchCallee(ci.Info(), call, Callee{pkgRoot, "Client", "Entry"}) {
						ok = true
					}
				}
			}
			if ok {
				c.OK(ci.Name+" return", "entry comes from Client.Entry", []string{r.Pos()})
			} else {
				c.Bad(ci.Name+" return", r.Pos(), "the entry returned does not come from the authenticated single-entry fetch")
			}
		}
	}
}

// entryParserHelper: the one same-package function that Entries / AllEntries /
// Entry delegate the tile-leaf parsing to (nil when they parse inline or when
// the delegation is not unique). It takes the authenticated bytes and returns
// (*LogEntry, error).
func entryParserHelper(p *Program) *Func {
	var roots []*Func
	for _, name := range []string{"sunlight.(*Client).Entries", "sunlight.(*Client).AllEntries"} {
		if top := p.Fn(name); top != nil {
			roots = append(roots, allLits(top)...)
		}
	}
	if e := p.Fn("sunlight.(*Client).Entry"); e != nil {
		roots = append(roots, e)
	}
	var out *Func
	for _, f := range roots {
		info := f.Info()
		for _, s := range f.Find(func(n ast.Node) bool { _, ok := n.(*ast.CallExpr); return ok }) {
			fn, ok := calleeObj(info, s.X.(*ast.CallExpr)).(*types.Func)
			if !ok || fn.Pkg() == nil || fn.Pkg().Path() != pkgRoot {
				continue
			}
			h := p.FuncOf(fn.Origin())
			if h == nil || h.Body == nil || h.Decl == nil {
				continue
			}
			if !usesReader(h) {
				continue
			}
			if fn.Name() == "ReadTileLeaf" || fn.Name() == "ReadTileLeafMaybeArchival" || fn.Name() == "Entry" || fn.Name() == "cutEntry" {
				continue
			}
			sig := fn.Type().(*types.Signature)
			if sig.Results().Len() != 2 || !isErrorType(sig.Results().At(1).Type()) {
				continue
			}
			if out != nil && out != h {
				return nil
			}
			out = h
		}
	}
	return out
}

// c12i: nothing rewrites a Merkle-covered field of an entry after it was parsed
// from authenticated bytes: in package sunlight's client code, the only stores to
// fields of *LogEntry are inside the tile-leaf readers themselves.
func c12i(c *Ctx) {
	covered := []string{"Certificate", "IsPrecert", "IssuerKeyHash", "Timestamp", "LeafIndex", "PreCertificate", "RFC6962ArchivalLeaf", "ChainFingerprints"}
	readers := map[string]bool{"sunlight.readTileLeaf": true, "sunlight.ReadTileLeaf": true, "sunlight.ReadTileLeafMaybeArchival": true}
	n := 0
	var bad []string
	for _, fld := range covered {
		fv := c.P.fieldVar(pkgRoot, "LogEntry", fld)
		if fv == nil {
			continue
		}
		for _, st := range c.P.AllStoresTo(fv) {
			if st.F.Pkg.PkgPath != pkgRoot {
				continue
			}
			top := st.F.Top()
			if readers[top.Name] {
				n++
				continue
			}
			// an entry under construction from a composite literal in the same function is not an authenticated one
			if ix, ok := ast.Unparen(st.Lhs).(*ast.SelectorExpr); ok && st.F.freshLocal(ix.X) {
				n++
				continue
			}
			c.touch(st.F)
			bad = append(bad, fmt.Sprintf("%s is assigned in %s at %s", "LogEntry."+fld, st.F.Name, st.Pos()))
		}
	}
	inst := "LogEntry fields written only by the tile-leaf reader"
	if len(bad) > 0 {
		c.Bad(inst, strings.SplitN(bad[0], " at ", 2)[1], "a Merkle-covered field of a parsed entry is overwritten outside the tile-leaf reader ("+strings.Join(bad, "; ")+"): what the client yields is no longer what the tree head commits to, and checks made on the entry afterwards (leaf index, SCT fields) compare against the rewritten value")
		return
	}
	if n == 0 {
		c.Unk(inst, "no store to a LogEntry field found in the reader (anchor lost)")
		return
	}
	c.add(Result{Instance: inst, Verdict: Discharged, Evals: n, Detail: fmt.Sprintf("%d stores, all inside readTileLeaf / ReadTileLeaf*", n)})
}

// c12bIndexCheck: Entry succeeds only when a non-archival leaf carries the
// requested index (entObj: the variable holding the parsed entry).
func c12bIndexCheck(c *Ctx, f *Func, entObj types.Object, sinks []Site) {
	info := f.Info()
	g := f.Graph()
	t := struct {
		name  string
		sinks []Site
	}{"sunlight.(*Client).Entry", sinks}
	if entObj == nil {
		c.Unk(t.name+" index equality", "the variable holding the parsed entry was not identified")
		return
	}
	{
		idxP := f.paramObj("index")
		sameEnt := func(r types.Object) bool {
			if r == entObj {
				return true
			}
			// a plain copy of the parsed entry (entry := parsed)
			if r == nil || !isLocal(r) {
				return false
			}
			ds := f.Defs(r)
			return len(ds) == 1 && ds[0].Kind == DefAssign && ds[0].Idx < 0 && objOf(info, f.copyRoot(ds[0].Rhs)) == entObj
		}
		isLI := func(e ast.Expr) bool {
			r, p, ok := fieldPath(info, e)
			return ok && sameEnt(r) && len(p) == 1 && p[0] == "LeafIndex"
		}
		isIdx := func(e ast.Expr) bool { return objOf(info, e) == idxP }
		isArch := func(e ast.Expr) bool {
			r, p, ok := fieldPath(info, e)
			return ok && sameEnt(r) && len(p) == 1 && p[0] == "RFC6962ArchivalLeaf"
		}
		safe := g.EdgesImplying(func(a Atom) bool {
			if rel, ok := cmpRel(a, isLI, isIdx); ok && rel == relEQ {
				return true
			}
			return isArch(a.E) && a.Val // archival leaves have no index to compare
		})
		// the false edge of `!archival && LeafIndex != index` implies neither atom; accept the
		// compound: cut edges on which the compound guard is false
		compound := g.EdgesImplying(func(a Atom) bool {
			if a.Val {
				return false
			}
			// the false edge of a conjunction made ONLY of `!archival` and `LeafIndex != index`
			var conj []ast.Expr
			var flat func(e ast.Expr)
			flat = func(e ast.Expr) {
				if be, ok := ast.Unparen(e).(*ast.BinaryExpr); ok && be.Op == token.LAND {
					flat(be.X)
					flat(be.Y)
					return
				}
				conj = append(conj, ast.Unparen(e))
			}
			flat(a.E)
			if len(conj) < 2 {
				return false
			}
			hasNE := false
			for _, e := range conj {
				if rel, ok := cmpRel(Atom{e, true}, isLI, isIdx); ok && rel == relLT|relGT {
					hasNE = true
					continue
				}
				if u, ok := e.(*ast.UnaryExpr); ok && u.Op == token.NOT && isArch(u.X) {
					continue
				}
				return false
			}
			return hasNE
		})
		inst := t.name + " index equality"
		all := unionEdges(safe, compound)
		if len(all) == 0 {
			c.Bad(inst, t.sinks[0].Pos(), "Entry does not check that the authenticated leaf carries the requested index")
		} else if pt, _ := g.ReachableFromEntry(Cut{Edges: all}, atAnySite(t.sinks)); pt != nil {
			c.Bad(inst, t.sinks[0].Pos(), "Entry can succeed although the leaf's index differs from the requested one")
		} else {
			c.add(Result{Instance: inst, Verdict: Discharged, Sites: sitePositions(t.sinks), Detail: "success unreachable when a non-archival leaf's LeafIndex != index", Witnesses: f.WitEdges(all)})
		}
	}
}

// usesReader: f calls or references ReadTileLeaf / ReadTileLeafMaybeArchival.
func usesReader(f *Func) bool {
	info := f.Info()
	found := false
	ast.Inspect(f.Body, func(n ast.Node) bool {
		if id, ok := n.(*ast.Ident); ok {
			if fn, ok := info.Uses[id].(*types.Func); ok && fn.Pkg() != nil && fn.Pkg().Path() == pkgRoot && (fn.Name() == "ReadTileLeaf" || fn.Name() == "ReadTileLeafMaybeArchival") {
				found = true
			}
		}
		return true
	})
	return found
}

// readerVar: a local function variable of f all of whose definitions are one of
// the two tile-leaf readers; returns the sites calling it, and the definition
// sites that bind the archival / the strict reader.
func readerVar(f *Func) (calls, archDefs, strictDefs []Site) {
	info := f.Info()
	for _, s := range f.Find(func(n ast.Node) bool { _, ok := n.(*ast.CallExpr); return ok }) {
		call := s.X.(*ast.CallExpr)
		fo := objOf(info, call.Fun)
		if fo == nil || !isLocal(fo) || len(f.Defs(fo)) == 0 {
			continue
		}
		var a, st []Site
		ok := true
		for _, d := range f.Defs(fo) {
			fn, isF := objOf(info, d.Rhs).(*types.Func)
			if d.Kind != DefAssign || !isF || fn.Pkg() == nil || fn.Pkg().Path() != pkgRoot {
				ok = false
				break
			}
			ds := f.Find(func(n ast.Node) bool { return n == d.Node })
			if len(ds) != 1 {
				ok = false
				break
			}
			switch fn.Name() {
			case "ReadTileLeafMaybeArchival":
				a = append(a, ds[0])
			case "ReadTileLeaf":
				st = append(st, ds[0])
			default:
				ok = false
			}
		}
		if ok {
			s.Call = call
			calls = append(calls, s)
			archDefs, strictDefs = a, st
		}
	}
	return
}
