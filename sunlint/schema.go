package main

// T5a: extraction of the wire schema written through a cryptobyte.Builder and
// read through a cryptobyte.String, as path-wise token sequences keyed by the
// discriminating conditions. It is an abstract interpretation of the AST over
// the domain "sequence of wire tokens"; no value is ever computed.

import (
	"fmt"
	"go/ast"
	"go/token"
	"go/types"
	"sort"
	"strings"
)

type Tok struct {
	Kind  string // "u" (fixed-width integer, N bytes), "fixed" (N raw bytes), "opaque" (rest of the enclosing string), "pfx" (N-byte length prefix + Kids), "rep" (zero or more Kids), "end" (reader: enclosing string must be exhausted)
	N     int
	Const *int64
	Label string
	Kids  []Tok
	sub   types.Object // reader: the cryptobyte.String object filled by a pfx read
	Pos   token.Pos
}

func (t Tok) String() string {
	switch t.Kind {
	case "u":
		s := fmt.Sprintf("u%d", t.N*8)
		if t.Const != nil {
			s += fmt.Sprintf("=%d", *t.Const)
		}
		return s
	case "fixed":
		return fmt.Sprintf("fixed%d", t.N)
	case "opaque":
		return "opaque"
	case "pfx":
		return fmt.Sprintf("u%d[%s]", t.N*8, toksString(t.Kids))
	case "rep":
		return "rep{" + toksString(t.Kids) + "}"
	case "end":
		return "$"
	}
	return "?"
}

func toksString(ts []Tok) string {
	var s []string
	for _, t := range ts {
		s = append(s, t.String())
	}
	return strings.Join(s, " ")
}

type SchemaPath struct {
	Conds []string
	Toks  []Tok
	Dead  bool // path ends in an error exit
}

type Schema []SchemaPath

func (s Schema) String() string {
	var out []string
	for _, p := range s {
		if p.Dead {
			continue
		}
		var conds []string
		for _, c := range p.Conds {
			if !strings.HasPrefix(c, "#") {
				conds = append(conds, c)
			}
		}
		sort.Strings(conds)
		out = append(out, "["+strings.Join(conds, ",")+"] "+toksString(p.Toks))
	}
	sort.Strings(out) // canonical: independent of the order in which branches are written
	return strings.Join(out, " | ")
}

var uintWidth = map[string]int{"Uint8": 1, "Uint16": 2, "Uint24": 3, "Uint32": 4, "Uint48": 6, "Uint64": 8}

func isCryptobyteType(t types.Type, name string) bool {
	if p, ok := t.(*types.Pointer); ok {
		t = p.Elem()
	}
	n, ok := t.(*types.Named)
	return ok && n.Obj().Name() == name && n.Obj().Pkg() != nil && n.Obj().Pkg().Path() == pkgCrypto
}

// ---------------------------------------------------------------------------
// writer

type wctx struct {
	f     *Func
	depth int
	err   error
}

// builderSchema extracts the schema written by f through its
// *cryptobyte.Builder (a local variable or, when bparam != nil, that parameter).
func builderSchema(f *Func, bparam types.Object) (Schema, error) {
	w := &wctx{f: f}
	paths := []SchemaPath{{}}
	paths = w.stmts(f.Body.List, bparam, paths)
	if w.err != nil {
		return nil, w.err
	}
	return paths, nil
}

func fork(paths []SchemaPath, fn func(p SchemaPath) []SchemaPath) []SchemaPath {
	var out []SchemaPath
	for _, p := range paths {
		if p.Dead {
			out = append(out, p)
			continue
		}
		out = append(out, fn(p)...)
	}
	return out
}

func appendTok(paths []SchemaPath, t Tok) []SchemaPath {
	return fork(paths, func(p SchemaPath) []SchemaPath {
		q := SchemaPath{Conds: p.Conds, Toks: append(append([]Tok{}, p.Toks...), t)}
		return []SchemaPath{q}
	})
}

// condKey renders a boolean discriminator condition as "Name=true/false".
// condKeyIn is condKey with the discriminator's name made independent of a
// parameter's current spelling: a bool parameter is named as on the tree the
// rules were written against (paramtable.go).
func condKeyIn(f *Func, e ast.Expr) (key string, val bool, ok bool) {
	key, val, ok = condKey(f.Info(), e)
	if !ok {
		return
	}
	x := e
	for {
		x = ast.Unparen(x)
		if u, isU := x.(*ast.UnaryExpr); isU && u.Op == token.NOT {
			x = u.X
			continue
		}
		break
	}
	if id, isId := x.(*ast.Ident); isId && f.Obj != nil {
		o := f.Info().Uses[id]
		i := 0
		for _, fld := range f.Type.Params.List {
			for _, nm := range fld.Names {
				if f.Info().Defs[nm] == o {
					if names, has := frozenParams[f.Obj.FullName()]; has && i < len(names) {
						key = names[i]
					}
				}
				i++
			}
		}
	}
	return
}

func condKey(info *types.Info, e ast.Expr) (key string, val bool, ok bool) {
	val = true
	for {
		e = ast.Unparen(e)
		if u, isU := e.(*ast.UnaryExpr); isU && u.Op == token.NOT {
			val = !val
			e = u.X
			continue
		}
		break
	}
	switch x := e.(type) {
	case *ast.SelectorExpr:
		if tv, ok := info.Types[x]; ok && isBoolType(tv.Type) {
			return x.Sel.Name, val, true
		}
	case *ast.Ident:
		if tv, ok := info.Types[x]; ok && isBoolType(tv.Type) {
			return x.Name, val, true
		}
	}
	return "", false, false
}

func terminates(list []ast.Stmt) bool {
	if len(list) == 0 {
		return false
	}
	switch s := list[len(list)-1].(type) {
	case *ast.ReturnStmt:
		return true
	case *ast.BranchStmt:
		return s.Tok == token.BREAK || s.Tok == token.CONTINUE
	case *ast.ExprStmt:
		if c, ok := s.X.(*ast.CallExpr); ok {
			if id, ok := c.Fun.(*ast.Ident); ok && id.Name == "panic" {
				return true
			}
		}
	}
	return false
}

func (w *wctx) stmts(list []ast.Stmt, b types.Object, paths []SchemaPath) []SchemaPath {
	info := w.f.Info()
	for _, st := range list {
		switch s := st.(type) {
		case *ast.ExprStmt:
			if call, ok := s.X.(*ast.CallExpr); ok {
				paths = w.call(call, b, paths)
			}
		case *ast.AssignStmt, *ast.DeclStmt:
			// builder creation: b := &cryptobyte.Builder{} / cryptobyte.NewBuilder(t) / var b cryptobyte.Builder
			if b == nil {
				if o := builderDecl(info, st); o != nil {
					b = o
				}
			}
		case *ast.IfStmt:
			if s.Init != nil {
				paths = w.stmts([]ast.Stmt{s.Init}, b, paths)
			}
			key, val, ok := condKeyIn(w.f, s.Cond)
			var elseList []ast.Stmt
			switch e := s.Else.(type) {
			case *ast.BlockStmt:
				elseList = e.List
			case *ast.IfStmt:
				elseList = []ast.Stmt{e}
			}
			if ok {
				paths = fork(paths, func(p SchemaPath) []SchemaPath {
					// respect conditions already decided on this path
					for _, c := range p.Conds {
						if c == fmt.Sprintf("%s=%v", key, val) {
							return w.stmts(s.Body.List, b, []SchemaPath{p})
						}
						if c == fmt.Sprintf("%s=%v", key, !val) {
							return w.stmts(elseList, b, []SchemaPath{p})
						}
					}
					pt := SchemaPath{Conds: append(append([]string{}, p.Conds...), fmt.Sprintf("%s=%v", key, val)), Toks: p.Toks}
					pe := SchemaPath{Conds: append(append([]string{}, p.Conds...), fmt.Sprintf("%s=%v", key, !val)), Toks: p.Toks}
					out := w.stmts(s.Body.List, b, []SchemaPath{pt})
					if terminates(s.Body.List) {
						for i := range out {
							out[i].Dead = out[i].Dead || isErrorExit(info, s.Body.List)
						}
					}
					return append(out, w.stmts(elseList, b, []SchemaPath{pe})...)
				})
				// paths whose then-branch returned normally (e.g. addExtensions' early return) stop here
				if terminates(s.Body.List) && !isErrorExit(info, s.Body.List) {
					// mark them finished: subsequent statements do not apply
					for i := range paths {
						for _, c := range paths[i].Conds {
							if c == fmt.Sprintf("%s=%v", key, val) {
								paths[i].Conds = append(paths[i].Conds, "#returned")
							}
						}
					}
				}
			} else if terminates(s.Body.List) {
				// a guard: failing it aborts (range checks): not part of the wire schema
				continue
			} else {
				w.err = fmt.Errorf("unrecognised branch at %s", w.f.Pos(s))
			}
		case *ast.RangeStmt:
			sub := w.stmts(s.Body.List, b, []SchemaPath{{}})
			if len(sub) == 1 {
				paths = appendTokLive(paths, Tok{Kind: "rep", Kids: sub[0].Toks, Pos: s.Pos()})
			} else {
				w.err = fmt.Errorf("branching loop body at %s", w.f.Pos(s))
			}
		case *ast.ReturnStmt:
			// end of the function
		}
	}
	return paths
}

// appendTokLive appends to paths that have not returned.
func appendTokLive(paths []SchemaPath, t Tok) []SchemaPath {
	return fork(paths, func(p SchemaPath) []SchemaPath {
		for _, c := range p.Conds {
			if c == "#returned" {
				return []SchemaPath{p}
			}
		}
		q := SchemaPath{Conds: p.Conds, Toks: append(append([]Tok{}, p.Toks...), t)}
		return []SchemaPath{q}
	})
}

func isErrorExit(info *types.Info, list []ast.Stmt) bool {
	for _, st := range list {
		if es, ok := st.(*ast.ExprStmt); ok {
			if c, ok := es.X.(*ast.CallExpr); ok {
				if sel, ok := c.Fun.(*ast.SelectorExpr); ok && sel.Sel.Name == "SetError" {
					return true
				}
			}
		}
		if r, ok := st.(*ast.ReturnStmt); ok {
			for _, e := range r.Results {
				if b, ok := constBool(info, e); ok && !b && len(r.Results) == 1 {
					return true // bool-returning helper: false = failure
				}
				if tv, ok := info.Types[e]; ok && isErrorType(tv.Type) && !tv.IsNil() {
					return true
				}
				if c, ok := e.(*ast.CallExpr); ok {
					if tv, ok := info.Types[c]; ok && isErrorType(tv.Type) {
						return true
					}
				}
			}
		}
	}
	return false
}

func builderDecl(info *types.Info, st ast.Stmt) types.Object {
	var out types.Object
	ast.Inspect(st, func(n ast.Node) bool {
		switch x := n.(type) {
		case *ast.AssignStmt:
			for _, l := range x.Lhs {
				if o := objOf(info, l); o != nil && isCryptobyteType(o.Type(), "Builder") {
					out = o
				}
			}
		case *ast.ValueSpec:
			for _, nm := range x.Names {
				if o := info.Defs[nm]; o != nil && isCryptobyteType(o.Type(), "Builder") {
					out = o
				}
			}
		}
		return true
	})
	return out
}

// labelOf names the value written (last selector / identifier).
func labelOf(e ast.Expr) string {
	for {
		e = ast.Unparen(e)
		switch x := e.(type) {
		case *ast.SliceExpr:
			e = x.X
			continue
		case *ast.CallExpr:
			if len(x.Args) == 1 {
				e = x.Args[0]
				continue
			}
		case *ast.SelectorExpr:
			return x.Sel.Name
		case *ast.Ident:
			return x.Name
		}
		return ""
	}
}

func (w *wctx) call(call *ast.CallExpr, b types.Object, paths []SchemaPath) []SchemaPath {
	info := w.f.Info()
	// method on the builder
	if sel, ok := ast.Unparen(call.Fun).(*ast.SelectorExpr); ok && b != nil && objOf(info, sel.X) == b {
		name := sel.Sel.Name
		switch {
		case strings.HasPrefix(name, "AddUint") && strings.HasSuffix(name, "LengthPrefixed"):
			n := uintWidth[strings.TrimSuffix(strings.TrimPrefix(name, "Add"), "LengthPrefixed")]
			lit, ok := ast.Unparen(call.Args[0]).(*ast.FuncLit)
			if !ok || n == 0 {
				w.err = fmt.Errorf("unrecognised length-prefixed writer at %s", w.f.Pos(call))
				return paths
			}
			var inner types.Object
			if len(lit.Type.Params.List) == 1 && len(lit.Type.Params.List[0].Names) == 1 {
				inner = info.Defs[lit.Type.Params.List[0].Names[0]]
			}
			sub := w.stmts(lit.Body.List, inner, []SchemaPath{{}})
			var live []SchemaPath
			for _, s := range sub {
				if !s.Dead {
					live = append(live, s)
				}
			}
			if len(live) != 1 {
				w.err = fmt.Errorf("length-prefixed block with %d live paths at %s", len(live), w.f.Pos(call))
				return paths
			}
			return appendTokLive(paths, Tok{Kind: "pfx", N: n, Kids: live[0].Toks, Pos: call.Pos()})
		case strings.HasPrefix(name, "AddUint"):
			n := uintWidth[strings.TrimPrefix(name, "Add")]
			if n == 0 || len(call.Args) != 1 {
				w.err = fmt.Errorf("unrecognised integer writer %s at %s", name, w.f.Pos(call))
				return paths
			}
			t := Tok{Kind: "u", N: n, Label: labelOf(call.Args[0]), Pos: call.Pos()}
			if v, ok := constInt(info, call.Args[0]); ok {
				t.Const = &v
			}
			return appendTokLive(paths, t)
		case name == "AddBytes":
			return w.addBytes(call, paths)
		case name == "SetError", name == "Bytes", name == "BytesOrPanic":
			return paths
		}
		w.err = fmt.Errorf("unrecognised builder method %s at %s", name, w.f.Pos(call))
		return paths
	}
	// helper taking the builder
	if b != nil {
		for i, a := range call.Args {
			if objOf(info, a) == b {
				fn, _ := calleeObj(info, call).(*types.Func)
				callee := w.f.Prog.FuncOf(fn)
				if callee == nil || w.depth > 3 {
					w.err = fmt.Errorf("cannot inline helper at %s", w.f.Pos(call))
					return paths
				}
				pobj := nthParam(callee, i)
				sub := &wctx{f: callee, depth: w.depth + 1}
				res := sub.stmts(callee.Body.List, pobj, []SchemaPath{{}})
				if sub.err != nil {
					w.err = sub.err
					return paths
				}
				return crossAppend(paths, res)
			}
		}
	}
	return paths
}

func nthParam(f *Func, i int) types.Object {
	k := 0
	for _, fl := range f.Type.Params.List {
		for _, nm := range fl.Names {
			if k == i {
				return f.Info().Defs[nm]
			}
			k++
		}
	}
	return nil
}

// crossAppend appends each live sub-path to each live path (conditions merged,
// contradictory combinations dropped).
func crossAppend(paths, sub []SchemaPath) []SchemaPath {
	return fork(paths, func(p SchemaPath) []SchemaPath {
		for _, c := range p.Conds {
			if c == "#returned" {
				return []SchemaPath{p}
			}
		}
		var out []SchemaPath
		for _, s := range sub {
			if s.Dead {
				continue
			}
			conds := append([]string{}, p.Conds...)
			contradict := false
			for _, c := range s.Conds {
				if c == "#returned" {
					continue
				}
				kv := strings.SplitN(c, "=", 2)
				dup := false
				for _, pc := range p.Conds {
					pkv := strings.SplitN(pc, "=", 2)
					if len(kv) == 2 && len(pkv) == 2 && kv[0] == pkv[0] {
						if kv[1] != pkv[1] {
							contradict = true
						}
						dup = true
					}
				}
				if !dup {
					conds = append(conds, c)
				}
			}
			if contradict {
				continue
			}
			out = append(out, SchemaPath{Conds: conds, Toks: append(append([]Tok{}, p.Toks...), s.Toks...)})
		}
		return out
	})
}

func (w *wctx) addBytes(call *ast.CallExpr, paths []SchemaPath) []SchemaPath {
	info := w.f.Info()
	arg := call.Args[0]
	// fixed-size: array sliced, or composite literal of known length
	x := ast.Unparen(arg)
	if sl, ok := x.(*ast.SliceExpr); ok && sl.Low == nil && sl.High == nil {
		if tv, ok := info.Types[sl.X]; ok {
			if arr, ok := tv.Type.Underlying().(*types.Array); ok {
				return appendTokLive(paths, Tok{Kind: "fixed", N: int(arr.Len()), Label: labelOf(sl.X), Pos: call.Pos()})
			}
		}
	}
	if cl, ok := x.(*ast.CompositeLit); ok {
		return appendTokLive(paths, Tok{Kind: "fixed", N: len(cl.Elts), Label: "literal", Pos: call.Pos()})
	}
	// bytes produced by another builder function of the module: inline
	v := w.f.ResolveDeep(arg)
	if c2, ok := ast.Unparen(v.E).(*ast.CallExpr); ok {
		if fn, ok := calleeObj(info, c2).(*types.Func); ok {
			if callee := w.f.Prog.FuncOf(fn); callee != nil && w.depth <= 3 {
				sub := &wctx{f: callee, depth: w.depth + 1}
				res := sub.stmts(callee.Body.List, nil, []SchemaPath{{}})
				if sub.err == nil && hasLive(res) {
					return crossAppend(paths, res)
				}
			}
		}
	}
	return appendTokLive(paths, Tok{Kind: "opaque", Label: labelOf(arg), Pos: call.Pos()})
}

func hasLive(s []SchemaPath) bool {
	for _, p := range s {
		if !p.Dead && len(p.Toks) > 0 {
			return true
		}
	}
	return false
}

// entryPart selects from MerkleTreeLeaf's schema the entry-identifying part:
// the tokens from the entry_type u16 up to and including the certificate.
func entryPart(ms Schema) string {
	var out Schema
	seen := map[string]bool{}
	for _, p := range ms {
		if p.Dead {
			continue
		}
		start := -1
		for i, t := range p.Toks {
			if t.Kind == "u" && t.N == 2 && t.Const != nil {
				start = i
				break
			}
		}
		if start < 0 {
			continue
		}
		end := start
		for i := start; i < len(p.Toks); i++ {
			if p.Toks[i].Kind == "pfx" && p.Toks[i].N == 3 {
				end = i
				break
			}
		}
		var conds []string
		for _, c := range p.Conds {
			if strings.HasPrefix(c, "IsPrecert=") {
				conds = append(conds, c)
			}
		}
		q := SchemaPath{Conds: conds, Toks: p.Toks[start : end+1]}
		k := Schema{q}.String()
		if !seen[k] {
			seen[k] = true
			out = append(out, q)
		}
	}
	return out.String()
}

// ---------------------------------------------------------------------------
// reader

type rctx struct {
	f     *Func
	depth int
	err   error
	// tokens read so far from each cryptobyte.String object, per path
}

type rpath struct {
	conds []string
	toks  map[types.Object][]Tok // per String object
	order []types.Object
	vars  map[types.Object]struct {
		s types.Object
		i int
	} // variable read into -> token position
	dead bool
	ok   bool // reached a successful return
}

func (p *rpath) clone() *rpath {
	q := &rpath{conds: append([]string{}, p.conds...), toks: map[types.Object][]Tok{}, order: append([]types.Object{}, p.order...),
		vars: map[types.Object]struct {
			s types.Object
			i int
		}{}, dead: p.dead, ok: p.ok}
	for k, v := range p.toks {
		q.toks[k] = append([]Tok{}, v...)
	}
	for k, v := range p.vars {
		q.vars[k] = v
	}
	return q
}

func (p *rpath) add(s types.Object, t Tok) int {
	if _, ok := p.toks[s]; !ok {
		p.order = append(p.order, s)
	}
	p.toks[s] = append(p.toks[s], t)
	return len(p.toks[s]) - 1
}

// readerSchema extracts the schema read by f from the cryptobyte.String
// identified by root (a local variable converted from the input).
func readerSchema(f *Func, root types.Object) (Schema, error) {
	r := &rctx{f: f}
	start := &rpath{toks: map[types.Object][]Tok{}, vars: map[types.Object]struct {
		s types.Object
		i int
	}{}}
	paths := r.stmts(f.Body.List, []*rpath{start})
	if r.err != nil {
		return nil, r.err
	}
	var out Schema
	for _, p := range paths {
		if p.dead || !p.ok {
			continue
		}
		out = append(out, SchemaPath{Conds: p.conds, Toks: assemble(p, root)})
	}
	return out, nil
}

func assemble(p *rpath, s types.Object) []Tok {
	var out []Tok
	for _, t := range p.toks[s] {
		if t.Kind == "pfx" && t.sub != nil {
			t.Kids = assemble(p, t.sub)
		}
		out = append(out, t)
	}
	return out
}

func (r *rctx) forkR(paths []*rpath, fn func(p *rpath) []*rpath) []*rpath {
	var out []*rpath
	for _, p := range paths {
		if p.dead || p.ok {
			out = append(out, p)
			continue
		}
		out = append(out, fn(p)...)
	}
	return out
}

func (r *rctx) stmts(list []ast.Stmt, paths []*rpath) []*rpath {
	info := r.f.Info()
	for _, st := range list {
		switch s := st.(type) {
		case *ast.IfStmt:
			if s.Init != nil {
				paths = r.stmts([]ast.Stmt{s.Init}, paths)
			}
			var elseList []ast.Stmt
			switch e := s.Else.(type) {
			case *ast.BlockStmt:
				elseList = e.List
			case *ast.IfStmt:
				elseList = []ast.Stmt{e}
			}
			// `if x.Empty() {A} else {B}`: fork on emptiness of a substring
			condE, negE := ast.Unparen(s.Cond), false
			for {
				u, isNot := condE.(*ast.UnaryExpr)
				if !isNot || u.Op != token.NOT {
					break
				}
				condE, negE = ast.Unparen(u.X), !negE
			}
			if call, ok := condE.(*ast.CallExpr); ok && isStringMethod(info, call, "Empty") {
				so := stringRecv(info, call)
				thenList, otherList := s.Body.List, elseList
				if negE {
					thenList, otherList = elseList, s.Body.List
				}
				paths = r.forkR(paths, func(p *rpath) []*rpath {
					pe := p.clone()
					pe.conds = append(pe.conds, "empty("+so.Name()+")")
					pe.add(so, Tok{Kind: "end", Pos: call.Pos()})
					pn := p.clone()
					pn.conds = append(pn.conds, "nonempty("+so.Name()+")")
					return append(r.stmts(thenList, []*rpath{pe}), r.stmts(otherList, []*rpath{pn})...)
				})
				continue
			}
			// failing disjunction: if !read || !read || constraint { return err }
			if terminates(s.Body.List) && isErrorExit(info, s.Body.List) {
				paths = r.forkR(paths, func(p *rpath) []*rpath {
					q := p.clone()
					r.disjunction(s.Cond, q)
					return []*rpath{q}
				})
				if elseList != nil {
					paths = r.stmts(elseList, paths)
				}
				continue
			}
			// any other branch: interpret both arms; `x == c` on a value read
			// earlier fixes that field's constant on the then-arm
			paths = r.forkR(paths, func(p *rpath) []*rpath {
				a, b := p.clone(), p.clone()
				if be, ok := ast.Unparen(s.Cond).(*ast.BinaryExpr); ok && be.Op == token.EQL {
					if o := objOf(info, be.X); o != nil {
						if v, ok := constInt(info, be.Y); ok {
							if loc, ok := a.vars[o]; ok {
								vv := v
								a.toks[loc.s][loc.i].Const = &vv
							}
						}
					}
				}
				return append(r.stmts(s.Body.List, []*rpath{a}), r.stmts(elseList, []*rpath{b})...)
			})
		case *ast.SwitchStmt:
			if s.Tag == nil {
				r.err = fmt.Errorf("tagless switch in reader at %s", r.f.Pos(s))
				return paths
			}
			tagObj := objOf(info, s.Tag)
			paths = r.forkR(paths, func(p *rpath) []*rpath {
				var out []*rpath
				for _, cl := range s.Body.List {
					cc := cl.(*ast.CaseClause)
					if cc.List == nil {
						if terminates(cc.Body) && isErrorExit(info, cc.Body) {
							continue
						}
						q := p.clone()
						out = append(out, r.stmts(cc.Body, []*rpath{q})...)
						continue
					}
					for _, ce := range cc.List {
						q := p.clone()
						if v, ok := constInt(info, ce); ok {
							if loc, ok := q.vars[tagObj]; ok {
								vv := v
								q.toks[loc.s][loc.i].Const = &vv
							}
							q.conds = append(q.conds, fmt.Sprintf("%s=%d", exprString(s.Tag), v))
						}
						out = append(out, r.stmts(cc.Body, []*rpath{q})...)
					}
				}
				return out
			})
		case *ast.TypeSwitchStmt:
			paths = r.forkR(paths, func(p *rpath) []*rpath {
				var out []*rpath
				for _, cl := range s.Body.List {
					cc := cl.(*ast.CaseClause)
					q := p.clone()
					out = append(out, r.stmts(cc.Body, []*rpath{q})...)
				}
				return out
			})
		case *ast.ForStmt:
			// for !x.Empty() { ...reads on x... }
			if u, ok := ast.Unparen(s.Cond).(*ast.UnaryExpr); ok && u.Op == token.NOT {
				if call, ok := ast.Unparen(u.X).(*ast.CallExpr); ok && isStringMethod(info, call, "Empty") {
					so := stringRecv(info, call)
					body := &rpath{toks: map[types.Object][]Tok{}, vars: map[types.Object]struct {
						s types.Object
						i int
					}{}}
					res := r.stmts(s.Body.List, []*rpath{body})
					var live []*rpath
					for _, q := range res {
						if !q.dead {
							live = append(live, q)
						}
					}
					if len(live) == 0 {
						r.err = fmt.Errorf("loop body without live path at %s", r.f.Pos(s))
						return paths
					}
					// paths that return from inside the loop (ParseExtensions) are successful exits
					var kids []Tok
					for _, q := range live {
						if !q.ok {
							kids = q.toks[so]
						}
					}
					paths = r.forkR(paths, func(p *rpath) []*rpath {
						var out []*rpath
						q := p.clone()
						q.add(so, Tok{Kind: "rep", Kids: kids, Pos: s.Pos()})
						q.add(so, Tok{Kind: "end", Pos: s.Pos()})
						out = append(out, q)
						for _, lv := range live {
							if lv.ok {
								e := p.clone()
								e.conds = append(append(e.conds, "#inloop"), lv.conds...)
								e.add(so, Tok{Kind: "rep", Kids: kids, Pos: s.Pos()})
								for _, t := range lv.toks[so] {
									e.add(so, t)
								}
								for _, o := range lv.order {
									if o != so {
										for _, t := range lv.toks[o] {
											e.add(o, t)
										}
									}
								}
								e.ok = true
								out = append(out, e)
							}
						}
						return out
					})
					continue
				}
			}
			r.err = fmt.Errorf("unrecognised loop in reader at %s", r.f.Pos(s))
			return paths
		case *ast.ReturnStmt:
			errExit := isErrorExit(info, []ast.Stmt{s})
			for _, p := range paths {
				if p.dead || p.ok {
					continue
				}
				if errExit {
					p.dead = true
				} else {
					p.ok = true
				}
			}
		case *ast.ExprStmt, *ast.AssignStmt, *ast.DeclStmt:
			// reads outside conditions are not used by this code base; a
			// bare call with a String argument is inlined
		}
	}
	return paths
}

func isStringMethod(info *types.Info, call *ast.CallExpr, name string) bool {
	fn, ok := calleeObj(info, call).(*types.Func)
	return ok && fn.Name() == name && fn.Pkg() != nil && fn.Pkg().Path() == pkgCrypto && recvName(fn) == "String"
}

func stringRecv(info *types.Info, call *ast.CallExpr) types.Object {
	sel, ok := ast.Unparen(call.Fun).(*ast.SelectorExpr)
	if !ok {
		return nil
	}
	return rootObj(info, sel.X)
}

// disjunction interprets `a || b || c` whose truth means failure: every
// operand is evaluated in order on the successful path with value false.
func (r *rctx) disjunction(e ast.Expr, p *rpath) {
	e = ast.Unparen(e)
	if be, ok := e.(*ast.BinaryExpr); ok && be.Op == token.LOR {
		r.disjunction(be.X, p)
		r.disjunction(be.Y, p)
		return
	}
	info := r.f.Info()
	// !call(...)
	if u, ok := e.(*ast.UnaryExpr); ok && u.Op == token.NOT {
		if call, ok := ast.Unparen(u.X).(*ast.CallExpr); ok {
			r.read(call, p)
			return
		}
	}
	// comparison constraint on a previously read variable: x != c fails => x == c
	if be, ok := e.(*ast.BinaryExpr); ok {
		if be.Op == token.NEQ {
			if o := objOf(info, be.X); o != nil {
				if v, ok := constInt(info, be.Y); ok {
					if loc, ok := p.vars[o]; ok {
						vv := v
						p.toks[loc.s][loc.i].Const = &vv
						return
					}
				}
			}
		}
		// range guards (timestamp > MaxInt64): not part of the wire shape
		return
	}
	if call, ok := e.(*ast.CallExpr); ok {
		// x.Empty() as a failure operand would mean "fail if empty": not used
		_ = call
	}
}

func (r *rctx) read(call *ast.CallExpr, p *rpath) {
	info := r.f.Info()
	fn, _ := calleeObj(info, call).(*types.Func)
	if fn != nil && fn.Pkg() != nil && fn.Pkg().Path() == pkgCrypto && recvName(fn) == "String" {
		so := stringRecv(info, call)
		name := fn.Name()
		switch {
		case name == "Empty":
			p.add(so, Tok{Kind: "end", Pos: call.Pos()})
		case strings.HasPrefix(name, "ReadUint") && strings.HasSuffix(name, "LengthPrefixed"):
			n := uintWidth[strings.TrimSuffix(strings.TrimPrefix(name, "Read"), "LengthPrefixed")]
			t := Tok{Kind: "pfx", N: n, Pos: call.Pos()}
			// target: &sub (String variable) or (*cryptobyte.String)(&field)
			tgt := ast.Unparen(call.Args[0])
			if u, ok := tgt.(*ast.UnaryExpr); ok && u.Op == token.AND {
				if o := objOf(info, u.X); o != nil && isCryptobyteType(o.Type(), "String") {
					t.sub = o
				}
			}
			if t.sub == nil {
				t.Kids = []Tok{{Kind: "opaque", Label: labelOf(stripConv(info, tgt))}}
				t.Label = labelOf(stripConv(info, tgt))
			}
			p.add(so, t)
		case strings.HasPrefix(name, "ReadUint"):
			n := uintWidth[strings.TrimPrefix(name, "Read")]
			i := p.add(so, Tok{Kind: "u", N: n, Pos: call.Pos()})
			if u, ok := ast.Unparen(call.Args[0]).(*ast.UnaryExpr); ok && u.Op == token.AND {
				if o := objOf(info, u.X); o != nil {
					p.vars[o] = struct {
						s types.Object
						i int
					}{so, i}
				}
			}
		case name == "CopyBytes":
			n := -1
			if sl, ok := ast.Unparen(call.Args[0]).(*ast.SliceExpr); ok {
				if tv, ok := info.Types[sl.X]; ok {
					if arr, ok := tv.Type.Underlying().(*types.Array); ok {
						n = int(arr.Len())
					}
				}
			}
			p.add(so, Tok{Kind: "fixed", N: n, Pos: call.Pos()})
		case name == "ReadBytes":
			n := -1
			if v, ok := constInt(info, call.Args[1]); ok {
				n = int(v)
			}
			p.add(so, Tok{Kind: "fixed", N: n, Pos: call.Pos()})
		case name == "Skip":
			n := -1
			if v, ok := constInt(info, call.Args[0]); ok {
				n = int(v)
			}
			p.add(so, Tok{Kind: "fixed", N: n, Pos: call.Pos()})
		default:
			r.err = fmt.Errorf("unrecognised reader method %s at %s", name, r.f.Pos(call))
		}
		return
	}
	// helper reading from a String passed by pointer: inline
	if fn != nil {
		if callee := r.f.Prog.FuncOf(fn); callee != nil && r.depth <= 3 {
			for i, a := range call.Args {
				u, ok := ast.Unparen(a).(*ast.UnaryExpr)
				if !ok || u.Op != token.AND {
					continue
				}
				o := objOf(info, u.X)
				if o == nil || !isCryptobyteType(o.Type(), "String") {
					continue
				}
				pobj := nthParam(callee, i)
				sub := &rctx{f: callee, depth: r.depth + 1}
				start := &rpath{toks: map[types.Object][]Tok{}, vars: map[types.Object]struct {
					s types.Object
					i int
				}{}}
				res := sub.stmts(callee.Body.List, []*rpath{start})
				if sub.err != nil {
					r.err = sub.err
					return
				}
				n := 0
				for _, q := range res {
					if q.dead || !q.ok {
						continue
					}
					n++
					for _, t := range q.toks[pobj] {
						p.add(o, t)
					}
				}
				if n != 1 {
					r.err = fmt.Errorf("helper %s has %d successful paths", callee.Name, n)
				}
				return
			}
		}
	}
	r.err = fmt.Errorf("unrecognised read operand at %s", r.f.Pos(call))
}

// ---------------------------------------------------------------------------
// comparison

// stripEnds removes reader-only end markers.
func stripEnds(ts []Tok) []Tok {
	var out []Tok
	for _, t := range ts {
		if t.Kind == "end" {
			continue
		}
		t.Kids = stripEnds(t.Kids)
		out = append(out, t)
	}
	return out
}

// wireEqual compares a writer sequence with a reader sequence.
func wireEqual(w, r []Tok) (bool, string) {
	r = stripEnds(r)
	if len(w) != len(r) {
		return false, fmt.Sprintf("writer emits %d fields (%s), reader consumes %d (%s)", len(w), toksString(w), len(r), toksString(r))
	}
	for i := range w {
		a, b := w[i], r[i]
		// an integer written as the constant 0 is an empty length-prefixed field of the same width
		if a.Kind == "u" && a.Const != nil && *a.Const == 0 && b.Kind == "pfx" && a.N == b.N && len(stripEnds(b.Kids)) == 0 {
			continue
		}
		if a.Kind != b.Kind || a.N != b.N {
			return false, fmt.Sprintf("field %d: writer %s, reader %s", i, a, b)
		}
		if a.Const != nil && b.Const != nil && *a.Const != *b.Const {
			return false, fmt.Sprintf("field %d: writer constant %d, reader expects %d", i, *a.Const, *b.Const)
		}
		if a.Kind == "pfx" || a.Kind == "rep" {
			if ok, why := wireEqual(a.Kids, b.Kids); !ok {
				return false, fmt.Sprintf("inside field %d (%s): %s", i, a, why)
			}
		}
	}
	return true, ""
}

// constsCompatible: the constants fixed by both sides agree position-wise at
// top level (used to pair writer and reader paths by discriminator).
func constsCompatible(w, r []Tok) bool {
	r = stripEnds(r)
	for i := 0; i < len(w) && i < len(r); i++ {
		if w[i].Kind == "u" && r[i].Kind == "u" && w[i].Const != nil && r[i].Const != nil && *w[i].Const != *r[i].Const {
			return false
		}
	}
	return true
}
