package main

// Obligations on the bodies of the small helpers that the ordering / value-flow
// rules of C01, C03 and C04 treat as opaque ("the head is hashTreeHead(n, overlay,
// ts)", "the staging key is stagingPath(tree)"): a rule that names a helper is
// only as strong as what the helper does.

import (
	"go/ast"
	"go/types"
	"strings"
)

// hHashTreeHead: hashTreeHead(n, r, t) returns {Tree{N: n, Hash: tlog.TreeHash(n, r)}, Time: t}
// on its only successful return, and that return lies on TreeHash's success edge.
func hHashTreeHead(c *Ctx) {
	f := c.Fn("ctlog.hashTreeHead")
	if f == nil {
		return
	}
	info := f.Info()
	pn, pr, pt := f.paramObj("n"), f.paramObj("r"), f.paramObj("t")
	th := f.Calls(Callee{pkgTlog, "", "TreeHash"})
	inst := f.Name + " result"
	if len(th) != 1 || pn == nil || pr == nil || pt == nil {
		c.Unk(inst, "expected one tlog.TreeHash call and the parameters (n, r, t)")
		return
	}
	if len(th[0].Call.Args) != 2 || objOf(info, th[0].Call.Args[0]) != pn || objOf(info, th[0].Call.Args[1]) != pr {
		c.Bad(inst, th[0].Pos(), "the root hash is not tlog.TreeHash(n, r) of the function's own size and hash reader")
		return
	}
	var problems []string
	nOK := 0
	for _, r := range f.Returns() {
		rs := r.X.(*ast.ReturnStmt)
		e := f.errResultExpr(rs)
		if e == nil || !f.mayBeNilError(e) {
			continue
		}
		nOK++
		cl, ok := ast.Unparen(f.Resolve(rs.Results[0]).E).(*ast.CompositeLit)
		if !ok {
			problems = append(problems, "successful return at "+r.Pos()+" is not a treeWithTimestamp literal")
			continue
		}
		tr := compositeField(info, cl, "Tree", 0)
		tm := compositeField(info, cl, "Time", 1)
		tcl, _ := ast.Unparen(f.Resolve(tr).E).(*ast.CompositeLit)
		if tcl == nil {
			problems = append(problems, "Tree is not a tlog.Tree literal")
			continue
		}
		if objOf(info, compositeField(info, tcl, "N", 0)) != pn {
			problems = append(problems, "Tree.N is not the size parameter")
		}
		if _, isTH := f.IsCallResult(compositeField(info, tcl, "Hash", 1), 0, Callee{pkgTlog, "", "TreeHash"}); !isTH {
			problems = append(problems, "Tree.Hash is not the tlog.TreeHash result")
		}
		if objOf(info, tm) != pt {
			problems = append(problems, "Time is not the time parameter")
		}
	}
	okE, _ := gateEdges(th, OutNil)
	if len(okE) == 0 {
		problems = append(problems, "the error of tlog.TreeHash is not tested")
	} else {
		var succ []Site
		for _, r := range f.Returns() {
			if e := f.errResultExpr(r.X.(*ast.ReturnStmt)); e != nil && f.mayBeNilError(e) {
				succ = append(succ, r)
			}
		}
		if pt, _ := f.Graph().ReachableFromEntry(Cut{Edges: okE}, atAnySite(succ)); pt != nil {
			problems = append(problems, "a successful return is reachable although tlog.TreeHash failed")
		}
	}
	if nOK == 0 {
		problems = append(problems, "no successful return")
	}
	if len(problems) > 0 {
		c.Bad(inst, f.Pos(f.Decl), strings.Join(problems, "; "))
		return
	}
	c.add(Result{Instance: inst, Verdict: Discharged, Evals: 4, Sites: []string{th[0].Pos()}, Detail: "{Tree{N: n, Hash: TreeHash(n, r)}, Time: t} on TreeHash's success edge", Witnesses: f.WitEdges(okE)})
}

// hEdgeReader: the hash reader over the in-memory edge tiles returns, for each
// requested index id, tlog.HashFromTile(t.Tile, t.B, id) of the edge tile stored
// at the level of tlog.TileForIndex(TileHeight, id); a failed lookup is an error;
// exactly that hash is appended, in request order.
func hEdgeReader(c *Ctx) {
	f := c.Fn("ctlog.(*Log).edgeTilesHashReader")
	inst := "ctlog.(*Log).edgeTilesHashReader"
	if f == nil {
		return
	}
	var lit *Func
	for _, l := range allLits(f) {
		if len(l.Calls(Callee{pkgTlog, "", "HashFromTile"})) > 0 {
			lit = l
		}
	}
	if lit == nil {
		c.Bad(inst, f.Pos(f.Decl), "the edge-tile hash reader does not derive hashes with tlog.HashFromTile")
		return
	}
	c.touch(lit)
	info := lit.Info()
	hs := lit.Calls(Callee{pkgTlog, "", "HashFromTile"})
	if len(hs) != 1 || len(hs[0].Call.Args) != 3 {
		c.Unk(inst, "expected one HashFromTile(tile, data, index) call")
		return
	}
	call := hs[0].Call
	var problems []string
	// index argument: the range variable over the indexes parameter
	idObj := objOf(info, call.Args[2])
	var idxParam types.Object
	if ps := lit.Type.Params.List; len(ps) == 1 && len(ps[0].Names) == 1 {
		idxParam = info.Defs[ps[0].Names[0]]
	}
	rangeOK := false
	ast.Inspect(lit.Body, func(n ast.Node) bool {
		if rs, ok := n.(*ast.RangeStmt); ok {
			if rs.Value != nil && objOf(info, rs.Value) == idObj && idObj != nil && objOf(info, rs.X) == idxParam && idxParam != nil {
				rangeOK = true
			}
		}
		return true
	})
	if !rangeOK {
		problems = append(problems, "the index given to HashFromTile is not the element of the requested index list")
	}
	// tile and data: fields Tile / B of one value t = l.edgeTiles[TileForIndex(TileHeight, id).L]
	r0, p0, ok0 := fieldPath(info, call.Args[0])
	r1, p1, ok1 := fieldPath(info, call.Args[1])
	if !ok0 || !ok1 || r0 != r1 || r0 == nil || len(p0) != 1 || len(p1) != 1 || p0[0] != "Tile" || p1[0] != "B" {
		problems = append(problems, "HashFromTile is not given the tile descriptor and the bytes of one edge-tile entry")
	} else {
		ok := false
		for _, d := range lit.Defs(r0) {
			if d.Kind != DefAssign || d.Rhs == nil {
				continue
			}
			ix, isIx := ast.Unparen(d.Rhs).(*ast.IndexExpr)
			if !isIx {
				continue
			}
			if _, isEdge := fieldSel(info, ix.X, pkgCtlog, "Log", "edgeTiles"); !isEdge {
				continue
			}
			sel, isSel := ast.Unparen(ix.Index).(*ast.SelectorExpr)
			if !isSel || sel.Sel.Name != "L" {
				continue
			}
			tc, isCall := ast.Unparen(sel.X).(*ast.CallExpr)
			if !isCall || !matchCallee(info, tc, Callee{pkgTlog, "", "TileForIndex"}) || len(tc.Args) != 2 {
				continue
			}
			if h, isC := constInt(info, tc.Args[0]); isC && h == 8 && objOf(info, tc.Args[1]) == idObj {
				ok = len(lit.Defs(r0)) == 1
			}
		}
		if !ok {
			problems = append(problems, "the edge tile is not looked up at the level of tlog.TileForIndex(TileHeight, index) for the same index")
		}
	}
	// failure is an error return; the appended hash is the HashFromTile result
	okE, _ := gateEdges(hs, OutNil)
	apps := lit.Find(func(n ast.Node) bool {
		cl, ok := n.(*ast.CallExpr)
		return ok && isBuiltinCall(info, cl, "append")
	})
	if len(okE) == 0 {
		problems = append(problems, "the error of HashFromTile is not tested")
	} else if len(apps) != 1 {
		problems = append(problems, "expected one append of the derived hash")
	} else {
		if pt, _ := lit.Graph().ReachableFromEntry(Cut{Edges: okE}, atSite(apps[0])); pt != nil {
			problems = append(problems, "a hash is appended although HashFromTile failed")
		}
		ac := apps[0].X.(*ast.CallExpr)
		if len(ac.Args) != 2 {
			problems = append(problems, "append of more than one value per index")
		} else if _, isH := lit.IsCallResult(ac.Args[1], 0, Callee{pkgTlog, "", "HashFromTile"}); !isH {
			problems = append(problems, "the appended value is not the HashFromTile result")
		}
		// the list that is returned is the one appended to
		lst := objOf(info, ac.Args[0])
		for _, r := range lit.Returns() {
			rs := r.X.(*ast.ReturnStmt)
			if e := lit.errResultExpr(rs); e != nil && lit.mayBeNilError(e) {
				if objOf(info, rs.Results[0]) != lst || lst == nil {
					problems = append(problems, "the returned list is not the one the hashes were appended to")
				}
			}
		}
	}
	if len(problems) > 0 {
		c.Bad(inst, hs[0].Pos(), strings.Join(problems, "; "))
		return
	}
	c.add(Result{Instance: inst, Verdict: Discharged, Evals: 5, Sites: []string{hs[0].Pos()}, Detail: "for id in indexes: append(HashFromTile(t.Tile, t.B, id)), t = edgeTiles[TileForIndex(8, id).L], error returned", Witnesses: lit.WitEdges(okE)})
}

// hStagingPath: the staging key names the tree completely (size and full root
// hash): two different trees never share a bundle, and the reader derives the
// same key from the lock checkpoint as the writer from the signed tree.
func hStagingPath(c *Ctx) {
	f := c.Fn("ctlog.stagingPath")
	if f == nil {
		return
	}
	info := f.Info()
	inst := f.Name + " names the whole tree"
	tp := f.paramObj("tree")
	rets := f.Returns()
	if len(rets) != 1 || tp == nil {
		c.Unk(inst, "expected a single return and the tree parameter")
		return
	}
	call, ok := f.IsCallResult(rets[0].X.(*ast.ReturnStmt).Results[0], -1, Callee{"fmt", "", "Sprintf"})
	if !ok || len(call.Args) < 3 {
		c.Bad(inst, rets[0].Pos(), "the staging key is not formatted from the tree's size and root hash")
		return
	}
	format, _ := constString(info, call.Args[0])
	hasN, hasHash := false, false
	for _, a := range call.Args[1:] {
		if r, p, ok := fieldPath(info, a); ok && r == tp && len(p) == 1 && p[0] == "N" {
			hasN = true
		}
		// hex.EncodeToString(tree.Hash[:]) or tree.Hash / tree.Hash[:] with %x
		e := ast.Unparen(a)
		if hc, isCall := e.(*ast.CallExpr); isCall && matchCallee(info, hc, Callee{"encoding/hex", "", "EncodeToString"}) && len(hc.Args) == 1 {
			e = ast.Unparen(hc.Args[0])
		}
		if sl, isSl := e.(*ast.SliceExpr); isSl {
			if sl.Low != nil || sl.High != nil || sl.Max != nil {
				continue // a truncated hash does not name the tree
			}
			e = ast.Unparen(sl.X)
		}
		if r, p, ok := fieldPath(info, e); ok && r == tp && len(p) == 1 && p[0] == "Hash" {
			hasHash = true
		}
	}
	verbs := strings.Count(format, "%") - 2*strings.Count(format, "%%")
	switch {
	case !strings.HasPrefix(format, "staging/"):
		c.Bad(inst, rets[0].Pos(), "the staging key does not live under staging/")
	case !hasN || !hasHash:
		c.Bad(inst, rets[0].Pos(), "the staging key does not contain both the tree size and the complete root hash: bundles of different trees could collide, and recovery could apply a foreign bundle")
	case verbs != len(call.Args)-1:
		c.Bad(inst, rets[0].Pos(), "format verbs and operands of the staging key do not match")
	default:
		c.add(Result{Instance: inst, Verdict: Discharged, Evals: 3, Sites: []string{rets[0].Pos()}, Detail: "staging/<N>-<hex(Hash[:])>"})
	}
}
