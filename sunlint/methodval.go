package main

// N5 - a method value of a new method, bound where a closure used to be.
//
// "Replace the closure by a method on a small struct" turns
//
//	f = func(ctx) (...) { ... p.done ... n ... }
//
// into
//
//	f = (&waiter{pool: p, n: n}).wait          or      w := &waiter{...}; f = w.wait
//
// The rules look for the function literal. For a method that is not in the
// frozen function table (a new one), declared in the same package, the method
// value is rewritten back into a literal with the method's parameters and body,
// the receiver being a fresh variable that holds the receiver operand:
//
//	_mv1 := &waiter{pool: p, n: n}; f = func(ctx) (...) { ... _mv1.pool.done ... }
//
// N4 (sra.go) then replaces _mv1's fields by variables. The operand is
// evaluated once, at the same place; a pointer receiver keeps sharing the
// struct, a value receiver is only accepted when no field of the operand's
// variable is written in the function (the method value would have copied it).

import (
	"fmt"
	"go/ast"
	"go/token"
	"go/types"
	"strings"
)

func (nz *normalizer) collectMethodValues() map[string][]srcEdit {
	out := map[string][]srcEdit{}
	p := nz.p
	for _, pk := range p.All {
		for _, file := range pk.Syntax {
			tf := p.Fset.File(file.Pos())
			if tf == nil {
				continue
			}
			name := tf.Name()
			if strings.HasSuffix(name, "_test.go") {
				continue
			}
			src, err := p.readFile(name)
			if err != nil {
				continue
			}
			fc := &fileCtx{nz: nz, pk: &pkgT{pk.TypesInfo, pk.Types}, file: file, name: name, src: src, tf: tf}
			var edits []srcEdit
			for _, d := range file.Decls {
				fd, ok := d.(*ast.FuncDecl)
				if !ok || fd.Body == nil {
					continue
				}
				edits = append(edits, fc.methodValues(fd)...)
			}
			if len(edits) > 0 {
				out[name] = edits
			}
		}
	}
	return out
}

func (fc *fileCtx) methodValues(fd *ast.FuncDecl) []srcEdit {
	info := fc.pk.Info
	nz := fc.nz
	var edits []srcEdit
	var visit func(list []ast.Stmt)
	handle := func(s ast.Stmt) {
		as, ok := s.(*ast.AssignStmt)
		if !ok || len(as.Lhs) != 1 || len(as.Rhs) != 1 || (as.Tok != token.ASSIGN && as.Tok != token.DEFINE) {
			return
		}
		if _, isId := as.Lhs[0].(*ast.Ident); !isId {
			return
		}
		sel, ok := ast.Unparen(as.Rhs[0]).(*ast.SelectorExpr)
		if !ok {
			return
		}
		sl := info.Selections[sel]
		if sl == nil || sl.Kind() != types.MethodVal || len(sl.Index()) != 1 {
			return
		}
		fn, ok := sl.Obj().(*types.Func)
		if !ok || fn.Pkg() != fc.pk.Types {
			return
		}
		fn = fn.Origin()
		if _, known := frozenParams[fn.FullName()]; known {
			return
		}
		if _, renamed := nz.p.renamed[fn.FullName()]; renamed {
			return
		}
		mf := nz.p.FuncOf(fn)
		if mf == nil || mf.Decl == nil || mf.Body == nil || mf.Decl.Recv == nil || len(mf.Decl.Recv.List) != 1 {
			return
		}
		sig := fn.Type().(*types.Signature)
		if sig.Variadic() || sig.RecvTypeParams() != nil || sig.TypeParams() != nil {
			return
		}
		// receiver operand: its type must be the receiver's type as written (no implicit & or *)
		xt := info.TypeOf(sel.X)
		if xt == nil || !types.Identical(xt, sig.Recv().Type()) {
			return
		}
		_, ptrRecv := sig.Recv().Type().(*types.Pointer)
		if !ptrRecv {
			// a value receiver copies the operand: accept when the operand is a literal, or a variable
			// none of whose fields is written in this function
			switch x := ast.Unparen(sel.X).(type) {
			case *ast.CompositeLit:
			case *ast.Ident:
				o := info.Uses[x]
				written := false
				ast.Inspect(fd.Body, func(n ast.Node) bool {
					switch y := n.(type) {
					case *ast.AssignStmt:
						for _, l := range y.Lhs {
							if rootObj(info, l) == o {
								written = true
							}
						}
					case *ast.IncDecStmt:
						if rootObj(info, y.X) == o {
							written = true
						}
					case *ast.UnaryExpr:
						if y.Op == token.AND && rootObj(info, y.X) == o {
							written = true
						}
					}
					return true
				})
				// the defining statement itself is an assignment to the variable: allow exactly one
				n := 0
				ast.Inspect(fd.Body, func(nd ast.Node) bool {
					if y, ok := nd.(*ast.AssignStmt); ok {
						for _, l := range y.Lhs {
							if objOf(info, l) == o {
								n++
							}
						}
					}
					return true
				})
				if written && n != 1 {
					return
				}
			default:
				return
			}
		}
		if !isPureExpr(info, ast.Unparen(sel.X)) {
			if _, isLit := literalOperand(sel.X); !isLit {
				return
			}
		}
		h := &helper{fn: fn, sig: sig, f: mf, results: sig.Results().Len()}
		if !fc.sameBinding(h, as.Pos()) {
			return
		}
		// the method's own text, receiver renamed
		mtf := nz.p.Fset.File(mf.Decl.Pos())
		if mtf == nil {
			return
		}
		msrc, err := nz.p.readFile(mtf.Name())
		if err != nil {
			return
		}
		minfo := mf.Info()
		var recvObj types.Object
		if nms := mf.Decl.Recv.List[0].Names; len(nms) == 1 && nms[0].Name != "_" {
			recvObj = minfo.Defs[nms[0]]
		}
		tmp := nz.fresh("mv")
		var body []srcEdit
		bad := false
		lo, hi := mtf.Offset(mf.Body.Pos()), mtf.Offset(mf.Body.End())
		ast.Inspect(mf.Body, func(n ast.Node) bool {
			switch x := n.(type) {
			case *ast.Ident:
				if recvObj != nil && minfo.Uses[x] == recvObj {
					body = append(body, srcEdit{mtf.Offset(x.Pos()) - lo, mtf.Offset(x.End()) - lo, tmp})
				}
				if b, isB := minfo.Uses[x].(*types.Builtin); isB && b.Name() == "recover" {
					bad = true
				}
				if minfo.Uses[x] == types.Object(fn) {
					bad = true // recursive
				}
			}
			return true
		})
		if bad {
			return
		}
		btext := string(applySrcEdits(append([]byte(nil), msrc[lo:hi]...), body))
		// signature
		var ps, rs []string
		i := 0
		for _, fl := range mf.Decl.Type.Params.List {
			names := fl.Names
			if len(names) == 0 {
				names = []*ast.Ident{nil}
			}
			for _, nm := range names {
				ts := fc.typeString(sig.Params().At(i).Type())
				if ts == "" {
					return
				}
				n := "_"
				if nm != nil {
					n = nm.Name
				}
				ps = append(ps, n+" "+ts)
				i++
			}
		}
		if mf.Decl.Type.Results != nil {
			i = 0
			for _, fl := range mf.Decl.Type.Results.List {
				names := fl.Names
				if len(names) == 0 {
					names = []*ast.Ident{nil}
				}
				for _, nm := range names {
					ts := fc.typeString(sig.Results().At(i).Type())
					if ts == "" {
						return
					}
					if nm != nil {
						rs = append(rs, nm.Name+" "+ts)
					} else {
						rs = append(rs, ts)
					}
					i++
				}
			}
		}
		res := ""
		if len(rs) > 0 {
			res = " (" + strings.Join(rs, ", ") + ")"
		}
		lit := fmt.Sprintf("func(%s)%s {%s%s%s", strings.Join(ps, ", "), res, nz.lineDir(mf.Body.Pos()), btext[1:], nz.lineDir(as.End()))
		text := fmt.Sprintf("%s := %s; %s %s %s", tmp, fc.text(sel.X.Pos(), sel.X.End()), fc.text(as.Lhs[0].Pos(), as.Lhs[0].End()), as.Tok.String(), lit)
		edits = append(edits, srcEdit{fc.off(as.Pos()), fc.off(as.End()), text})
		nz.inlined[mf.Name+" (method value)"]++
	}
	visit = func(list []ast.Stmt) {
		for _, s := range list {
			handle(s)
		}
	}
	ast.Inspect(fd.Body, func(n ast.Node) bool {
		switch x := n.(type) {
		case *ast.BlockStmt:
			visit(x.List)
		case *ast.CaseClause:
			visit(x.Body)
		case *ast.CommClause:
			visit(x.Body)
		}
		return true
	})
	return edits
}

// literalOperand: e is T{...} or &T{...} (possibly parenthesised).
func literalOperand(e ast.Expr) (*ast.CompositeLit, bool) {
	e = ast.Unparen(e)
	if u, ok := e.(*ast.UnaryExpr); ok && u.Op == token.AND {
		e = ast.Unparen(u.X)
	}
	cl, ok := e.(*ast.CompositeLit)
	return cl, ok
}
