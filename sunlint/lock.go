package main

// T3 lock discipline: forward must-lockset over go/cfg, protected-field
// tables, and inferred "caller holds the lock" preconditions checked at every
// static call site in the module.

import (
	"fmt"
	"go/ast"
	"go/types"
	"sort"
	"strings"

	"golang.org/x/tools/go/cfg"
)

const (
	lockNone = 0
	lockR    = 1
	lockW    = 2
)

type lockset map[string]int

func (l lockset) clone() lockset {
	o := lockset{}
	for k, v := range l {
		o[k] = v
	}
	return o
}

func meet(a, b lockset) lockset {
	o := lockset{}
	for k, v := range a {
		if w, ok := b[k]; ok {
			if w < v {
				v = w
			}
			o[k] = v
		}
	}
	return o
}

func sameLockset(a, b lockset) bool {
	if len(a) != len(b) {
		return false
	}
	for k, v := range a {
		if b[k] != v {
			return false
		}
	}
	return true
}

// mutexOp recognises x.Lock()/RLock()/Unlock()/RUnlock() on a sync.Mutex or
// sync.RWMutex (possibly embedded or behind a pointer) and returns the mutex
// expression's identity key.
func mutexOp(info *types.Info, call *ast.CallExpr) (key string, op string, ok bool) {
	fn, isFn := calleeObj(info, call).(*types.Func)
	if !isFn || fn.Pkg() == nil || fn.Pkg().Path() != "sync" {
		return "", "", false
	}
	r := recvName(fn)
	if r != "Mutex" && r != "RWMutex" {
		return "", "", false
	}
	switch fn.Name() {
	case "Lock", "RLock", "Unlock", "RUnlock":
	default:
		return "", "", false
	}
	sel, isSel := ast.Unparen(call.Fun).(*ast.SelectorExpr)
	if !isSel {
		return "", "", false
	}
	return lockKey(info, sel.X), fn.Name(), true
}

// lockKey canonicalises a mutex (or base object) expression: the source form
// of the selector chain with the identity of its root object.
func lockKey(info *types.Info, e ast.Expr) string {
	root := rootObj(info, e)
	s := exprString(ast.Unparen(e))
	s = strings.TrimPrefix(s, "&")
	s = strings.TrimPrefix(s, "*")
	if root != nil {
		return fmt.Sprintf("%s@%d", s, root.Pos())
	}
	return s
}

// Locksets computes the must-lockset before every node of f.
type lockInfo struct {
	f     *Func
	entry map[*cfg.Block]lockset
}

func (f *Func) locksets(initial lockset) *lockInfo {
	g := f.Graph()
	info := f.Info()
	li := &lockInfo{f: f, entry: map[*cfg.Block]lockset{}}
	if len(g.Blocks) == 0 {
		return li
	}
	start := g.G.Blocks[0]
	li.entry[start] = initial.clone()
	work := []*cfg.Block{start}
	transfer := func(b *cfg.Block, in lockset) lockset {
		cur := in.clone()
		for _, n := range b.Nodes {
			applyLockNode(info, n, cur)
		}
		return cur
	}
	for len(work) > 0 {
		b := work[0]
		work = work[1:]
		out := transfer(b, li.entry[b])
		for _, s := range b.Succs {
			old, seen := li.entry[s]
			var nw lockset
			if !seen {
				nw = out.clone()
			} else {
				nw = meet(old, out)
			}
			if !seen || !sameLockset(old, nw) {
				li.entry[s] = nw
				work = append(work, s)
			}
		}
	}
	return li
}

func applyLockNode(info *types.Info, n ast.Node, cur lockset) {
	es, ok := n.(*ast.ExprStmt)
	if !ok {
		return
	}
	call, ok := es.X.(*ast.CallExpr)
	if !ok {
		return
	}
	key, op, ok := mutexOp(info, call)
	if !ok {
		return
	}
	switch op {
	case "Lock":
		cur[key] = lockW
	case "RLock":
		if cur[key] < lockR {
			cur[key] = lockR
		}
	case "Unlock", "RUnlock":
		delete(cur, key)
	}
}

// At returns the lockset held just before node index i of block b.
func (li *lockInfo) At(p Point) lockset {
	in, ok := li.entry[p.B]
	if !ok {
		return lockset{}
	}
	cur := in.clone()
	for i := 0; i < p.I && i < len(p.B.Nodes); i++ {
		applyLockNode(li.f.Info(), p.B.Nodes[i], cur)
	}
	return cur
}

// ---------------------------------------------------------------------------

// Protected describes fields guarded by a mutex field of the same struct.
type Protected struct {
	Pkg, Type, Mutex string
	Fields           []string
	// Exclusive: the field holds an object that is not safe for concurrent
	// use (a database connection): every access, read or write, needs the
	// mutex held exclusively - a shared (read) lock is not enough.
	Exclusive bool
}

type lockException struct {
	Func   string // function name
	Field  string
	Reason string
}

type fieldAccess struct {
	Site
	Field *types.Var
	Base  ast.Expr
	Write bool
}

// accessesOf lists selector accesses in f's own body to any of the fields.
func (f *Func) accessesOf(fields map[*types.Var]bool) []fieldAccess {
	info := f.Info()
	var out []fieldAccess
	// writes: collect LHS expressions
	writes := map[ast.Expr]bool{}
	for _, s := range f.Find(func(n ast.Node) bool {
		switch n.(type) {
		case *ast.AssignStmt, *ast.IncDecStmt:
			return true
		}
		return false
	}) {
		mark := func(l ast.Expr) {
			// every selector on the chain of an assigned expression is a write to that object
			for {
				switch x := ast.Unparen(l).(type) {
				case *ast.SelectorExpr:
					writes[x] = true
					l = x.X
					continue
				case *ast.IndexExpr:
					l = x.X
					continue
				case *ast.StarExpr:
					l = x.X
					continue
				}
				break
			}
		}
		switch a := s.X.(type) {
		case *ast.AssignStmt:
			for _, l := range a.Lhs {
				mark(l)
			}
		case *ast.IncDecStmt:
			mark(a.X)
		}
	}
	for _, s := range f.Find(func(n ast.Node) bool {
		sel, ok := n.(*ast.SelectorExpr)
		if !ok {
			return false
		}
		v, ok := info.Uses[sel.Sel].(*types.Var)
		return ok && fields[v]
	}) {
		sel := s.X.(*ast.SelectorExpr)
		v := info.Uses[sel.Sel].(*types.Var)
		// only the innermost field of a written chain is the written object:
		// l.tree.N = .. writes tree; x.f = .. writes f.
		out = append(out, fieldAccess{Site: s, Field: v, Base: sel.X, Write: writes[sel]})
	}
	// delete(m, k) on a protected map is a write
	return out
}

// freshLocal reports whether the root of e is a local variable whose single
// definition is a composite literal (object under construction, not shared).
func (f *Func) freshLocal(e ast.Expr) bool {
	info := f.Info()
	root := rootObj(info, e)
	if root == nil || !isLocal(root) {
		return false
	}
	defs := f.Defs(root)
	if len(defs) != 1 || defs[0].Kind != DefAssign || defs[0].Idx >= 0 {
		return false
	}
	r := ast.Unparen(defs[0].Rhs)
	if u, ok := r.(*ast.UnaryExpr); ok {
		r = ast.Unparen(u.X)
	}
	_, isLit := r.(*ast.CompositeLit)
	return isLit
}

// checkLockDiscipline runs T3 for one table entry and reports per access.
func (c *Ctx) checkLockDiscipline(pr Protected, exceptions []lockException, needWriteLock bool) {
	p := c.P
	fields := map[*types.Var]bool{}
	for _, fn := range pr.Fields {
		fv := p.fieldVar(pr.Pkg, pr.Type, fn)
		if fv == nil {
			c.Unk(pr.Type+"."+fn, "protected field not found")
			continue
		}
		fields[fv] = true
	}
	if p.fieldVar(pr.Pkg, pr.Type, pr.Mutex) == nil {
		c.Unk(pr.Type+"."+pr.Mutex, "mutex field not found")
		return
	}
	type need struct {
		f     *Func
		param types.Object // parameter/receiver whose .Mutex must be held by callers
		write bool
		why   string
	}
	var needs []need
	nAcc := 0
	lsCache := map[*Func]*lockInfo{}
	ls := func(f *Func) *lockInfo {
		if lsCache[f] == nil {
			lsCache[f] = f.locksets(lockset{})
		}
		return lsCache[f]
	}
	for _, f := range p.Funcs("") {
		if f.Body == nil {
			continue
		}
		accs := f.accessesOf(fields)
		if len(accs) == 0 {
			continue
		}
		c.touch(f)
		for _, a := range accs {
			nAcc++
			inst := fmt.Sprintf("%s.%s in %s", pr.Type, a.Field.Name(), f.Name)
			if f.freshLocal(a.Base) {
				c.OK(inst, "object under construction (not yet shared)", []string{a.Pos()})
				continue
			}
			exc := ""
			for _, e := range exceptions {
				if e.Func == f.Name && (e.Field == "" || e.Field == a.Field.Name()) {
					exc = e.Reason
				}
			}
			if exc != "" {
				c.OK(inst, "listed exception: "+exc, []string{a.Pos()})
				continue
			}
			key := lockKey(f.Info(), a.Base)
			// mutex key: base + "." + Mutex with the same root
			mkey := mutexKeyFor(f.Info(), a.Base, pr.Mutex)
			held := ls(f).At(a.P)[mkey]
			want := lockR
			if (a.Write && needWriteLock) || pr.Exclusive {
				want = lockW
			}
			if held >= want {
				c.OK(inst, "accessed with "+pr.Mutex+" held", []string{a.Pos()})
				continue
			}
			// precondition inference: base is a parameter or receiver of the top declaration
			// (not when the function itself holds the mutex in shared mode: no caller can upgrade that)
			root := rootObj(f.Info(), a.Base)
			if id, ok := ast.Unparen(a.Base).(*ast.Ident); ok && held == lockNone && root != nil && f.Decl != nil && isParamOrRecv(f, root) && id != nil {
				needs = append(needs, need{f, root, (a.Write && needWriteLock) || pr.Exclusive, inst + " at " + a.Pos()})
				continue
			}
			_ = key
			how := "without " + pr.Mutex + " held"
			if held == lockR && want == lockW {
				how = "with " + pr.Mutex + " held only for reading (shared); this state needs the exclusive lock"
			}
			c.Bad(inst, a.Pos(), fmt.Sprintf("%s.%s accessed %s (lockset here: %s)", pr.Type, a.Field.Name(), how, locksetString(ls(f).At(a.P))))
		}
	}
	// check preconditions at call sites (fixpoint over callers)
	done := map[string]bool{}
	for depth := 0; len(needs) > 0 && depth < 4; depth++ {
		var next []need
		for _, nd := range needs {
			k := fmt.Sprintf("%s/%d/%v", nd.f.Name, nd.param.Pos(), nd.write)
			if done[k] {
				continue
			}
			done[k] = true
			callers := 0
			for _, g := range p.Funcs("") {
				if g.Body == nil {
					continue
				}
				for _, s := range g.Find(func(n ast.Node) bool {
					call, ok := n.(*ast.CallExpr)
					if !ok {
						return false
					}
					fn, ok := calleeObj(g.Info(), call).(*types.Func)
					return ok && fn.Origin() == nd.f.Obj
				}) {
					callers++
					c.touch(g)
					arg := argForParam(nd.f, s.Call, nd.param)
					inst := fmt.Sprintf("%s requires %s held: call from %s", nd.f.Name, pr.Mutex, g.Name)
					if arg == nil {
						c.Unk(inst, "cannot map the lock owner to an argument at "+s.Pos())
						continue
					}
					if g.freshLocal(arg) {
						c.OK(inst, "object under construction", []string{s.Pos()})
						continue
					}
					mkey := mutexKeyFor(g.Info(), arg, pr.Mutex)
					held := ls(g).At(s.P)[mkey]
					want := lockR
					if nd.write {
						want = lockW
					}
					if held >= want {
						c.OK(inst, "caller holds the lock", []string{s.Pos()})
						continue
					}
					root := rootObj(g.Info(), arg)
					if _, isId := ast.Unparen(arg).(*ast.Ident); isId && root != nil && g.Decl != nil && isParamOrRecv(g, root) {
						next = append(next, need{g, root, nd.write, nd.why})
						continue
					}
					c.Bad(inst, s.Pos(), fmt.Sprintf("%s is called without %s held, but it accesses protected state (%s)", nd.f.Name, pr.Mutex, nd.why))
				}
			}
			// a reference to the function that is not a call (a method value handed to a router, a
			// goroutine launcher, a callback table) is an entry point: whoever invokes it holds nothing
			if refs := p.valueRefs(nd.f.Obj); len(refs) > 0 {
				c.Bad(fmt.Sprintf("%s requires %s held: used as a value", nd.f.Name, pr.Mutex), refs[0], fmt.Sprintf("%s accesses protected state without taking %s, and it escapes as a function value at %s: it can be invoked with the lock not held (%s)", nd.f.Name, pr.Mutex, strings.Join(refs, ", "), nd.why))
				continue
			}
			if callers == 0 {
				if nd.f.Obj != nil && nd.f.Obj.Exported() {
					// an exported function or method without a static caller is an entry point (an
					// interface method, an HTTP handler): nobody can be holding the lock on its behalf
					c.Bad(fmt.Sprintf("%s requires %s held", nd.f.Name, pr.Mutex), nd.f.Pos(nd.f.Decl), fmt.Sprintf("%s accesses protected state without taking %s and has no static caller that could hold it (%s)", nd.f.Name, pr.Mutex, nd.why))
				} else {
					// uncalled unexported helper (or only used as a value): nothing can violate the precondition statically
					c.OK(fmt.Sprintf("%s requires %s held", nd.f.Name, pr.Mutex), "no static caller in the module", nil)
				}
			}
		}
		needs = next
	}
	if len(needs) > 0 {
		c.Unk(pr.Type+"."+pr.Mutex+" preconditions", "precondition chain deeper than 4 calls")
	}
	if nAcc == 0 {
		c.Unk(pr.Type+" accesses", "no access to the protected fields found")
	}
}

func isParamOrRecv(f *Func, o types.Object) bool {
	if f.Decl == nil {
		return false
	}
	if f.recvObj() == o {
		return true
	}
	for _, fl := range f.Type.Params.List {
		for _, nm := range fl.Names {
			if f.Info().Defs[nm] == o {
				return true
			}
		}
	}
	return false
}

// argForParam maps parameter/receiver object param of callee to the argument
// expression of call.
func argForParam(callee *Func, call *ast.CallExpr, param types.Object) ast.Expr {
	if callee.recvObj() == param {
		if sel, ok := ast.Unparen(call.Fun).(*ast.SelectorExpr); ok {
			return sel.X
		}
		return nil
	}
	i := 0
	for _, fl := range callee.Type.Params.List {
		for _, nm := range fl.Names {
			if callee.Info().Defs[nm] == param {
				if i < len(call.Args) {
					return call.Args[i]
				}
				return nil
			}
			i++
		}
	}
	return nil
}

func mutexKeyFor(info *types.Info, base ast.Expr, mutex string) string {
	root := rootObj(info, base)
	s := exprString(ast.Unparen(base))
	s = strings.TrimPrefix(s, "&")
	s = strings.TrimPrefix(s, "*")
	s += "." + mutex
	if root != nil {
		return fmt.Sprintf("%s@%d", s, root.Pos())
	}
	return s
}

func locksetString(l lockset) string {
	var ks []string
	for k, v := range l {
		m := "W"
		if v == lockR {
			m = "R"
		}
		ks = append(ks, strings.SplitN(k, "@", 2)[0]+":"+m)
	}
	sort.Strings(ks)
	return "{" + strings.Join(ks, ",") + "}"
}

// checkNoReopen enforces the atomicity half of T3: a function that holds the
// mutex of pr while it reads protected state must not release and re-take it
// before it writes protected state (or commits to the lock backend). A
// critical section that is opened twice in one function makes every check done
// in the first half stale in the second.
//
// Instance: each function of the package that locks the mutex. Violation: an
// inline Unlock U of the mutex such that (1) a Lock of the mutex reaches U,
// (2) a Lock of the same mutex is reachable from U, and (3) from that Lock a
// protected write or one of the commit calls is reachable.
func (c *Ctx) checkNoReopen(pr Protected, commits ...Callee) {
	p := c.P
	fields := map[*types.Var]bool{}
	for _, fn := range pr.Fields {
		if fv := p.fieldVar(pr.Pkg, pr.Type, fn); fv != nil {
			fields[fv] = true
		}
	}
	mu := p.fieldVar(pr.Pkg, pr.Type, pr.Mutex)
	if mu == nil || len(fields) == 0 {
		c.Unk(pr.Type+"."+pr.Mutex+" continuity", "mutex or protected fields not found")
		return
	}
	isMu := func(info *types.Info, call *ast.CallExpr) (string, string, bool) {
		key, op, ok := mutexOp(info, call)
		if !ok {
			return "", "", false
		}
		sel := ast.Unparen(call.Fun).(*ast.SelectorExpr)
		if _, fok := fieldSel(info, sel.X, pr.Pkg, pr.Type, pr.Mutex); !fok {
			return "", "", false
		}
		return key, op, true
	}
	n := 0
	for _, f := range p.Funcs(pr.Pkg) {
		if f.Body == nil {
			continue
		}
		info := f.Info()
		g := f.Graph()
		var locks, unlocks []Site
		keys := map[*ast.CallExpr]string{}
		for _, s := range f.Find(func(x ast.Node) bool {
			call, ok := x.(*ast.CallExpr)
			if !ok {
				return false
			}
			_, _, ok = isMu(info, call)
			return ok
		}) {
			key, op, _ := isMu(info, s.Call)
			keys[s.Call] = key
			if _, deferred := s.Node.(*ast.DeferStmt); deferred {
				continue
			}
			switch op {
			case "Lock", "RLock":
				locks = append(locks, s)
			case "Unlock", "RUnlock":
				unlocks = append(unlocks, s)
			}
		}
		if len(locks) == 0 {
			continue
		}
		n++
		c.touch(f)
		inst := f.Name + " holds " + pr.Type + "." + pr.Mutex + " continuously"
		accs := f.accessesOf(fields)
		commitSites := f.CallsW(commits...)
		bad := false
		for _, u := range unlocks {
			// (1) the mutex is held when U runs: some Lock of the same mutex reaches U
			held := false
			for _, l1 := range locks {
				if keys[l1.Call] == keys[u.Call] {
					if pt, _ := g.Reach(l1.After(), Cut{}, atSite(u)); pt != nil {
						held = true
					}
				}
			}
			if !held {
				continue
			}
			for _, l2 := range locks {
				if keys[l2.Call] != keys[u.Call] {
					continue
				}
				if pt, _ := g.Reach(u.After(), Cut{}, atSite(l2)); pt == nil {
					continue
				}
				// (3) a protected write or a commit after the re-lock
				var after []Site
				for _, a := range accs {
					if a.Write {
						after = append(after, a.Site)
					}
				}
				after = append(after, commitSites...)
				if pt, _ := g.Reach(l2.After(), Cut{}, atAnySite(after)); pt != nil {
					c.Bad(inst, u.Pos(), fmt.Sprintf("%s releases %s.%s at %s and takes it again at %s before updating the protected state: what was checked under the lock (%s) may no longer hold when it is acted on",
						f.Name, pr.Type, pr.Mutex, u.Pos(), l2.Pos(), strings.Join(pr.Fields, ", ")))
					bad = true
				}
			}
		}
		if !bad {
			c.add(Result{Instance: inst, Verdict: Discharged, Evals: len(unlocks) + 1, Sites: sitePositions(locks),
				Detail: fmt.Sprintf("%d lock site(s), %d inline unlock(s): no protected state is read, the lock dropped and re-taken, and then protected state written", len(locks), len(unlocks))})
		}
	}
	if n == 0 {
		c.Unk(pr.Type+"."+pr.Mutex+" continuity", "no function locks this mutex")
	}
}

// valueRefs lists the positions in the module where fn is referenced other than
// as the callee of a call expression (method values, function values).
func (p *Program) valueRefs(fn *types.Func) []string {
	if fn == nil {
		return nil
	}
	var out []string
	for _, pk := range p.All {
		for _, file := range pk.Syntax {
			callee := map[*ast.Ident]bool{}
			ast.Inspect(file, func(n ast.Node) bool {
				if call, ok := n.(*ast.CallExpr); ok {
					switch x := ast.Unparen(call.Fun).(type) {
					case *ast.Ident:
						callee[x] = true
					case *ast.SelectorExpr:
						callee[x.Sel] = true
					}
				}
				return true
			})
			ast.Inspect(file, func(n ast.Node) bool {
				id, ok := n.(*ast.Ident)
				if !ok || callee[id] {
					return true
				}
				if u, ok := pk.TypesInfo.Uses[id].(*types.Func); ok && u.Origin() == fn {
					out = append(out, p.Pos(id.Pos()))
				}
				return true
			})
		}
	}
	sort.Strings(out)
	return out
}
