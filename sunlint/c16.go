package main

// C16 - subtree cosignatures are issued only for subtrees of a cosigned tree.

import (
	"fmt"
	"go/ast"
	"go/types"
	"strings"
)

func init() {
	register(&Property{
		ID:    "C16",
		Title: "Subtree cosignatures are issued only for subtrees of a cosigned tree",
		Explanation: "Guard-dominance, value-flow, who-may-call and status-table obligations on processSignSubtreeRequest and serveSignSubtree. " +
			"Decided: every SignSubtree call is dominated by ValidSubtree(start, end), end <= checkpoint size, CheckSubtree of the supplied hash against the checkpoint's root, note.Open of the presented checkpoint with the witness's own ML-DSA verifiers only, the no-extension test, and a per-signer re-verification of that signer's cosignature on the re-serialised checkpoint; the values signed (origin, start, end, hash) are the values checked; a signer enters the signing list only when a verified signature carries its name and key hash; SignSubtree is called nowhere else; refusals map to the protocol statuses. " +
			"NOT decided: proof / hash values (runtime).",
		Assumptions: []string{"torchwood.CheckSubtree / ValidSubtree implement c2sp.org/tlog-cosignature subtree rules", "note.Open returns only signatures verified by the given verifiers"},
		Obligations: []*Obligation{
			{ID: "C16.a", Title: "SIGN-GUARDS", Template: "T2", MinInst: 6,
				Rule: "SignSubtree is unreachable once the safe edges of any one guard are cut: ValidSubtree, end <= N, CheckSubtree ok, checkpoint opened with own ML-DSA verifiers, no extension, per-signer re-verification", Run: c16a},
			{ID: "C16.b", Title: "SAME-VALUES", Template: "T6", MinInst: 1,
				Rule: "SignSubtree(origin of the parsed checkpoint, start, end, hash) uses the very values given to ValidSubtree and CheckSubtree, and CheckSubtree gets the checkpoint's size and root", Run: c16b},
			{ID: "C16.c", Title: "SIGNER-SELECTION", Template: "T6+T2", MinInst: 2,
				Rule: "a cosigner is appended to the signing list only on the edge where a verified signature's name and key hash both equal that cosigner's; the list is built only from the witness's ML-DSA keys", Run: c16c},
			{ID: "C16.d", Title: "WHO", Template: "T4", MinInst: 1,
				Rule: "SignSubtree has exactly one call site in the module", Run: c16d},
			{ID: "C16.e", Title: "STATUS-TABLE", Template: "T5", MinInst: 3,
				Rule: "serveSignSubtree maps unknown log->404, invalid signature->403, malformed->400, bad proof->422; the processing function returns those sentinels for those failures", Run: c16e},
		},
	})
}

func c16a(c *Ctx) {
	f := c.Fn("witness.(*Witness).processSignSubtreeRequest")
	if f == nil {
		return
	}
	info := f.Info()
	g := f.Graph()
	recv := f.recvObj()
	signs := f.Calls(Callee{pkgTorch, "CosignatureSigner", "SignSubtree"})
	if len(signs) == 0 {
		c.Unk(f.Name, "no SignSubtree call")
		return
	}
	valid := g.EdgesImplying(func(a Atom) bool {
		call, ok := ast.Unparen(a.E).(*ast.CallExpr)
		return ok && a.Val && matchCallee(info, call, Callee{pkgTorch, "", "ValidSubtree"})
	})
	c.guardSuccess(f, "ValidSubtree(start, end)", valid, signs, "a subtree cosignature can be issued for an invalid [start, end) range")
	// checkpoint
	var ckObj types.Object
	parses := f.Calls(Callee{pkgTorch, "", "ParseCheckpoint"})
	for _, s := range parses {
		if a, ok := s.Node.(*ast.AssignStmt); ok {
			ckObj = objOf(info, a.Lhs[0])
		}
	}
	ckF := func(field string) func(ast.Expr) bool {
		return func(e ast.Expr) bool {
			r, p, ok := fieldPath(info, e)
			return ok && r == ckObj && ckObj != nil && len(p) == 1 && p[0] == field
		}
	}
	var endObj types.Object
	for _, s := range signs {
		endObj = objOf(info, argByName(info, s.Call, "end"))
	}
	isEnd := func(e ast.Expr) bool { return objOf(info, e) == endObj && endObj != nil }
	c.guardSuccess(f, "end <= checkpoint size", g.EdgesImplying(func(a Atom) bool { rel, ok := cmpRel(a, isEnd, ckF("N")); return ok && rel&relGT == 0 }), signs,
		"a subtree extending beyond the presented checkpoint can be cosigned")
	// CheckSubtree
	cs := f.Find(func(n ast.Node) bool {
		call, ok := n.(*ast.CallExpr)
		return ok && matchCallee(info, call, Callee{pkgTorch, "", "CheckSubtree"})
	})
	okProof := g.EdgesImplying(func(a Atom) bool {
		// `CheckSubtree(...) != nil` false edge, or err == nil edges of a bound result
		eq, ok := isNilCmp(info, a.E, func(e ast.Expr) bool {
			call, ok := ast.Unparen(e).(*ast.CallExpr)
			return ok && matchCallee(info, call, Callee{pkgTorch, "", "CheckSubtree"})
		})
		return ok && eq == a.Val
	})
	if len(okProof) == 0 && len(cs) > 0 {
		okProof, _ = gateEdges(cs, OutNil)
	}
	c.guardSuccess(f, "CheckSubtree verified", okProof, signs, "a subtree hash that is not proven to belong to the checkpoint's tree can be cosigned")
	// note.Open with own verifiers: the first note.Open (of the request's note)
	opens := f.Calls(Callee{pkgNote, "", "Open"})
	var first []Site
	for _, s := range opens {
		if bo := objOf(info, f.copyRoot(s.Call.Args[0])); bo != nil {
			// the request note: a variable defined by bytes.Cut of the body
			for _, d := range f.Defs(bo) {
				if d.Kind == DefAssign && d.Idx == 1 {
					first = append(first, s)
				}
			}
		}
	}
	if len(first) == 1 {
		c.requireGate(f.Name+" checkpoint cosigned by own key", f, first, OutNil, signs, "signing only when the presented checkpoint opens with the witness's own verifiers")
		// verifiers are only w.s2.Verifier() and w.sm.Verifier()
		vl := objOf(info, func() ast.Expr {
			if call, ok := ast.Unparen(first[0].Call.Args[1]).(*ast.CallExpr); ok && len(call.Args) == 1 {
				return call.Args[0]
			}
			return first[0].Call.Args[1]
		}())
		bad := ""
		n := 0
		var visit func(e ast.Expr)
		visit = func(e ast.Expr) {
			switch x := ast.Unparen(e).(type) {
			case *ast.CompositeLit:
				for _, el := range x.Elts {
					visit(el)
				}
			case *ast.CallExpr:
				if isBuiltinCall(info, x, "append") {
					for _, a := range x.Args[1:] {
						visit(a)
					}
					return
				}
				sel, ok := ast.Unparen(x.Fun).(*ast.SelectorExpr)
				if ok && sel.Sel.Name == "Verifier" {
					n++
					if !f.IsFieldPathOf(sel.X, func(o types.Object) bool { return o == recv }, "s2") && !f.IsFieldPathOf(sel.X, func(o types.Object) bool { return o == recv }, "sm") {
						bad = exprString(sel.X)
					}
					return
				}
				bad = exprString(x)
			case *ast.Ident:
				// the slice variable itself in append(verifiers, ...)
			default:
				bad = exprString(e)
			}
		}
		if vl != nil {
			for _, d := range f.Defs(vl) {
				if d.Rhs != nil {
					visit(d.Rhs)
				}
			}
		}
		if bad != "" || n == 0 {
			c.Bad(f.Name+" own verifiers only", first[0].Pos(), "the presented checkpoint is accepted with a verifier other than the witness's / mirror's ML-DSA key: "+bad)
		} else {
			c.add(Result{Instance: f.Name + " own verifiers only", Verdict: Discharged, Evals: n, Sites: []string{first[0].Pos()}, Detail: "verifier list = {s2.Verifier(), sm.Verifier() if configured}"})
		}
	} else {
		c.Bad(f.Name+" checkpoint cosigned by own key", signs[0].Pos(), "the presented checkpoint is not opened with the witness's own verifiers")
	}
	isEmpty := func(e ast.Expr) bool { s, ok := constString(info, e); return ok && s == "" }
	c.guardSuccess(f, "no extension line", g.EdgesImplying(func(a Atom) bool { rel, ok := cmpRel(a, ckF("Extension"), isEmpty); return ok && rel == relEQ }), signs,
		"a checkpoint with extension lines is accepted")
	// the origin whose verifiers opened the note is the origin the parsed checkpoint states
	c.guardSuccess(f, "origin of the note is the checkpoint's origin", g.EdgesImplying(func(a Atom) bool {
		rel, ok := cmpRel(a, ckF("Origin"), func(e ast.Expr) bool {
			o := objOf(info, e)
			if o == nil {
				return false
			}
			_, isVar := o.(*types.Var)
			return isVar && !f.IsFieldPathOf(e, func(types.Object) bool { return true }, "Origin")
		})
		return ok && rel == relEQ
	}), signs, "the subtree can be signed for an origin other than the one whose first line selected the verifiers")
	// per-signer re-verification: a note.Open inside the signing loop with VerifierList(s.Verifier())
	var re []Site
	for _, s := range opens {
		if len(first) == 1 && s.P == first[0].P {
			continue
		}
		re = append(re, s)
	}
	if len(re) == 0 {
		c.Bad(f.Name+" per-signer re-verification", signs[0].Pos(), "a key signs without its own cosignature on the re-serialised checkpoint being re-verified")
	} else {
		// same signer object
		var sObj types.Object
		if sel, ok := ast.Unparen(signs[0].Call.Fun).(*ast.SelectorExpr); ok {
			sObj = objOf(info, sel.X)
		}
		okV := false
		if vlc, ok := ast.Unparen(re[0].Call.Args[1]).(*ast.CallExpr); ok && len(vlc.Args) == 1 {
			if vc, ok := ast.Unparen(vlc.Args[0]).(*ast.CallExpr); ok {
				if sel, ok := ast.Unparen(vc.Fun).(*ast.SelectorExpr); ok && sel.Sel.Name == "Verifier" && objOf(info, sel.X) == sObj {
					okV = true
				}
			}
		}
		if !okV {
			c.Bad(f.Name+" per-signer re-verification", re[0].Pos(), "the re-verification does not use only the signing key's own verifier")
		} else {
			// from the loop body, signing requires the re-open's success
			nilE, _ := gateEdges(re, OutNil)
			bad := false
			for _, s := range signs {
				// any path from the re-verification site's block start to the sign that avoids success edges?
				if pt, _ := g.ReachableFromEntry(Cut{Edges: nilE}, atSite(s)); pt != nil {
					bad = true
				}
			}
			if bad || len(nilE) == 0 {
				c.Bad(f.Name+" per-signer re-verification", signs[0].Pos(), "SignSubtree is reachable without the signer's own cosignature having re-verified")
			} else {
				// the text re-verified is the re-serialised checkpoint c.String()
				c.add(Result{Instance: f.Name + " per-signer re-verification", Verdict: Discharged, Sites: sitePositions(re), Detail: "SignSubtree only after note.Open(reserialised, VerifierList(s.Verifier())) succeeded", Witnesses: f.WitEdges(nilE)})
			}
		}
	}
}

func c16b(c *Ctx) {
	f := c.Fn("witness.(*Witness).processSignSubtreeRequest")
	if f == nil {
		return
	}
	info := f.Info()
	var ckObj types.Object
	for _, s := range f.Calls(Callee{pkgTorch, "", "ParseCheckpoint"}) {
		if a, ok := s.Node.(*ast.AssignStmt); ok {
			ckObj = objOf(info, a.Lhs[0])
		}
	}
	ck := func(e ast.Expr, field string) bool {
		r, p, ok := fieldPath(info, e)
		return ok && r == ckObj && ckObj != nil && len(p) == 1 && p[0] == field
	}
	signs := f.Calls(Callee{pkgTorch, "CosignatureSigner", "SignSubtree"})
	valid := f.Find(func(n ast.Node) bool {
		call, ok := n.(*ast.CallExpr)
		return ok && matchCallee(info, call, Callee{pkgTorch, "", "ValidSubtree"})
	})
	check := f.Find(func(n ast.Node) bool {
		call, ok := n.(*ast.CallExpr)
		return ok && matchCallee(info, call, Callee{pkgTorch, "", "CheckSubtree"})
	})
	if len(signs) != 1 || len(valid) != 1 || len(check) != 1 {
		c.Unk(f.Name, fmt.Sprintf("anchors: SignSubtree=%d ValidSubtree=%d CheckSubtree=%d", len(signs), len(valid), len(check)))
		return
	}
	sg, vd, cs := signs[0].Call, valid[0].Call, check[0].Call
	// the same variable, and not written again once it has been validated
	same := func(a, b ast.Expr) bool {
		oa, ob := objOf(info, f.copyRoot(a)), objOf(info, f.copyRoot(b))
		if oa == nil || oa != ob {
			return false
		}
		if len(f.Defs(oa)) == 1 {
			return true
		}
		g := f.Graph()
		for _, d := range f.Defs(oa) {
			ds := f.Find(func(n ast.Node) bool { return n == d.Node })
			if len(ds) != 1 {
				return false
			}
			if pt, _ := g.Reach(valid[0].After(), Cut{}, atSite(ds[0])); pt != nil {
				return false
			}
		}
		return true
	}
	var p []string
	if !ck(argByName(info, sg, "origin"), "Origin") {
		p = append(p, "the origin signed is not the parsed checkpoint's origin")
	}
	if !same(argByName(info, sg, "start"), argByName(info, vd, "start")) || !same(argByName(info, sg, "start"), argByName(info, cs, "start")) {
		p = append(p, "start signed is not the start that was validated / proven")
	}
	if !same(argByName(info, sg, "end"), argByName(info, vd, "end")) || !same(argByName(info, sg, "end"), argByName(info, cs, "end")) {
		p = append(p, "end signed is not the end that was validated / proven")
	}
	if !same(argByName(info, sg, "hash"), argByName(info, cs, "sh")) {
		p = append(p, "the hash signed is not the hash that was proven")
	}
	if !ck(argByName(info, cs, "t"), "N") || !ck(argByName(info, cs, "th"), "Hash") {
		p = append(p, "the proof is not checked against the presented checkpoint's size and root")
	}
	if len(p) > 0 {
		c.Bad(f.Name+" operands", signs[0].Pos(), strings.Join(p, "; "))
	} else {
		c.add(Result{Instance: f.Name + " operands", Verdict: Discharged, Evals: 6, Sites: []string{signs[0].Pos()}, Detail: "SignSubtree(c.Origin, start, end, hash) = values of ValidSubtree / CheckSubtree(proof, c.N, c.Hash, start, end, hash)"})
	}
}

func c16c(c *Ctx) {
	f := c.Fn("witness.(*Witness).processSignSubtreeRequest")
	if f == nil {
		return
	}
	info := f.Info()
	g := f.Graph()
	recv := f.recvObj()
	// the list ranged over by the signing loop
	signs := f.Calls(Callee{pkgTorch, "CosignatureSigner", "SignSubtree"})
	if len(signs) == 0 {
		return
	}
	var sObj types.Object
	if sel, ok := ast.Unparen(signs[0].Call.Fun).(*ast.SelectorExpr); ok {
		sObj = objOf(info, sel.X)
	}
	var listObj types.Object
	for _, d := range f.Defs(sObj) {
		if d.Kind == DefRange && d.Idx == 1 {
			listObj = objOf(info, d.Rhs)
		}
	}
	if listObj == nil {
		c.Bad(f.Name+" signer list", signs[0].Pos(), "the signing key is not taken from the list of keys whose cosignature was found")
		return
	}
	// sig loop variable: range n.Sigs
	n := 0
	for _, s := range f.Find(func(x ast.Node) bool {
		a, ok := x.(*ast.AssignStmt)
		if !ok || len(a.Lhs) != 1 || objOf(info, a.Lhs[0]) != listObj || len(a.Rhs) != 1 {
			return false
		}
		call, ok := ast.Unparen(a.Rhs[0]).(*ast.CallExpr)
		return ok && isBuiltinCall(info, call, "append")
	}) {
		n++
		call := ast.Unparen(s.X.(*ast.AssignStmt).Rhs[0]).(*ast.CallExpr)
		inst := fmt.Sprintf("%s append %s", f.Name, exprString(call.Args[1]))
		var fld string
		for _, cand := range []string{"s2", "sm"} {
			if f.IsFieldPathOf(call.Args[1], func(o types.Object) bool { return o == recv }, cand) {
				fld = cand
			}
		}
		if fld == "" || len(call.Args) != 2 {
			c.Bad(inst, s.Pos(), "a key other than the witness's / mirror's ML-DSA cosigner can be selected for subtree signing")
			continue
		}
		isKeyCall := func(e ast.Expr, method string) bool {
			call, ok := ast.Unparen(e).(*ast.CallExpr)
			return ok && isMethodOnPath(f, call, method, func(o types.Object) bool { return o == recv }, fld)
		}
		isSigField := func(field string) func(ast.Expr) bool {
			return func(e ast.Expr) bool {
				r, p, ok := fieldPath(info, e)
				if !ok || len(p) != 1 || p[0] != field || r == nil {
					return false
				}
				// r ranges over <note>.Sigs
				for _, d := range f.Defs(r) {
					if d.Kind == DefRange {
						if _, pp, ok := fieldPath(info, d.Rhs); ok && len(pp) == 1 && pp[0] == "Sigs" {
							return true
						}
					}
				}
				return false
			}
		}
		nameEq := g.EdgesImplying(func(a Atom) bool {
			rel, ok := cmpRel(a, func(e ast.Expr) bool { return isKeyCall(e, "Name") }, isSigField("Name"))
			return ok && rel == relEQ
		})
		hashEq := g.EdgesImplying(func(a Atom) bool {
			rel, ok := cmpRel(a, func(e ast.Expr) bool { return isKeyCall(e, "KeyHash") }, isSigField("Hash"))
			return ok && rel == relEQ
		})
		switch {
		case len(nameEq) == 0 || len(hashEq) == 0:
			c.Bad(inst, s.Pos(), "the cosigner is selected without matching both the name and the key hash of a verified signature")
		default:
			p1, _ := g.ReachableFromEntry(Cut{Edges: nameEq}, atSite(s))
			p2, _ := g.ReachableFromEntry(Cut{Edges: hashEq}, atSite(s))
			if p1 != nil || p2 != nil {
				c.Bad(inst, s.Pos(), "the cosigner can be selected although no verified signature carries its name and key hash")
			} else {
				c.add(Result{Instance: inst, Verdict: Discharged, Evals: 2, Sites: []string{s.Pos()}, Detail: "selected only when sig.Name == key.Name() and sig.Hash == key.KeyHash() for a verified signature", Witnesses: append(f.WitEdges(nameEq), f.WitEdges(hashEq)...)})
			}
		}
	}
	if n == 0 {
		c.Bad(f.Name+" signer list", signs[0].Pos(), "the signer list is never filled from matching verified signatures")
	}
	// no other definition of the list than `var signers` + appends
	for _, d := range f.Defs(listObj) {
		if d.Kind == DefZero {
			continue
		}
		if d.Kind == DefAssign {
			if call, ok := ast.Unparen(d.Rhs).(*ast.CallExpr); ok && isBuiltinCall(info, call, "append") {
				continue
			}
		}
		c.Bad(f.Name+" signer list", f.Pos(d.Node), "the signer list is initialised with keys regardless of the signatures present")
	}
}

func c16d(c *Ctx) {
	n := 0
	where := ""
	for _, f := range c.P.Funcs("") {
		if f.Body == nil {
			continue
		}
		for _, s := range f.Calls(Callee{pkgTorch, "CosignatureSigner", "SignSubtree"}) {
			n++
			where = f.Name + " " + s.Pos()
			if f.Name != "witness.(*Witness).processSignSubtreeRequest" {
				c.Bad("SignSubtree in "+f.Name, s.Pos(), "subtree cosignatures are produced outside the guarded handler")
			}
		}
	}
	if n == 1 {
		c.OK("SignSubtree call sites", where, nil)
	} else if n == 0 {
		c.Unk("SignSubtree call sites", "no call site")
	}
}

func c16e(c *Ctx) {
	if f := c.Fn("witness.(*Witness).serveSignSubtree"); f != nil {
		c.compareStatus(f.Name+" status table", f, map[string]int64{
			"errUnknownLog": 404, "errInvalidSignature": 403, "errBadRequest": 400, "errBadCheckpoint": 400, "errExtensions": 400, "errProof": 422,
		})
	}
	f := c.Fn("witness.(*Witness).processSignSubtreeRequest")
	if f == nil {
		return
	}
	info := f.Info()
	g := f.Graph()
	bad := g.EdgesImplying(func(a Atom) bool {
		eq, ok := isNilCmp(info, a.E, func(e ast.Expr) bool {
			call, ok := ast.Unparen(e).(*ast.CallExpr)
			return ok && matchCallee(info, call, Callee{pkgTorch, "", "CheckSubtree"})
		})
		return ok && eq != a.Val
	})
	c.returnsSentinelOn(f.Name+" bad proof", f, bad, "errProof", "a subtree proof that does not verify")
	invalid := g.EdgesImplying(func(a Atom) bool {
		call, ok := ast.Unparen(a.E).(*ast.CallExpr)
		return ok && !a.Val && matchCallee(info, call, Callee{pkgTorch, "", "ValidSubtree"})
	})
	c.returnsSentinelOn(f.Name+" invalid range", f, invalid, "errBadRequest", "an invalid subtree range")
}
