package main

// Obligations, verdicts, evidence and known findings.

import (
	"encoding/json"
	"fmt"
	"os"
	"path/filepath"
	"sort"
	"strings"
)

type Verdict string

const (
	Discharged Verdict = "discharged"
	Violated   Verdict = "violated"
	Undecided  Verdict = "undecided"
)

// Witness is a source range whose neutralisation must make the obligation
// fail; it is what the thorough-tier self-test mutates (in memory only).
type Witness struct {
	File  string `json:"file"`
	Start int    `json:"start"` // byte offsets
	End   int    `json:"end"`
	Repl  string `json:"repl"` // replacement text
	Kind  string `json:"kind"`
	Pos   string `json:"pos"`
}

// Result is one decided instance of an obligation.
type Result struct {
	Obligation string    `json:"obligation"` // "C01.a"
	Title      string    `json:"title"`
	Template   string    `json:"template"`
	Instance   string    `json:"instance"` // construct: function / callee / table cell
	Sites      []string  `json:"sites,omitempty"`
	Verdict    Verdict   `json:"verdict"`
	Detail     string    `json:"detail,omitempty"`
	Evals      int       `json:"evaluations"` // cuts / paths / cells evaluated
	Witnesses  []Witness `json:"-"`
	Known      bool      `json:"known_finding,omitempty"`
}

func (r Result) Key() string { return r.Obligation + "|" + r.Instance }

// Obligation is one rule of a property.
type Obligation struct {
	ID       string // "C01.a"
	Title    string
	Template string
	Rule     string // one-sentence statement of the rule applied
	MinInst  int    // frozen minimum number of instances confirmed by hand
	Run      func(c *Ctx)
}

type Property struct {
	ID          string
	Title       string
	Explanation string
	Assumptions []string
	Obligations []*Obligation
}

var registry = map[string]*Property{}

func register(p *Property) { registry[p.ID] = p }

// Ctx is handed to an obligation while it runs.
type Ctx struct {
	P       *Program
	Prop    *Property
	Ob      *Obligation
	Tier    string
	Results []Result
	funcs   map[string]bool
	evals   int
}

func (c *Ctx) touch(f *Func) {
	if f != nil {
		c.funcs[f.Name] = true
	}
}

func (c *Ctx) add(r Result) {
	r.Obligation, r.Title, r.Template = c.Ob.ID, c.Ob.Title, c.Ob.Template
	if r.Evals == 0 {
		r.Evals = 1
	}
	c.Results = append(c.Results, r)
}

// OK records a discharged instance.
func (c *Ctx) OK(instance string, detail string, sites []string, w ...Witness) {
	c.add(Result{Instance: instance, Verdict: Discharged, Detail: detail, Sites: sites, Witnesses: w})
}

// Bad records a violated instance; pos names the offending construct.
func (c *Ctx) Bad(instance, pos, detail string) {
	c.add(Result{Instance: instance, Verdict: Violated, Detail: detail, Sites: []string{pos}})
}

// Unk records an instance the rule could not decide (anchor missing, idiom
// not recognised). It fails the check like a violation.
func (c *Ctx) Unk(instance, detail string) {
	c.add(Result{Instance: instance, Verdict: Undecided, Detail: detail})
}

// Fn fetches a declared function by name or records an undecided instance.
func (c *Ctx) Fn(name string) *Func {
	f := c.P.Fn(name)
	if f == nil {
		c.Unk(name, "anchor function not found")
		return nil
	}
	c.touch(f)
	return f
}

// ---------------------------------------------------------------------------
// Known findings.

type KnownFinding struct {
	Status     string `json:"status"` // "known" | "fixed"
	Property   string `json:"property"`
	Obligation string `json:"obligation"`
	Instance   string `json:"instance"`
	What       string `json:"what"`
	Commit     string `json:"commit,omitempty"`
}

func loadKnown(path string) ([]KnownFinding, error) {
	b, err := os.ReadFile(path)
	if os.IsNotExist(err) {
		return nil, nil
	}
	if err != nil {
		return nil, err
	}
	var f struct {
		Findings []KnownFinding `json:"findings"`
	}
	if err := json.Unmarshal(b, &f); err != nil {
		return nil, err
	}
	return f.Findings, nil
}

// ---------------------------------------------------------------------------
// Evidence.

type evidence struct {
	PropertyID  string         `json:"property_id"`
	Tier        string         `json:"tier"`
	Seed        int            `json:"seed"`
	Level       string         `json:"level"`
	Coverage    map[string]any `json:"coverage"`
	Assumptions []string       `json:"assumptions"`
	WallS       float64        `json:"wall_s"`
	Violations  int            `json:"violations"`
}

var trustedBase = []string{
	"Go type checker (go/types) and golang.org/x/tools v0.50.0 (go/packages, go/cfg, go/ssa, callgraph)",
	"sunlint's own cut-reachability, condition-implication, lockset and value-resolution code (sunlint/*.go)",
	"the frozen tables inside each rule (callee specs, protected-field tables, status tables), listed in DESIGN.md section 3",
	"documented semantics of dependencies (tlog, torchwood, note, cryptobyte, ctfe, os.Root, errgroup, SQLite, DynamoDB, S3): their bodies are not analysed",
}

func writeEvidence(dir string, prop *Property, tier string, seed int, progs []*Program, results []Result,
	funcs map[string]bool, selftest map[string]any, wall float64, cmd string) error {

	nOb := map[string]bool{}
	discharged, violations := 0, 0
	evals := 0
	distinct := map[string]bool{}
	var samples []any
	for _, r := range results {
		nOb[r.Obligation] = true
		evals += r.Evals
		if r.Verdict == Discharged {
			discharged++
		} else if !r.Known {
			violations++
		}
		if len(r.Sites) > 0 || r.Verdict == Discharged {
			distinct[r.Key()] = true
		}
		samples = append(samples, r)
	}
	var fl []string
	for f := range funcs {
		fl = append(fl, f)
	}
	sort.Strings(fl)
	var cfgs []string
	pk := 0
	for _, p := range progs {
		cfgs = append(cfgs, p.Config)
		if len(p.All) > pk {
			pk = len(p.All)
		}
	}
	var rules []map[string]string
	for _, o := range prop.Obligations {
		rules = append(rules, map[string]string{"id": o.ID, "title": o.Title, "template": o.Template, "rule": o.Rule})
	}
	cov := map[string]any{
		"explanation":         prop.Explanation,
		"obligations":         len(results),
		"discharged":          discharged,
		"evaluations":         evals,
		"distinct_nontrivial": len(distinct),
		"rule": "one case = one obligation instance (rule x construct resolved on the current tree); evaluations additionally count every CFG cut / ordering / table cell the instance evaluated; " +
			"an instance is non-trivial when its anchor resolved to at least one site in /repo; distinct by rule+construct",
		"samples":             samples,
		"rules":               rules,
		"checker_cmd":         cmd,
		"trusted_base":        trustedBase,
		"functions_analysed":  fl,
		"packages_loaded":     pk,
		"build_configs":       cfgs,
		"exhaustive":          false,
		"obligation_families": len(nOb),
	}
	for k, v := range selftest {
		cov[k] = v
	}
	ev := evidence{PropertyID: prop.ID, Tier: tier, Seed: seed, Level: "other", Coverage: cov,
		Assumptions: prop.Assumptions, WallS: wall, Violations: violations}
	b, err := json.MarshalIndent(ev, "", " ")
	if err != nil {
		return err
	}
	if err := os.MkdirAll(dir, 0o755); err != nil {
		return err
	}
	return os.WriteFile(filepath.Join(dir, prop.ID+".json"), b, 0o644)
}

type replayFile struct {
	Property   string   `json:"property"`
	Obligation string   `json:"obligation"`
	Instance   string   `json:"instance"`
	Verdict    string   `json:"verdict"`
	Detail     string   `json:"detail"`
	Sites      []string `json:"sites"`
	Rule       string   `json:"rule"`
	Tier       string   `json:"tier"`
}

func sanitize(s string) string {
	r := strings.NewReplacer("/", "_", " ", "_", "*", "", "(", "", ")", "", "|", "_", ":", "_", "\"", "", "'", "", "[", "_", "]", "", "=", "-", ",", "_", "<", "lt", ">", "gt", "$", "_", "?", "", "&", "")
	s = r.Replace(s)
	if len(s) > 60 {
		s = s[:60]
	}
	return s
}

func writeReplay(dir string, prop *Property, r Result, rule, tier string) (string, error) {
	rd := filepath.Join(dir, "replay")
	if err := os.MkdirAll(rd, 0o755); err != nil {
		return "", err
	}
	name := fmt.Sprintf("%s-%s-%s.json", prop.ID, sanitize(r.Obligation), sanitize(r.Instance))
	path := filepath.Join(rd, name)
	b, _ := json.MarshalIndent(replayFile{prop.ID, r.Obligation, r.Instance, string(r.Verdict), r.Detail, r.Sites, rule, tier}, "", " ")
	return path, os.WriteFile(path, b, 0o644)
}
