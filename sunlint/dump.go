package main

import (
	"fmt"
	"os"
)

// dumpCFG prints the control-flow graph of a function (debug aid: -dump name).
func dumpCFG(p *Program, name string) {
	f := p.Fn(name)
	if f == nil {
		fmt.Fprintln(os.Stderr, "no such function", name)
		return
	}
	g := f.Graph()
	for _, b := range g.Blocks {
		fmt.Printf("block %d %s succs=", b.Index, b.Kind)
		for _, s := range b.Succs {
			fmt.Printf("%d ", s.Index)
		}
		fmt.Println()
		for _, n := range b.Nodes {
			fmt.Printf("    %s  %s\n", f.Pos(n), nodeStr(n))
		}
	}
}
