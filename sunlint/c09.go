package main

// C09 - submissions are validated and turned into the RFC 6962 leaf correctly.

import (
	"fmt"
	"go/ast"
	"go/types"
	"golang.org/x/tools/go/cfg"
	"sort"
	"strings"
)

const pkgCtfe = "github.com/google/certificate-transparency-go/trillian/ctfe"
const pkgCTx509 = "github.com/google/certificate-transparency-go/x509"

func init() {
	register(&Property{
		ID:    "C09",
		Title: "Submissions are validated and turned into the RFC 6962 leaf correctly",
		Explanation: "Argument-by-parameter-name value flow, guard dominance, route/polarity tables, lock discipline and status-table obligations on Handler, addChain, addPreChain, addChainOrPreChain, getRoots and SetRootsFromPEM. " +
			"Decided: ValidateChain is called with the log's current root pool, the shard window pointers in the right order, no expiry/CA-only filtering and the serverAuth EKU; every field of the pending entry derives from the validated chain; the endpoint/type check of each endpoint has the right polarity, precedes admission and fails with 400; the issuer key hash comes from chain[2] exactly when a precertificate signing certificate is present (else chain[1]), the preissuer is chain[1] exactly when it has the CT EKU, index accesses are dominated by length guards and BuildPrecertTBS gets that preissuer; every chain certificate after the leaf becomes an issuer; one accessor feeds validation and get-roots, root state is guarded by its mutex and swapped only after the persisted upload succeeded; validation failures map to client errors. " +
			"NOT decided: X.509 path validation, window boundary arithmetic and TBS defanging inside ctfe/x509; comparison with an independent implementation.",
		Assumptions: []string{"ctfe.ValidateChain, ctfe.IsPrecertificate, ct.IsPreIssuer and x509.BuildPrecertTBS implement RFC 6962 as documented"},
		Obligations: []*Obligation{
			{ID: "C09.a", Title: "VALIDATE-ARGS", Template: "T6", MinInst: 7,
				Rule: "NewCertValidationOpts arguments by parameter name: trustedRoots <- l.rootPool(), notAfterStart/Limit <- &l.c.NotAfterStart/Limit, rejectExpired = rejectUnexpired = acceptOnlyCA = false, extKeyUsages contains ServerAuth; ValidateChain gets the request chain", Run: c09a},
			{ID: "C09.b", Title: "VALIDATED-FLOW", Template: "T6+T2", MinInst: 3,
				Rule: "the PendingLogEntry handed to addLeafToPool is built only from ValidateChain's result, after its success; its failure returns 400", Run: c09b},
			{ID: "C09.c", Title: "ENDPOINT-TYPE", Template: "T5+T2", MinInst: 5,
				Rule: "routes map add-chain/add-pre-chain to their handlers; each handler's type check rejects exactly the other type; the check precedes addLeafToPool and its failure returns 400", Run: c09c},
			{ID: "C09.d", Title: "ISSUER-KEY-HASH", Template: "T7", MinInst: 5,
				Rule: "IssuerKeyHash = sha256(chain[2].SPKI) on the preIssuer != nil edge else sha256(chain[1].SPKI); preIssuer = chain[1] only under IsPreIssuer(chain[1]); chain[1]/chain[2] accesses are dominated by len(chain) >= 2 / >= 3; BuildPrecertTBS(chain[0].RawTBSCertificate, preIssuer)", Run: c09d},
			{ID: "C09.e", Title: "ISSUERS", Template: "T6", MinInst: 1,
				Rule: "Issuers is the Raw of every element of chain[1:], Certificate is chain[0].Raw (or the defanged TBS for precertificates), PreCertificate is chain[0].Raw", Run: c09e},
			{ID: "C09.f", Title: "ROOTS", Template: "T3+T1+T4", MinInst: 5,
				Rule: "Log.roots/rootsPEM only under rootsMu; swapped only after the _roots.pem upload succeeded; validation and get-roots read through rootPool()", Run: c09f},
			{ID: "C09.g", Title: "REJECT-STATUS", Template: "T5", MinInst: 5,
				Rule: "every rejection before admission returns a 4xx status, except the two internal failures (body read, TBS construction) which return 500", Run: c09g},
			{ID: "C09.i", Title: "REJECT-INVENTORY", Template: "T2+T4", MinInst: 1,
				Rule: "every return of the submission handler that precedes admission lies behind a refusing outcome of a recognised validator (body read/parse, empty or short chain, ValidateChain, IsPrecertificate, BuildPrecertTBS, the endpoint's type check): no other condition refuses a chain", Run: c09i},
			{ID: "C09.k", Title: "ISSUERS-FOR-EVERY-ANSWER", Template: "T1", MinInst: 1,
				Rule: "in the admission function no outcome (new leaf, duplicate in the pool, duplicate being sequenced, cache hit) is reachable without entering the loop that uploads every certificate of the submitted chain: a resubmission through a different chain still makes that chain's certificates retrievable issuers",
				Run:  c09k},
			{ID: "C09.j", Title: "TYPE-BRANCHES", Template: "T1", MinInst: 3,
				Rule: "from the IsPrecertificate == true edge the pool is reached only through e.IsPrecert = true; from the IsPreIssuer(chain[1]) == true edge BuildPrecertTBS is reached only through preIssuer = chain[1]; both edges are live; in SetRootsFromPEM the upload and the pool swap are unreachable unless the new roots parsed", Run: c09j},
		},
	})
}

func c09a(c *Ctx) {
	f := c.Fn("ctlog.(*Log).addChainOrPreChain")
	if f == nil {
		return
	}
	info := f.Info()
	recv := f.recvObj()
	isRecv := func(o types.Object) bool { return o == recv }
	opts := f.Calls(Callee{pkgCtfe, "", "NewCertValidationOpts"})
	val := f.Calls(Callee{pkgCtfe, "", "ValidateChain"})
	if len(opts) != 1 || len(val) != 1 {
		c.Unk(f.Name, fmt.Sprintf("expected one NewCertValidationOpts and one ValidateChain call, found %d/%d", len(opts), len(val)))
		return
	}
	call := opts[0].Call
	pos := opts[0].Pos()
	chk := func(name string, ok bool, detail, fail string) {
		inst := f.Name + " " + name
		if ok {
			c.OK(inst, detail, []string{pos})
		} else {
			c.Bad(inst, pos, fail)
		}
	}
	// trustedRoots
	tr := argByName(info, call, "trustedRoots")
	rp, okRP := ast.Unparen(f.ResolveDeep(tr).E).(*ast.CallExpr)
	chk("trustedRoots", okRP && matchCallee(info, rp, Callee{pkgCtlog, "Log", "rootPool"}) && isMethodOnPath(f, rp, "rootPool", isRecv),
		"l.rootPool()", "chains are not validated against the log's current root pool")
	addrOf := func(e ast.Expr, path ...string) bool {
		u, ok := ast.Unparen(e).(*ast.UnaryExpr)
		return ok && f.IsFieldPathOf(u.X, isRecv, path...)
	}
	chk("notAfterStart", addrOf(argByName(info, call, "notAfterStart"), "c", "NotAfterStart"), "&l.c.NotAfterStart", "the window start passed to validation is not the shard's NotAfterStart")
	chk("notAfterLimit", addrOf(argByName(info, call, "notAfterLimit"), "c", "NotAfterLimit"), "&l.c.NotAfterLimit", "the window limit passed to validation is not the shard's NotAfterLimit")
	for _, nm := range []string{"rejectExpired", "rejectUnexpired", "acceptOnlyCA"} {
		b, ok := constBool(info, argByName(info, call, nm))
		chk(nm, ok && !b, nm+" = false", nm+" must be false: the acceptance set would differ from the documented one")
	}
	eku := argByName(info, call, "extKeyUsages")
	okEKU := false
	if cl, ok := ast.Unparen(eku).(*ast.CompositeLit); ok {
		for _, el := range cl.Elts {
			if sel, ok := ast.Unparen(el).(*ast.SelectorExpr); ok && sel.Sel.Name == "ExtKeyUsageServerAuth" {
				okEKU = true
			}
		}
		if len(cl.Elts) != 1 {
			okEKU = false
		}
	}
	chk("extKeyUsages", okEKU, "[ServerAuth]", "validation does not require exactly the TLS server authentication EKU")
	// ValidateChain(req.Chain, opts)
	v := val[0].Call
	_, okOpts := f.IsCallResult(argByName(info, v, "validationOpts"), -1, Callee{pkgCtfe, "", "NewCertValidationOpts"})
	_, p, okPath := fieldPath(info, argByName(info, v, "rawChain"))
	chk("ValidateChain operands", okOpts && okPath && len(p) == 1 && p[0] == "Chain", "ValidateChain(req.Chain, opts)", "ValidateChain is not applied to the submitted chain with those options")
}

// chainObj returns the variable holding ValidateChain's result.
func chainObj(f *Func) (types.Object, Site, bool) {
	for _, s := range f.Calls(Callee{pkgCtfe, "", "ValidateChain"}) {
		if a, ok := s.Node.(*ast.AssignStmt); ok && len(a.Lhs) == 2 {
			return objOf(f.Info(), a.Lhs[0]), s, true
		}
	}
	return nil, Site{}, false
}

func c09b(c *Ctx) {
	f := c.Fn("ctlog.(*Log).addChainOrPreChain")
	if f == nil {
		return
	}
	info := f.Info()
	g := f.Graph()
	chain, vs, ok := chainObj(f)
	if !ok {
		c.Unk(f.Name, "ValidateChain result not bound")
		return
	}
	add := f.Calls(Callee{pkgCtlog, "Log", "addLeafToPool"})
	c.requireGate(f.Name+" admission after validation", f, []Site{vs}, OutNil, add, "addLeafToPool after ValidateChain succeeded")
	// failure => 400
	_, nonNil, _, _ := OutcomeEdges(vs)
	bad := false
	n := 0
	for e := range nonNil {
		for _, r := range g.ReturnsFrom(EdgeStart(e), Cut{}) {
			n++
			if len(r.Results) != 3 {
				bad = true
				continue
			}
			if v, ok := constInt(info, r.Results[1]); !ok || v != 400 {
				c.Bad(f.Name+" invalid chain status", f.Pos(r), "an invalid chain is not answered with 400")
				bad = true
			}
		}
	}
	if !bad && n > 0 {
		c.OK(f.Name+" invalid chain status", "ValidateChain failure returns 400", []string{vs.Pos()})
	} else if n == 0 {
		c.Bad(f.Name+" invalid chain status", vs.Pos(), "ValidateChain's error does not lead to a return")
	}
	// the entry passed to addLeafToPool: every store to its fields derives from chain
	if len(add) != 1 {
		return
	}
	eObj := objOf(info, argByName(info, add[0].Call, "leaf"))
	if eObj == nil {
		c.Unk(f.Name+" entry provenance", "entry variable not found")
		return
	}
	fromChain := func(e ast.Expr) bool {
		ok := false
		depth := 0
		var walk func(x ast.Expr)
		walk = func(x ast.Expr) {
			depth++
			if depth > 40 || ok {
				return
			}
			v := f.ResolveDeep(x)
			ast.Inspect(v.E, func(n ast.Node) bool {
				id, isId := n.(*ast.Ident)
				if !isId {
					return true
				}
				o := info.Uses[id]
				if o == chain {
					ok = true
					return false
				}
				if o != nil && isLocal(o) && o != eObj {
					for _, d := range f.Defs(o) {
						if d.Rhs != nil && d.Rhs != x {
							walk(d.Rhs)
						}
					}
				}
				return true
			})
		}
		walk(e)
		return ok
	}
	badStore := ""
	nStores := 0
	check := func(field string, rhs ast.Expr, pos string) {
		nStores++
		if b, isB := constBool(info, rhs); isB && field == "IsPrecert" {
			_ = b
			return
		}
		if !fromChain(rhs) {
			badStore = fmt.Sprintf("%s at %s is set from %s", field, pos, exprString(rhs))
		}
	}
	for _, d := range f.Defs(eObj) {
		if d.Kind != DefAssign {
			continue
		}
		r := ast.Unparen(d.Rhs)
		if u, ok := r.(*ast.UnaryExpr); ok {
			r = u.X
		}
		if cl, ok := ast.Unparen(r).(*ast.CompositeLit); ok {
			for _, el := range cl.Elts {
				if kv, ok := el.(*ast.KeyValueExpr); ok {
					check(exprString(kv.Key), kv.Value, f.Pos(kv))
				}
			}
		}
	}
	for _, s := range f.Find(func(n ast.Node) bool { _, ok := n.(*ast.AssignStmt); return ok }) {
		a := s.X.(*ast.AssignStmt)
		for i, l := range a.Lhs {
			r, p, ok := fieldPath(info, l)
			if ok && r == eObj && len(p) == 1 && i < len(a.Rhs) {
				check(p[0], a.Rhs[i], s.Pos())
			}
		}
	}
	if badStore != "" {
		c.Bad(f.Name+" entry provenance", add[0].Pos(), "a field of the pending entry does not derive from the validated chain: "+badStore)
	} else {
		c.add(Result{Instance: f.Name + " entry provenance", Verdict: Discharged, Evals: nStores, Sites: []string{add[0].Pos()}, Detail: fmt.Sprintf("%d field assignments, all derived from ValidateChain's result", nStores)})
	}
}

func c09c(c *Ctx) {
	h := c.Fn("ctlog.(*Log).Handler")
	if h != nil {
		info := h.Info()
		// pattern -> handler variable -> wrapped method
		wraps := func(e ast.Expr) string {
			// follow reassignments `x = promhttp.Instrument...(…, x)` back to http.HandlerFunc(l.method)
			o := objOf(info, e)
			if o == nil {
				return ""
			}
			for _, d := range h.Defs(o) {
				if d.Kind != DefAssign {
					continue
				}
				found := ""
				ast.Inspect(d.Rhs, func(n ast.Node) bool {
					if sel, ok := n.(*ast.SelectorExpr); ok {
						if fn, ok := info.Uses[sel.Sel].(*types.Func); ok && recvName(fn) == "Log" && fn.Pkg().Path() == pkgCtlog {
							found = fn.Name()
						}
					}
					return true
				})
				if found != "" {
					return found
				}
			}
			return ""
		}
		want := map[string]string{"POST /ct/v1/add-chain": "addChain", "POST /ct/v1/add-pre-chain": "addPreChain", "GET /ct/v1/get-roots": "getRoots"}
		got := map[string]string{}
		for _, s := range h.Calls(Callee{"net/http", "ServeMux", "Handle"}, Callee{"net/http", "ServeMux", "HandleFunc"}) {
			pat, _ := constString(info, s.Call.Args[0])
			got[pat] = wraps(s.Call.Args[1])
		}
		for pat, m := range want {
			inst := "route " + pat
			if got[pat] == m {
				c.OK(inst, "-> "+m, []string{h.Pos(h.Decl)})
			} else {
				c.Bad(inst, h.Pos(h.Decl), fmt.Sprintf("route %q is served by %q instead of %s", pat, got[pat], m))
			}
		}
	}
	for _, ep := range []struct {
		name      string
		rejectPre bool
	}{{"ctlog.(*Log).addChain", true}, {"ctlog.(*Log).addPreChain", false}} {
		f := c.Fn(ep.name)
		if f == nil {
			continue
		}
		calls := f.Calls(Callee{pkgCtlog, "Log", "addChainOrPreChain"})
		inst := f.Name + " type check polarity"
		if len(calls) != 1 {
			c.Unk(inst, "addChainOrPreChain call not found")
			continue
		}
		lit, ok := ast.Unparen(f.ResolveDeep(argByName(f.Info(), calls[0].Call, "checkType")).E).(*ast.FuncLit)
		if !ok {
			c.Unk(inst, "type check is not a literal")
			continue
		}
		lf := c.P.FuncOfLit(lit)
		c.touch(lf)
		info := lf.Info()
		g := lf.Graph()
		isPre := func(e ast.Expr) bool {
			_, p, ok := fieldPath(info, e)
			return ok && len(p) == 1 && p[0] == "IsPrecert"
		}
		// the edges on which the entry is of the accepted type
		accepted := g.EdgesImplying(func(a Atom) bool { return isPre(a.E) && a.Val == !ep.rejectPre })
		var okRets, errRets []Site
		for _, r := range lf.Returns() {
			e := r.X.(*ast.ReturnStmt).Results[0]
			if isNilIdent(info, e) {
				okRets = append(okRets, r)
			} else {
				errRets = append(errRets, r)
			}
		}
		rejected := g.EdgesImplying(func(a Atom) bool { return isPre(a.E) && a.Val == ep.rejectPre })
		switch {
		case len(accepted) == 0 || len(okRets) == 0 || len(errRets) == 0:
			c.Bad(inst, lf.Pos(lit), "the endpoint does not distinguish certificates from precertificates")
		default:
			p1, _ := g.ReachableFromEntry(Cut{Edges: accepted}, atAnySite(okRets))
			p2, _ := g.ReachableFromEntry(Cut{Edges: rejected}, atAnySite(errRets))
			if p1 != nil || p2 != nil {
				c.Bad(inst, lf.Pos(lit), fmt.Sprintf("%s accepts the wrong entry type (precertificates must be %s here)", f.Name, map[bool]string{true: "rejected", false: "required"}[ep.rejectPre]))
			} else {
				c.add(Result{Instance: inst, Verdict: Discharged, Evals: 2, Sites: []string{lf.Pos(lit)}, Detail: fmt.Sprintf("nil only when IsPrecert == %v", !ep.rejectPre), Witnesses: lf.WitEdges(accepted)})
			}
		}
	}
	// the check precedes admission, failure => 400
	f := c.Fn("ctlog.(*Log).addChainOrPreChain")
	if f == nil {
		return
	}
	info := f.Info()
	g := f.Graph()
	ct := f.paramObj("checkType")
	checks := f.Find(func(n ast.Node) bool {
		call, ok := n.(*ast.CallExpr)
		return ok && objOf(info, call.Fun) == ct && ct != nil
	})
	add := f.Calls(Callee{pkgCtlog, "Log", "addLeafToPool"})
	if len(checks) == 1 && len(add) == 1 && objOf(info, checks[0].Call.Args[0]) != objOf(info, argByName(info, add[0].Call, "leaf")) {
		c.Bad(f.Name+" type check operand", checks[0].Pos(), "the type check is applied to a different entry than the one admitted")
	}
	if c.requireGate(f.Name+" type check before admission", f, checks, OutNil, add, "addLeafToPool after the endpoint/type check passed") {
		_, nonNil, _, _ := OutcomeEdges(checks[0])
		ok := true
		for e := range nonNil {
			for _, r := range g.ReturnsFrom(EdgeStart(e), Cut{}) {
				if v, isC := constInt(info, r.Results[1]); !isC || v != 400 {
					ok = false
				}
			}
		}
		if ok {
			c.OK(f.Name+" wrong endpoint status", "type mismatch returns 400", []string{checks[0].Pos()})
		} else {
			c.Bad(f.Name+" wrong endpoint status", checks[0].Pos(), "a submission to the wrong endpoint is not answered with 400")
		}
	}
}

func c09d(c *Ctx) {
	f := c.Fn("ctlog.(*Log).addChainOrPreChain")
	if f == nil {
		return
	}
	info := f.Info()
	g := f.Graph()
	chain, _, ok := chainObj(f)
	if !ok {
		c.Unk(f.Name, "chain not found")
		return
	}
	isChainIdx := func(e ast.Expr, k int64) bool {
		ix, ok := ast.Unparen(e).(*ast.IndexExpr)
		if !ok || objOf(info, ix.X) != chain {
			return false
		}
		v, isC := constInt(info, ix.Index)
		return isC && v == k
	}
	// preIssuer variable: argument of BuildPrecertTBS
	tbs := f.Calls(Callee{pkgCTx509, "", "BuildPrecertTBS"})
	if len(tbs) != 1 {
		c.Unk(f.Name, "BuildPrecertTBS call not found")
		return
	}
	pre := objOf(info, argByName(info, tbs[0].Call, "preIssuer"))
	tb := argByName(info, tbs[0].Call, "tbsData")
	okTBS := false
	if sel, ok := ast.Unparen(tb).(*ast.SelectorExpr); ok && sel.Sel.Name == "RawTBSCertificate" && isChainIdx(sel.X, 0) {
		okTBS = true
	}
	if okTBS && pre != nil {
		c.OK(f.Name+" BuildPrecertTBS operands", "BuildPrecertTBS(chain[0].RawTBSCertificate, preIssuer)", []string{tbs[0].Pos()})
	} else {
		c.Bad(f.Name+" BuildPrecertTBS operands", tbs[0].Pos(), "the TBS is not defanged from the leaf with the detected precertificate signing certificate")
		return
	}
	// preIssuer assignments: only chain[1], only under IsPreIssuer(chain[1])
	isPreIssuerCall := func(e ast.Expr) bool {
		call, ok := ast.Unparen(e).(*ast.CallExpr)
		return ok && matchCallee(info, call, Callee{pkgCT, "", "IsPreIssuer"}) && len(call.Args) == 1 && isChainIdx(call.Args[0], 1)
	}
	eku := g.EdgesImplying(func(a Atom) bool { return isPreIssuerCall(a.E) && a.Val })
	nAssign := 0
	for _, d := range f.Defs(pre) {
		if d.Kind == DefZero {
			continue
		}
		nAssign++
		inst := f.Name + " preIssuer assignment"
		if d.Kind != DefAssign || !isChainIdx(d.Rhs, 1) {
			c.Bad(inst, f.Pos(d.Node), "preIssuer is set to something other than chain[1]")
			continue
		}
		sites := f.Find(func(n ast.Node) bool { return n == d.Node })
		if len(eku) == 0 || len(sites) == 0 {
			c.Bad(inst, f.Pos(d.Node), "preIssuer is set without testing IsPreIssuer(chain[1])")
			continue
		}
		if pt, _ := g.ReachableFromEntry(Cut{Edges: eku}, atSite(sites[0])); pt != nil {
			c.Bad(inst, f.Pos(d.Node), "chain[1] can be treated as a precertificate signing certificate although it lacks the CT EKU")
		} else {
			c.add(Result{Instance: inst, Verdict: Discharged, Sites: []string{f.Pos(d.Node)}, Detail: "preIssuer = chain[1] only when IsPreIssuer(chain[1])", Witnesses: f.WitEdges(eku)})
		}
	}
	if nAssign == 0 {
		c.Bad(f.Name+" preIssuer assignment", tbs[0].Pos(), "the precertificate signing certificate is never detected")
	}
	// IssuerKeyHash stores
	isPreObj := func(e ast.Expr) bool { return objOf(info, e) == pre }
	withPre := g.EdgesImplying(func(a Atom) bool { eq, ok := isNilCmp(info, a.E, isPreObj); return ok && eq != a.Val })
	withoutPre := g.EdgesImplying(func(a Atom) bool { eq, ok := isNilCmp(info, a.E, isPreObj); return ok && eq == a.Val })
	nIKH := 0
	ikhWith, ikhWithout := map[int]bool{}, map[int]bool{}
	for _, s := range f.Find(func(n ast.Node) bool {
		a, ok := n.(*ast.AssignStmt)
		if !ok || len(a.Lhs) != 1 {
			return false
		}
		_, p, ok := fieldPath(info, a.Lhs[0])
		return ok && len(p) == 1 && p[0] == "IssuerKeyHash"
	}) {
		nIKH++
		a := s.X.(*ast.AssignStmt)
		inst := fmt.Sprintf("%s IssuerKeyHash at %s", f.Name, s.Pos())
		hc, ok := ast.Unparen(a.Rhs[0]).(*ast.CallExpr)
		if !ok || !matchCallee(info, hc, Callee{"crypto/sha256", "", "Sum256"}) || len(hc.Args) != 1 {
			c.Bad(inst, s.Pos(), "the issuer key hash is not a SHA-256")
			continue
		}
		sel, ok := ast.Unparen(hc.Args[0]).(*ast.SelectorExpr)
		if !ok || sel.Sel.Name != "RawSubjectPublicKeyInfo" {
			c.Bad(inst, s.Pos(), "the issuer key hash is not over the issuer's SubjectPublicKeyInfo")
			continue
		}
		// which chain element can the hashed certificate be, when a precertificate signing certificate
		// was detected and when not? (the element is named directly, or held in a variable assigned in
		// both cases: then the definitions that reach this store in each case are followed)
		type src struct {
			idx  int
			site *Site // the definition, nil when the operand names chain[k] itself
		}
		var srcs []src
		bad := ""
		chainIdx := func(e ast.Expr) int {
			for k := 0; k < 4; k++ {
				if isChainIdx(e, int64(k)) {
					return k
				}
			}
			return -1
		}
		if k := chainIdx(sel.X); k >= 0 {
			srcs = append(srcs, src{k, nil})
		} else if vo := objOf(info, sel.X); vo != nil && isLocal(vo) {
			for _, d := range f.Defs(vo) {
				ds := f.Find(func(n ast.Node) bool { return n == d.Node })
				k := -1
				if d.Kind == DefAssign && d.Idx < 0 {
					k = chainIdx(d.Rhs)
				}
				if k < 0 || len(ds) != 1 {
					bad = "the issuer key hash is taken from " + exprString(sel.X) + ", which is not always an element of the validated chain"
					break
				}
				srcs = append(srcs, src{k, &ds[0]})
			}
		} else {
			bad = "the issuer key hash is taken from " + exprString(sel.X)
		}
		if bad != "" {
			c.Bad(inst, s.Pos(), bad)
			continue
		}
		isDefOf := func(vo types.Object) func(Point, ast.Node) bool {
			return func(p Point, n ast.Node) bool { return n != nil && p != s.P && vo != nil && assignsTo(info, n, vo) }
		}
		possible := func(world map[Edge]bool) map[int]bool {
			// world: the edges that contradict the assumed case, cut
			out := map[int]bool{}
			for _, sc := range srcs {
				if sc.site == nil {
					if pt, _ := g.ReachableFromEntry(Cut{Edges: world}, atSite(s)); pt != nil {
						out[sc.idx] = true
					}
					continue
				}
				if pt, _ := g.ReachableFromEntry(Cut{Edges: world}, atSite(*sc.site)); pt == nil {
					continue
				}
				if pt, _ := g.Reach(sc.site.After(), Cut{Edges: world, Stop: isDefOf(objOf(info, sel.X))}, atSite(s)); pt != nil {
					out[sc.idx] = true
				}
			}
			return out
		}
		if len(withPre) == 0 || len(withoutPre) == 0 {
			c.Bad(inst, s.Pos(), "the choice of the issuer does not depend on whether a precertificate signing certificate was detected")
			continue
		}
		withP, withoutP := possible(withoutPre), possible(withPre)
		for k := range withP {
			ikhWith[k] = true
		}
		for k := range withoutP {
			ikhWithout[k] = true
		}
		c.add(Result{Instance: inst, Verdict: Discharged, Sites: []string{s.Pos()}, Evals: 2, Detail: fmt.Sprintf("possible chain elements: with a signing certificate %v, without %v", keysInt(withP), keysInt(withoutP)), Witnesses: append(f.WitEdges(withPre), f.WitEdges(withoutPre)...)})
	}
	okIKH := len(ikhWith) == 1 && ikhWith[2] && len(ikhWithout) == 1 && ikhWithout[1]
	if nIKH > 0 && !okIKH {
		c.Bad(f.Name+" IssuerKeyHash choice", tbs[0].Pos(), fmt.Sprintf("the issuer key hash must be chain[2]'s when a precertificate signing certificate was detected and chain[1]'s otherwise; reachable choices: with %v, without %v", keysInt(ikhWith), keysInt(ikhWithout)))
	} else if nIKH > 0 {
		c.OK(f.Name+" IssuerKeyHash choice", "chain[2] iff preIssuer != nil, else chain[1]", nil)
	}
	if nIKH == 0 {
		c.Bad(f.Name+" IssuerKeyHash", tbs[0].Pos(), fmt.Sprintf("expected the issuer-key-hash store(s), found %d", nIKH))
	}
	// length guards for chain[1] / chain[2]
	isLen := func(e ast.Expr) bool {
		call, ok := ast.Unparen(e).(*ast.CallExpr)
		return ok && isBuiltinCall(info, call, "len") && len(call.Args) == 1 && objOf(info, call.Args[0]) == chain
	}
	for _, k := range []int64{1, 2} {
		k := k
		isK := func(e ast.Expr) bool { v, ok := constInt(info, e); return ok && v == k+1 }
		safe := g.EdgesImplying(func(a Atom) bool { rel, ok := cmpRel(a, isLen, isK); return ok && rel&relLT == 0 })
		var idx []Site
		for _, s := range f.Find(func(n ast.Node) bool { e, ok := n.(ast.Expr); return ok && isChainIdx(e, k) }) {
			idx = append(idx, s)
		}
		inst := fmt.Sprintf("%s len(chain) >= %d before chain[%d]", f.Name, k+1, k)
		if len(idx) == 0 {
			continue
		}
		if len(safe) == 0 {
			c.Bad(inst, idx[0].Pos(), fmt.Sprintf("chain[%d] is accessed without a length check", k))
		} else if bad := f.unguardedSites(idx, safe); len(bad) > 0 {
			c.Bad(inst, bad[0].Pos(), fmt.Sprintf("chain[%d] can be accessed when the chain is shorter (panic / wrong issuer)", k))
		} else {
			c.add(Result{Instance: inst, Verdict: Discharged, Sites: sitePositions(idx), Detail: "index dominated by the length guard", Witnesses: f.WitEdges(safe)})
		}
	}
}

func c09e(c *Ctx) {
	f := c.Fn("ctlog.(*Log).addChainOrPreChain")
	if f == nil {
		return
	}
	info := f.Info()
	chain, _, ok := chainObj(f)
	if !ok {
		return
	}
	var p []string
	// Issuers: range chain[1:] appending issuer.Raw
	okIss := false
	ast.Inspect(f.Body, func(n ast.Node) bool {
		rs, ok := n.(*ast.RangeStmt)
		if !ok {
			return true
		}
		sl, ok := ast.Unparen(rs.X).(*ast.SliceExpr)
		if !ok || objOf(info, sl.X) != chain || sl.High != nil {
			return true
		}
		if v, isC := constInt(info, sl.Low); !isC || v != 1 {
			return true
		}
		for _, st := range rs.Body.List {
			a, ok := st.(*ast.AssignStmt)
			if !ok || len(a.Lhs) != 1 || len(a.Rhs) != 1 {
				continue
			}
			_, path, ok := fieldPath(info, a.Lhs[0])
			if !ok || len(path) != 1 || path[0] != "Issuers" {
				continue
			}
			if call, ok := ast.Unparen(a.Rhs[0]).(*ast.CallExpr); ok && isBuiltinCall(info, call, "append") && len(call.Args) == 2 {
				if sel, ok := ast.Unparen(call.Args[1]).(*ast.SelectorExpr); ok && sel.Sel.Name == "Raw" && objOf(info, sel.X) == objOf(info, rs.Value) {
					okIss = true
				}
			}
		}
		return true
	})
	if !okIss {
		p = append(p, "Issuers is not the Raw of every certificate of chain[1:]")
	}
	// Certificate initial value chain[0].Raw; PreCertificate = chain[0].Raw
	okCert, okPre := false, false
	for _, cl := range structLits(f, pkgCtlog, "PendingLogEntry") {
		if v := compositeField(info, cl, "Certificate", -1); v != nil {
			if sel, ok := ast.Unparen(v).(*ast.SelectorExpr); ok && sel.Sel.Name == "Raw" {
				if ix, ok := ast.Unparen(sel.X).(*ast.IndexExpr); ok && objOf(info, ix.X) == chain {
					if k, isC := constInt(info, ix.Index); isC && k == 0 {
						okCert = true
					}
				}
			}
		}
	}
	for _, s := range f.Find(func(n ast.Node) bool { _, ok := n.(*ast.AssignStmt); return ok }) {
		a := s.X.(*ast.AssignStmt)
		if len(a.Lhs) != 1 || len(a.Rhs) != 1 {
			continue
		}
		_, path, ok := fieldPath(info, a.Lhs[0])
		if !ok || len(path) != 1 {
			continue
		}
		switch path[0] {
		case "PreCertificate":
			if sel, ok := ast.Unparen(a.Rhs[0]).(*ast.SelectorExpr); ok && sel.Sel.Name == "Raw" {
				if ix, ok := ast.Unparen(sel.X).(*ast.IndexExpr); ok && objOf(info, ix.X) == chain {
					okPre = true
				}
			}
		case "Certificate":
			if _, ok := f.IsCallResult(a.Rhs[0], 0, Callee{pkgCTx509, "", "BuildPrecertTBS"}); !ok {
				p = append(p, "Certificate is overwritten with something other than the defanged TBS")
			}
		}
	}
	if !okCert {
		p = append(p, "Certificate does not start as chain[0].Raw")
	}
	if !okPre {
		p = append(p, "PreCertificate is not chain[0].Raw")
	}
	if len(p) > 0 {
		c.Bad(f.Name+" entry fields", f.Pos(f.Decl), strings.Join(p, "; "))
	} else {
		c.add(Result{Instance: f.Name + " entry fields", Verdict: Discharged, Evals: 3, Detail: "Certificate = chain[0].Raw | BuildPrecertTBS(...); PreCertificate = chain[0].Raw; Issuers = Raw of chain[1:]"})
	}
}

func c09f(c *Ctx) {
	c.checkLockDiscipline(Protected{Pkg: pkgCtlog, Type: "Log", Mutex: "rootsMu", Fields: []string{"roots", "rootsPEM"}}, nil, true)
	f := c.Fn("ctlog.(*Log).SetRootsFromPEM")
	if f != nil {
		var stores []Site
		for _, fld := range []string{"roots", "rootsPEM"} {
			for _, st := range f.StoresTo(c.P.fieldVar(pkgCtlog, "Log", fld)) {
				stores = append(stores, st.Site)
			}
		}
		var ups []Site
		for _, s := range f.Calls(specUpload) {
			if uploadKeyIs("_roots.pem")(f, s.Call) {
				ups = append(ups, s)
			}
		}
		if c.requireGate(f.Name+" swap after persist", f, ups, OutNil, stores, "root pool swapped only after _roots.pem was uploaded") {
			// the pool stored is the one parsed from the bytes uploaded
			info := f.Info()
			okV := false
			for _, st := range f.StoresTo(c.P.fieldVar(pkgCtlog, "Log", "roots")) {
				o := objOf(info, st.Rhs)
				for _, s := range f.Find(func(n ast.Node) bool {
					call, ok := n.(*ast.CallExpr)
					if !ok {
						return false
					}
					sel, ok := ast.Unparen(call.Fun).(*ast.SelectorExpr)
					return ok && sel.Sel.Name == "AppendCertsFromPEM" && objOf(info, sel.X) == o && len(call.Args) == 1 && f.IsParam(call.Args[0], "pemBytes")
				}) {
					_ = s
					okV = true
				}
			}
			if okV && len(ups) > 0 && f.IsParam(argByName(info, ups[0].Call, "data"), "pemBytes") {
				c.OK(f.Name+" same roots", "the pool swapped in is parsed from the bytes that were persisted", nil)
			} else {
				c.Bad(f.Name+" same roots", f.Pos(f.Decl), "the root pool swapped in is not parsed from the persisted PEM bytes")
			}
		}
	}
	// stores to roots elsewhere
	for _, fld := range []string{"roots", "rootsPEM"} {
		for _, st := range c.P.AllStoresTo(c.P.fieldVar(pkgCtlog, "Log", fld)) {
			if st.F.Name != "ctlog.(*Log).SetRootsFromPEM" {
				c.Bad("Log."+fld+" store in "+st.F.Name, st.Pos(), "the accepted roots are changed outside SetRootsFromPEM")
			}
		}
	}
	if gr := c.Fn("ctlog.(*Log).getRoots"); gr != nil {
		if len(gr.Calls(Callee{pkgCtlog, "Log", "rootPool"})) == 1 {
			c.OK(gr.Name+" source", "get-roots reports l.rootPool()", nil)
		} else {
			c.Bad(gr.Name+" source", gr.Pos(gr.Decl), "get-roots does not report the pool used for validation")
		}
	}
}

func c09g(c *Ctx) {
	f := c.Fn("ctlog.(*Log).addChainOrPreChain")
	if f == nil {
		return
	}
	info := f.Info()
	g := f.Graph()
	add := f.Calls(Callee{pkgCtlog, "Log", "addLeafToPool"})
	if len(add) != 1 {
		c.Unk(f.Name, "addLeafToPool call not found")
		return
	}
	// returns reachable without passing admission
	rets := g.ReturnsFrom(g.Entry(), Cut{Stop: func(p Point, _ ast.Node) bool { return p == add[0].P }})
	for _, r := range rets {
		if len(r.Results) != 3 {
			continue
		}
		code, ok := constInt(info, r.Results[1])
		inst := fmt.Sprintf("%s rejection at %s", f.Name, f.Pos(r))
		if !ok {
			c.Unk(inst, "non-constant status")
			continue
		}
		// which internal failures may be 500: io.ReadAll error, BuildPrecertTBS error
		internal := false
		if call, isCall := ast.Unparen(f.ResolveDeep(r.Results[2]).E).(*ast.CallExpr); isCall && len(call.Args) > 0 {
			if s, isS := constString(info, call.Args[0]); isS && (strings.HasPrefix(s, "failed to read body") || strings.HasPrefix(s, "failed to build TBSCertificate")) {
				internal = true
			}
		}
		// structural: the return is on the error edge of io.ReadAll / BuildPrecertTBS
		internal = false
		for _, s := range append(f.Calls(Callee{"io", "", "ReadAll"}), f.Calls(Callee{pkgCTx509, "", "BuildPrecertTBS"})...) {
			_, nn, _, ok := OutcomeEdges(s)
			if !ok {
				continue
			}
			for e := range nn {
				for _, rr := range g.ReturnsFrom(EdgeStart(e), Cut{}) {
					if rr == r {
						internal = true
					}
				}
			}
		}
		switch {
		case internal && code == 500:
			c.OK(inst, "internal failure -> 500", []string{f.Pos(r)})
		case !internal && code >= 400 && code < 500:
			c.OK(inst, fmt.Sprintf("rejection -> %d", code), []string{f.Pos(r)})
		default:
			c.Bad(inst, f.Pos(r), fmt.Sprintf("a rejected submission is answered with status %d instead of a client error", code))
		}
	}
}

// unguardedSites returns the sites that can be reached without crossing one
// of the safe edges. A site that is only reachable on the `X != nil` edge of
// a local pointer variable X counts as guarded when every non-zero definition
// of X is itself followed by the guard on every path to the site (the zero
// value contradicts the edge): this is the one correlation the rule knows.
func (f *Func) unguardedSites(sites []Site, safe map[Edge]bool) []Site {
	info := f.Info()
	g := f.Graph()
	var out []Site
	for _, s := range sites {
		if pt, _ := g.ReachableFromEntry(Cut{Edges: safe}, atSite(s)); pt == nil {
			continue
		}
		guarded := false
		// candidate variables: locals compared with nil in some condition
		cands := map[types.Object]bool{}
		for _, e := range g.CondEdges() {
			for _, a := range EdgeFacts(e) {
				if be, ok := ast.Unparen(a.E).(*ast.BinaryExpr); ok {
					for _, x := range []ast.Expr{be.X, be.Y} {
						if o := objOf(info, x); o != nil && isLocal(o) {
							cands[o] = true
						}
					}
				}
			}
		}
		for x := range cands {
			isX := func(e ast.Expr) bool { return objOf(info, e) == x }
			nonNil := g.EdgesImplying(func(a Atom) bool { eq, ok := isNilCmp(info, a.E, isX); return ok && eq != a.Val })
			if len(nonNil) == 0 {
				continue
			}
			if pt, _ := g.ReachableFromEntry(Cut{Edges: nonNil}, atSite(s)); pt != nil {
				continue // the site is not dominated by X != nil
			}
			ok := true
			hasZero := false
			for _, d := range f.Defs(x) {
				if d.Kind == DefZero {
					hasZero = true
					continue
				}
				ds := f.Find(func(n ast.Node) bool { return n == d.Node })
				if d.Kind != DefAssign || len(ds) == 0 {
					ok = false
					continue
				}
				if pt, _ := g.Reach(ds[0].After(), Cut{Edges: safe}, atSite(s)); pt != nil {
					ok = false
				}
			}
			if ok && hasZero {
				guarded = true
			}
		}
		if !guarded {
			out = append(out, s)
		}
	}
	return out
}

// ---------------------------------------------------------------------------
// C09.i REJECT-INVENTORY: a submission is refused only for a reason the
// statement lists.

func c09i(c *Ctx) {
	f := c.Fn("ctlog.(*Log).addChainOrPreChain")
	if f == nil {
		return
	}
	info := f.Info()
	g := f.Graph()
	add := f.Calls(Callee{pkgCtlog, "Log", "addLeafToPool"})
	if len(add) != 1 {
		c.Unk(f.Name, "addLeafToPool call not found")
		return
	}
	// the recognised refusing outcomes
	reasons := []struct {
		name string
		spec Callee
	}{
		{"the body cannot be read", Callee{"io", "", "ReadAll"}},
		{"the body is not the JSON request", Callee{"encoding/json", "", "Unmarshal"}},
		{"the chain does not validate (roots, EKU, NotAfter window)", Callee{pkgCtfe, "", "ValidateChain"}},
		{"the precertificate poison is malformed", Callee{pkgCtfe, "", "IsPrecertificate"}},
		{"the TBS cannot be rebuilt", Callee{pkgCTx509, "", "BuildPrecertTBS"}},
	}
	refuse := map[Edge]bool{}
	found := 0
	for _, r := range reasons {
		ss := f.Calls(r.spec)
		if len(ss) == 0 {
			c.Unk(f.Name+" "+r.name, "validator call not found: "+r.spec.String())
			continue
		}
		for _, s := range ss {
			_, nn, _, ok := OutcomeEdges(s)
			if !ok {
				continue
			}
			found++
			for e := range nn {
				refuse[e] = true
			}
		}
	}
	// the endpoint/type check: a call through the function-typed parameter
	if p := f.soleFuncParam(); p != nil {
		for _, s := range f.Find(func(n ast.Node) bool {
			call, ok := n.(*ast.CallExpr)
			return ok && objOf(info, call.Fun) == p
		}) {
			if _, nn, _, ok := OutcomeEdges(s); ok {
				found++
				for e := range nn {
					refuse[e] = true
				}
			}
		}
	}
	// chain too short for its shape: len(<chain>) == 0, < 2, < 3
	isLen := func(e ast.Expr) bool {
		call, ok := ast.Unparen(e).(*ast.CallExpr)
		return ok && isBuiltinCall(info, call, "len") && len(call.Args) == 1
	}
	var bound int64
	isSmall := func(e ast.Expr) bool {
		v, ok := constInt(info, e)
		if ok {
			bound = v
		}
		return ok && v >= 0 && v <= 3
	}
	for e := range g.EdgesImplying(func(at Atom) bool {
		rel, ok := cmpRel(at, isLen, isSmall)
		if !ok {
			return false
		}
		return rel == relLT || (rel == relEQ && bound == 0) || (rel == (relLT|relEQ) && bound <= 2)
	}) {
		refuse[e] = true
	}
	rets := g.ReturnsFrom(g.Entry(), Cut{Edges: refuse, Stop: func(p Point, _ ast.Node) bool { return p == add[0].P }})
	all := g.ReturnsFrom(g.Entry(), Cut{Stop: func(p Point, _ ast.Node) bool { return p == add[0].P }})
	bad := false
	for _, r := range rets {
		bad = true
		c.Bad(fmt.Sprintf("%s refusal at %s", f.Name, f.Pos(r)), f.Pos(r), "a submission can be refused before admission for a reason that is none of: unreadable/malformed body, empty or too-short chain, ValidateChain failure, malformed precertificate, TBS reconstruction failure, endpoint/type mismatch - the statement accepts a chain *exactly* when those pass")
	}
	if !bad {
		c.add(Result{Instance: f.Name + " refusals", Verdict: Discharged, Evals: len(all), Sites: []string{f.Pos(f.Decl)},
			Detail: fmt.Sprintf("all %d pre-admission returns lie behind a refusing outcome of one of %d recognised validators or a chain-length test", len(all), found)})
	}
}

// ---------------------------------------------------------------------------
// C09.j TYPE-BRANCHES: what a recognised shape obliges the handler to do.

// callTrueEdges: the edges on which the call at s, used directly as (part of)
// a branch condition, is known to have returned true.
func callTrueEdges(g *Graph, call *ast.CallExpr) map[Edge]bool {
	return g.EdgesImplying(func(a Atom) bool { return ast.Unparen(a.E) == ast.Expr(call) && a.Val })
}

func liveEdges(g *Graph, es map[Edge]bool) []Edge {
	var out []Edge
	for e := range es {
		if !g.dead[e] {
			out = append(out, e)
		}
	}
	return out
}

func c09j(c *Ctx) {
	if f := c.Fn("ctlog.(*Log).addChainOrPreChain"); f != nil {
		c.touch(f)
		info := f.Info()
		g := f.Graph()
		add := f.Calls(Callee{pkgCtlog, "Log", "addLeafToPool"})
		// (1) a precertificate is always logged as one
		inst := f.Name + " a precertificate is logged as a precertificate entry"
		ip := f.Calls(Callee{pkgCtfe, "", "IsPrecertificate"})
		fv := c.P.fieldVar(pkgCtlog, "PendingLogEntry", "IsPrecert")
		var marks []Site
		for _, st := range f.StoresTo(fv) {
			if v, ok := constBool(info, st.Rhs); ok && v {
				marks = append(marks, st.Site)
			}
		}
		if len(ip) != 1 || len(add) != 1 || len(marks) == 0 {
			c.Unk(inst, fmt.Sprintf("anchors: IsPrecertificate=%d addLeafToPool=%d IsPrecert stores=%d", len(ip), len(add), len(marks)))
		} else {
			trueE, _, _, ok := BoolEdges(ip[0])
			lv := liveEdges(g, trueE)
			bad := !ok || len(lv) == 0
			stop := func(p Point, _ ast.Node) bool {
				for _, m := range marks {
					if m.P == p {
						return true
					}
				}
				return false
			}
			for _, e := range lv {
				if pt, _ := g.Reach(EdgeStart(e), Cut{Stop: stop}, atSite(add[0])); pt != nil {
					bad = true
				}
			}
			if bad {
				c.Bad(inst, ip[0].Pos(), "a chain whose leaf is a precertificate can reach the pool without the entry being marked IsPrecert (it would be logged as an X.509 entry, poison extension included)")
			} else {
				c.add(Result{Instance: inst, Verdict: Discharged, Evals: len(lv), Sites: sitePositions(marks), Detail: "from the IsPrecertificate == true edge the pool is reached only through e.IsPrecert = true", Witnesses: f.WitEdges(trueE)})
			}
		}
		// (2) a precertificate signing certificate is always taken into account
		inst = f.Name + " a precertificate signing certificate is used when present"
		pi := f.Calls(Callee{"github.com/google/certificate-transparency-go", "", "IsPreIssuer"})
		tbs := f.Calls(Callee{pkgCTx509, "", "BuildPrecertTBS"})
		if len(pi) != 1 || len(tbs) != 1 {
			c.Unk(inst, fmt.Sprintf("anchors: IsPreIssuer=%d BuildPrecertTBS=%d", len(pi), len(tbs)))
		} else {
			pre := objOf(info, argByName(info, tbs[0].Call, "preIssuer"))
			var sets []Site
			if pre != nil {
				for _, d := range f.Defs(pre) {
					if d.Kind == DefAssign && d.Rhs != nil && !isNilIdent(info, d.Rhs) {
						sets = append(sets, f.Find(func(n ast.Node) bool { return n == d.Node })...)
					}
				}
			}
			trueE := callTrueEdges(g, pi[0].Call)
			lv := liveEdges(g, trueE)
			bad := pre == nil || len(sets) == 0 || len(lv) == 0
			stop := func(p Point, _ ast.Node) bool {
				for _, m := range sets {
					if m.P == p {
						return true
					}
				}
				return false
			}
			for _, e := range lv {
				if pt, _ := g.Reach(EdgeStart(e), Cut{Stop: stop}, atSite(tbs[0])); pt != nil {
					bad = true
				}
			}
			if bad {
				c.Bad(inst, pi[0].Pos(), "when chain[1] is a precertificate signing certificate the TBS can be rebuilt (and the issuer key hash chosen) without it: the logged entry would name the wrong issuer")
			} else {
				c.add(Result{Instance: inst, Verdict: Discharged, Evals: len(lv), Sites: sitePositions(sets), Detail: "from the IsPreIssuer(chain[1]) == true edge BuildPrecertTBS is reached only through preIssuer = chain[1]", Witnesses: f.WitEdges(trueE)})
			}
		}
	}
	// (3) a root file that does not parse is never stored or adopted
	if f := c.Fn("ctlog.(*Log).SetRootsFromPEM"); f != nil {
		c.touch(f)
		g := f.Graph()
		inst := f.Name + " unparseable roots are refused"
		ap := f.Calls(Callee{"github.com/google/certificate-transparency-go/x509util", "PEMCertPool", "AppendCertsFromPEM"})
		var targets []Site
		targets = append(targets, f.CallsW(specUpload)...)
		for _, fld := range []string{"roots", "rootsPEM"} {
			for _, st := range f.StoresTo(c.P.fieldVar(pkgCtlog, "Log", fld)) {
				targets = append(targets, st.Site)
			}
		}
		if len(ap) != 1 || len(targets) < 3 {
			c.Unk(inst, fmt.Sprintf("anchors: AppendCertsFromPEM=%d upload+stores=%d", len(ap), len(targets)))
		} else {
			okE := callTrueEdges(g, ap[0].Call)
			if len(okE) == 0 {
				c.Bad(inst, ap[0].Pos(), "the result of parsing the new roots is not tested")
			} else if pt, _ := g.ReachableFromEntry(Cut{Edges: okE}, atAnySite(targets)); pt != nil {
				c.Bad(inst, ap[0].Pos(), "roots that failed to parse can be uploaded as _roots.pem or adopted as the accepted root pool")
			} else {
				c.add(Result{Instance: inst, Verdict: Discharged, Evals: len(targets), Sites: sitePositions(targets), Detail: "upload and pool swap are unreachable unless AppendCertsFromPEM returned true", Witnesses: f.WitEdges(okE)})
			}
		}
	}
}

// c09k: every return of the admission function lies behind the issuer loop.
func c09k(c *Ctx) {
	f := c.Fn("ctlog.(*Log).addLeafToPool")
	if f == nil {
		return
	}
	info := f.Info()
	g := f.Graph()
	inst := f.Name + " issuers before any answer"
	leaf := f.paramObj("leaf")
	var loop *ast.RangeStmt
	ast.Inspect(f.Body, func(n ast.Node) bool {
		if _, isLit := n.(*ast.FuncLit); isLit {
			return false
		}
		if rs, ok := n.(*ast.RangeStmt); ok {
			if r, p, ok := fieldPath(info, rs.X); ok && r == leaf && leaf != nil && len(p) == 1 && p[0] == "Issuers" {
				loop = rs
			}
		}
		return true
	})
	if loop == nil {
		c.Bad(inst, f.Pos(f.Decl), "the admission function does not iterate over the submitted chain's issuers")
		return
	}
	ups := 0
	for _, s := range f.Calls(Callee{pkgCtlog, "Log", "uploadIssuer"}) {
		if loop.Body.Pos() <= s.Call.Pos() && s.Call.End() <= loop.Body.End() && objOf(info, argByName(info, s.Call, "issuer")) == objOf(info, loop.Value) {
			ups++
		}
	}
	head := rangeHead(g, loop)
	rets := f.Returns()
	if ups == 0 || head == nil || len(rets) == 0 {
		c.Unk(inst, "issuer upload loop or returns not identified")
		return
	}
	if pt, path := g.ReachableFromEntry(Cut{NoEnter: func(b *cfg.Block) bool { return b == head }}, atAnySite(rets)); pt != nil {
		c.Bad(inst, f.Pos(pt.B.Nodes[pt.I]), "a submission can be answered (duplicate or cache hit) on a path that never uploads the issuers of the chain it was submitted with (path "+g.describePath(path)+"): those certificates do not become retrievable issuers")
		return
	}
	c.add(Result{Instance: inst, Verdict: Discharged, Evals: len(rets), Sites: []string{f.Pos(loop)}, Detail: "every return of the admission function is behind `for issuer := range leaf.Issuers { uploadIssuer }`"})
}

func keysInt(m map[int]bool) []int {
	var out []int
	for k := range m {
		out = append(out, k)
	}
	sort.Ints(out)
	return out
}
