package main

// C11 - signed tree heads verify independently; the checkpoint verifier is strict.

import (
	"fmt"
	"go/ast"
	"go/token"
	"go/types"
	"sort"
	"strings"
)

func init() {
	register(&Property{
		ID:    "C11",
		Title: "Signed tree heads verify independently and the checkpoint verifier is strict",
		Explanation: "Value-flow, guard-dominance and schema-agreement obligations on signTreeHead, digitallySign, NewRFC6962InjectedSigner and the verify closure of NewRFC6962Verifier (go/cfg + go/types + cryptobyte schema extraction). " +
			"Decided: note.Sign receives the injected RFC 6962 signer (built from the log name, the log's public key, the signature over the STH input of the same tree, and the tree's time) and the ML-DSA cosigner of the witness key; STH fields and checkpoint text fields come from the one tree parameter; each accepting return of the verifier is dominated by: checkpoint parses, origin equals the verifier's name, no extension, full parse of the signature blob including exhaustion, hash algorithm 4, signature algorithm matching the key type; the injected signer returns its signature only if it verifies; the signature blob written (timestamp + digitally-signed struct) is what the verifier and RFC6962SignatureTimestamp read; signer and verifier build the SignedTreeHead with the same fields; signing is deterministic. " +
			"NOT decided: cryptographic verification outcomes and behaviour under byte mutations (runtime).",
		Assumptions: []string{"ct.SerializeSTHSignatureInput, ecdsa/rsa verification and note.Sign/Open behave as documented"},
		Obligations: []*Obligation{
			{ID: "C11.a", Title: "BOTH-SIGNERS", Template: "T6", MinInst: 3,
				Rule: "note.Sign is given the injected RFC 6962 signer (name, public key, signature over this tree's STH input, tree time) and the ML-DSA cosigner built from the witness key", Run: c11a},
			{ID: "C11.b", Title: "ONE-TREE", Template: "T6", MinInst: 2,
				Rule: "the STH (size, time, root) and the checkpoint text (size, root, origin = config name) are built from the single tree parameter", Run: c11b},
			{ID: "C11.c", Title: "VERIFIER-GUARDS", Template: "T2", MinInst: 8,
				Rule: "each accepting return of the verifier is unreachable once the safe edges of any one guard are cut: parse ok, origin, extension, blob parse incl. exhaustion, hash algorithm, signature algorithm per key type", Run: c11c},
			{ID: "C11.d", Title: "INJECTED-VERIFIES", Template: "T2", MinInst: 1,
				Rule: "injectedSigner.Sign returns a nil error only on the edge where its verifier accepted (msg, sig)", Run: c11d},
			{ID: "C11.e", Title: "SIGNATURE-SCHEMA", Template: "T5a", MinInst: 2,
				Rule: "timestamp(u64) + digitallySign's struct (u8 hash, u8 sig, u16-prefixed signature) as written equals what the verifier reads; RFC6962SignatureTimestamp skips the 4-byte key hash then reads u64", Run: c11e},
			{ID: "C11.f", Title: "STH-LITERALS", Template: "T5", MinInst: 1,
				Rule: "signer's and verifier's SignedTreeHead literals set the same fields with the same version", Run: c11f},
			{ID: "C11.g", Title: "DETERMINISTIC", Template: "T6", MinInst: 1,
				Rule: "the tree-head signature is requested with a nil random source (deterministic ECDSA), whatever path the source takes to ecdsa Sign", Run: func(c *Ctx) { c07fFor(c, "ctlog.signTreeHead") }},
		},
	})
}

const pkgCT = "github.com/google/certificate-transparency-go"

func c11a(c *Ctx) {
	f := c.Fn("ctlog.signTreeHead")
	if f == nil {
		return
	}
	info := f.Info()
	cfgObj, treeObj := f.paramObj("c"), f.paramObj("tree")
	isCfg := func(o types.Object) bool { return o == cfgObj }
	isTree := func(o types.Object) bool { return o == treeObj }
	signs := f.Calls(Callee{pkgNote, "", "Sign"})
	if len(signs) != 1 {
		c.Unk(f.Name, fmt.Sprintf("expected one note.Sign call, found %d", len(signs)))
		return
	}
	s := signs[0]
	// signers: variadic from a slice literal
	var signerExprs []ast.Expr
	if s.Call.Ellipsis.IsValid() && len(s.Call.Args) == 2 {
		v := f.ResolveDeep(s.Call.Args[1])
		if cl, ok := ast.Unparen(v.E).(*ast.CompositeLit); ok {
			signerExprs = cl.Elts
		}
	} else if len(s.Call.Args) > 1 {
		signerExprs = s.Call.Args[1:]
	}
	var inj, cos *ast.CallExpr
	for _, e := range signerExprs {
		if call, ok := f.IsCallResult(e, 0, Callee{pkgRoot, "", "NewRFC6962InjectedSigner"}); ok {
			inj = call
		}
		if call, ok := f.IsCallResult(e, 0, Callee{pkgTorch, "", "NewCosignatureSigner"}); ok {
			cos = call
		}
	}
	if inj == nil {
		c.Bad(f.Name+" rfc6962 signer", s.Pos(), "note.Sign is not given the injected RFC 6962 signer")
	} else {
		problems := []string{}
		if !f.IsFieldPathOf(argByName(info, inj, "name"), isCfg, "Name") {
			problems = append(problems, "name is not c.Name")
		}
		if kc, ok := ast.Unparen(f.ResolveDeep(argByName(info, inj, "key")).E).(*ast.CallExpr); !ok || !isMethodOnPath(f, kc, "Public", isCfg, "Key") {
			problems = append(problems, "key is not c.Key.Public()")
		}
		if !f.IsFieldPathOf(argByName(info, inj, "timestamp"), isTree, "Time") {
			problems = append(problems, "timestamp is not tree.Time")
		}
		// sig = digitallySign(c.Key, SerializeSTHSignatureInput(STH{...tree...}))
		okSig := false
		if ds, ok := f.IsCallResult(argByName(info, inj, "sig"), 0, Callee{pkgCtlog, "", "digitallySign"}); ok && argByName(info, ds, "k") != nil && argByName(info, ds, "msg") != nil {
			if f.IsFieldPathOf(argByName(info, ds, "k"), isCfg, "Key") {
				if ser, ok := f.IsCallResult(argByName(info, ds, "msg"), 0, Callee{pkgCT, "", "SerializeSTHSignatureInput"}); ok && len(ser.Args) == 1 {
					if _, ok := ast.Unparen(f.ResolveDeep(ser.Args[0]).E).(*ast.CompositeLit); ok {
						okSig = true
					}
				}
			}
		}
		if !okSig {
			problems = append(problems, "sig is not digitallySign(c.Key, SerializeSTHSignatureInput(STH))")
		}
		if len(problems) > 0 {
			c.Bad(f.Name+" rfc6962 signer", f.Pos(inj), strings.Join(problems, "; "))
		} else {
			c.add(Result{Instance: f.Name + " rfc6962 signer", Verdict: Discharged, Evals: 4, Sites: []string{f.Pos(inj)}, Detail: "NewRFC6962InjectedSigner(c.Name, c.Key.Public(), digitallySign(c.Key, STH input), tree.Time)"})
		}
	}
	if cos == nil {
		c.Bad(f.Name+" cosigner", s.Pos(), "the checkpoint is signed without the log's ML-DSA cosigner")
	} else if len(cos.Args) == 2 && f.IsFieldPathOf(cos.Args[0], isCfg, "Name") && f.IsFieldPathOf(cos.Args[1], isCfg, "WitnessKey") {
		c.OK(f.Name+" cosigner", "NewCosignatureSigner(c.Name, c.WitnessKey)", []string{f.Pos(cos)})
	} else {
		c.Bad(f.Name+" cosigner", f.Pos(cos), "the ML-DSA cosigner is not built from c.Name and c.WitnessKey")
	}
	// the result returned is note.Sign's
	okRet := false
	for _, r := range successReturns(f) {
		if _, ok := f.IsCallResult(r.X.(*ast.ReturnStmt).Results[0], 0, Callee{pkgNote, "", "Sign"}); ok {
			okRet = true
		}
	}
	if okRet {
		c.OK(f.Name+" result", "returns note.Sign's output", []string{s.Pos()})
	} else {
		c.Bad(f.Name+" result", s.Pos(), "signTreeHead does not return the note produced by note.Sign")
	}
}

// isMethodOnPath: call is root.p1.p2.Method() with root accepted by isRoot.
func isMethodOnPath(f *Func, call *ast.CallExpr, method string, isRoot func(types.Object) bool, path ...string) bool {
	sel, ok := ast.Unparen(call.Fun).(*ast.SelectorExpr)
	if !ok || sel.Sel.Name != method {
		return false
	}
	return f.IsFieldPathOf(sel.X, isRoot, path...)
}

func c11b(c *Ctx) {
	f := c.Fn("ctlog.signTreeHead")
	if f == nil {
		return
	}
	info := f.Info()
	cfgObj, treeObj := f.paramObj("c"), f.paramObj("tree")
	isCfg := func(o types.Object) bool { return o == cfgObj }
	isTree := func(o types.Object) bool { return o == treeObj }
	lits := f.Find(func(n ast.Node) bool { _, ok := n.(*ast.CompositeLit); return ok })
	var sth, ck, tr *ast.CompositeLit
	for _, s := range lits {
		cl := s.X.(*ast.CompositeLit)
		tv := info.Types[cl]
		switch {
		case namedIs(tv.Type, pkgCT, "SignedTreeHead"):
			sth = cl
		case namedIs(tv.Type, pkgTorch, "Checkpoint"):
			ck = cl
		case namedIs(tv.Type, pkgTlog, "Tree"):
			tr = cl
		}
	}
	if sth == nil || ck == nil {
		c.Unk(f.Name, "SignedTreeHead / Checkpoint literal not found")
		return
	}
	var p []string
	if e := compositeField(info, sth, "TreeSize", -1); e == nil || !f.IsFieldPathOf(stripConv(info, e), isTree, "N") {
		p = append(p, "STH TreeSize is not tree.N")
	}
	if e := compositeField(info, sth, "Timestamp", -1); e == nil || !f.IsFieldPathOf(stripConv(info, e), isTree, "Time") {
		p = append(p, "STH Timestamp is not tree.Time")
	}
	if e := compositeField(info, sth, "SHA256RootHash", -1); e == nil || !f.IsFieldPathOf(stripConv(info, e), isTree, "Hash") {
		p = append(p, "STH root is not tree.Hash")
	}
	if len(p) > 0 {
		c.Bad(f.Name+" STH", f.Pos(sth), strings.Join(p, "; "))
	} else {
		c.add(Result{Instance: f.Name + " STH", Verdict: Discharged, Evals: 3, Sites: []string{f.Pos(sth)}, Detail: "TreeSize/Timestamp/SHA256RootHash from tree.N/Time/Hash"})
	}
	p = nil
	if e := compositeField(info, ck, "Origin", -1); e == nil || !f.IsFieldPathOf(e, isCfg, "Name") {
		p = append(p, "checkpoint Origin is not c.Name")
	}
	te := compositeField(info, ck, "Tree", -1)
	okTree := false
	if te != nil {
		if f.IsFieldPathOf(te, isTree, "Tree") {
			okTree = true
		} else if tr != nil && ast.Unparen(te) == ast.Expr(tr) {
			n, h := compositeField(info, tr, "N", 0), compositeField(info, tr, "Hash", 1)
			okTree = n != nil && h != nil && f.IsFieldPathOf(n, isTree, "N") && f.IsFieldPathOf(h, isTree, "Hash")
		}
	}
	if !okTree {
		p = append(p, "checkpoint size/root are not tree.N / tree.Hash")
	}
	if len(p) > 0 {
		c.Bad(f.Name+" checkpoint text", f.Pos(ck), strings.Join(p, "; "))
	} else {
		c.add(Result{Instance: f.Name + " checkpoint text", Verdict: Discharged, Evals: 3, Sites: []string{f.Pos(ck)}, Detail: "Origin = c.Name, Tree = {tree.N, tree.Hash}"})
	}
}

// verifyClosure: the literal assigned to verifier.verify in NewRFC6962Verifier.
func verifyClosure(c *Ctx) *Func {
	f := c.Fn("sunlight.NewRFC6962Verifier")
	if f == nil {
		return nil
	}
	for _, l := range f.Lits {
		if l.Type.Results != nil && len(l.Type.Params.List) >= 1 {
			return l
		}
	}
	c.Unk("verify closure", "no verify closure in NewRFC6962Verifier")
	return nil
}

func c11c(c *Ctx) {
	c11cOnly(c, nil)
	c11cName(c)
}

// c11cName: a verifier is only built for a name that can appear in a note
// signature line (no space, no '+', non-empty, valid UTF-8).
func c11cName(c *Ctx) {
	f := c.Fn("sunlight.NewRFC6962Verifier")
	if f == nil {
		return
	}
	c.touch(f)
	g := f.Graph()
	inst := f.Name + " name is a valid note key name"
	vn := f.Calls(Callee{pkgRoot, "", "isValidName"})
	okRets := successReturns(f)
	if len(vn) != 1 || len(okRets) == 0 {
		c.Unk(inst, "isValidName call / success return not found")
		return
	}
	if objOf(f.Info(), vn[0].Call.Args[0]) != f.paramObj("name") {
		c.Bad(inst, vn[0].Pos(), "the name that is validated is not the verifier's name")
		return
	}
	c.guardSuccess(f, "name is a valid note key name", callTrueEdges(g, vn[0].Call), okRets, "a verifier can be built for a name that cannot be told apart in a signature line")
}

// c11cOnly runs the verifier-guard obligations, restricted to the guards whose
// name contains one of the given substrings (all when nil).
func c11cOnly(c *Ctx, only []string) {
	v := verifyClosure(c)
	if v == nil {
		return
	}
	c.touch(v)
	info := v.Info()
	g := v.Graph()
	owner := v.Top()
	nameParam := owner.paramObj("name")
	// accepting returns: results that are not the constant false
	var acc []Site
	for _, r := range v.Returns() {
		rs := r.X.(*ast.ReturnStmt).Results
		if len(rs) == 1 {
			if b, ok := constBool(info, rs[0]); ok && !b {
				continue
			}
			acc = append(acc, r)
		}
	}
	if len(acc) < 2 {
		c.Unk("verify closure", fmt.Sprintf("expected accepting returns for RSA and ECDSA, found %d", len(acc)))
		return
	}
	var ckObj types.Object
	var parse []Site
	for _, s := range v.Calls(Callee{pkgTorch, "", "ParseCheckpoint"}) {
		parse = append(parse, s)
		if a, ok := s.Node.(*ast.AssignStmt); ok {
			ckObj = objOf(info, a.Lhs[0])
		}
	}
	isCkField := func(field string) func(ast.Expr) bool {
		return func(e ast.Expr) bool {
			r, p, ok := fieldPath(info, e)
			return ok && r == ckObj && ckObj != nil && len(p) == 1 && p[0] == field
		}
	}
	isName := func(e ast.Expr) bool { return objOf(info, e) == nameParam && nameParam != nil }
	isEmptyStr := func(e ast.Expr) bool { s, ok := constString(info, e); return ok && s == "" }
	// variables read from the blob
	root := cryptoStringRoot(v)
	readVar := func(method string, nth int) types.Object {
		k := 0
		var out types.Object
		for _, s := range v.Find(func(n ast.Node) bool {
			call, ok := n.(*ast.CallExpr)
			return ok && isStringMethod(info, call, method) && stringRecv(info, call) == root
		}) {
			if k == nth {
				if u, ok := ast.Unparen(s.X.(*ast.CallExpr).Args[0]).(*ast.UnaryExpr); ok {
					out = objOf(info, u.X)
				}
			}
			k++
		}
		return out
	}
	hashAlg, sigAlg := readVar("ReadUint8", 0), readVar("ReadUint8", 1)
	constIs := func(v int64) func(ast.Expr) bool {
		return func(e ast.Expr) bool { x, ok := constInt(info, e); return ok && x == v }
	}
	isObj := func(o types.Object) func(ast.Expr) bool {
		return func(e ast.Expr) bool { return o != nil && objOf(info, e) == o }
	}
	callTrue := func(method string) func(a Atom) bool {
		return func(a Atom) bool {
			call, ok := ast.Unparen(a.E).(*ast.CallExpr)
			return ok && a.Val && isStringMethod(info, call, method) && stringRecv(info, call) == root
		}
	}
	type guard struct {
		name string
		safe map[Edge]bool
		on   []Site // which accepting returns it must dominate (nil = all)
	}
	succParse, _ := gateEdges(parse, OutNil)
	guards := []guard{
		{"checkpoint parses", succParse, nil},
		{"origin == name", g.EdgesImplying(func(a Atom) bool { rel, ok := cmpRel(a, isCkField("Origin"), isName); return ok && rel == relEQ }), nil},
		{"no extension", g.EdgesImplying(func(a Atom) bool { rel, ok := cmpRel(a, isCkField("Extension"), isEmptyStr); return ok && rel == relEQ }), nil},
		{"timestamp read", g.EdgesImplying(callTrue("ReadUint64")), nil},
		{"signature read", g.EdgesImplying(callTrue("ReadUint16LengthPrefixed")), nil},
		{"blob exhausted", g.EdgesImplying(callTrue("Empty")), nil},
		{"hash algorithm == 4", g.EdgesImplying(func(a Atom) bool { rel, ok := cmpRel(a, isObj(hashAlg), constIs(4)); return ok && rel == relEQ }), nil},
	}
	// signature algorithm per key type: the accepting return that calls rsa.* needs sigAlg == 1, ecdsa.* needs 3
	for _, r := range acc {
		want, kind := int64(-1), ""
		ast.Inspect(r.X, func(n ast.Node) bool {
			if call, ok := n.(*ast.CallExpr); ok {
				if matchCallee(info, call, Callee{"crypto/rsa", "", "VerifyPKCS1v15"}) {
					want, kind = 1, "rsa"
				}
				if matchCallee(info, call, Callee{"crypto/ecdsa", "", "VerifyASN1"}) {
					want, kind = 3, "ecdsa"
				}
			}
			return true
		})
		if want < 0 {
			c.Bad("verify accepting return", r.Pos(), "an accepting return does not perform RSA PKCS#1 v1.5 or ECDSA verification")
			continue
		}
		w := want
		guards = append(guards, guard{fmt.Sprintf("%s: signature algorithm == %d", kind, w),
			g.EdgesImplying(func(a Atom) bool { rel, ok := cmpRel(a, isObj(sigAlg), constIs(w)); return ok && rel == relEQ }), []Site{r}})
		// verification inputs: key from the type switch, digest of the rebuilt STH, the parsed signature
	}
	for _, gd := range guards {
		if only != nil {
			keep := false
			for _, o := range only {
				if strings.Contains(gd.name, o) {
					keep = true
				}
			}
			if !keep {
				continue
			}
		}
		inst := "verify guard: " + gd.name
		targets := gd.on
		if targets == nil {
			targets = acc
		}
		if len(gd.safe) == 0 {
			c.Bad(inst, targets[0].Pos(), "the verifier accepts without checking: "+gd.name)
			continue
		}
		if pt, path := g.ReachableFromEntry(Cut{Edges: gd.safe}, atAnySite(targets)); pt != nil {
			c.Bad(inst, targets[0].Pos(), "an accepting return is reachable although '"+gd.name+"' does not hold (path "+g.describePath(path)+")")
			continue
		}
		c.add(Result{Instance: inst, Verdict: Discharged, Sites: sitePositions(targets), Detail: "accepting return(s) unreachable unless " + gd.name, Witnesses: v.WitEdges(gd.safe)})
	}
	// the STH verified is built from the parsed checkpoint and the blob timestamp
	tsVar := readVar("ReadUint64", 0)
	for _, s := range v.Find(func(n ast.Node) bool {
		cl, ok := n.(*ast.CompositeLit)
		if !ok {
			return false
		}
		tv, ok := info.Types[cl]
		return ok && namedIs(tv.Type, pkgCT, "SignedTreeHead")
	}) {
		cl := s.X.(*ast.CompositeLit)
		var p []string
		if e := compositeField(info, cl, "TreeSize", -1); e == nil || !isCkField("N")(stripConv(info, e)) {
			p = append(p, "TreeSize is not the parsed checkpoint's size")
		}
		if e := compositeField(info, cl, "SHA256RootHash", -1); e == nil || !isCkField("Hash")(stripConv(info, e)) {
			p = append(p, "root is not the parsed checkpoint's hash")
		}
		if e := compositeField(info, cl, "Timestamp", -1); e == nil || objOf(info, stripConv(info, e)) != tsVar {
			p = append(p, "Timestamp is not the one read from the signature blob")
		}
		if len(p) > 0 {
			c.Bad("verify STH inputs", s.Pos(), strings.Join(p, "; "))
		} else {
			c.add(Result{Instance: "verify STH inputs", Verdict: Discharged, Evals: 3, Sites: []string{s.Pos()}, Detail: "STH rebuilt from parsed (size, root) and the blob's timestamp"})
		}
	}
}

func c11d(c *Ctx) {
	f := c.Fn("sunlight.(*injectedSigner).Sign")
	if f == nil {
		return
	}
	info := f.Info()
	g := f.Graph()
	okRets := successReturns(f)
	if len(okRets) == 0 {
		c.Unk(f.Name, "no successful return")
		return
	}
	safe := g.EdgesImplying(func(a Atom) bool {
		call, ok := ast.Unparen(a.E).(*ast.CallExpr)
		if !ok || !a.Val {
			return false
		}
		fn, ok := calleeObj(info, call).(*types.Func)
		if !ok || fn.Name() != "Verify" || len(call.Args) != 2 {
			return false
		}
		// Verify(msg, s.sig)
		_, p, ok := fieldPath(info, call.Args[1])
		return ok && len(p) == 1 && p[0] == "sig" && f.IsParam(call.Args[0], "msg")
	})
	if len(safe) == 0 {
		c.Bad(f.Name, okRets[0].Pos(), "the injected signature is returned without being verified against the message")
		return
	}
	if pt, _ := g.ReachableFromEntry(Cut{Edges: safe}, atAnySite(okRets)); pt != nil {
		c.Bad(f.Name, okRets[0].Pos(), "the injected signature can be returned although verification failed")
		return
	}
	// what is returned is the verified signature
	for _, r := range okRets {
		_, p, ok := fieldPath(info, r.X.(*ast.ReturnStmt).Results[0])
		if !ok || len(p) != 1 || p[0] != "sig" {
			c.Bad(f.Name, r.Pos(), "the bytes returned are not the verified signature")
			return
		}
	}
	c.add(Result{Instance: f.Name, Verdict: Discharged, Sites: sitePositions(okRets), Detail: "sig returned only after Verify(msg, sig) accepted", Witnesses: f.WitEdges(safe)})
}

func c11e(c *Ctx) {
	inj := c.Fn("sunlight.NewRFC6962InjectedSigner")
	ds := c.Fn("ctlog.digitallySign")
	v := verifyClosure(c)
	ts := c.Fn("sunlight.RFC6962SignatureTimestamp")
	if inj == nil || ds == nil || v == nil || ts == nil {
		return
	}
	ws, err1 := builderSchema(inj, nil)
	dss, err2 := builderSchema(ds, nil)
	if err1 != nil || err2 != nil || len(livePaths(ws)) != 1 || len(livePaths(dss)) != 1 {
		c.Unk("signature blob writer", fmt.Sprintf("cannot extract: %v %v", err1, err2))
		return
	}
	// substitute the opaque `sig` operand by digitallySign's struct
	var w []Tok
	for _, t := range livePaths(ws)[0].Toks {
		if t.Kind == "opaque" && t.Label == "sig" {
			w = append(w, livePaths(dss)[0].Toks...)
		} else {
			w = append(w, t)
		}
	}
	root := cryptoStringRoot(v)
	rs, err := readerSchema(v, root)
	if err != nil || root == nil {
		c.Unk("signature blob reader", fmt.Sprintf("cannot extract verifier schema: %v", err))
		return
	}
	// the verifier has several successful paths (RSA / ECDSA) over the same blob layout
	seen := map[string]bool{}
	for _, p := range livePaths(rs) {
		k := toksString(p.Toks)
		if seen[k] {
			continue
		}
		seen[k] = true
		if msg := unconsumedRoot(p.Toks); msg != "" {
			c.Bad("signature blob", v.Pos(v.Lit), msg)
			return
		}
		if !constsCompatible(w, p.Toks) {
			// a verifier path for another key type (RSA logs): same layout, other algorithm constant
			delete(seen, k)
			other := append([]Tok{}, w...)
			for i := range other {
				other[i].Const = nil
			}
			if ok, why := wireEqual(other, p.Toks); !ok {
				c.Bad("signature blob", v.Pos(v.Lit), "a verifier path reads a different blob layout: "+why)
				return
			}
			continue
		}
		if ok, why := wireEqual(w, p.Toks); !ok {
			c.Bad("signature blob", v.Pos(v.Lit), "the verifier does not read the blob as the signer writes it: "+why)
			return
		}
	}
	if len(seen) == 0 {
		c.Bad("signature blob", v.Pos(v.Lit), "no verifier path accepts the algorithm constants the signer writes ("+toksString(w)+")")
		return
	}
	c.add(Result{Instance: "signature blob", Verdict: Discharged, Evals: len(seen), Sites: []string{inj.Pos(inj.Decl), ds.Pos(ds.Decl), v.Pos(v.Lit)}, Detail: "written " + toksString(w) + " = read " + strings.Join(keys(seen), " / ")})
	// RFC6962SignatureTimestamp: fixed4 u64
	troot := cryptoStringRoot(ts)
	tsch, err := readerSchema(ts, troot)
	if err != nil || troot == nil || len(livePaths(tsch)) != 1 {
		c.Unk("RFC6962SignatureTimestamp", fmt.Sprintf("cannot extract schema: %v", err))
		return
	}
	got := toksString(stripEnds(livePaths(tsch)[0].Toks))
	if got == "fixed4 u64" && len(w) > 0 && w[0].Kind == "u" && w[0].N == 8 {
		c.OK("RFC6962SignatureTimestamp", "skips the 4-byte note key hash, then reads the u64 the signer wrote first", []string{ts.Pos(ts.Decl)})
	} else {
		c.Bad("RFC6962SignatureTimestamp", ts.Pos(ts.Decl), "timestamp extraction reads "+got+", but the note signature is keyhash(4) + "+toksString(w))
	}
}

func unconsumedRoot(ts []Tok) string {
	if len(ts) == 0 || ts[len(ts)-1].Kind != "end" {
		return "the signature blob is accepted without checking that it was fully consumed (trailing bytes)"
	}
	return ""
}

func keys(m map[string]bool) []string {
	var out []string
	for k := range m {
		out = append(out, k)
	}
	sort.Strings(out)
	return out
}

func c11f(c *Ctx) {
	sf := c.Fn("ctlog.signTreeHead")
	v := verifyClosure(c)
	if sf == nil || v == nil {
		return
	}
	fields := func(f *Func) (string, *ast.CompositeLit) {
		var out []string
		var lit *ast.CompositeLit
		for _, s := range f.Find(func(n ast.Node) bool {
			cl, ok := n.(*ast.CompositeLit)
			if !ok {
				return false
			}
			tv, ok := f.Info().Types[cl]
			return ok && namedIs(tv.Type, pkgCT, "SignedTreeHead")
		}) {
			lit = s.X.(*ast.CompositeLit)
			for _, el := range lit.Elts {
				if kv, ok := el.(*ast.KeyValueExpr); ok {
					k := exprString(kv.Key)
					if k == "Version" {
						if cv, ok := constInt(f.Info(), kv.Value); ok {
							k = fmt.Sprintf("Version=%d", cv)
						}
					}
					out = append(out, k)
				}
			}
		}
		sort.Strings(out)
		return strings.Join(out, ","), lit
	}
	a, la := fields(sf)
	b, lb := fields(v)
	if la == nil || lb == nil {
		c.Unk("STH literals", "SignedTreeHead literal missing on one side")
		return
	}
	if a == b {
		c.OK("STH literals", a, []string{sf.Pos(la), v.Pos(lb)})
	} else {
		c.Bad("STH literals", v.Pos(lb), "signer sets {"+a+"} but verifier sets {"+b+"}")
	}
	_ = token.NoPos
}
