package main

// Eviction helper support: the low-priority eviction of addLeafToPool may live
// inline (today's tree) or in one same-package helper that returns the freed
// slot and whether anything was evicted. Rules C17.a, C17.b and C02.d / C07.h
// accept either shape, and check the helper's body when it exists.

import (
	"go/ast"
	"go/types"
	"strings"

	"golang.org/x/tools/go/cfg"
)

type evictHelper struct {
	H       *Func
	Call    Site // the call in the owner
	SlotIdx int
	OkIdx   int
	SlotObj types.Object // owner's variable receiving the slot
	OkObj   types.Object // owner's variable receiving the flag
	loop    *ast.RangeStmt
}

func lowPriorityLoop(f *Func) *ast.RangeStmt {
	var loop *ast.RangeStmt
	info := f.Info()
	ast.Inspect(f.Body, func(n ast.Node) bool {
		if _, isLit := n.(*ast.FuncLit); isLit {
			return false
		}
		if rs, ok := n.(*ast.RangeStmt); ok {
			if _, isLP := fieldSel(info, rs.X, pkgCtlog, "pool", "lowPriority"); isLP {
				loop = rs
			}
		}
		return true
	})
	return loop
}

// findEvictHelper returns the helper the owner delegates eviction to, or nil.
func findEvictHelper(owner *Func) *evictHelper {
	info := owner.Info()
	var out *evictHelper
	for _, s := range owner.Find(func(n ast.Node) bool { _, ok := n.(*ast.CallExpr); return ok }) {
		call := s.X.(*ast.CallExpr)
		fn, ok := calleeObj(info, call).(*types.Func)
		if !ok {
			continue
		}
		h := owner.Prog.FuncOf(fn.Origin())
		if h == nil || h == owner || h.Body == nil || h.Pkg != owner.Pkg {
			continue
		}
		loop := lowPriorityLoop(h)
		if loop == nil {
			continue
		}
		sig := fn.Type().(*types.Signature)
		if sig.Results().Len() != 2 {
			continue
		}
		e := &evictHelper{H: h, SlotIdx: -1, OkIdx: -1, loop: loop}
		for i := 0; i < 2; i++ {
			if isBoolType(sig.Results().At(i).Type()) {
				e.OkIdx = i
			} else if b, isB := sig.Results().At(i).Type().Underlying().(*types.Basic); isB && b.Info()&types.IsInteger != 0 {
				e.SlotIdx = i
			}
		}
		a, isA := s.Node.(*ast.AssignStmt)
		if e.OkIdx < 0 || e.SlotIdx < 0 || !isA || len(a.Lhs) != 2 || len(a.Rhs) != 1 || ast.Unparen(a.Rhs[0]) != ast.Expr(call) {
			continue
		}
		e.SlotObj, e.OkObj = objOf(info, a.Lhs[e.SlotIdx]), objOf(info, a.Lhs[e.OkIdx])
		s.Call = call
		e.Call = s
		if out != nil {
			return nil // ambiguous
		}
		out = e
	}
	return out
}

// validate checks the helper's body: one iteration at most, the evicted entry is
// cancelled and removed from the low-priority map before the helper returns its
// key with ok == true; every other return reports ok == false.
func (e *evictHelper) validate() (problems []string, sites []string) {
	h := e.H
	info := h.Info()
	g := h.Graph()
	head := rangeHead(g, e.loop)
	if head == nil {
		return []string{"loop head not found in the helper's CFG"}, nil
	}
	if g.EntersBlock(Point{head.Succs[0], 0}, Cut{}, head) {
		problems = append(problems, "the eviction loop can iterate more than once: several low-priority entries would be evicted for one submission")
	}
	key, val := objOf(info, e.loop.Key), objOf(info, e.loop.Value)
	inBody := func(n ast.Node) bool { return e.loop.Body.Pos() <= n.Pos() && n.End() <= e.loop.Body.End() }
	cancel := h.Find(func(n ast.Node) bool {
		call, ok := n.(*ast.CallExpr)
		return ok && inBody(call) && objOf(info, call.Fun) == val && val != nil
	})
	del := h.Find(func(n ast.Node) bool {
		call, ok := n.(*ast.CallExpr)
		if !ok || !inBody(call) || !isBuiltinCall(info, call, "delete") || len(call.Args) != 2 {
			return false
		}
		_, isLP := fieldSel(info, call.Args[0], pkgCtlog, "pool", "lowPriority")
		return isLP && objOf(info, call.Args[1]) == key && key != nil
	})
	var inRets, outRets []Site
	for _, r := range h.Returns() {
		if inBody(r.X) {
			inRets = append(inRets, r)
		} else {
			outRets = append(outRets, r)
		}
	}
	for _, step := range []struct {
		name string
		s    []Site
	}{{"cancel the evicted entry", cancel}, {"delete it from the low-priority map", del}} {
		if len(step.s) == 0 {
			problems = append(problems, "eviction does not "+step.name)
			continue
		}
		sites = append(sites, step.s[0].Pos())
		stop := func(p Point, _ ast.Node) bool { return p == step.s[0].P }
		if pt, _ := g.Reach(Point{head.Succs[0], 0}, Cut{Stop: stop}, atAnySite(inRets)); pt != nil {
			problems = append(problems, "eviction can report a freed slot without: "+step.name)
		}
		if g.EntersBlock(Point{head.Succs[0], 0}, Cut{Stop: stop}, head.Succs[1]) {
			problems = append(problems, "the loop body can be left without: "+step.name)
		}
	}
	if len(inRets) == 0 {
		problems = append(problems, "the helper never reports the evicted slot from inside the loop")
	}
	for _, r := range inRets {
		rs := r.X.(*ast.ReturnStmt).Results
		if len(rs) != 2 {
			problems = append(problems, "bare return inside the eviction loop (named results not followed)")
			continue
		}
		if objOf(info, rs[e.SlotIdx]) != key || key == nil {
			problems = append(problems, "the slot reported at "+r.Pos()+" is not the key of the evicted low-priority entry")
		}
		if b, ok := constBool(info, rs[e.OkIdx]); !ok || !b {
			problems = append(problems, "an eviction is not reported as such at "+r.Pos())
		}
	}
	for _, r := range outRets {
		rs := r.X.(*ast.ReturnStmt).Results
		if len(rs) != 2 {
			problems = append(problems, "bare return in the eviction helper (named results not followed)")
			continue
		}
		if b, ok := constBool(info, rs[e.OkIdx]); !ok || b {
			problems = append(problems, "the helper can report an eviction at "+r.Pos()+" without having evicted anything")
		}
	}
	if len(outRets) == 0 {
		problems = append(problems, "the helper has no return for an empty low-priority set")
	}
	// the helper touches nothing else of the pool
	if pl := h.Prog.fieldVar(pkgCtlog, "pool", "pendingLeaves"); pl != nil && len(h.StoresTo(pl)) > 0 {
		problems = append(problems, "the helper writes pool.pendingLeaves")
	}
	return problems, sites
}

// okEdges: the owner's edges on which the helper's flag is true / false.
func (e *evictHelper) okEdges(owner *Func) (t, f map[Edge]bool) {
	info := owner.Info()
	g := owner.Graph()
	is := func(x ast.Expr) bool { return objOf(info, x) == e.OkObj && e.OkObj != nil }
	t = g.EdgesImplying(func(a Atom) bool { return is(a.E) && a.Val })
	f = g.EdgesImplying(func(a Atom) bool { return is(a.E) && !a.Val })
	return
}

var _ = strings.Join
var _ *cfg.Block
