package main

// C06 - concurrent, stale or misconfigured instances cannot fork a log.

import (
	"fmt"
	"go/ast"
	"go/types"
	"strings"
)

func init() {
	register(&Property{
		ID:    "C06",
		Title: "Concurrent, stale or misconfigured instances cannot fork a log",
		Explanation: "Value-flow, guard/finite-ordering and return-discipline obligations on CreateLog, LoadLog, openCheckpoint, the sequencing function and its callers, and cmd/sunlight's wiring. " +
			"Decided: lock-store operations of a log are keyed by the hash of its public key; a CAS failure is fatal, the round's deferred closure keeps fatal errors, sequence returns the round's error and RunSequencer returns on it (its deferred closure then fails the current pool, C02.b); CreateLog reaches Lock.Create only when neither the lock store nor object storage has a checkpoint, and publishes only after Create succeeded; LoadLog refuses published size > lock size and equal size with different root, proceeds without staging when equal, and needs the staging bundle when behind (enumerated over the orderings); openCheckpoint succeeds only through note.Open with the verifier built from the configured name and key, with the RFC 6962 signature present, matching origin, no extension and a non-future timestamp; all logs and the witness of one process share the single lock backend value. " +
			"NOT decided: interleavings of two real processes (rests on C05), an operator replacing the lock database.",
		Assumptions: []string{"LockBackend is a correct CAS register keyed by log ID (C05)", "note.Open only returns notes verified by one of the given verifiers"},
		Obligations: []*Obligation{
			{ID: "C06.a", Title: "LOG-ID", Template: "T6", MinInst: 4,
				Rule: "every LockBackend.Fetch/Create in ctlog is keyed by logIDFromKey(config.Key), which hashes the PKIX encoding of the public key; the Log stores that ID", Run: c06a},
			{ID: "C06.b", Title: "CAS-FAIL-STOPS", Template: "T2+T8", MinInst: 3,
				Rule: "the error reset in the round's deferred closure is reachable only when the error is not fatal; sequence returns the sequencing function's error; RunSequencer's error edge of sequence leads only to returns of that error", Run: c06b},
			{ID: "C06.c", Title: "CREATE-GUARDS", Template: "T1/T2", MinInst: 3,
				Rule: "in CreateLog, Lock.Create is reachable only through the failure edges of Lock.Fetch and of Backend.Fetch(\"checkpoint\"); the upload follows Create success (C01.a)", Run: c06c},
			{ID: "C06.d", Title: "LOAD-COMPARE", Template: "T7", MinInst: 6,
				Rule: "over (published N ? lock N) x (hash = / !=): '>' and ('=' with different hash) cannot reach success; '=' with equal hash reaches success without staging; '<' reaches success (through staging, C03.d)", Run: c06d},
			{ID: "C06.e", Title: "OPEN-CHECKPOINT", Template: "T2+T6", MinInst: 6,
				Rule: "openCheckpoint's success is dominated by note.Open success with the verifier of (config.Name, config.Key.Public()), the RFC 6962 signature found, origin equality, empty extension and the parsed checkpoint being the note's text", Run: c06e},
			{ID: "C06.g", Title: "LOCK-CAS", Template: "T5+T8", MinInst: 10,
				Rule: "every lock backend's Replace/Create carries its precondition and a failed conditional write is an error (as C05.b, C05.g): at most one instance can extend a given checkpoint",
				Run:  func(c *Ctx) { c05b(c); c05g(c); c05d(c) }},
			{ID: "C06.k", Title: "NO-RESTART", Template: "T1+T6", MinInst: 2,
				Rule: "an instance that lost the CAS (or stopped for any reason) never sequences again from its stale in-memory tree: RunSequencer is not restarted on the same Log (as C17.l)",
				Run:  c17l},
			{ID: "C06.j", Title: "PUBLISH-ONLY-BY-WINNER", Template: "T1+T4+T6", MinInst: 3,
				Rule: "the published checkpoint object is written only by a function that has just won the lock-store commit (Replace/Create success edge) and with the committed bytes (as C01.a, C01.b): an instance that loses, is stale, or is only starting up publishes nothing",
				Run:  func(c *Ctx) { c01a(c); c01b(c) }},
			{ID: "C06.i", Title: "CAS-FROM-LOADED", Template: "T6+T4", MinInst: 4,
				Rule: "the value compared by the sequencer's CAS is the lock checkpoint the Log was loaded from, and the tree the Log extends is the one opened from that same lock checkpoint (as C01.e, C08.a): an instance whose tree and CAS handle come from different fetches can win the CAS with a stale tree",
				Run:  func(c *Ctx) { c01e(c); c08a(c) }},
			{ID: "C06.f", Title: "ONE-LOCK", Template: "T6", MinInst: 2,
				Rule: "in cmd/sunlight every ctlog.Config and the witness Config receive the one lock backend variable, which is assigned only from the three constructors", Run: c06f},
		},
	})
}

func c06a(c *Ctx) {
	// logIDFromKey
	if f := c.Fn("ctlog.logIDFromKey"); f != nil {
		info := f.Info()
		ok := false
		for _, r := range successReturns(f) {
			e := r.X.(*ast.ReturnStmt).Results[0]
			if h, isH := f.IsCallResult(e, -1, Callee{"crypto/sha256", "", "Sum256"}); isH && len(h.Args) == 1 {
				if m, isM := f.IsCallResult(h.Args[0], 0, Callee{"crypto/x509", "", "MarshalPKIXPublicKey"}); isM && len(m.Args) == 1 {
					if pc, isC := ast.Unparen(m.Args[0]).(*ast.CallExpr); isC {
						if sel, isS := ast.Unparen(pc.Fun).(*ast.SelectorExpr); isS && sel.Sel.Name == "Public" && f.IsParam(sel.X, "key") {
							ok = true
						}
					}
				}
			}
		}
		_ = info
		if ok {
			c.OK(f.Name, "sha256(PKIX(key.Public()))", []string{f.Pos(f.Decl)})
		} else {
			c.Bad(f.Name, f.Pos(f.Decl), "the log ID is not the SHA-256 of the PKIX encoding of the log's public key")
		}
	}
	n := 0
	for _, f := range c.P.Decls(pkgCtlog) {
		if f.Decl.Recv != nil && strings.Contains(f.Name, "Backend") {
			continue // the implementations themselves
		}
		for _, s := range f.Calls(specLockFet, specLockCrea) {
			n++
			c.touch(f)
			info := f.Info()
			id := argByName(info, s.Call, "logID")
			inst := fmt.Sprintf("%s %s key", f.Name, exprString(s.Call.Fun))
			call, ok := f.IsCallResult(id, 0, Callee{pkgCtlog, "", "logIDFromKey"})
			cfgP := f.paramObj("config")
			if ok && len(call.Args) == 1 && cfgP != nil && f.IsFieldPathOf(call.Args[0], func(o types.Object) bool { return o == cfgP }, "Key") {
				c.OK(inst, "keyed by logIDFromKey(config.Key)", []string{s.Pos()})
			} else {
				c.Bad(inst, s.Pos(), "the lock store is accessed with a key other than the hash of the configured public key: "+exprString(id))
			}
		}
	}
	// Log literal
	if f := c.P.Fn("ctlog.LoadLog"); f != nil {
		for _, cl := range structLits(f, pkgCtlog, "Log") {
			v := compositeField(f.Info(), cl, "logID", -1)
			if v != nil {
				if _, ok := f.IsCallResult(v, 0, Callee{pkgCtlog, "", "logIDFromKey"}); ok {
					c.OK("Log.logID", "the Log stores logIDFromKey(config.Key)", []string{f.Pos(cl)})
					continue
				}
			}
			c.Bad("Log.logID", f.Pos(cl), "Log.logID is not the ID the lock store was queried with")
		}
	}
	if n == 0 {
		c.Unk("lock accesses", "no LockBackend.Fetch/Create call in ctlog")
	}
}

func c06b(c *Ctx) {
	seqSet := map[*types.Func]*Func{}
	for _, f := range sequencers(c.P) {
		if f.Obj != nil {
			seqSet[f.Obj] = f
		}
		c.touch(f)
		errObj := f.namedErrResult()
		for _, l := range deferredLits(f) {
			info := l.Info()
			g := l.Graph()
			var resets []Site
			for _, s := range l.Find(func(n ast.Node) bool {
				a, ok := n.(*ast.AssignStmt)
				return ok && len(a.Lhs) == 1 && objOf(info, a.Lhs[0]) == errObj && errObj != nil && len(a.Rhs) == 1 && isNilIdent(info, a.Rhs[0])
			}) {
				resets = append(resets, s)
			}
			if len(resets) == 0 {
				continue
			}
			inst := l.Name + " keeps fatal errors"
			isFatalTest := func(e ast.Expr) bool {
				call, ok := ast.Unparen(e).(*ast.CallExpr)
				return ok && matchCallee(info, call, Callee{"errors", "", "Is"}) && len(call.Args) == 2 && objOf(info, call.Args[0]) == errObj && isPkgVar(info, call.Args[1], pkgCtlog, "errFatal")
			}
			safe := g.EdgesImplying(func(a Atom) bool { return isFatalTest(a.E) && !a.Val })
			if len(safe) == 0 {
				c.Bad(inst, resets[0].Pos(), "the round's error is cleared without testing whether it is fatal: a CAS failure would not stop the sequencer")
			} else if pt, _ := g.ReachableFromEntry(Cut{Edges: safe}, atAnySite(resets)); pt != nil {
				c.Bad(inst, resets[0].Pos(), "a fatal error can be cleared by the deferred closure")
			} else {
				c.add(Result{Instance: inst, Verdict: Discharged, Sites: sitePositions(resets), Detail: "err = nil only on the !errors.Is(err, errFatal) edge", Witnesses: l.WitEdges(safe)})
			}
		}
	}
	// sequence: returns the sequencing function's error
	var seqCallers []*Func
	for _, f := range c.P.Decls(pkgCtlog) {
		calls := f.Find(func(n ast.Node) bool {
			call, ok := n.(*ast.CallExpr)
			if !ok {
				return false
			}
			fn, ok := calleeObj(f.Info(), call).(*types.Func)
			return ok && seqSet[fn.Origin()] != nil
		})
		if len(calls) == 0 {
			continue
		}
		seqCallers = append(seqCallers, f)
		c.touch(f)
		inst := f.Name + " propagates the round's error"
		bad := false
		for _, r := range f.Returns() {
			e := f.errResultExpr(r.X.(*ast.ReturnStmt))
			if e == nil {
				bad = true
				continue
			}
			call, ok := f.IsCallResult(e, -1)
			_ = call
			v := f.ResolveDeep(e)
			ce, isCall := ast.Unparen(v.E).(*ast.CallExpr)
			if !isCall || ce != calls[0].Call {
				bad = true
			}
			_ = ok
		}
		if bad {
			c.Bad(inst, f.Pos(f.Decl), "a return of "+f.Name+" does not carry the sequencing function's error: a fatal error could be swallowed")
		} else {
			c.OK(inst, "every return yields the sequencing function's error", sitePositions(calls))
		}
	}
	// RunSequencer
	if rs := c.Fn("ctlog.(*Log).RunSequencer"); rs != nil {
		info := rs.Info()
		g := rs.Graph()
		var calls []Site
		for _, sc := range seqCallers {
			if sc.Obj == nil {
				continue
			}
			calls = append(calls, rs.Find(func(n ast.Node) bool {
				call, ok := n.(*ast.CallExpr)
				if !ok {
					return false
				}
				fn, ok := calleeObj(info, call).(*types.Func)
				return ok && fn.Origin() == sc.Obj
			})...)
		}
		inst := rs.Name + " stops on a round error"
		if len(calls) == 0 {
			c.Unk(inst, "RunSequencer does not call the rotation function")
		}
		for _, s := range calls {
			_, nonNil, eo, ok := OutcomeEdges(s)
			if !ok || len(nonNil) == 0 {
				c.Bad(inst, s.Pos(), "the error of a sequencing round is ignored by the sequencer loop")
				continue
			}
			bad := false
			n := 0
			for e := range nonNil {
				// from the error edge: no way back to the loop (another round) without returning
				rets := g.ReturnsFrom(EdgeStart(e), Cut{})
				n += len(rets)
				for _, r := range rets {
					ex := rs.errResultExpr(r)
					if ex == nil || objOf(info, ex) != eo {
						c.Bad(inst, rs.Pos(r), "after a failed round the sequencer returns something other than the round's error")
						bad = true
					}
				}
				if pt, _ := g.Reach(EdgeStart(e), Cut{}, atSite(s)); pt != nil {
					c.Bad(inst, s.Pos(), "after a failed (fatal) round the sequencer loop can start another round")
					bad = true
				}
			}
			if n == 0 {
				c.Bad(inst, s.Pos(), "the error edge of a round does not return")
				bad = true
			}
			if !bad {
				c.add(Result{Instance: inst, Verdict: Discharged, Sites: []string{s.Pos()}, Evals: n + 1, Detail: "error edge of sequence() returns that error; no further round", Witnesses: rs.WitEdges(nonNil)})
			}
		}
	}
}

func c06c(c *Ctx) {
	f := c.Fn("ctlog.CreateLog")
	if f == nil {
		return
	}
	create := f.CallsW(specLockCrea)
	lockFetch := f.Calls(specLockFet)
	var ckFetch []Site
	for _, s := range f.Calls(specFetch) {
		if k, ok := constString(f.Info(), f.ResolveDeep(argByName(f.Info(), s.Call, "key")).E); ok && k == "checkpoint" {
			ckFetch = append(ckFetch, s)
		}
	}
	if len(create) == 0 {
		c.Unk(f.Name, "no LockBackend.Create call")
		return
	}
	c.requireGate(f.Name+" no lock checkpoint", f, lockFetch, OutNonNil, create, "Create only when the lock store has no checkpoint for this log")
	c.requireGate(f.Name+" no published checkpoint", f, ckFetch, OutNonNil, create, "Create only when object storage has no checkpoint")
	c.requireGate(f.Name+" publish after create", f, create, OutNil, checkpointUploads(f), "checkpoint upload after Create succeeded")
	// the value created is the signed empty tree head
	nw := argByName(f.Info(), create[0].Call, "new")
	if sc, ok := f.IsCallResult(nw, 0, specSignTreeHead); ok {
		tr := argByName(f.Info(), sc, "tree")
		if hc, ok := f.IsCallResult(tr, 0, specHashTreeHead); ok {
			if v, isC := constInt(f.Info(), argByName(f.Info(), hc, "n")); isC && v == 0 {
				c.OK(f.Name+" empty tree", "Create(signTreeHead(hashTreeHead(0, nil, now)))", []string{create[0].Pos()})
				return
			}
		}
	}
	c.Bad(f.Name+" empty tree", create[0].Pos(), "the checkpoint created is not the signed head of the empty tree")
}

func c06d(c *Ctx) {
	f := c.Fn("ctlog.LoadLog")
	if f == nil {
		return
	}
	info := f.Info()
	g := f.Graph()
	lockCk, pubCk := lockCheckpointObj(f), pubCheckpointObj(f)
	if lockCk == nil || pubCk == nil {
		c.Unk(f.Name, "lock / published checkpoint variables not identified")
		return
	}
	fld := func(o types.Object, name string) func(ast.Expr) bool {
		return func(e ast.Expr) bool {
			r, p, ok := fieldPath(info, e)
			return ok && r == o && len(p) == 1 && p[0] == name
		}
	}
	okRets := successReturns(f)
	var stagingFetch []Site
	for _, s := range f.Calls(Callee{pkgCtlog, "", "fetchAndDecompress"}) {
		if _, ok := f.IsCallResult(argByName(info, s.Call, "key"), -1, specStagingPath); ok {
			stagingFetch = append(stagingFetch, s)
		}
	}
	type ord struct {
		name    string
		n, h    int
		success bool
		staging string // "must", "never", ""
	}
	cases := []ord{
		{"published>lock, same hash", relGT, relEQ, false, ""},
		{"published>lock, other hash", relGT, relLT | relGT, false, ""},
		{"published=lock, other hash", relEQ, relLT | relGT, false, ""},
		{"published=lock, same hash", relEQ, relEQ, true, "never"},
		{"published<lock, same hash", relLT, relEQ, true, "must"},
		{"published<lock, other hash", relLT, relLT | relGT, true, "must"},
	}
	for _, cs := range cases {
		cs := cs
		env := func(e ast.Expr) Tri {
			if rel, ok := cmpRel(Atom{e, true}, fld(pubCk, "N"), fld(lockCk, "N")); ok {
				if rel&cs.n != 0 {
					return True
				}
				return False
			}
			if rel, ok := cmpRel(Atom{e, true}, fld(pubCk, "Hash"), fld(lockCk, "Hash")); ok {
				// hash domain has only = / !=
				eqHolds := rel&relEQ != 0
				if cs.h == relEQ {
					if eqHolds {
						return True
					}
					return False
				}
				if eqHolds {
					return False
				}
				return True
			}
			return Unknown
		}
		cut := Cut{Edges: g.FeasibleCut(env)}
		inst := f.Name + " " + cs.name
		pt, path := g.ReachableFromEntry(cut, atAnySite(okRets))
		switch {
		case !cs.success && pt != nil:
			c.Bad(inst, okRets[0].Pos(), "LoadLog can succeed although the published checkpoint is ahead of / differs from the lock checkpoint (path "+g.describePath(path)+")")
		case cs.success && pt == nil:
			c.Bad(inst, okRets[0].Pos(), "LoadLog cannot succeed in a legitimate start-up state")
		default:
			d := "success unreachable"
			if cs.success {
				d = "success reachable (through staging, C03.d)"
			}
			c.add(Result{Instance: inst, Verdict: Discharged, Detail: d})
		}
	}
}

func c06e(c *Ctx) {
	f := c.Fn("ctlog.openCheckpoint")
	if f == nil {
		return
	}
	info := f.Info()
	g := f.Graph()
	cfgP := f.paramObj("config")
	isCfg := func(o types.Object) bool { return o == cfgP }
	okRets := successReturns(f)
	if len(okRets) == 0 {
		c.Unk(f.Name, "no successful return")
		return
	}
	// v1
	var v1 types.Object
	for _, s := range f.Calls(Callee{pkgRoot, "", "NewRFC6962Verifier"}) {
		a, ok := s.Node.(*ast.AssignStmt)
		if !ok {
			continue
		}
		nameOK := f.IsFieldPathOf(argByName(info, s.Call, "name"), isCfg, "Name")
		keyOK := false
		if kc, ok := ast.Unparen(argByName(info, s.Call, "key")).(*ast.CallExpr); ok {
			keyOK = isMethodOnPath(f, kc, "Public", isCfg, "Key")
		}
		if nameOK && keyOK {
			v1 = objOf(info, a.Lhs[0])
			c.OK(f.Name+" verifier", "NewRFC6962Verifier(config.Name, config.Key.Public())", []string{s.Pos()})
		} else {
			c.Bad(f.Name+" verifier", s.Pos(), "the checkpoint verifier is not built from the configured name and public key")
		}
	}
	if v1 == nil {
		c.Bad(f.Name+" verifier", f.Pos(f.Decl), "no RFC 6962 verifier for the configured key")
		return
	}
	opens := f.Calls(Callee{pkgNote, "", "Open"})
	var noteObj types.Object
	for _, s := range opens {
		if a, ok := s.Node.(*ast.AssignStmt); ok {
			noteObj = objOf(info, a.Lhs[0])
		}
		// the verifier list contains v1 and the message is parameter b
		uses := false
		ast.Inspect(s.Call.Args[1], func(n ast.Node) bool {
			if id, ok := n.(*ast.Ident); ok && info.Uses[id] == v1 {
				uses = true
			}
			return true
		})
		if !uses || !f.IsParam(s.Call.Args[0], "b") {
			c.Bad(f.Name+" note.Open operands", s.Pos(), "note.Open is not applied to the given bytes with the configured log verifier")
		}
	}
	c.requireGate(f.Name+" note verified", f, opens, OutNil, okRets, "success only after note.Open verified the note")
	// the RFC 6962 signature found
	// the flag that records "a verified signature carries the log verifier's key hash": a bool set to
	// true only on the edge where a signature's Hash equals v1.KeyHash() (switch or if form, the key
	// hash possibly held in a variable first)
	var foundObj types.Object
	isSigHash := func(e ast.Expr) bool {
		sel, ok := ast.Unparen(e).(*ast.SelectorExpr)
		if !ok || sel.Sel.Name != "Hash" {
			return false
		}
		tv, has := info.Types[sel.X]
		return has && namedIs(tv.Type, pkgNote, "Signature")
	}
	isV1Hash := func(e ast.Expr) bool {
		call, ok := ast.Unparen(f.ResolveDeep(e).E).(*ast.CallExpr)
		if !ok {
			return false
		}
		sel, ok := ast.Unparen(call.Fun).(*ast.SelectorExpr)
		return ok && sel.Sel.Name == "KeyHash" && objOf(info, sel.X) == v1 && v1 != nil
	}
	hashEq := g.EdgesImplying(func(a Atom) bool { rel, ok := cmpRel(a, isSigHash, isV1Hash); return ok && rel == relEQ })
	if len(hashEq) > 0 {
		for _, st := range f.Find(func(n ast.Node) bool {
			a, ok := n.(*ast.AssignStmt)
			if !ok || len(a.Lhs) != 1 || len(a.Rhs) != 1 {
				return false
			}
			b, isB := constBool(info, a.Rhs[0])
			return isB && b
		}) {
			if pt, _ := g.ReachableFromEntry(Cut{Edges: hashEq}, atSite(st)); pt == nil {
				foundObj = objOf(info, st.X.(*ast.AssignStmt).Lhs[0])
			}
		}
	}
	if foundObj == nil {
		c.Bad(f.Name+" log signature present", okRets[0].Pos(), "success does not depend on the log's own RFC 6962 signature being among the verified signatures")
	} else {
		safe := g.EdgesImplying(func(a Atom) bool { return objOf(info, a.E) == foundObj && a.Val })
		if pt, _ := g.ReachableFromEntry(Cut{Edges: safe}, atAnySite(okRets)); pt != nil || len(safe) == 0 {
			c.Bad(f.Name+" log signature present", okRets[0].Pos(), "success is reachable although the log's RFC 6962 signature was not found")
		} else {
			c.add(Result{Instance: f.Name + " log signature present", Verdict: Discharged, Sites: sitePositions(okRets), Detail: "success unreachable unless the signature with v1.KeyHash() was seen", Witnesses: f.WitEdges(safe)})
		}
	}
	// parse + origin + extension
	parses := f.Calls(Callee{pkgRoot, "", "ParseCheckpoint"}, Callee{pkgTorch, "", "ParseCheckpoint"})
	var ckObj types.Object
	for _, s := range parses {
		if a, ok := s.Node.(*ast.AssignStmt); ok {
			ckObj = objOf(info, a.Lhs[0])
		}
		r, p, ok := fieldPath(info, s.Call.Args[0])
		if !ok || r != noteObj || len(p) != 1 || p[0] != "Text" {
			c.Bad(f.Name+" parsed text", s.Pos(), "the checkpoint parsed is not the verified note's text")
		}
	}
	c.requireGate(f.Name+" checkpoint parses", f, parses, OutNil, okRets, "success only after the note text parsed")
	isCk := func(field string) func(ast.Expr) bool {
		return func(e ast.Expr) bool {
			r, p, ok := fieldPath(info, e)
			return ok && r == ckObj && ckObj != nil && len(p) == 1 && p[0] == field
		}
	}
	isCfgName := func(e ast.Expr) bool { return f.IsFieldPathOf(e, isCfg, "Name") }
	isEmpty := func(e ast.Expr) bool { s, ok := constString(info, e); return ok && s == "" }
	for _, gd := range []struct {
		name string
		safe map[Edge]bool
	}{
		{"origin == config.Name", g.EdgesImplying(func(a Atom) bool { rel, ok := cmpRel(a, isCk("Origin"), isCfgName); return ok && rel == relEQ })},
		{"no extension", g.EdgesImplying(func(a Atom) bool { rel, ok := cmpRel(a, isCk("Extension"), isEmpty); return ok && rel == relEQ })},
	} {
		inst := f.Name + " " + gd.name
		if len(gd.safe) == 0 {
			c.Bad(inst, okRets[0].Pos(), "checkpoint accepted without checking: "+gd.name)
		} else if pt, _ := g.ReachableFromEntry(Cut{Edges: gd.safe}, atAnySite(okRets)); pt != nil {
			c.Bad(inst, okRets[0].Pos(), "success is reachable although '"+gd.name+"' does not hold")
		} else {
			c.add(Result{Instance: inst, Verdict: Discharged, Sites: sitePositions(okRets), Detail: "success unreachable unless " + gd.name, Witnesses: f.WitEdges(gd.safe)})
		}
	}
	// what is returned is the parsed checkpoint
	for _, r := range okRets {
		if objOf(info, r.X.(*ast.ReturnStmt).Results[0]) != ckObj {
			c.Bad(f.Name+" returned checkpoint", r.Pos(), "the checkpoint returned is not the verified and parsed one")
		}
	}
}

func c06f(c *Ctx) {
	f := c.Fn("sunlight.main")
	if f == nil {
		return
	}
	info := f.Info()
	var lockObj types.Object
	n := 0
	check := func(pkg, typ string) {
		for _, fx := range append([]*Func{f}, allLits(f)...) {
			for _, cl := range structLits(fx, pkg, typ) {
				n++
				v := compositeField(info, cl, "Lock", -1)
				inst := fmt.Sprintf("%s.%s{Lock:} at %s", shortPkg(pkg), typ, fx.Pos(cl))
				o := objOf(info, v)
				if v == nil || o == nil {
					c.Bad(inst, fx.Pos(cl), "configuration built without the shared lock backend")
					continue
				}
				if lockObj == nil {
					lockObj = o
				}
				if o == lockObj {
					c.OK(inst, "Lock: the process-wide lock backend", []string{fx.Pos(cl)})
				} else {
					c.Bad(inst, fx.Pos(cl), "a second lock backend value is used: two logs or the witness would not share one source of truth")
				}
			}
		}
	}
	check(pkgCtlog, "Config")
	check(pkgWitness, "Config")
	if n < 2 || lockObj == nil {
		c.Unk("lock wiring", "ctlog.Config / witness.Config literals not found in cmd/sunlight")
		return
	}
	// assigned only from constructors
	ctor := []Callee{{pkgCtlog, "", "NewSQLiteBackend"}, {pkgCtlog, "", "NewDynamoDBBackend"}, {pkgCtlog, "", "NewETagBackend"}}
	bad := ""
	nAssign := 0
	for _, d := range f.Defs(lockObj) {
		if d.Kind == DefZero {
			continue
		}
		nAssign++
		if d.Kind != DefAssign {
			bad = f.Pos(d.Node)
			continue
		}
		if _, ok := f.IsCallResult(d.Rhs, 0, ctor...); !ok {
			bad = f.Pos(d.Node)
		}
	}
	if bad != "" || nAssign == 0 {
		c.Bad("lock backend source", orStr(bad, f.Pos(f.Decl)), "the lock backend variable is assigned from something other than a lock backend constructor")
	} else {
		c.add(Result{Instance: "lock backend source", Verdict: Discharged, Evals: nAssign, Detail: fmt.Sprintf("%d assignment(s), all from New{SQLite,DynamoDB,ETag}Backend", nAssign)})
	}
}
