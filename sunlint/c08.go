package main

// C08 - tampered object storage can stop the log but never make it sign a fork.

import (
	"fmt"
	"go/ast"
	"go/token"
	"go/types"
	"strings"

	"golang.org/x/tools/go/cfg"
)

func init() {
	register(&Property{
		ID:    "C08",
		Title: "Tampered object storage can stop the log but never make it sign a fork",
		Explanation: "Value-flow, who-may-write inventory, guard and call-graph non-reachability obligations on LoadLog, uploadIssuer and the sequencing function. " +
			"Decided: the tree handed to the verifying tile reader and the tree / lock checkpoint stored in the Log derive from LockBackend.Fetch through openCheckpoint, never from object storage; the edge-tile map is written only inside the verified-tile callback and at the data/names keys with the fetched data tile that is re-hashed leaf by leaf; LoadLog's success is dominated by that comparison (mismatch edge leads only to error returns, the loop cannot be skipped, each iteration passes the comparison); every Backend.Fetch site in ctlog is classified by the verifier its result passes through; no Backend.Fetch is reachable from the sequencing function. " +
			"NOT decided: correctness of tlog's verifying reader; outcomes for concrete tamperings (runtime).",
		Assumptions: []string{"tlog.TileHashReader authenticates every tile it hands to SaveTiles against the given tree", "tlog.HashFromTile/RecordHash compute RFC 6962 hashes"},
		Obligations: []*Obligation{
			{ID: "C08.a", Title: "TRUST-ANCHOR", Template: "T6", MinInst: 3,
				Rule: "TileHashReader's tree, Log.tree and Log.lockCheckpoint derive from LockBackend.Fetch -> openCheckpoint, not from Backend.Fetch", Run: c08a},
			{ID: "C08.b", Title: "EDGE-SOURCES", Template: "T4+T6", MinInst: 3,
				Rule: "the edgeTiles map of LoadLog is written only in the SaveTiles callback and at constant keys -1/-2 with the verified data tile / names derived from its parsed entries", Run: c08b},
			{ID: "C08.c", Title: "DATA-TILE-VERIFY", Template: "T2+T6", MinInst: 3,
				Rule: "success is dominated by comparing RecordHash(MerkleTreeLeaf(ReadTileLeaf(fetched))) with HashFromTile(level-0 edge tile); mismatch leads only to errors; the loop covers the tile's width and each iteration passes the comparison", Run: c08c},
			{ID: "C08.d", Title: "FETCH-INVENTORY", Template: "T4", MinInst: 8,
				Rule: "every Backend.Fetch site in ctlog is classified by key and by the verifier its result flows through", Run: c08d},
			{ID: "C08.e", Title: "SIGN-PATH-NO-FETCH", Template: "T11", MinInst: 1,
				Rule: "no Backend.Fetch call is reachable in the module call graph from the sequencing function", Run: c08e},
			{ID: "C08.f", Title: "ISSUER-VERIFIED", Template: "T2", MinInst: 3,
				Rule: "existing issuer objects are compared before being trusted (as C04.c)", Run: c04c},
			{ID: "C08.h", Title: "NONEMPTY-VERIFIED", Template: "T1+T7", MinInst: 2,
				Rule: "with the edges on which the lock checkpoint's size is <= 0 cut, LoadLog cannot return successfully unless ReadHashes through the verifying tile reader and the data-tile fetch each succeeded; the size > 0 branch is live (the per-leaf steps inside the verification loop are C08.c and C08.g: a loop has a statically possible zero-iteration path)", Run: c08h},
		},
	})
}

func c08a(c *Ctx) {
	f := c.Fn("ctlog.LoadLog")
	if f == nil {
		return
	}
	info := f.Info()
	// one read of the lock store: everything the Log starts from (tree, time, CAS handle) must be
	// one snapshot; a second Fetch lets them come from different moments
	if fs := f.CallsW(specLockFet); len(fs) > 1 {
		c.Bad(f.Name+" single lock fetch", fs[1].Pos(), "the lock checkpoint is fetched "+fmt.Sprint(len(fs))+" times while loading ("+strings.Join(sitePositions(fs), ", ")+"): the tree the Log extends and the value its first CAS compares against can come from different reads, so a stale tree can win the CAS")
	} else if len(fs) == 1 {
		c.OK(f.Name+" single lock fetch", "one LockBackend.Fetch feeds the tree, the time and the CAS handle", []string{fs[0].Pos()})
	}
	lockCk := lockCheckpointObj(f)
	if lockCk == nil {
		c.Unk(f.Name, "lock checkpoint variable not identified")
		return
	}
	isLockTree := func(e ast.Expr) bool {
		r, p, ok := fieldPath(info, e)
		return ok && r == lockCk && len(p) == 1 && p[0] == "Tree"
	}
	thr := f.Calls(Callee{pkgTlog, "", "TileHashReader"})
	if len(thr) == 0 {
		c.Bad(f.Name+" tile reader tree", f.Pos(f.Decl), "right-edge tiles are not read through tlog's verifying tile reader")
	}
	for _, s := range thr {
		if isLockTree(s.Call.Args[0]) {
			c.OK(f.Name+" tile reader tree", "TileHashReader(c.Tree, ...) with c from the lock store", []string{s.Pos()})
		} else {
			c.Bad(f.Name+" tile reader tree", s.Pos(), "edge tiles are verified against "+exprString(s.Call.Args[0])+", not the lock checkpoint's tree")
		}
	}
	// timestamp of the lock checkpoint
	var lockTs types.Object
	var lockOpen ast.Node
	for _, s := range f.Calls(Callee{pkgCtlog, "", "openCheckpoint"}) {
		if a, ok := s.Node.(*ast.AssignStmt); ok && len(a.Lhs) == 3 && objOf(info, a.Lhs[0]) == lockCk {
			if _, fromLock := f.IsCallResult(lockBytesSource(f, s.Call), 0, specLockFet); fromLock {
				lockTs = objOf(info, a.Lhs[1])
				lockOpen = a
			}
		}
	}
	for _, cl := range structLits(f, pkgCtlog, "Log") {
		if lits := f.Find(func(n ast.Node) bool { return n == ast.Node(cl) }); len(lits) == 1 && lockOpen != nil {
			inst := f.Name + " lock values reach the Log"
			okCk := f.soleReachingDef(lockCk, lockOpen, lits[0])
			okTs := lockTs != nil && f.soleReachingDef(lockTs, lockOpen, lits[0])
			if okCk && okTs {
				c.OK(inst, "the checkpoint and timestamp used to build the Log are the ones opened from the lock store (no later redefinition reaches)", []string{f.Pos(cl)})
			} else {
				c.Bad(inst, f.Pos(cl), "the tree or tree-head time the Log starts from can be overwritten after the lock checkpoint was opened (e.g. by the values of the published checkpoint): the next round's time guard and tree would not be anchored in the lock store")
			}
		}
		tr := compositeField(info, cl, "tree", -1)
		inst := f.Name + " Log.tree"
		ok := false
		if tcl, isCl := ast.Unparen(tr).(*ast.CompositeLit); isCl && len(tcl.Elts) == 2 {
			t0, t1 := tcl.Elts[0], tcl.Elts[1]
			if kv, isKV := t0.(*ast.KeyValueExpr); isKV {
				t0 = kv.Value
			}
			if kv, isKV := t1.(*ast.KeyValueExpr); isKV {
				t1 = kv.Value
			}
			ok = isLockTree(t0) && objOf(info, t1) == lockTs && lockTs != nil
		}
		if ok {
			c.OK(inst, "Log.tree = {lock checkpoint tree, lock checkpoint time}", []string{f.Pos(cl)})
		} else {
			c.Bad(inst, f.Pos(cl), "the in-memory tree the next checkpoint extends is not the lock checkpoint's tree and time")
		}
		// edgeTiles is the verified map
		et := compositeField(info, cl, "edgeTiles", -1)
		if o := objOf(info, et); o == nil || !isLocal(o) {
			c.Bad(f.Name+" Log.edgeTiles", f.Pos(cl), "Log.edgeTiles is not the map built and verified in LoadLog")
		} else {
			c.OK(f.Name+" Log.edgeTiles", "the locally built edge-tile map", []string{f.Pos(cl)})
		}
	}
}

func c08b(c *Ctx) {
	f := c.Fn("ctlog.LoadLog")
	if f == nil {
		return
	}
	info := f.Info()
	var et types.Object
	for _, cl := range structLits(f, pkgCtlog, "Log") {
		et = objOf(info, compositeField(info, cl, "edgeTiles", -1))
	}
	if et == nil {
		c.Unk(f.Name, "edge-tile map variable not identified")
		return
	}
	// the SaveTiles callback: literal stored in tileReader{saveTiles: ...}
	var saveLit *ast.FuncLit
	for _, cl := range structLits(f, pkgCtlog, "tileReader") {
		if v := compositeField(info, cl, "saveTiles", -1); v != nil {
			saveLit, _ = ast.Unparen(v).(*ast.FuncLit)
		}
	}
	n := 0
	for _, fx := range append([]*Func{f}, allLits(f)...) {
		for _, s := range fx.Find(func(x ast.Node) bool {
			a, ok := x.(*ast.AssignStmt)
			if !ok {
				return false
			}
			for _, l := range a.Lhs {
				if ix, ok := ast.Unparen(l).(*ast.IndexExpr); ok && objOf(info, ix.X) == et {
					return true
				}
				if objOf(info, l) == et && a.Tok == token.ASSIGN {
					return true
				}
			}
			return false
		}) {
			n++
			a := s.X.(*ast.AssignStmt)
			ix, _ := ast.Unparen(a.Lhs[0]).(*ast.IndexExpr)
			inst := fmt.Sprintf("edgeTiles write at %s", s.Pos())
			switch {
			case ix == nil:
				c.Bad(inst, s.Pos(), "the edge-tile map is replaced")
			case saveLit != nil && fx.Lit == saveLit:
				c.OK(inst, "inside the SaveTiles callback (tiles authenticated by tlog)", []string{s.Pos()})
			default:
				k, isConst := constInt(info, ix.Index)
				if fx != f || !isConst || (k != -1 && k != -2) {
					c.Bad(inst, s.Pos(), "an edge tile is stored outside the verified-tile callback at a key other than the data/names levels")
					continue
				}
				c.OK(inst, fmt.Sprintf("level %d tile stored by LoadLog (content checked by C08.c)", k), []string{s.Pos()})
			}
		}
	}
	if n == 0 {
		c.Unk(f.Name, "no write to the edge-tile map")
	}
	if saveLit == nil {
		c.Bad(f.Name+" SaveTiles callback", f.Pos(f.Decl), "no SaveTiles callback stores verified tiles")
	}
}

func c08c(c *Ctx) {
	f := c.Fn("ctlog.LoadLog")
	if f == nil {
		return
	}
	info := f.Info()
	g := f.Graph()
	okRets := successReturns(f)
	// got / exp
	isGot := func(e ast.Expr) bool {
		rh, ok := f.IsCallResult(e, -1, Callee{pkgTlog, "", "RecordHash"})
		if !ok || len(rh.Args) != 1 {
			return false
		}
		ml, ok := ast.Unparen(f.ResolveDeep(rh.Args[0]).E).(*ast.CallExpr)
		if !ok || !matchCallee(info, ml, Callee{pkgRoot, "LogEntry", "MerkleTreeLeaf"}) {
			return false
		}
		sel, _ := ast.Unparen(ml.Fun).(*ast.SelectorExpr)
		if sel == nil {
			return false
		}
		_, ok = f.IsCallResult(sel.X, 0, Callee{pkgRoot, "", "ReadTileLeaf"})
		return ok
	}
	isExp := func(e ast.Expr) bool {
		hf, ok := f.IsCallResult(e, 0, Callee{pkgTlog, "", "HashFromTile"})
		if !ok || len(hf.Args) != 3 {
			return false
		}
		// edgeTiles[0].Tile, edgeTiles[0].B
		for i, fld := range []string{"Tile", "B"} {
			sel, ok := ast.Unparen(hf.Args[i]).(*ast.SelectorExpr)
			if !ok || sel.Sel.Name != fld {
				return false
			}
			ix, ok := ast.Unparen(sel.X).(*ast.IndexExpr)
			if !ok {
				return false
			}
			if v, isC := constInt(info, ix.Index); !isC || v != 0 {
				return false
			}
		}
		return true
	}
	var cmpBlock *cfg.Block
	mismatch := map[Edge]bool{}
	match := map[Edge]bool{}
	for _, e := range g.CondEdges() {
		for _, a := range EdgeFacts(e) {
			rel, ok := cmpRel(a, isGot, isExp)
			if !ok {
				continue
			}
			cmpBlock = e.From
			if rel == relEQ {
				match[e] = true
			} else if rel&relEQ == 0 {
				mismatch[e] = true
			}
		}
	}
	if cmpBlock == nil {
		c.Bad(f.Name+" leaf hash comparison", f.Pos(f.Decl), "LoadLog does not compare the hashes of the fetched data tile's leaves with the verified level-0 tile")
		return
	}
	// mismatch => only error returns
	bad := false
	for e := range mismatch {
		for _, r := range g.ReturnsFrom(EdgeStart(e), Cut{Edges: match}) {
			ex := f.errResultExpr(r)
			if ex == nil || f.mayBeNilError(ex) {
				c.Bad(f.Name+" mismatch is an error", f.Pos(r), "a leaf-hash mismatch does not stop LoadLog")
				bad = true
			}
		}
		if pt, _ := g.Reach(EdgeStart(e), Cut{Edges: match}, atAnySite(okRets)); pt != nil {
			c.Bad(f.Name+" mismatch is an error", okRets[0].Pos(), "LoadLog can succeed after a leaf-hash mismatch")
			bad = true
		}
	}
	if !bad {
		c.add(Result{Instance: f.Name + " mismatch is an error", Verdict: Discharged, Sites: []string{f.Pos(Cond(cmpBlock))}, Detail: "got != exp leads only to error returns"})
	}
	// the loop: find the for statement containing the comparison
	var loop *ast.ForStmt
	ast.Inspect(f.Body, func(n ast.Node) bool {
		if fs, ok := n.(*ast.ForStmt); ok && fs.Body.Pos() <= Cond(cmpBlock).Pos() && Cond(cmpBlock).End() <= fs.Body.End() {
			loop = fs
		}
		return true
	})
	if loop == nil {
		c.Bad(f.Name+" verification loop", f.Pos(Cond(cmpBlock)), "the leaf comparison is not in a loop over the tile's entries")
		return
	}
	// bounds: i := start; i < start + int64(dataTile.W); i++ with start = TileWidth * dataTile.N
	boundOK := false
	var loopVar types.Object
	if init, ok := loop.Init.(*ast.AssignStmt); ok && len(init.Lhs) == 1 {
		loopVar = objOf(info, init.Lhs[0])
	}
	isI := func(e ast.Expr) bool { return loopVar != nil && objOf(info, e) == loopVar }
	isBound := func(e ast.Expr) bool {
		sum, ok := ast.Unparen(e).(*ast.BinaryExpr)
		if !ok || sum.Op != token.ADD {
			return false
		}
		for _, pair := range [][2]ast.Expr{{sum.X, sum.Y}, {sum.Y, sum.X}} {
			// <tile>.W, whatever expression names the tile (a variable, an element of the edge-tile map)
			wsel, okW := ast.Unparen(stripConv(info, pair[1])).(*ast.SelectorExpr)
			if !okW || wsel.Sel.Name != "W" {
				continue
			}
			st := f.ResolveDeep(pair[0])
			if mul, ok := ast.Unparen(st.E).(*ast.BinaryExpr); ok && mul.Op == token.MUL {
				return true
			}
		}
		return false
	}
	if loop.Cond != nil {
		if rel, ok := cmpRel(Atom{loop.Cond, true}, isI, isBound); ok && rel == relLT {
			boundOK = true
		}
	}
	if init, ok := loop.Init.(*ast.AssignStmt); !ok || len(init.Rhs) != 1 {
		boundOK = false
	}
	if !boundOK {
		c.Bad(f.Name+" verification loop bounds", f.Pos(loop), "the verification loop does not run over [TileWidth*N, TileWidth*N + W) of the right-most data tile")
	} else {
		c.OK(f.Name+" verification loop bounds", "for i := start; i < start+W; i++ with start = TileWidth * N", []string{f.Pos(loop)})
	}
	// each iteration passes the comparison: from body start to the post statement without passing the cond block
	var post []Site
	if loop.Post != nil {
		post = f.Find(func(n ast.Node) bool { return n == ast.Node(loop.Post) })
	}
	var bodyStart *cfg.Block
	for _, b := range g.Blocks {
		if b.Kind == cfg.KindForBody && b.Stmt == ast.Stmt(loop) {
			bodyStart = b
		}
	}
	if bodyStart == nil || len(post) == 0 {
		c.Unk(f.Name+" every leaf compared", "cannot locate the loop body / post statement")
	} else if pt, _ := g.Reach(Point{bodyStart, 0}, Cut{NoEnter: func(b *cfg.Block) bool { return false }, Stop: func(p Point, _ ast.Node) bool { return p.B == cmpBlock && p.I == len(cmpBlock.Nodes)-1 }}, atAnySite(post)); pt != nil {
		c.Bad(f.Name+" every leaf compared", post[0].Pos(), "an iteration can complete without comparing the leaf hash")
	} else {
		c.OK(f.Name+" every leaf compared", "every iteration passes the hash comparison before advancing", []string{post[0].Pos()})
	}
	// leaving the comparison for the next leaf (or the end of the loop) requires the equality edge
	if len(post) > 0 {
		if pt, _ := g.Reach(Point{cmpBlock, len(cmpBlock.Nodes)}, Cut{Edges: match}, atAnySite(post)); pt != nil || len(match) == 0 {
			c.Bad(f.Name+" next leaf only after equality", post[0].Pos(), "the loop can advance past a leaf whose hash was not found equal to the verified level-0 hash")
		} else {
			c.add(Result{Instance: f.Name + " next leaf only after equality", Verdict: Discharged, Sites: []string{post[0].Pos()}, Detail: "from the comparison the loop advances only on the equality edge", Witnesses: f.WitEdges(match)})
		}
	}
	// the bytes parsed are the data tile stored at edgeTiles[-1]; success cannot skip the loop when the tree is non-empty
	var loopHead *cfg.Block
	for _, b := range g.Blocks {
		if b.Kind == cfg.KindForLoop && b.Stmt == ast.Stmt(loop) {
			loopHead = b
		}
	}
	var store []Site
	for _, s := range f.Find(func(n ast.Node) bool {
		a, ok := n.(*ast.AssignStmt)
		if !ok || len(a.Lhs) != 1 {
			return false
		}
		ix, ok := ast.Unparen(a.Lhs[0]).(*ast.IndexExpr)
		if !ok {
			return false
		}
		v, isC := constInt(info, ix.Index)
		return isC && v == -1
	}) {
		store = append(store, s)
	}
	if loopHead != nil && len(store) > 0 {
		if pt, _ := g.Reach(store[0].After(), Cut{NoEnter: func(b *cfg.Block) bool { return b == loopHead }}, atAnySite(okRets)); pt != nil {
			c.Bad(f.Name+" data tile always verified", store[0].Pos(), "after storing the fetched data tile LoadLog can succeed without entering the verification loop")
		} else {
			c.OK(f.Name+" data tile always verified", "storing the data tile is always followed by the verification loop", sitePositions(store))
		}
		// the stored tile's bytes come from the backend fetch, and the loop parses exactly those
		okBytes := false
		if a, ok := store[0].X.(*ast.AssignStmt); ok {
			o := objOf(info, a.Rhs[0])
			for _, d := range f.Defs(o) {
				_ = d
			}
			// dataTile.B, err = fetchAndDecompress(...)
			for _, s := range f.Calls(Callee{pkgCtlog, "", "fetchAndDecompress"}) {
				if as, ok := s.Node.(*ast.AssignStmt); ok && len(as.Lhs) == 2 {
					if r, p, ok := fieldPath(info, as.Lhs[0]); ok && r == o && len(p) == 1 && p[0] == "B" {
						okBytes = true
					}
				}
			}
		}
		if !okBytes {
			c.Bad(f.Name+" data tile bytes", store[0].Pos(), "the data tile kept in memory is not the fetched one that is verified")
		}
	} else {
		c.Unk(f.Name+" data tile always verified", "loop head or data-tile store not found")
	}
}

func c08d(c *Ctx) {
	n := 0
	for _, f := range c.P.Funcs(pkgCtlog) {
		if f.Body == nil {
			continue
		}
		for _, s := range f.Calls(specFetch) {
			n++
			c.touch(f)
			info := f.Info()
			shape := keyShape(f, argByName(info, s.Call, "key"))
			top := f.Top().Name
			inst := fmt.Sprintf("%s fetch %s", f.Name, shape)
			class := ""
			switch {
			case top == "ctlog.CreateLog" && shape == "const:checkpoint":
				class = "existence test only (result discarded)"
			case top == "ctlog.LoadLog" && shape == "const:checkpoint":
				if _, ok := s.Node.(*ast.AssignStmt); ok && pubCheckpointObj(f) != nil {
					class = "opened with openCheckpoint and only compared with the lock checkpoint"
				}
			case top == "ctlog.LoadLog" && shape == "const:_roots.pem":
				class = "accepted-roots list: influences acceptance of submissions, not the tree"
			case top == "ctlog.LoadLog" && shape == "param":
				class = "tile reader callback: authenticated by tlog.TileHashReader against the lock checkpoint"
			case top == "ctlog.LoadLog":
				if c2, ok := f.IsCallResult(argByName(info, s.Call, "key"), -1, Callee{pkgCtlog, "", "legacyStagingPath"}); ok && c2 != nil {
					class = "existence test only (legacy staging path)"
				}
			case shape == "sprintf:issuer/%x":
				if _, v, _ := issuerVerifier(c.P); v != nil && f.Top() == v {
					class = "compared with bytes.Equal before being trusted (C04.c)"
				}
			case top == "ctlog.fetchAndDecompress":
				class = "callers: staging bundle (re-uploaded, then read back through the verifying reader) and right-edge data tile (C08.c)"
			}
			if class == "" {
				c.Unk(inst, "Backend.Fetch at "+s.Pos()+" is not covered by a known verifier")
			} else {
				c.OK(inst, class, []string{s.Pos()})
			}
		}
	}
	// callers of fetchAndDecompress are only LoadLog's two uses
	for _, f := range c.P.Funcs(pkgCtlog) {
		if f.Body == nil {
			continue
		}
		for _, s := range f.Calls(Callee{pkgCtlog, "", "fetchAndDecompress"}) {
			inst := fmt.Sprintf("%s fetchAndDecompress %s", f.Name, keyShape(f, argByName(f.Info(), s.Call, "key")))
			if f.Name == "ctlog.LoadLog" {
				c.OK(inst, "verified by staging re-application or by C08.c", []string{s.Pos()})
			} else {
				c.Unk(inst, "unclassified use of fetched, unauthenticated data at "+s.Pos())
			}
		}
	}
}

func c08e(c *Ctx) {
	for _, f := range sequencers(c.P) {
		reach := reachableFuncs(f)
		bad := ""
		for _, r := range reach {
			c.touch(r)
			if r.Body == nil {
				continue
			}
			for _, fx := range append([]*Func{r}, allLits(r)...) {
				for _, s := range fx.Calls(specFetch) {
					bad = fx.Name + " at " + s.Pos()
				}
			}
		}
		inst := f.Name + " reaches no Backend.Fetch"
		if bad != "" {
			c.Bad(inst, bad, "the sequencing path reads object storage ("+bad+"): what it signs could depend on tampered objects")
		} else {
			c.add(Result{Instance: inst, Verdict: Discharged, Evals: len(reach), Detail: fmt.Sprintf("%d module functions reachable, none calls Backend.Fetch", len(reach))})
		}
	}
}

// lockBytesSource returns the expression whose Bytes() is passed to
// openCheckpoint (or the argument itself).
func lockBytesSource(f *Func, call *ast.CallExpr) ast.Expr {
	b := argByName(f.Info(), call, "b")
	if b == nil {
		return &ast.BadExpr{}
	}
	e := ast.Unparen(f.ResolveDeep(b).E)
	if c, ok := e.(*ast.CallExpr); ok {
		if sel, ok := ast.Unparen(c.Fun).(*ast.SelectorExpr); ok && sel.Sel.Name == "Bytes" {
			return sel.X
		}
	}
	return e
}

// ---------------------------------------------------------------------------
// C08.h NONEMPTY-VERIFIED: a non-empty tree is never adopted unverified.

func c08h(c *Ctx) {
	f := c.Fn("ctlog.LoadLog")
	if f == nil {
		return
	}
	info := f.Info()
	g := f.Graph()
	okRets := successReturns(f)
	lockCk := lockCheckpointObj(f)
	if lockCk == nil || len(okRets) == 0 {
		c.Unk(f.Name, "lock checkpoint / success return not found")
		return
	}
	isN := func(e ast.Expr) bool {
		r, p, ok := fieldPath(info, e)
		return ok && r == lockCk && len(p) >= 1 && p[len(p)-1] == "N"
	}
	isZero := func(e ast.Expr) bool { v, ok := constInt(info, e); return ok && v == 0 }
	// edges on which the tree may be taken as empty: they imply N <= 0
	empty := g.EdgesImplying(func(a Atom) bool { rel, ok := cmpRel(a, isN, isZero); return ok && rel&relGT == 0 })
	nonEmpty := g.EdgesImplying(func(a Atom) bool { rel, ok := cmpRel(a, isN, isZero); return ok && rel == relGT })
	liveNE := false
	for e := range nonEmpty {
		if !g.dead[e] {
			liveNE = true
		}
	}
	if len(empty) == 0 || !liveNE {
		c.Bad(f.Name+" non-empty tree is verified", f.Pos(f.Decl), "LoadLog does not distinguish the empty tree (size 0) from a tree whose right edge must be fetched and verified, or the verifying branch is dead")
		return
	}
	steps := []struct {
		name  string
		sites []Site
	}{
		{"right-edge hash tiles read through the verifying tile reader", f.Calls(Callee{pkgTlog, "", "ReadHashes"}, Callee{pkgTlog, "*", "ReadHashes"})},
		{"right-most data tile fetched", f.Calls(Callee{pkgCtlog, "", "fetchAndDecompress"})},
	}
	for _, st := range steps {
		inst := f.Name + " non-empty tree: " + st.name
		// only the calls that lie on the non-empty branch count
		var sites []Site
		for _, s := range st.sites {
			if pt, _ := g.ReachableFromEntry(Cut{Edges: nonEmpty}, atSite(s)); pt == nil {
				sites = append(sites, s)
			}
		}
		if len(sites) == 0 {
			c.Bad(inst, f.Pos(f.Decl), "this verification step is not performed on the non-empty branch of LoadLog")
			continue
		}
		nilE, untested := gateEdges(sites, OutNil)
		if len(untested) > 0 {
			c.Bad(inst, untested[0].Pos(), "the result of this step is not tested")
			continue
		}
		if pt, path := g.ReachableFromEntry(Cut{Edges: unionEdges(empty, nilE)}, atAnySite(okRets)); pt != nil {
			c.Bad(inst, okRets[0].Pos(), "LoadLog can adopt a non-empty tree without this step having succeeded (path "+g.describePath(path)+")")
			continue
		}
		c.add(Result{Instance: inst, Verdict: Discharged, Evals: len(sites), Sites: sitePositions(sites),
			Detail: "with the size <= 0 edges and the step's success edges cut, no successful return is reachable", Witnesses: f.WitEdges(necessaryEdges(g, g.Entry(), nonEmpty, sites, Cut{}))})
	}
}
